/-
C05: the simple iterator versus the raw iterator.  `Float` operations are never unfolded: every
statement is structural and holds for any interpretation of the float primitives.  Core Lean only.
-/
import E57.Model.Simple
namespace E57

/-! ## 1. the per-point documented view -/

/-- the four post-processing steps applied to one point, in the order of the passes -/
def perPoint (it : SimpleIter) (p : SPoint) : SPoint :=
  let p := if it.opts.s2c then convertToCartesian p else p
  let p := if it.opts.c2s then convertToSpherical p else p
  let p := if it.opts.i2c then convertIntensity p else p
  -- the pose is applied only when the point cloud has one (the identity is not neutral for floats)
  if it.opts.transform && it.pc.transform.isSome then transformPoint it.rotation it.translation p else p

/-- the documented function from one raw point (and the metadata held by `it`) to a simple point -/
def fullView (it : SimpleIter) (vs : List Value) : Option SPoint :=
  (viewPoint it vs).map (fun p => perPoint it p)

/-- four passes over the batch = the per-point composition mapped over the batch -/
theorem postProcess_eq_map (it : SimpleIter) (batch : List SPoint) :
    postProcess it batch = batch.map (perPoint it) := by
  unfold postProcess perPoint
  cases it.opts.s2c <;> cases it.opts.c2s <;> cases it.opts.i2c <;>
    cases (it.opts.transform && it.pc.transform.isSome) <;>
    simp [List.map_map, Function.comp_def]

/-- `perPoint` reads only `opts`, whether the point cloud has a pose, `rotation`, `translation` -/
theorem perPoint_congr (it it' : SimpleIter) (ho : it'.opts = it.opts)
    (hp : it'.pc.transform.isSome = it.pc.transform.isSome)
    (hr : it'.rotation = it.rotation) (ht : it'.translation = it.translation) :
    perPoint it' = perPoint it := by
  funext p; simp [perPoint, ho, hp, hr, ht]

/-- `viewPoint` reads only `pc.prototype`, `indices`, `opts.nc`, `opts.ni` and the four ranges -/
theorem viewPoint_congr (it it' : SimpleIter) (hp : it'.pc = it.pc) (hi : it'.indices = it.indices)
    (ho : it'.opts = it.opts) (h1 : it'.intensityRange = it.intensityRange)
    (h2 : it'.redRange = it.redRange) (h3 : it'.greenRange = it.greenRange)
    (h4 : it'.blueRange = it.blueRange) : viewPoint it' = viewPoint it := by
  funext vs; simp [viewPoint, hp, hi, ho, h1, h2, h3, h4]


/-! ## 2. the queue reader: `peek`, `dropN`, `popPoint`, `popBatch` -/

/-
Records of zero bit size are constants of the prototype (`constOf`) and are not queued (unless the cloud
has no other records, `QR.allConstant`).  `front`/`pop1` are the point `popPoint` hands out and the queue
reader it leaves behind; `dropN`/`peek` iterate them.  Explicit forms (queues and prototype of equal length):
`QR.dropN_of_allConstant`, `QR.dropN_of_not_allConstant`, `QR.peek_of_allConstant`,
`QR.peek_of_not_allConstant`.
-/

/-- the point `popPoint` hands out: the constant of a constant record, the head of the queue otherwise -/
def QR.front (q : QR) : List Value :=
  if q.allConstant then q.queues.map (fun l => l.headD (.integer 0))
  else (q.proto.zip q.queues).map (fun (rec, qu) => match constOf rec.dt with
        | some v => v
        | none => qu.headD (.integer 0))

/-- the queue reader `popPoint` leaves behind -/
def QR.pop1 (q : QR) : QR :=
  if q.allConstant then { q with queues := q.queues.map List.tail }
  else { q with queues := (q.proto.zip q.queues).map (fun (rec, qu) => if (constOf rec.dt).isSome then qu else qu.tail) }

/-- the queue reader after `n` points have been popped -/
def QR.dropN (q : QR) : Nat → QR
  | 0 => q
  | n + 1 => q.pop1.dropN n

/-- the `i`-th point across the queues (without popping) -/
def QR.peek (q : QR) (i : Nat) : List Value := (q.dropN i).front

/-- the first `n` raw points in the queues -/
def QR.rawPoints (q : QR) (n : Nat) : List (List Value) := (List.range n).map q.peek

theorem minList_ge_sv {l : List Nat} {n m : Nat} (h : minList l = some m) : n ≤ m ↔ ∀ x ∈ l, n ≤ x := by
  induction l generalizing m with
  | nil => simp [minList] at h
  | cons x xs ih =>
    simp only [minList] at h
    cases hxs : minList xs with
    | none =>
      rw [hxs] at h; simp at h
      cases xs with
      | nil => simp [← h]
      | cons y ys => simp only [minList] at hxs; split at hxs <;> simp at hxs
    | some m' =>
      rw [hxs] at h; simp at h
      have := ih hxs
      simp only [List.mem_cons, forall_eq_or_imp, ← this, ← h]
      omega

theorem minList_eq_none {l : List Nat} : minList l = none ↔ l = [] := by
  cases l with
  | nil => simp [minList]
  | cons x xs => simp only [minList]; split <;> simp

theorem minList_map_pred (l : List Nat) : minList (l.map (· - 1)) = (minList l).map (· - 1) := by
  induction l with
  | nil => simp [minList]
  | cons x xs ih =>
    simp only [List.map_cons, minList, ih]
    cases minList xs with
    | none => simp
    | some m => simp; omega

@[simp] theorem QR.pop1_proto (q : QR) : q.pop1.proto = q.proto := by
  unfold QR.pop1; split <;> rfl

@[simp] theorem QR.pop1_allConstant (q : QR) : q.pop1.allConstant = q.allConstant := by
  simp [QR.allConstant]

@[simp] theorem QR.dropN_proto (q : QR) (n : Nat) : (q.dropN n).proto = q.proto := by
  induction n generalizing q with
  | zero => rfl
  | succ n ih => simp [QR.dropN, ih]

theorem sv_zip_map_snd_filter {α β γ} (f : α → β → β) (p : α → Bool) (g : β → γ) (h : β → β) (xs : List α) (ys : List β)
    (hf : ∀ a b, p a = true → f a b = h b) :
    ((xs.zip ((xs.zip ys).map (fun x => f x.1 x.2))).filter (fun x => p x.1)).map (fun x => g x.2)
      = (((xs.zip ys).filter (fun x => p x.1)).map (fun x => g (h x.2))) := by
  induction xs generalizing ys with
  | nil => simp
  | cons x xs ih =>
    cases ys with
    | nil => simp
    | cons y ys =>
      simp only [List.zip_cons_cons, List.map_cons, List.filter_cons]
      split
      · rename_i hp; simp [hf x y hp, ih]
      · exact ih ys

/-- popping one point shortens every counted queue by one -/
theorem QR.countedLengths_pop1 (q : QR) : q.pop1.countedLengths = q.countedLengths.map (· - 1) := by
  unfold QR.countedLengths
  rw [QR.pop1_allConstant, QR.pop1_proto]
  split
  · rename_i h; simp [QR.pop1, h, List.map_map, Function.comp_def]
  · rename_i h
    simp only [QR.pop1, h, Bool.false_eq_true, if_false]
    have := sv_zip_map_snd_filter (fun (rec : Record) (qu : List Value) => if (constOf rec.dt).isSome then qu else qu.tail)
      (fun rec => (constOf rec.dt).isNone) List.length List.tail q.proto q.queues
      (by intro a b hp; cases hc : constOf a.dt <;> simp_all)
    simp only [List.map_map, Function.comp_def, List.length_tail] at this ⊢
    exact this

/-- `available ≥ n` (n ≥ 1) iff there is a queue, some queue counts, and all counted queues hold at
    least `n` items -/
theorem QR.le_available {q : QR} {n : Nat} (hn : 1 ≤ n) :
    n ≤ q.available ↔ q.queues ≠ [] ∧ q.countedLengths ≠ [] ∧ ∀ x ∈ q.countedLengths, n ≤ x := by
  unfold QR.available
  by_cases hq : q.queues = []
  · simp [hq]; omega
  · have : q.queues.isEmpty = false := by cases h : q.queues <;> simp_all
    simp only [this, Bool.false_eq_true, if_false]
    cases h : minList q.countedLengths with
    | none =>
      have := minList_eq_none.1 h
      simp [this]; omega
    | some m =>
      have hne : q.countedLengths ≠ [] := by
        intro h0; rw [h0] at h; simp [minList] at h
      simp [minList_ge_sv h, hne, hq]

theorem sv_getD_map_pred (o : Option Nat) : (o.map (· - 1)).getD 0 = o.getD 0 - 1 := by
  cases o <;> simp

theorem QR.available_pop1 (q : QR) : q.pop1.available = q.available - 1 := by
  unfold QR.available
  rw [QR.countedLengths_pop1, minList_map_pred, sv_getD_map_pred]
  by_cases hq : q.queues = []
  · have : q.pop1.queues = [] := by unfold QR.pop1; split <;> simp [hq]
    simp [hq, this]
  · have hqe : q.queues.isEmpty = false := by cases h : q.queues <;> simp_all
    simp only [hqe, Bool.false_eq_true, if_false]
    split
    · rename_i hp
      unfold QR.pop1 at hp
      split at hp
      · simp at hp; exact absurd hp hq
      · rename_i hc
        simp at hp
        have : q.countedLengths = [] := by
          unfold QR.countedLengths
          simp only [hc, Bool.false_eq_true, if_false]
          rcases hp with hp | hp
          · simp [hp]
          · exact absurd hp hq
        simp [this, minList]
    · rfl

theorem QR.available_dropN (q : QR) (n : Nat) : (q.dropN n).available = q.available - n := by
  induction n generalizing q with
  | zero => rfl
  | succ n ih => rw [QR.dropN, ih, QR.available_pop1]; omega

theorem QR.dropN_zero (q : QR) : q.dropN 0 = q := rfl

theorem QR.dropN_one (q : QR) : q.dropN 1 = q.pop1 := rfl

theorem QR.dropN_dropN (q : QR) (a b : Nat) : (q.dropN a).dropN b = q.dropN (a + b) := by
  induction a generalizing q with
  | zero => simp [QR.dropN]
  | succ a ih => rw [QR.dropN, ih, Nat.add_right_comm, QR.dropN]

theorem QR.peek_dropN (q : QR) (a i : Nat) : (q.dropN a).peek i = q.peek (a + i) := by
  simp [QR.peek, QR.dropN_dropN]

/-- `popPoint` succeeds when a point is available, returns the front point and leaves the rest -/
theorem QR.popPoint_of_available {q : QR} (h : 1 ≤ q.available) :
    q.popPoint = some (q.peek 0, q.dropN 1) := by
  have ⟨_, _, hl⟩ := (QR.le_available (Nat.le_refl 1)).1 h
  unfold QR.countedLengths at hl
  unfold QR.popPoint
  split
  · rename_i hc
    simp only [hc, if_true] at hl
    have : q.queues.any List.isEmpty = false := by
      rw [List.any_eq_false]
      intro l hl'
      have := hl l.length (List.mem_map_of_mem hl')
      cases l <;> simp_all
    simp [this, QR.peek, QR.dropN, QR.front, QR.pop1, hc]
  · rename_i hc
    simp only [hc, Bool.false_eq_true, if_false] at hl
    have : (q.proto.zip q.queues).any (fun (rec, qu) => (constOf rec.dt).isNone && qu.isEmpty) = false := by
      rw [List.any_eq_false]
      rintro ⟨rec, l⟩ hl'
      by_cases hn : (constOf rec.dt).isNone = true
      · have := hl l.length (by
          simp only [List.mem_map, List.mem_filter]
          exact ⟨(rec, l), ⟨hl', hn⟩, rfl⟩)
        cases l <;> simp_all
      · simp [hn]
    simp [this, QR.peek, QR.dropN, QR.front, QR.pop1, hc]
    intro a b _; cases constOf a.dt <;> rfl

/-- `popPoint` fails iff some counted queue is empty; it succeeds iff a point is available, or there
    are no queues at all, or no queue counts (an empty prototype: `available = 0`, and `popPoint`
    returns the empty point) -/
theorem QR.popPoint_isSome_iff (q : QR) :
    q.popPoint.isSome ↔ (1 ≤ q.available ∨ q.queues = [] ∨ q.countedLengths = []) := by
  constructor
  · intro h
    by_cases hq : q.queues = []
    · exact .inr (.inl hq)
    by_cases hcl : q.countedLengths = []
    · exact .inr (.inr hcl)
    left
    rw [QR.le_available (Nat.le_refl 1)]
    refine ⟨hq, hcl, ?_⟩
    unfold QR.popPoint at h
    unfold QR.countedLengths
    split at h
    · rename_i hc
      simp only [hc, if_true]
      split at h
      · simp at h
      · rename_i hany
        simp only [Bool.not_eq_true, List.any_eq_false] at hany
        intro x hx
        obtain ⟨l, hl, rfl⟩ := List.mem_map.1 hx
        have := hany l hl
        cases l <;> simp_all
    · rename_i hc
      simp only [hc, Bool.false_eq_true, if_false]
      dsimp only at h
      split at h
      · simp at h
      · rename_i hany
        simp only [Bool.not_eq_true, List.any_eq_false] at hany
        intro x hx
        simp only [List.mem_map, List.mem_filter] at hx
        obtain ⟨⟨rec, l⟩, ⟨hl, hn⟩, rfl⟩ := hx
        have := hany (rec, l) hl
        cases l <;> simp_all
  · rintro (h | h | h)
    · simp [QR.popPoint_of_available h]
    · unfold QR.popPoint; split <;> simp [h]
    · unfold QR.popPoint
      unfold QR.countedLengths at h
      split
      · rename_i hc
        simp only [hc, if_true] at h
        simp at h
        simp [h]
      · rename_i hc
        simp only [hc, Bool.false_eq_true, if_false] at h
        have : (q.proto.zip q.queues).any (fun (rec, qu) => (constOf rec.dt).isNone && qu.isEmpty) = false := by
          rw [List.any_eq_false]
          rintro ⟨rec, l⟩ hl'
          by_cases hn : (constOf rec.dt).isNone = true
          · have : (rec, l) ∈ (q.proto.zip q.queues).filter (fun x => (constOf x.1.dt).isNone) :=
              List.mem_filter.2 ⟨hl', hn⟩
            simp at h
            exact absurd (by simpa using hn) (h rec l hl')
          · simp [hn]
        simp [this]

theorem QR.popPoint_available {q q' : QR} {vs} (h : 1 ≤ q.available) (hp : q.popPoint = some (vs, q')) :
    q'.available + 1 = q.available ∧ vs = q.peek 0 ∧ q' = q.dropN 1 := by
  rw [QR.popPoint_of_available h] at hp
  simp at hp
  obtain ⟨rfl, rfl⟩ := hp
  simp [QR.available_dropN]; omega

/-! explicit forms of `dropN` and `peek` (the prototype and the queues have equal lengths in every
    reachable state: `QR.new`, `advance` and `popPoint` keep it) -/

theorem sv_zip_zip_map {α β γ} (f : α → β → β) (g : α × β → γ) (xs : List α) (ys : List β) :
    (xs.zip ((xs.zip ys).map (fun x => f x.1 x.2))).map g = (xs.zip ys).map (fun x => g (x.1, f x.1 x.2)) := by
  induction xs generalizing ys with
  | nil => simp
  | cons x xs ih =>
    cases ys with
    | nil => simp
    | cons y ys => simp [ih]

theorem sv_zip_map_snd_of_le {α β} (xs : List α) (ys : List β) (h : ys.length ≤ xs.length) :
    (xs.zip ys).map (·.2) = ys := by
  induction xs generalizing ys with
  | nil => cases ys <;> simp_all
  | cons x xs ih =>
    cases ys with
    | nil => simp
    | cons y ys => simp at h; simp [ih ys h]

/-- all-constant cloud: every queue loses `n` values -/
theorem QR.dropN_of_allConstant (q : QR) (n : Nat) (hc : q.allConstant = true) :
    q.dropN n = { q with queues := q.queues.map (List.drop n) } := by
  induction n generalizing q with
  | zero =>
    have : List.drop (α := Value) 0 = id := by funext l; simp
    cases q; simp [QR.dropN, this]
  | succ n ih =>
    rw [QR.dropN, ih _ (by simpa using hc)]
    simp [QR.pop1, hc, List.map_map, Function.comp_def]

/-- otherwise: the queues of the sized records lose `n` values, those of the constant records are untouched -/
theorem QR.dropN_of_not_allConstant (q : QR) (n : Nat) (hc : q.allConstant = false)
    (hlen : q.queues.length ≤ q.proto.length) :
    q.dropN n = { q with queues :=
      (q.proto.zip q.queues).map (fun (rec, qu) => if (constOf rec.dt).isSome then qu else qu.drop n) } := by
  induction n generalizing q with
  | zero =>
    have := sv_zip_map_snd_of_le q.proto q.queues hlen
    cases q; simp_all [QR.dropN]
  | succ n ih =>
    have hlen' : q.pop1.queues.length ≤ q.pop1.proto.length := by
      simp [QR.pop1, hc]; omega
    rw [QR.dropN, ih _ (by simpa using hc) hlen']
    simp only [QR.pop1, hc, Bool.false_eq_true, if_false]
    congr 1
    rw [sv_zip_zip_map (fun (rec : Record) (qu : List Value) => if (constOf rec.dt).isSome then qu else qu.tail)]
    apply List.map_congr_left
    rintro ⟨rec, qu⟩ _
    cases constOf rec.dt <;> simp

/-- all-constant cloud: the `i`-th point is made of the `i`-th entries of the queues -/
theorem QR.peek_of_allConstant (q : QR) (i : Nat) (hc : q.allConstant = true) :
    q.peek i = q.queues.map (fun l => (l.drop i).headD (.integer 0)) := by
  have hc' : (q.dropN i).allConstant = true := by simpa [QR.allConstant] using hc
  rw [QR.peek, QR.front, if_pos hc', QR.dropN_of_allConstant q i hc]
  simp [List.map_map, Function.comp_def]

/-- otherwise: the constant of a constant record, the `i`-th entry of the queue of a sized record -/
theorem QR.peek_of_not_allConstant (q : QR) (i : Nat) (hc : q.allConstant = false)
    (hlen : q.queues.length ≤ q.proto.length) :
    q.peek i = (q.proto.zip q.queues).map (fun (rec, qu) => match constOf rec.dt with
        | some v => v
        | none => (qu.drop i).headD (.integer 0)) := by
  have hc' : (q.dropN i).allConstant = false := by simpa [QR.allConstant] using hc
  rw [QR.peek, QR.front, hc', QR.dropN_of_not_allConstant q i hc hlen]
  simp only [Bool.false_eq_true, if_false]
  rw [sv_zip_zip_map (fun (rec : Record) (qu : List Value) => if (constOf rec.dt).isSome then qu else qu.drop i)]
  apply List.map_congr_left
  rintro ⟨rec, qu⟩ _
  cases constOf rec.dt <;> simp

theorem QR.rawPoints_succ (q : QR) (n : Nat) :
    q.rawPoints (n + 1) = q.peek 0 :: (q.dropN 1).rawPoints n := by
  simp [QR.rawPoints, List.range_succ_eq_map, List.map_map, Function.comp_def, QR.peek_dropN,
    Nat.add_comm]

/-- non-vacuity: a sized record next to a constant one (`integer 7 7`, empty queue): two points are
    available, the constant is filled in, only the sized queue is popped -/
def exConstQ : QR :=
  ⟨[⟨.cartesianX, .integer 0 255⟩, ⟨.rowIndex, .integer 7 7⟩], [], [[.integer 1, .integer 2], []]⟩

example : exConstQ.allConstant = false ∧ exConstQ.available = 2 ∧
    exConstQ.peek 0 = [.integer 1, .integer 7] ∧ exConstQ.peek 1 = [.integer 2, .integer 7] ∧
    exConstQ.popPoint.map (·.1) = some [.integer 1, .integer 7] ∧
    exConstQ.popPoint.map (·.2.queues) = some [[.integer 2], []] ∧
    (exConstQ.dropN 1).queues = [[.integer 2], []] ∧ (exConstQ.dropN 2).available = 0 := by
  decide +kernel

theorem QR.length_rawPoints (q : QR) (n : Nat) : (q.rawPoints n).length = n := by
  simp [QR.rawPoints]

theorem QR.getElem?_rawPoints (q : QR) (n i : Nat) (h : i < n) : (q.rawPoints n)[i]? = some (q.peek i) := by
  simp [QR.rawPoints, h]

/-- all `n` views succeed: exactly `n` points are popped and their views returned in order -/
theorem popBatch_all (it : SimpleIter) : ∀ (n : Nat) (q : QR) (acc : List SPoint),
    n ≤ q.available → (∀ i, i < n → (viewPoint it (q.peek i)).isSome) →
    popBatch it n q acc
      = (q.dropN n, acc.reverse ++ (q.rawPoints n).filterMap (viewPoint it), true) := by
  intro n
  induction n with
  | zero => intro q acc _ _; simp [popBatch, QR.dropN_zero, QR.rawPoints]
  | succ n ih =>
    intro q acc hav hall
    have h1 : 1 ≤ q.available := by omega
    have h0 := hall 0 (by omega)
    obtain ⟨p, hp⟩ := Option.isSome_iff_exists.1 h0
    have hav' : n ≤ (q.dropN 1).available := by rw [QR.available_dropN]; omega
    have hall' : ∀ i, i < n → (viewPoint it ((q.dropN 1).peek i)).isSome := by
      intro i hi; rw [QR.peek_dropN]; exact hall (1 + i) (by omega)
    simp only [popBatch, QR.popPoint_of_available h1, hp]
    rw [ih _ _ hav' hall', QR.rawPoints_succ, QR.dropN_dropN]
    simp [hp, Nat.add_comm]

/-- the first failing view is at index `i`: `i + 1` points are consumed, the views before `i` are
    returned with `false` -/
theorem popBatch_fail (it : SimpleIter) : ∀ (i n : Nat) (q : QR) (acc : List SPoint),
    n ≤ q.available → i < n → (∀ j, j < i → (viewPoint it (q.peek j)).isSome) →
    viewPoint it (q.peek i) = none →
    popBatch it n q acc
      = (q.dropN (i + 1), acc.reverse ++ (q.rawPoints i).filterMap (viewPoint it), false) := by
  intro i
  induction i with
  | zero =>
    intro n q acc hav hin _ hnone
    obtain ⟨n, rfl⟩ : ∃ m, n = m + 1 := ⟨n - 1, by omega⟩
    have h1 : 1 ≤ q.available := by omega
    simp [popBatch, QR.popPoint_of_available h1, hnone, QR.rawPoints]
  | succ i ih =>
    intro n q acc hav hin hall hnone
    obtain ⟨n, rfl⟩ : ∃ m, n = m + 1 := ⟨n - 1, by omega⟩
    have h1 : 1 ≤ q.available := by omega
    have h0 := hall 0 (by omega)
    obtain ⟨p, hp⟩ := Option.isSome_iff_exists.1 h0
    have hav' : n ≤ (q.dropN 1).available := by rw [QR.available_dropN]; omega
    have hall' : ∀ j, j < i → (viewPoint it ((q.dropN 1).peek j)).isSome := by
      intro j hj; rw [QR.peek_dropN]; exact hall (1 + j) (by omega)
    have hnone' : viewPoint it ((q.dropN 1).peek i) = none := by
      rw [QR.peek_dropN, Nat.add_comm]; exact hnone
    simp only [popBatch, QR.popPoint_of_available h1, hp]
    rw [ih n _ _ hav' (by omega) hall' hnone', QR.rawPoints_succ, QR.dropN_dropN]
    simp [hp, Nat.add_comm]

/-- either all of the first `n` views succeed or there is a first failing one -/
theorem views_all_or_first_fail (f : Nat → Bool) (n : Nat) :
    (∀ i, i < n → f i = true) ∨ ∃ i, i < n ∧ (∀ j, j < i → f j = true) ∧ f i = false := by
  induction n with
  | zero => left; intro i hi; omega
  | succ n ih =>
    rcases ih with h | ⟨i, hi, h1, h2⟩
    · cases hn : f n
      · right; exact ⟨n, by omega, h, hn⟩
      · left; intro i hi
        by_cases h' : i = n
        · subst h'; exact hn
        · exact h i (by omega)
    · right; exact ⟨i, by omega, h1, h2⟩

/-- `popBatch` on a queue reader holding at least `n` points -/
theorem popBatch_spec (it : SimpleIter) (n : Nat) (q : QR) (hav : n ≤ q.available) :
    ((∀ i, i < n → (viewPoint it (q.peek i)).isSome) ∧
      popBatch it n q [] = (q.dropN n, (q.rawPoints n).filterMap (viewPoint it), true)) ∨
    (∃ i, i < n ∧ (∀ j, j < i → (viewPoint it (q.peek j)).isSome) ∧ viewPoint it (q.peek i) = none ∧
      popBatch it n q [] = (q.dropN (i + 1), (q.rawPoints i).filterMap (viewPoint it), false)) := by
  rcases views_all_or_first_fail (fun i => (viewPoint it (q.peek i)).isSome) n with h | ⟨i, hi, h1, h2⟩
  · left; exact ⟨h, by simpa using popBatch_all it n q [] hav h⟩
  · right
    have h2' : viewPoint it (q.peek i) = none := by simpa using h2
    exact ⟨i, hi, h1, h2', by simpa using popBatch_fail it i n q [] hav hi h1 h2'⟩

/-- when all views succeed the batch has exactly `n` entries, the `i`-th being the view of the
    `i`-th raw point -/
theorem filterMap_all_some {α β} (f : α → Option β) (l : List α) (h : ∀ x ∈ l, (f x).isSome) :
    (l.filterMap f).map some = l.map f := by
  induction l with
  | nil => rfl
  | cons x xs ih =>
    have hx := h x (by simp)
    obtain ⟨y, hy⟩ := Option.isSome_iff_exists.1 hx
    simp [hy, ih (fun z hz => h z (by simp [hz]))]


/-! ## 3. one step of the simple iterator -/

/-- `refill` returns `true` only with a point available -/
theorem refill_ok_available : ∀ (fuel : Nat) (q : QR) (r : PR) (r1 : PR) (q1 : QR),
    refill fuel q r = (r1, q1, true) → 1 ≤ q1.available := by
  intro fuel
  induction fuel with
  | zero => intro q r r1 q1 h; simp [refill] at h
  | succ fuel ih =>
    intro q r r1 q1 h
    unfold refill at h
    split at h
    · rename_i hav; simp at h; obtain ⟨_, rfl⟩ := h; exact hav
    · split at h
      · exact ih _ _ _ _ h
      · simp at h

/-- `refill` does nothing when a point is available -/
theorem refill_noop (fuel : Nat) (q : QR) (r : PR) (h : 1 ≤ q.available) :
    refill (fuel + 1) q r = (r, q, true) := by
  simp [refill, h]

theorem refill_noop' (q : QR) (r : PR) (h : 1 ≤ q.available) :
    refill (refillFuel r) q r = (r, q, true) := refill_noop _ q r h

/-- `perPoint` as a function of the four things it reads: the options, whether the point cloud has a
    pose (`pose`), and the prepared rotation and translation -/
def perPointOf (opts : Options) (pose : Bool) (rot : Array Float) (tr : Float × Float × Float)
    (p : SPoint) : SPoint :=
  let p := if opts.s2c then convertToCartesian p else p
  let p := if opts.c2s then convertToSpherical p else p
  let p := if opts.i2c then convertIntensity p else p
  if opts.transform && pose then transformPoint rot tr p else p

theorem perPoint_eq (it : SimpleIter) :
    perPoint it = perPointOf it.opts it.pc.transform.isSome it.rotation it.translation := rfl

theorem filterMap_fullView (it : SimpleIter) (l : List (List Value)) :
    l.filterMap (fullView it) = (l.filterMap (viewPoint it)).map (perPoint it) := by
  simp [List.map_filterMap]
  rfl

theorem simple_next_done (it : SimpleIter) (r : PR) (h : it.pc.records ≤ it.read) :
    it.next r = (r, it, .done) := by
  simp [SimpleIter.next, h]

theorem simple_next_buffered (it : SimpleIter) (r : PR) (h : it.read < it.pc.records)
    {p : SPoint} {rest : List SPoint} (hp : it.points = p :: rest) :
    it.next r = (r, { it with points := rest, read := it.read + 1 }, .value p) := by
  have : ¬ it.pc.records ≤ it.read := by omega
  simp [SimpleIter.next, this, hp]

theorem simple_next_refill_fail (it : SimpleIter) (r : PR) (h : it.read < it.pc.records)
    (hp : it.points = []) {r1 : PR} {q1 : QR} (hr : refill (refillFuel r) it.q r = (r1, q1, false)) :
    it.next r = (r1, { it with q := q1 }, .error) := by
  have : ¬ it.pc.records ≤ it.read := by omega
  simp [SimpleIter.next, this, hp, hr]

theorem simple_next_batch (it : SimpleIter) (r : PR) (hb : it.buffer = [])
    (h : it.read < it.pc.records) (hp : it.points = []) {r1 : PR} {q1 : QR}
    (hr : refill (refillFuel r) it.q r = (r1, q1, true))
    (hall : ∀ i, i < q1.available → (viewPoint it (q1.peek i)).isSome) :
    ∃ p rest, fullView it (q1.peek 0) = some p ∧
      (q1.rawPoints q1.available).filterMap (fullView it) = p :: rest ∧
      it.next r = (r1, { it with q := q1.dropN q1.available, buffer := [], points := rest,
                                 read := it.read + 1 }, .value p) := by
  have hnr : ¬ it.pc.records ≤ it.read := by omega
  have hav := refill_ok_available _ _ _ _ _ hr
  have hpb := popBatch_all it q1.available q1 [] (Nat.le_refl _) hall
  simp only [List.reverse_nil, List.nil_append] at hpb
  obtain ⟨n, hn⟩ : ∃ n, q1.available = n + 1 := ⟨q1.available - 1, by omega⟩
  obtain ⟨p0, hp0⟩ := Option.isSome_iff_exists.1 (hall 0 (by omega))
  refine ⟨perPoint it p0, ((q1.dropN 1).rawPoints n).filterMap (fullView it), ?_, ?_, ?_⟩
  · simp [fullView, hp0]
  · rw [hn, QR.rawPoints_succ]; simp [fullView, hp0]
  · unfold SimpleIter.next
    simp only [ge_iff_le, hnr, if_false, hp, hr, hpb, hb, List.nil_append, Bool.not_true,
      Bool.false_eq_true, postProcess_eq_map]
    rw [hn, QR.rawPoints_succ]
    simp [hp0, perPoint_eq, List.map_filterMap]
    rfl

theorem simple_next_view_fail (it : SimpleIter) (r : PR) (hb : it.buffer = [])
    (h : it.read < it.pc.records) (hp : it.points = []) {r1 : PR} {q1 : QR}
    (hr : refill (refillFuel r) it.q r = (r1, q1, true)) {i : Nat} (hi : i < q1.available)
    (hall : ∀ j, j < i → (viewPoint it (q1.peek j)).isSome) (hnone : viewPoint it (q1.peek i) = none) :
    it.next r = (r1, { it with q := q1.dropN (i + 1),
                               buffer := (q1.rawPoints i).filterMap (viewPoint it) }, .error) := by
  have hnr : ¬ it.pc.records ≤ it.read := by omega
  have hpb := popBatch_fail it i q1.available q1 [] (Nat.le_refl _) hi hall hnone
  simp only [List.reverse_nil, List.nil_append] at hpb
  unfold SimpleIter.next
  simp [hnr, hp, hr, hpb, hb]


/-- the complete case analysis of one `next` on an iterator with an empty batch buffer -/
theorem simple_next_spec (it : SimpleIter) (r : PR) (hb : it.buffer = []) :
    (it.pc.records ≤ it.read ∧ it.next r = (r, it, .done)) ∨
    (it.read < it.pc.records ∧ ∃ p rest, it.points = p :: rest ∧
      it.next r = (r, { it with points := rest, read := it.read + 1 }, .value p)) ∨
    (it.read < it.pc.records ∧ it.points = [] ∧ ∃ r1 q1,
      refill (refillFuel r) it.q r = (r1, q1, false) ∧
      it.next r = (r1, { it with q := q1 }, .error)) ∨
    (it.read < it.pc.records ∧ it.points = [] ∧ ∃ r1 q1,
      refill (refillFuel r) it.q r = (r1, q1, true) ∧ 1 ≤ q1.available ∧
      (∀ i, i < q1.available → (viewPoint it (q1.peek i)).isSome) ∧
      ∃ p rest, fullView it (q1.peek 0) = some p ∧
        (q1.rawPoints q1.available).filterMap (fullView it) = p :: rest ∧
        it.next r = (r1, { it with q := q1.dropN q1.available, buffer := [], points := rest,
                                   read := it.read + 1 }, .value p)) ∨
    (it.read < it.pc.records ∧ it.points = [] ∧ ∃ r1 q1,
      refill (refillFuel r) it.q r = (r1, q1, true) ∧ 1 ≤ q1.available ∧
      ∃ i, i < q1.available ∧ (∀ j, j < i → (viewPoint it (q1.peek j)).isSome) ∧
        viewPoint it (q1.peek i) = none ∧
        it.next r = (r1, { it with q := q1.dropN (i + 1),
                                   buffer := (q1.rawPoints i).filterMap (viewPoint it) }, .error)) := by
  by_cases h : it.pc.records ≤ it.read
  · exact .inl ⟨h, simple_next_done it r h⟩
  have h : it.read < it.pc.records := by omega
  right
  by_cases hp : it.points = []
  case neg =>
    obtain ⟨p, rest, hp⟩ := List.exists_cons_of_ne_nil hp
    exact .inl ⟨h, p, rest, hp, simple_next_buffered it r h hp⟩
  case pos =>
    right
    obtain ⟨r1, q1, ok, hr⟩ : ∃ r1 q1 ok, refill (refillFuel r) it.q r = (r1, q1, ok) :=
      ⟨_, _, _, rfl⟩
    cases ok with
    | false => exact .inl ⟨h, hp, r1, q1, hr, simple_next_refill_fail it r h hp hr⟩
    | true =>
      right
      have hav := refill_ok_available _ _ _ _ _ hr
      rcases views_all_or_first_fail (fun i => (viewPoint it (q1.peek i)).isSome) q1.available with
        hall | ⟨i, hi, h1, h2⟩
      · exact .inl ⟨h, hp, r1, q1, hr, hav, hall, simple_next_batch it r hb h hp hr hall⟩
      · have h2' : viewPoint it (q1.peek i) = none := by simpa using h2
        exact .inr ⟨h, hp, r1, q1, hr, hav, i, hi, h1, h2',
          simple_next_view_fail it r hb h hp hr hi h1 h2'⟩

/-- the batch buffer is empty initially … -/
theorem new_initial (pc : PointCloud) (r r1 : PR) (it : SimpleIter)
    (h : SimpleIter.new pc r = (r1, some it)) :
    it.buffer = [] ∧ it.points = [] ∧ it.read = 0 ∧ it.pc = pc ∧ it.opts = {} ∧
      QR.new pc r = (r1, some it.q) := by
  unfold SimpleIter.new at h
  split at h
  · simp at h
  · rename_i r1' q hq
    simp at h
    obtain ⟨rfl, rfl⟩ := h
    simp [hq]

/-- … and after every `next` that does not return `.error` -/
theorem buffer_empty_inv (it : SimpleIter) (r : PR) (hb : it.buffer = [])
    (hne : (it.next r).2.2 ≠ .error) : (it.next r).2.1.buffer = [] := by
  rcases simple_next_spec it r hb with ⟨_, h⟩ | ⟨_, _, _, _, h⟩ | ⟨_, _, _, _, _, h⟩ |
    ⟨_, _, _, _, _, _, _, _, _, _, _, h⟩ | ⟨_, _, _, _, _, _, _, _, _, _, h⟩ <;>
  simp_all

/-- 1 for `.value`, 0 otherwise -/
def Item.count {α} : Item α → Nat
  | .value _ => 1
  | _ => 0

/-- `next` changes at most `q`, `points`, `buffer`, `read`; `read` grows by one exactly when a
    value is returned, which happens only while `read < records` -/
theorem next_shape (it : SimpleIter) (r : PR) {r' : PR} {it' : SimpleIter} {x : Item SPoint}
    (h : it.next r = (r', it', x)) :
    ∃ q' pts buf, it' = { it with q := q', points := pts, buffer := buf,
                                  read := it.read + x.count } ∧
      (∀ p, x = .value p → it.read < it.pc.records) := by
  unfold SimpleIter.next at h
  split at h
  · simp at h; obtain ⟨rfl, rfl, rfl⟩ := h; exact ⟨_, _, _, rfl, by simp⟩
  · rename_i hlt
    have hlt : it.read < it.pc.records := by omega
    split at h
    · simp at h; obtain ⟨rfl, rfl, rfl⟩ := h; exact ⟨_, _, _, rfl, by simp [hlt]⟩
    · split at h
      · simp at h; obtain ⟨rfl, rfl, rfl⟩ := h; exact ⟨_, _, _, rfl, by simp⟩
      · split at h
        split at h
        · simp at h; obtain ⟨rfl, rfl, rfl⟩ := h; exact ⟨_, _, _, rfl, by simp⟩
        · dsimp only at h
          split at h
          · simp at h; obtain ⟨rfl, rfl, rfl⟩ := h; exact ⟨_, _, _, rfl, by simp [hlt]⟩
          · simp at h; obtain ⟨rfl, rfl, rfl⟩ := h; exact ⟨_, _, _, rfl, by simp⟩

/-- `next` never changes the metadata the views depend on -/
theorem next_frame (it : SimpleIter) (r : PR) :
    (it.next r).2.1.pc = it.pc ∧ (it.next r).2.1.opts = it.opts ∧
    (it.next r).2.1.rotation = it.rotation ∧ (it.next r).2.1.translation = it.translation ∧
    (it.next r).2.1.indices = it.indices ∧ (it.next r).2.1.intensityRange = it.intensityRange ∧
    (it.next r).2.1.redRange = it.redRange ∧ (it.next r).2.1.greenRange = it.greenRange ∧
    (it.next r).2.1.blueRange = it.blueRange := by
  obtain ⟨q', pts, buf, h, _⟩ := next_shape it r (r' := (it.next r).1) (it' := (it.next r).2.1)
    (x := (it.next r).2.2) rfl
  rw [h]; simp

/-- every `.value` increments `read` by exactly one (and is only returned while
    `read < records`); every other result leaves `read` unchanged -/
theorem next_read_mono (it : SimpleIter) (r : PR) :
    (∀ p, (it.next r).2.2 = .value p →
      (it.next r).2.1.read = it.read + 1 ∧ it.read < it.pc.records) ∧
    ((∀ p, (it.next r).2.2 ≠ .value p) → (it.next r).2.1.read = it.read) := by
  obtain ⟨q', pts, buf, h, h'⟩ := next_shape it r (r' := (it.next r).1) (it' := (it.next r).2.1)
    (x := (it.next r).2.2) rfl
  constructor
  · intro p hp
    refine ⟨?_, h' p hp⟩
    rw [h, hp]; rfl
  · intro hnv
    rw [h]
    cases hx : (it.next r).2.2 with
    | value p => exact absurd hx (hnv p)
    | done => rfl
    | error => rfl


/-! ## 5. running the iterators; the simple iterator yields at most `records` values -/

/-- the results of `k` successive calls of `next` -/
def SimpleIter.items : Nat → SimpleIter → PR → List (Item SPoint)
  | 0, _, _ => []
  | k + 1, it, r => (it.next r).2.2 :: SimpleIter.items k (it.next r).2.1 (it.next r).1

def RawIter.items : Nat → RawIter → PR → List (Item (List Value))
  | 0, _, _ => []
  | k + 1, it, r => (it.next r).2.2 :: RawIter.items k (it.next r).2.1 (it.next r).1

/-- once `read ≥ records` the simple iterator returns `.done` forever -/
theorem simple_done_forever (k : Nat) (it : SimpleIter) (r : PR) (h : it.pc.records ≤ it.read) :
    it.items k r = List.replicate k .done := by
  induction k with
  | zero => rfl
  | succ k ih => simp [SimpleIter.items, simple_next_done it r h, ih, List.replicate_succ]

theorem raw_next_done (it : RawIter) (r : PR) (h : it.records ≤ it.read) :
    it.next r = (r, it, .done) := by
  simp [RawIter.next, h]

theorem raw_done_forever_sv (k : Nat) (it : RawIter) (r : PR) (h : it.records ≤ it.read) :
    it.items k r = List.replicate k .done := by
  induction k with
  | zero => rfl
  | succ k ih => simp [RawIter.items, raw_next_done it r h, ih, List.replicate_succ]

/-- the number of `.value` items in any run is at most `records - read` -/
theorem simple_count (k : Nat) (it : SimpleIter) (r : PR) :
    ((it.items k r).map Item.count).sum ≤ it.pc.records - it.read := by
  induction k generalizing it r with
  | zero => simp [SimpleIter.items]
  | succ k ih =>
    simp only [SimpleIter.items, List.map_cons, List.sum_cons]
    have hi := ih (it.next r).2.1 (it.next r).1
    have hpc := (next_frame it r).1
    have ⟨h1, h2⟩ := next_read_mono it r
    rw [hpc] at hi
    cases hx : (it.next r).2.2 with
    | value p =>
      have ⟨h3, h4⟩ := h1 p hx
      rw [h3] at hi
      simp only [Item.count]; omega
    | done =>
      have := h2 (by simp [hx]); rw [this] at hi; simpa [Item.count] using hi
    | error =>
      have := h2 (by simp [hx]); rw [this] at hi; simpa [Item.count] using hi

/-- a fresh iterator (`read = 0`) never yields more than `records` values -/
theorem simple_count_fresh (k : Nat) (it : SimpleIter) (r : PR) (h0 : it.read = 0) :
    ((it.items k r).map Item.count).sum ≤ it.pc.records := by
  have := simple_count k it r; omega

/-! ## 6. where the simple iterator fails -/

theorem raw_next_refill_fail (ri : RawIter) (r : PR) (h : ri.read < ri.records) {r1 : PR} {q1 : QR}
    (hr : refill (refillFuel r) ri.q r = (r1, q1, false)) :
    ri.next r = (r1, { ri with q := q1 }, .error) := by
  have : ¬ ri.records ≤ ri.read := by omega
  simp [RawIter.next, this, hr]

theorem raw_next_value (ri : RawIter) (r : PR) (h : ri.read < ri.records) {r1 : PR} {q1 : QR}
    (hr : refill (refillFuel r) ri.q r = (r1, q1, true)) :
    ri.next r = (r1, { ri with q := q1.dropN 1, read := ri.read + 1 }, .value (q1.peek 0)) := by
  have : ¬ ri.records ≤ ri.read := by omega
  have hav := refill_ok_available _ _ _ _ _ hr
  simp [RawIter.next, this, hr, QR.popPoint_of_available hav]

/-- while `read < records` the raw iterator fails exactly when `refill` fails -/
theorem raw_error_iff_refill_fails (ri : RawIter) (r : PR) (h : ri.read < ri.records) :
    (ri.next r).2.2 = .error ↔ (refill (refillFuel r) ri.q r).2.2 = false := by
  obtain ⟨r1, q1, ok, hr⟩ : ∃ r1 q1 ok, refill (refillFuel r) ri.q r = (r1, q1, ok) := ⟨_, _, _, rfl⟩
  cases ok with
  | false => simp [raw_next_refill_fail ri r h hr, hr]
  | true => simp [raw_next_value ri r h hr, hr]

/-- the simple iterator (with an empty batch buffer) fails only where `refill` fails – and there
    the raw iterator on the same queue reader and reader fails too – or where the view of one of
    the raw points just made available fails -/
theorem simple_fails_only_where (it : SimpleIter) (r : PR) (hb : it.buffer = [])
    (he : (it.next r).2.2 = .error) :
    it.read < it.pc.records ∧ it.points = [] ∧
    (((refill (refillFuel r) it.q r).2.2 = false ∧
        ∀ ri : RawIter, ri.q = it.q → ri.read < ri.records → (ri.next r).2.2 = .error) ∨
     (∃ r1 q1, refill (refillFuel r) it.q r = (r1, q1, true) ∧
        ∃ i, i < q1.available ∧ viewPoint it (q1.peek i) = none)) := by
  rcases simple_next_spec it r hb with ⟨_, h⟩ | ⟨_, _, _, _, h⟩ | ⟨hlt, hp, r1, q1, hr, h⟩ |
    ⟨_, _, _, _, _, _, _, _, _, _, _, h⟩ | ⟨hlt, hp, r1, q1, hr, _, i, hi, _, hnone, h⟩
  · rw [h] at he; simp at he
  · rw [h] at he; simp at he
  · refine ⟨hlt, hp, .inl ⟨by rw [hr], ?_⟩⟩
    intro ri hq hlt'
    rw [raw_error_iff_refill_fails ri r hlt', hq, hr]
  · rw [h] at he; simp at he
  · exact ⟨hlt, hp, .inr ⟨r1, q1, hr, i, hi, hnone⟩⟩


/-! ## 6b. the view of one raw point, field by field -/

/-- stored (or default) invalid-state value -/
def invPart (p : Prototype) (vs : List Value) (idx : Option Nat) (dflt : Int) : Option Int :=
  match idx with
  | some i => valI64 p vs i
  | none => pure dflt

def cartPart (p : Prototype) (ix : Indices) (vs : List Value) : Option Coord := do
  let cinv ← invPart p vs ix.cartesianInvalid (if ix.cartesian.isSome then 0 else 2)
  match ix.cartesian with
    | some (a, b, c) =>
      if cinv == 0 then do pure (⟨0, ← valF64 p vs a, ← valF64 p vs b, ← valF64 p vs c⟩ : Coord)
      else if cinv == 1 then do pure (⟨1, ← valF64 p vs a, ← valF64 p vs b, ← valF64 p vs c⟩ : Coord)
      else if cinv == 2 then pure ⟨2, 0, 0, 0⟩
      else none
    | none => pure ⟨2, 0, 0, 0⟩

def sphPart (p : Prototype) (ix : Indices) (vs : List Value) : Option Coord := do
  let sinv ← invPart p vs ix.sphericalInvalid (if ix.spherical.isSome then 0 else 2)
  match ix.spherical with
    | some (a, b, c) =>
      if sinv == 0 then do pure (⟨0, ← valF64 p vs a, ← valF64 p vs b, ← valF64 p vs c⟩ : Coord)
      else if sinv == 1 then do pure (⟨1, 0, ← valF64 p vs b, ← valF64 p vs c⟩ : Coord)
      else if sinv == 2 then pure ⟨2, 0, 0, 0⟩
      else none
    | none => pure ⟨2, 0, 0, 0⟩

def colPart (p : Prototype) (ix : Indices) (nc : Bool) (rr gr br : Option Range) (vs : List Value) :
    Option (Option (UInt32 × UInt32 × UInt32)) := do
  let colinv ← invPart p vs ix.colorInvalid (if ix.color.isSome then 0 else 1)
  match ix.color with
    | some (a, b, c) =>
      if colinv == 0 then do
        pure (some (normalizeValue nc (← valF64 p vs a) rr,
                    normalizeValue nc (← valF64 p vs b) gr,
                    normalizeValue nc (← valF64 p vs c) br))
      else if colinv == 1 then pure none
      else none
    | none => pure none

def intPart (p : Prototype) (ix : Indices) (ni : Bool) (ir : Option Range) (vs : List Value) :
    Option (Option UInt32) := do
  let iinv ← invPart p vs ix.intensityInvalid (if ix.intensity.isSome then 0 else 1)
  match ix.intensity with
    | some i =>
      if iinv == 0 then do pure (some (normalizeValue ni (← valF64 p vs i) ir))
      else if iinv == 1 then pure none
      else none
    | none => pure none

/-- the second half of each part, as a function of the invalid-state value -/
def cartOf (p : Prototype) (ix : Indices) (vs : List Value) (cinv : Int) : Option Coord :=
  match ix.cartesian with
    | some (a, b, c) =>
      if cinv == 0 then do pure (⟨0, ← valF64 p vs a, ← valF64 p vs b, ← valF64 p vs c⟩ : Coord)
      else if cinv == 1 then do pure (⟨1, ← valF64 p vs a, ← valF64 p vs b, ← valF64 p vs c⟩ : Coord)
      else if cinv == 2 then pure ⟨2, 0, 0, 0⟩
      else none
    | none => pure ⟨2, 0, 0, 0⟩

def sphOf (p : Prototype) (ix : Indices) (vs : List Value) (sinv : Int) : Option Coord :=
  match ix.spherical with
    | some (a, b, c) =>
      if sinv == 0 then do pure (⟨0, ← valF64 p vs a, ← valF64 p vs b, ← valF64 p vs c⟩ : Coord)
      else if sinv == 1 then do pure (⟨1, 0, ← valF64 p vs b, ← valF64 p vs c⟩ : Coord)
      else if sinv == 2 then pure ⟨2, 0, 0, 0⟩
      else none
    | none => pure ⟨2, 0, 0, 0⟩

def colOf (p : Prototype) (ix : Indices) (nc : Bool) (rr gr br : Option Range) (vs : List Value)
    (colinv : Int) : Option (Option (UInt32 × UInt32 × UInt32)) :=
  match ix.color with
    | some (a, b, c) =>
      if colinv == 0 then do
        pure (some (normalizeValue nc (← valF64 p vs a) rr,
                    normalizeValue nc (← valF64 p vs b) gr,
                    normalizeValue nc (← valF64 p vs c) br))
      else if colinv == 1 then pure none
      else none
    | none => pure none

def intOf (p : Prototype) (ix : Indices) (ni : Bool) (ir : Option Range) (vs : List Value)
    (iinv : Int) : Option (Option UInt32) :=
  match ix.intensity with
    | some i =>
      if iinv == 0 then do pure (some (normalizeValue ni (← valF64 p vs i) ir))
      else if iinv == 1 then pure none
      else none
    | none => pure none

theorem cartPart_eq (p ix vs) : cartPart p ix vs =
    invPart p vs ix.cartesianInvalid (if ix.cartesian.isSome then 0 else 2) >>= cartOf p ix vs := rfl
theorem sphPart_eq (p ix vs) : sphPart p ix vs =
    invPart p vs ix.sphericalInvalid (if ix.spherical.isSome then 0 else 2) >>= sphOf p ix vs := rfl
theorem colPart_eq (p ix nc rr gr br vs) : colPart p ix nc rr gr br vs =
    invPart p vs ix.colorInvalid (if ix.color.isSome then 0 else 1) >>= colOf p ix nc rr gr br vs := rfl
theorem intPart_eq (p ix ni ir vs) : intPart p ix ni ir vs =
    invPart p vs ix.intensityInvalid (if ix.intensity.isSome then 0 else 1) >>= intOf p ix ni ir vs := rfl

/-! continuation-passing copies of the stages of `viewPoint` (the text of the model, with the
    rest of the `do` block replaced by `k`) -/

def invK {β} (p : Prototype) (vs : List Value) (idx : Option Nat) (dflt : Int) (k : Int → Option β) :
    Option β := do
  let v ← match idx with
    | some i => valI64 p vs i
    | none => pure dflt
  k v

def cartOfK {β} (p : Prototype) (ix : Indices) (vs : List Value) (cinv : Int) (k : Coord → Option β) :
    Option β := do
  let cartesian ← match ix.cartesian with
    | some (a, b, c) =>
      if cinv == 0 then do pure (⟨0, ← valF64 p vs a, ← valF64 p vs b, ← valF64 p vs c⟩ : Coord)
      else if cinv == 1 then do pure (⟨1, ← valF64 p vs a, ← valF64 p vs b, ← valF64 p vs c⟩ : Coord)
      else if cinv == 2 then pure ⟨2, 0, 0, 0⟩
      else none
    | none => pure ⟨2, 0, 0, 0⟩
  k cartesian

def sphOfK {β} (p : Prototype) (ix : Indices) (vs : List Value) (sinv : Int) (k : Coord → Option β) :
    Option β := do
  let spherical ← match ix.spherical with
    | some (a, b, c) =>
      if sinv == 0 then do pure (⟨0, ← valF64 p vs a, ← valF64 p vs b, ← valF64 p vs c⟩ : Coord)
      else if sinv == 1 then do pure (⟨1, 0, ← valF64 p vs b, ← valF64 p vs c⟩ : Coord)
      else if sinv == 2 then pure ⟨2, 0, 0, 0⟩
      else none
    | none => pure ⟨2, 0, 0, 0⟩
  k spherical

def colOfK {β} (p : Prototype) (ix : Indices) (nc : Bool) (rr gr br : Option Range) (vs : List Value)
    (colinv : Int) (k : Option (UInt32 × UInt32 × UInt32) → Option β) : Option β := do
  let color ← match ix.color with
    | some (a, b, c) =>
      if colinv == 0 then do
        pure (some (normalizeValue nc (← valF64 p vs a) rr,
                    normalizeValue nc (← valF64 p vs b) gr,
                    normalizeValue nc (← valF64 p vs c) br))
      else if colinv == 1 then pure none
      else none
    | none => pure none
  k color

def intOfK {β} (p : Prototype) (ix : Indices) (ni : Bool) (ir : Option Range) (vs : List Value)
    (iinv : Int) (k : Option UInt32 → Option β) : Option β := do
  let intensity ← match ix.intensity with
    | some i =>
      if iinv == 0 then do pure (some (normalizeValue ni (← valF64 p vs i) ir))
      else if iinv == 1 then pure none
      else none
    | none => pure none
  k intensity

theorem opt_assoc {α β γ} (x : Option α) (f : α → Option β) (g : β → Option γ) :
    (x >>= fun a => f a >>= g) = (x >>= f) >>= g := by cases x <;> rfl

theorem invK_eq {β} (p vs idx d) (k : Int → Option β) : invK p vs idx d k = invPart p vs idx d >>= k := by
  unfold invK invPart; cases idx <;> rfl

theorem cartOfK_eq {β} (p ix vs cinv) (k : Coord → Option β) :
    cartOfK p ix vs cinv k = cartOf p ix vs cinv >>= k := by
  unfold cartOfK cartOf
  rcases ix.cartesian with _ | ⟨a, b, c⟩
  · rfl
  · show (if (cinv == 0) = true then _ else _) = (if (cinv == 0) = true then _ else _) >>= k
    split
    · cases valF64 p vs a <;> cases valF64 p vs b <;> cases valF64 p vs c <;> rfl
    · split
      · cases valF64 p vs a <;> cases valF64 p vs b <;> cases valF64 p vs c <;> rfl
      · split <;> rfl

theorem sphOfK_eq {β} (p ix vs sinv) (k : Coord → Option β) :
    sphOfK p ix vs sinv k = sphOf p ix vs sinv >>= k := by
  unfold sphOfK sphOf
  rcases ix.spherical with _ | ⟨a, b, c⟩
  · rfl
  · show (if (sinv == 0) = true then _ else _) = (if (sinv == 0) = true then _ else _) >>= k
    split
    · cases valF64 p vs a <;> cases valF64 p vs b <;> cases valF64 p vs c <;> rfl
    · split
      · cases valF64 p vs b <;> cases valF64 p vs c <;> rfl
      · split <;> rfl

theorem colOfK_eq {β} (p ix nc rr gr br vs colinv) (k : Option (UInt32 × UInt32 × UInt32) → Option β) :
    colOfK p ix nc rr gr br vs colinv k = colOf p ix nc rr gr br vs colinv >>= k := by
  unfold colOfK colOf
  rcases ix.color with _ | ⟨a, b, c⟩
  · rfl
  · show (if (colinv == 0) = true then _ else _) = (if (colinv == 0) = true then _ else _) >>= k
    split
    · cases valF64 p vs a <;> cases valF64 p vs b <;> cases valF64 p vs c <;> rfl
    · split <;> rfl

theorem intOfK_eq {β} (p ix ni ir vs iinv) (k : Option UInt32 → Option β) :
    intOfK p ix ni ir vs iinv k = intOf p ix ni ir vs iinv >>= k := by
  unfold intOfK intOf
  rcases ix.intensity with _ | i
  · rfl
  · show (if (iinv == 0) = true then _ else _) = (if (iinv == 0) = true then _ else _) >>= k
    split
    · cases valF64 p vs i <;> rfl
    · split <;> rfl

theorem viewPoint_eq_K (it : SimpleIter) (vs : List Value) :
    viewPoint it vs =
      invK it.pc.prototype vs it.indices.cartesianInvalid (if it.indices.cartesian.isSome then 0 else 2)
        fun cinv => cartOfK it.pc.prototype it.indices vs cinv
        fun cartesian =>
      invK it.pc.prototype vs it.indices.sphericalInvalid (if it.indices.spherical.isSome then 0 else 2)
        fun sinv => sphOfK it.pc.prototype it.indices vs sinv
        fun spherical =>
      invK it.pc.prototype vs it.indices.colorInvalid (if it.indices.color.isSome then 0 else 1)
        fun colinv => colOfK it.pc.prototype it.indices it.opts.nc it.redRange it.greenRange it.blueRange vs colinv
        fun color =>
      invK it.pc.prototype vs it.indices.intensityInvalid (if it.indices.intensity.isSome then 0 else 1)
        fun iinv => intOfK it.pc.prototype it.indices it.opts.ni it.intensityRange vs iinv
        fun intensity =>
      invK it.pc.prototype vs it.indices.row (-1) fun row =>
      invK it.pc.prototype vs it.indices.column (-1) fun column =>
      pure ⟨cartesian, spherical, color, intensity, row, column⟩ := rfl

/-- `viewPoint` assembled from its six independent parts -/
theorem viewPoint_eq_parts (it : SimpleIter) (vs : List Value) :
    viewPoint it vs = (do
      let cartesian ← cartPart it.pc.prototype it.indices vs
      let spherical ← sphPart it.pc.prototype it.indices vs
      let color ← colPart it.pc.prototype it.indices it.opts.nc it.redRange it.greenRange it.blueRange vs
      let intensity ← intPart it.pc.prototype it.indices it.opts.ni it.intensityRange vs
      let row ← invPart it.pc.prototype vs it.indices.row (-1)
      let column ← invPart it.pc.prototype vs it.indices.column (-1)
      pure ⟨cartesian, spherical, color, intensity, row, column⟩) := by
  rw [viewPoint_eq_K]
  simp only [invK_eq, cartOfK_eq, sphOfK_eq, colOfK_eq, intOfK_eq, cartPart_eq, sphPart_eq,
    colPart_eq, intPart_eq, opt_assoc]


/-- the view fails iff one of its six parts fails -/
theorem viewPoint_none_iff_parts (it : SimpleIter) (vs : List Value) :
    viewPoint it vs = none ↔
      cartPart it.pc.prototype it.indices vs = none ∨
      sphPart it.pc.prototype it.indices vs = none ∨
      colPart it.pc.prototype it.indices it.opts.nc it.redRange it.greenRange it.blueRange vs = none ∨
      intPart it.pc.prototype it.indices it.opts.ni it.intensityRange vs = none ∨
      invPart it.pc.prototype vs it.indices.row (-1) = none ∨
      invPart it.pc.prototype vs it.indices.column (-1) = none := by
  rw [viewPoint_eq_parts]
  cases cartPart it.pc.prototype it.indices vs <;>
  cases sphPart it.pc.prototype it.indices vs <;>
  cases colPart it.pc.prototype it.indices it.opts.nc it.redRange it.greenRange it.blueRange vs <;>
  cases intPart it.pc.prototype it.indices it.opts.ni it.intensityRange vs <;>
  cases invPart it.pc.prototype vs it.indices.row (-1) <;>
  cases invPart it.pc.prototype vs it.indices.column (-1) <;> simp

/-- every lookup `viewPoint` can make succeeds: the indices are in range for the values and the
    prototype, and the value kinds convert (`valF64` / `valI64` ≠ none) -/
structure LookupsOk (it : SimpleIter) (vs : List Value) : Prop where
  cinv : ∀ i, it.indices.cartesianInvalid = some i → (valI64 it.pc.prototype vs i).isSome
  cart : ∀ a b c, it.indices.cartesian = some (a, b, c) → (valF64 it.pc.prototype vs a).isSome ∧
    (valF64 it.pc.prototype vs b).isSome ∧ (valF64 it.pc.prototype vs c).isSome
  sinv : ∀ i, it.indices.sphericalInvalid = some i → (valI64 it.pc.prototype vs i).isSome
  sph : ∀ a b c, it.indices.spherical = some (a, b, c) → (valF64 it.pc.prototype vs a).isSome ∧
    (valF64 it.pc.prototype vs b).isSome ∧ (valF64 it.pc.prototype vs c).isSome
  colinv : ∀ i, it.indices.colorInvalid = some i → (valI64 it.pc.prototype vs i).isSome
  col : ∀ a b c, it.indices.color = some (a, b, c) → (valF64 it.pc.prototype vs a).isSome ∧
    (valF64 it.pc.prototype vs b).isSome ∧ (valF64 it.pc.prototype vs c).isSome
  iinv : ∀ i, it.indices.intensityInvalid = some i → (valI64 it.pc.prototype vs i).isSome
  int : ∀ i, it.indices.intensity = some i → (valF64 it.pc.prototype vs i).isSome
  row : ∀ i, it.indices.row = some i → (valI64 it.pc.prototype vs i).isSome
  column : ∀ i, it.indices.column = some i → (valI64 it.pc.prototype vs i).isSome

/-- the field is present, an invalid-state record is present, and its stored value is outside the
    documented set -/
def BadState (p : Prototype) (vs : List Value) (fieldPresent : Bool) (idx : Option Nat)
    (allowed : List Int) : Prop :=
  fieldPresent = true ∧ ∃ i v, idx = some i ∧ valI64 p vs i = some v ∧ v ∉ allowed

theorem invPart_isSome {p vs idx d} (h : ∀ i, idx = some i → (valI64 p vs i).isSome) :
    ∃ v, invPart p vs idx d = some v ∧ (idx = none → v = d) ∧
      (∀ i, idx = some i → valI64 p vs i = some v) := by
  cases idx with
  | none => exact ⟨d, rfl, fun _ => rfl, by simp⟩
  | some i =>
    obtain ⟨v, hv⟩ := Option.isSome_iff_exists.1 (h i rfl)
    exact ⟨v, by simp [invPart, hv], by simp, by simp [hv]⟩

theorem cartPart_none_iff {p : Prototype} {ix : Indices} {vs : List Value}
    (h1 : ∀ i, ix.cartesianInvalid = some i → (valI64 p vs i).isSome)
    (h2 : ∀ a b c, ix.cartesian = some (a, b, c) →
      (valF64 p vs a).isSome ∧ (valF64 p vs b).isSome ∧ (valF64 p vs c).isSome) :
    cartPart p ix vs = none ↔ BadState p vs ix.cartesian.isSome ix.cartesianInvalid [0, 1, 2] := by
  obtain ⟨v, hv, hd, hs⟩ := invPart_isSome (d := if ix.cartesian.isSome then 0 else 2) h1
  rw [cartPart_eq, hv]
  show cartOf p ix vs v = none ↔ _
  unfold cartOf BadState
  rcases hc : ix.cartesian with _ | ⟨a, b, c⟩
  · simp
  · obtain ⟨ha, hb, hc'⟩ := h2 a b c hc
    obtain ⟨x, hx⟩ := Option.isSome_iff_exists.1 ha
    obtain ⟨y, hy⟩ := Option.isSome_iff_exists.1 hb
    obtain ⟨z, hz⟩ := Option.isSome_iff_exists.1 hc'
    rcases hi : ix.cartesianInvalid with _ | i
    · have := hd hi; simp [hc] at this; subst this; simp [hx, hy, hz]
    · have := hs i hi
      simp only [hx, hy, hz]
      by_cases e0 : v = 0
      · simp [e0, this]
      · by_cases e1 : v = 1
        · simp [e1, this]
        · by_cases e2 : v = 2
          · simp [e2, this]
          · simp [e0, e1, e2, this]


theorem sphPart_none_iff {p : Prototype} {ix : Indices} {vs : List Value}
    (h1 : ∀ i, ix.sphericalInvalid = some i → (valI64 p vs i).isSome)
    (h2 : ∀ a b c, ix.spherical = some (a, b, c) →
      (valF64 p vs a).isSome ∧ (valF64 p vs b).isSome ∧ (valF64 p vs c).isSome) :
    sphPart p ix vs = none ↔ BadState p vs ix.spherical.isSome ix.sphericalInvalid [0, 1, 2] := by
  obtain ⟨v, hv, hd, hs⟩ := invPart_isSome (d := if ix.spherical.isSome then 0 else 2) h1
  rw [sphPart_eq, hv]
  show sphOf p ix vs v = none ↔ _
  unfold sphOf BadState
  rcases hc : ix.spherical with _ | ⟨a, b, c⟩
  · simp
  · obtain ⟨ha, hb, hc'⟩ := h2 a b c hc
    obtain ⟨x, hx⟩ := Option.isSome_iff_exists.1 ha
    obtain ⟨y, hy⟩ := Option.isSome_iff_exists.1 hb
    obtain ⟨z, hz⟩ := Option.isSome_iff_exists.1 hc'
    rcases hi : ix.sphericalInvalid with _ | i
    · have := hd hi; simp [hc] at this; subst this; simp [hx, hy, hz]
    · have := hs i hi
      simp only [hx, hy, hz]
      by_cases e0 : v = 0
      · simp [e0, this]
      · by_cases e1 : v = 1
        · simp [e1, this]
        · by_cases e2 : v = 2
          · simp [e2, this]
          · simp [e0, e1, e2, this]

theorem colPart_none_iff {p : Prototype} {ix : Indices} {nc : Bool} {rr gr br : Option Range}
    {vs : List Value}
    (h1 : ∀ i, ix.colorInvalid = some i → (valI64 p vs i).isSome)
    (h2 : ∀ a b c, ix.color = some (a, b, c) →
      (valF64 p vs a).isSome ∧ (valF64 p vs b).isSome ∧ (valF64 p vs c).isSome) :
    colPart p ix nc rr gr br vs = none ↔ BadState p vs ix.color.isSome ix.colorInvalid [0, 1] := by
  obtain ⟨v, hv, hd, hs⟩ := invPart_isSome (d := if ix.color.isSome then 0 else 1) h1
  rw [colPart_eq, hv]
  show colOf p ix nc rr gr br vs v = none ↔ _
  unfold colOf BadState
  rcases hc : ix.color with _ | ⟨a, b, c⟩
  · simp
  · obtain ⟨ha, hb, hc'⟩ := h2 a b c hc
    obtain ⟨x, hx⟩ := Option.isSome_iff_exists.1 ha
    obtain ⟨y, hy⟩ := Option.isSome_iff_exists.1 hb
    obtain ⟨z, hz⟩ := Option.isSome_iff_exists.1 hc'
    rcases hi : ix.colorInvalid with _ | i
    · have := hd hi; simp [hc] at this; subst this; simp [hx, hy, hz]
    · have := hs i hi
      simp only [hx, hy, hz]
      by_cases e0 : v = 0
      · simp [e0, this]
      · by_cases e1 : v = 1
        · simp [e1, this]
        · simp [e0, e1, this]

theorem intPart_none_iff {p : Prototype} {ix : Indices} {ni : Bool} {ir : Option Range}
    {vs : List Value}
    (h1 : ∀ i, ix.intensityInvalid = some i → (valI64 p vs i).isSome)
    (h2 : ∀ i, ix.intensity = some i → (valF64 p vs i).isSome) :
    intPart p ix ni ir vs = none ↔ BadState p vs ix.intensity.isSome ix.intensityInvalid [0, 1] := by
  obtain ⟨v, hv, hd, hs⟩ := invPart_isSome (d := if ix.intensity.isSome then 0 else 1) h1
  rw [intPart_eq, hv]
  show intOf p ix ni ir vs v = none ↔ _
  unfold intOf BadState
  rcases hc : ix.intensity with _ | a
  · simp
  · obtain ⟨x, hx⟩ := Option.isSome_iff_exists.1 (h2 a hc)
    rcases hi : ix.intensityInvalid with _ | i
    · have := hd hi; simp [hc] at this; subst this; simp [hx]
    · have := hs i hi
      simp only [hx]
      by_cases e0 : v = 0
      · simp [e0, this]
      · by_cases e1 : v = 1
        · simp [e1, this]
        · simp [e0, e1, this]

/-- (b): when every lookup succeeds, the view fails exactly when a stored invalid-state value is
    outside its documented set – {0,1,2} for cartesian / spherical, {0,1} for colour / intensity –
    and the field it qualifies is present in the prototype -/
theorem viewPoint_none_iff (it : SimpleIter) (vs : List Value) (h : LookupsOk it vs) :
    viewPoint it vs = none ↔
      BadState it.pc.prototype vs it.indices.cartesian.isSome it.indices.cartesianInvalid [0, 1, 2] ∨
      BadState it.pc.prototype vs it.indices.spherical.isSome it.indices.sphericalInvalid [0, 1, 2] ∨
      BadState it.pc.prototype vs it.indices.color.isSome it.indices.colorInvalid [0, 1] ∨
      BadState it.pc.prototype vs it.indices.intensity.isSome it.indices.intensityInvalid [0, 1] := by
  rw [viewPoint_none_iff_parts, cartPart_none_iff h.cinv h.cart, sphPart_none_iff h.sinv h.sph,
    colPart_none_iff h.colinv h.col, intPart_none_iff h.iinv h.int]
  obtain ⟨v, hv, _, _⟩ := invPart_isSome (d := -1) h.row
  obtain ⟨w, hw, _, _⟩ := invPart_isSome (d := -1) h.column
  simp [hv, hw]

/-- (a) ∨ (b): the view fails only if some lookup fails (index out of range for the values or the
    prototype, or a value kind that does not convert) or a stored invalid-state value is outside
    its documented set -/
theorem viewPoint_none_only_if (it : SimpleIter) (vs : List Value) (h : viewPoint it vs = none) :
    ¬ LookupsOk it vs ∨
      BadState it.pc.prototype vs it.indices.cartesian.isSome it.indices.cartesianInvalid [0, 1, 2] ∨
      BadState it.pc.prototype vs it.indices.spherical.isSome it.indices.sphericalInvalid [0, 1, 2] ∨
      BadState it.pc.prototype vs it.indices.color.isSome it.indices.colorInvalid [0, 1] ∨
      BadState it.pc.prototype vs it.indices.intensity.isSome it.indices.intensityInvalid [0, 1] := by
  by_cases hl : LookupsOk it vs
  · exact .inr ((viewPoint_none_iff it vs hl).1 h)
  · exact .inl hl

/-- the lookups: `valF64` / `valI64` fail exactly when the index is out of range for the values
    or the prototype, or the value kind does not convert -/
theorem valI64_eq_none_iff (p : Prototype) (vs : List Value) (i : Nat) :
    valI64 p vs i = none ↔ vs.length ≤ i ∨ p.length ≤ i ∨
      ∃ v r, vs[i]? = some v ∧ p[i]? = some r ∧ v.toI64 r.dt = none := by
  unfold valI64
  cases hv : vs[i]? with
  | none => simp [List.getElem?_eq_none_iff.1 hv]
  | some v =>
    have h1 : ¬ vs.length ≤ i := by
      intro h; rw [List.getElem?_eq_none_iff.2 h] at hv; simp at hv
    cases hr : p[i]? with
    | none => simp [List.getElem?_eq_none_iff.1 hr]
    | some r =>
      have h2 : ¬ p.length ≤ i := by
        intro h; rw [List.getElem?_eq_none_iff.2 h] at hr; simp at hr
      simp [h1, h2]

theorem valF64_eq_none_iff (p : Prototype) (vs : List Value) (i : Nat) :
    valF64 p vs i = none ↔ vs.length ≤ i ∨ p.length ≤ i ∨
      ∃ v r, vs[i]? = some v ∧ p[i]? = some r ∧ v.toF64 r.dt = none := by
  unfold valF64
  cases hv : vs[i]? with
  | none => simp [List.getElem?_eq_none_iff.1 hv]
  | some v =>
    have h1 : ¬ vs.length ≤ i := by
      intro h; rw [List.getElem?_eq_none_iff.2 h] at hv; simp at hv
    cases hr : p[i]? with
    | none => simp [List.getElem?_eq_none_iff.1 hr]
    | some r =>
      have h2 : ¬ p.length ≤ i := by
        intro h; rw [List.getElem?_eq_none_iff.2 h] at hr; simp at hr
      simp [h1, h2]


/-! ## 7. option locality: which fields each switch can influence -/

/-! ### the four conversions, field by field -/

theorem convertToCartesian_frame (p : SPoint) :
    (convertToCartesian p).spherical = p.spherical ∧ (convertToCartesian p).color = p.color ∧
    (convertToCartesian p).intensity = p.intensity ∧ (convertToCartesian p).row = p.row ∧
    (convertToCartesian p).column = p.column := by
  unfold convertToCartesian
  (repeat' split) <;> simp

theorem convertToSpherical_frame (p : SPoint) :
    (convertToSpherical p).cartesian = p.cartesian ∧ (convertToSpherical p).color = p.color ∧
    (convertToSpherical p).intensity = p.intensity ∧ (convertToSpherical p).row = p.row ∧
    (convertToSpherical p).column = p.column := by
  unfold convertToSpherical
  (repeat' split) <;> simp

theorem convertIntensity_frame (p : SPoint) :
    (convertIntensity p).cartesian = p.cartesian ∧ (convertIntensity p).spherical = p.spherical ∧
    (convertIntensity p).intensity = p.intensity ∧ (convertIntensity p).row = p.row ∧
    (convertIntensity p).column = p.column := by
  unfold convertIntensity
  (repeat' split) <;> simp

theorem transformPoint_frame (rot : Array Float) (tr : Float × Float × Float) (p : SPoint) :
    (transformPoint rot tr p).spherical = p.spherical ∧ (transformPoint rot tr p).color = p.color ∧
    (transformPoint rot tr p).intensity = p.intensity ∧ (transformPoint rot tr p).row = p.row ∧
    (transformPoint rot tr p).column = p.column := by
  unfold transformPoint
  split <;> simp

/-- the new cartesian coordinates are a function of the old cartesian and spherical ones only -/
theorem convertToCartesian_cartesian_congr {p p' : SPoint} (hc : p.cartesian = p'.cartesian)
    (hs : p.spherical = p'.spherical) :
    (convertToCartesian p).cartesian = (convertToCartesian p').cartesian := by
  unfold convertToCartesian
  rw [hc, hs]
  (repeat' split) <;> simp [hc]

theorem convertToSpherical_spherical_congr {p p' : SPoint} (hc : p.cartesian = p'.cartesian)
    (hs : p.spherical = p'.spherical) :
    (convertToSpherical p).spherical = (convertToSpherical p').spherical := by
  unfold convertToSpherical
  rw [hc, hs]
  (repeat' split) <;> simp [hs]

theorem convertIntensity_color_congr {p p' : SPoint} (hc : p.color = p'.color)
    (hi : p.intensity = p'.intensity) : (convertIntensity p).color = (convertIntensity p').color := by
  unfold convertIntensity
  rw [hc, hi]
  split
  · exact hc
  · split <;> simp_all

theorem convertIntensity_color_of_isSome {p : SPoint} (h : p.color.isSome) :
    (convertIntensity p).color = p.color := by
  simp [convertIntensity, h]

theorem transformPoint_cartesian_congr (rot : Array Float) (tr : Float × Float × Float)
    {p p' : SPoint} (hc : p.cartesian = p'.cartesian) :
    (transformPoint rot tr p).cartesian = (transformPoint rot tr p').cartesian := by
  unfold transformPoint
  rw [hc]
  split <;> simp [hc]


/-! ### the composition: what each output field depends on -/

/-- `intensity`, `row`, `column` are never touched by the post-processing -/
theorem perPointOf_frame (o : Options) (pose : Bool) (rot : Array Float) (tr : Float × Float × Float) (p : SPoint) :
    (perPointOf o pose rot tr p).intensity = p.intensity ∧ (perPointOf o pose rot tr p).row = p.row ∧
    (perPointOf o pose rot tr p).column = p.column := by
  unfold perPointOf
  cases o.s2c <;> cases o.c2s <;> cases o.i2c <;> cases o.transform <;> cases pose <;>
    simp [convertToCartesian_frame, convertToSpherical_frame, convertIntensity_frame,
      transformPoint_frame]

/-- the cartesian / spherical coordinates before the transform are a function of the incoming
    cartesian and spherical coordinates and of the switches `s2c`, `c2s` only -/
theorem coords_congr {o o' : Options} {p p' : SPoint} (hc : p.cartesian = p'.cartesian)
    (hs : p.spherical = p'.spherical) (h1 : o.s2c = o'.s2c) :
    let q := if o.s2c then convertToCartesian p else p
    let q' := if o'.s2c then convertToCartesian p' else p'
    q.cartesian = q'.cartesian ∧ q.spherical = q'.spherical := by
  rw [← h1]
  cases o.s2c
  · exact ⟨hc, hs⟩
  · simp only [if_true]
    exact ⟨convertToCartesian_cartesian_congr hc hs,
      by rw [(convertToCartesian_frame p).1, (convertToCartesian_frame p').1, hs]⟩

/-- outgoing `cartesian` = F(incoming cartesian, incoming spherical; `s2c`, `transform`, has-pose, pose) -/
theorem perPointOf_cartesian_congr {o o' : Options} (pose : Bool) (rot : Array Float) (tr : Float × Float × Float)
    {p p' : SPoint} (hc : p.cartesian = p'.cartesian) (hs : p.spherical = p'.spherical)
    (h1 : o.s2c = o'.s2c) (h2 : o.transform = o'.transform) :
    (perPointOf o pose rot tr p).cartesian = (perPointOf o' pose rot tr p').cartesian := by
  have ⟨e1, _⟩ := coords_congr hc hs h1
  unfold perPointOf
  rw [← h2]
  simp only at e1 ⊢
  generalize (if o.s2c then convertToCartesian p else p) = q at e1 ⊢
  generalize (if o'.s2c then convertToCartesian p' else p') = q' at e1 ⊢
  have e2 : (if o.c2s then convertToSpherical q else q).cartesian
      = (if o'.c2s then convertToSpherical q' else q').cartesian := by
    cases o.c2s <;> cases o'.c2s <;> simp [convertToSpherical_frame, e1]
  generalize (if o.c2s then convertToSpherical q else q) = q2 at e2 ⊢
  generalize (if o'.c2s then convertToSpherical q' else q') = q2' at e2 ⊢
  have e3 : (if o.i2c then convertIntensity q2 else q2).cartesian
      = (if o'.i2c then convertIntensity q2' else q2').cartesian := by
    cases o.i2c <;> cases o'.i2c <;> simp [convertIntensity_frame, e2]
  generalize (if o.i2c then convertIntensity q2 else q2) = q3 at e3 ⊢
  generalize (if o'.i2c then convertIntensity q2' else q2') = q3' at e3 ⊢
  cases o.transform <;> cases pose
  · simpa using e3
  · simpa using e3
  · simpa using e3
  · simpa using transformPoint_cartesian_congr rot tr e3

/-- outgoing `spherical` = G(incoming cartesian, incoming spherical; `s2c`, `c2s`) -/
theorem perPointOf_spherical_congr {o o' : Options} (pose pose' : Bool) (rot rot' : Array Float)
    (tr tr' : Float × Float × Float)
    {p p' : SPoint} (hc : p.cartesian = p'.cartesian) (hs : p.spherical = p'.spherical)
    (h1 : o.s2c = o'.s2c) (h2 : o.c2s = o'.c2s) :
    (perPointOf o pose rot tr p).spherical = (perPointOf o' pose' rot' tr' p').spherical := by
  have ⟨e1, e1'⟩ := coords_congr hc hs h1
  unfold perPointOf
  rw [← h2]
  simp only at e1 e1' ⊢
  generalize (if o.s2c then convertToCartesian p else p) = q at e1 e1' ⊢
  generalize (if o'.s2c then convertToCartesian p' else p') = q' at e1 e1' ⊢
  have e2 : (if o.c2s then convertToSpherical q else q).spherical
      = (if o.c2s then convertToSpherical q' else q').spherical := by
    cases o.c2s
    · simpa using e1'
    · simpa using convertToSpherical_spherical_congr e1 e1'
  generalize (if o.c2s then convertToSpherical q else q) = q2 at e2 ⊢
  generalize (if o.c2s then convertToSpherical q' else q') = q2' at e2 ⊢
  have e3 : (if o.i2c then convertIntensity q2 else q2).spherical
      = (if o'.i2c then convertIntensity q2' else q2').spherical := by
    cases o.i2c <;> cases o'.i2c <;> simp [convertIntensity_frame, e2]
  generalize (if o.i2c then convertIntensity q2 else q2) = q3 at e3 ⊢
  generalize (if o'.i2c then convertIntensity q2' else q2') = q3' at e3 ⊢
  cases o.transform <;> cases o'.transform <;> cases pose <;> cases pose' <;> simp [transformPoint_frame, e3]

/-- outgoing `color` = H(incoming color, incoming intensity; `i2c`) -/
theorem perPointOf_color_congr {o o' : Options} (pose pose' : Bool) (rot rot' : Array Float)
    (tr tr' : Float × Float × Float)
    {p p' : SPoint} (hc : p.color = p'.color) (hi : p.intensity = p'.intensity)
    (h1 : o.i2c = o'.i2c) :
    (perPointOf o pose rot tr p).color = (perPointOf o' pose' rot' tr' p').color := by
  unfold perPointOf
  rw [← h1]
  have e1 : (if o.s2c then convertToCartesian p else p).color
      = (if o'.s2c then convertToCartesian p' else p').color ∧
      (if o.s2c then convertToCartesian p else p).intensity
      = (if o'.s2c then convertToCartesian p' else p').intensity := by
    cases o.s2c <;> cases o'.s2c <;> simp [convertToCartesian_frame, hc, hi]
  simp only
  generalize (if o.s2c then convertToCartesian p else p) = q at e1 ⊢
  generalize (if o'.s2c then convertToCartesian p' else p') = q' at e1 ⊢
  have e2 : (if o.c2s then convertToSpherical q else q).color
      = (if o'.c2s then convertToSpherical q' else q').color ∧
      (if o.c2s then convertToSpherical q else q).intensity
      = (if o'.c2s then convertToSpherical q' else q').intensity := by
    cases o.c2s <;> cases o'.c2s <;> simp [convertToSpherical_frame, e1]
  generalize (if o.c2s then convertToSpherical q else q) = q2 at e2 ⊢
  generalize (if o'.c2s then convertToSpherical q' else q') = q2' at e2 ⊢
  have e3 : (if o.i2c then convertIntensity q2 else q2).color
      = (if o.i2c then convertIntensity q2' else q2').color := by
    cases o.i2c
    · simpa using e2.1
    · simpa using convertIntensity_color_congr e2.1 e2.2
  generalize (if o.i2c then convertIntensity q2 else q2) = q3 at e3 ⊢
  generalize (if o.i2c then convertIntensity q2' else q2') = q3' at e3 ⊢
  cases o.transform <;> cases o'.transform <;> cases pose <;> cases pose' <;> simp [transformPoint_frame, e3]

/-- with `i2c` off, or when the incoming colour is present, the colour is passed through -/
theorem perPointOf_color_passthrough (o : Options) (pose : Bool) (rot : Array Float) (tr : Float × Float × Float)
    (p : SPoint) (h : o.i2c = false ∨ p.color.isSome) : (perPointOf o pose rot tr p).color = p.color := by
  unfold perPointOf
  have e1 : (if o.s2c then convertToCartesian p else p).color = p.color := by
    cases o.s2c <;> simp [convertToCartesian_frame]
  simp only
  generalize (if o.s2c then convertToCartesian p else p) = q at e1 ⊢
  have e2 : (if o.c2s then convertToSpherical q else q).color = p.color := by
    cases o.c2s <;> simp [convertToSpherical_frame, e1]
  generalize (if o.c2s then convertToSpherical q else q) = q2 at e2 ⊢
  have e3 : (if o.i2c then convertIntensity q2 else q2).color = p.color := by
    rcases h with h | h
    · simp [h, e2]
    · cases o.i2c
      · simpa using e2
      · rw [← e2] at h; simpa [convertIntensity_color_of_isSome h] using e2
  generalize (if o.i2c then convertIntensity q2 else q2) = q3 at e3 ⊢
  cases o.transform <;> cases pose <;> simp [transformPoint_frame, e3]


/-! ### the six switches -/

/-- `transform` influences at most `cartesian` (whether or not the point cloud has a pose: `pose`) -/
theorem locality_transform (o : Options) (b : Bool) (pose : Bool) (rot : Array Float) (tr : Float × Float × Float)
    (p : SPoint) :
    let f' := perPointOf { o with transform := b } pose rot tr p
    let f := perPointOf o pose rot tr p
    f'.spherical = f.spherical ∧ f'.color = f.color ∧ f'.intensity = f.intensity ∧
    f'.row = f.row ∧ f'.column = f.column := by
  have h' := perPointOf_frame { o with transform := b } pose rot tr p
  have h := perPointOf_frame o pose rot tr p
  exact ⟨perPointOf_spherical_congr pose pose rot rot tr tr rfl rfl rfl rfl,
    perPointOf_color_congr pose pose rot rot tr tr rfl rfl rfl,
    by rw [h'.1, h.1], by rw [h'.2.1, h.2.1], by rw [h'.2.2, h.2.2]⟩

/-- `s2c` influences at most `cartesian` and – only when `c2s` is on – `spherical` -/
theorem locality_s2c (o : Options) (b : Bool) (pose : Bool) (rot : Array Float) (tr : Float × Float × Float)
    (p : SPoint) :
    let f' := perPointOf { o with s2c := b } pose rot tr p
    let f := perPointOf o pose rot tr p
    f'.color = f.color ∧ f'.intensity = f.intensity ∧ f'.row = f.row ∧ f'.column = f.column ∧
    (o.c2s = false → f'.spherical = f.spherical) := by
  have h' := perPointOf_frame { o with s2c := b } pose rot tr p
  have h := perPointOf_frame o pose rot tr p
  refine ⟨perPointOf_color_congr pose pose rot rot tr tr rfl rfl rfl,
    by rw [h'.1, h.1], by rw [h'.2.1, h.2.1], by rw [h'.2.2, h.2.2], ?_⟩
  intro hc
  unfold perPointOf
  simp only [hc]
  cases b <;> cases o.s2c <;> cases o.i2c <;> cases o.transform <;> cases pose <;>
    simp [convertToCartesian_frame, convertIntensity_frame, transformPoint_frame]

/-- `c2s` influences at most `spherical` -/
theorem locality_c2s (o : Options) (b : Bool) (pose : Bool) (rot : Array Float) (tr : Float × Float × Float)
    (p : SPoint) :
    let f' := perPointOf { o with c2s := b } pose rot tr p
    let f := perPointOf o pose rot tr p
    f'.cartesian = f.cartesian ∧ f'.color = f.color ∧ f'.intensity = f.intensity ∧
    f'.row = f.row ∧ f'.column = f.column := by
  have h' := perPointOf_frame { o with c2s := b } pose rot tr p
  have h := perPointOf_frame o pose rot tr p
  exact ⟨perPointOf_cartesian_congr pose rot tr rfl rfl rfl rfl,
    perPointOf_color_congr pose pose rot rot tr tr rfl rfl rfl,
    by rw [h'.1, h.1], by rw [h'.2.1, h.2.1], by rw [h'.2.2, h.2.2]⟩

/-- `i2c` influences at most `color` -/
theorem locality_i2c (o : Options) (b : Bool) (pose : Bool) (rot : Array Float) (tr : Float × Float × Float)
    (p : SPoint) :
    let f' := perPointOf { o with i2c := b } pose rot tr p
    let f := perPointOf o pose rot tr p
    f'.cartesian = f.cartesian ∧ f'.spherical = f.spherical ∧ f'.intensity = f.intensity ∧
    f'.row = f.row ∧ f'.column = f.column := by
  have h' := perPointOf_frame { o with i2c := b } pose rot tr p
  have h := perPointOf_frame o pose rot tr p
  exact ⟨perPointOf_cartesian_congr pose rot tr rfl rfl rfl rfl,
    perPointOf_spherical_congr pose pose rot rot tr tr rfl rfl rfl rfl,
    by rw [h'.1, h.1], by rw [h'.2.1, h.2.1], by rw [h'.2.2, h.2.2]⟩

/-- `transform` influences at most the VALID `cartesian` coordinates: a direction-only or invalid
    coordinate triple (kind 1, 2) is passed through whatever the switch says -/
theorem locality_transform_cartesian (o : Options) (b : Bool) (pose : Bool) (rot : Array Float)
    (tr : Float × Float × Float) (p : SPoint) :
    let f' := perPointOf { o with transform := b } pose rot tr p
    let f := perPointOf o pose rot tr p
    f'.cartesian.kind = f.cartesian.kind ∧ (f.cartesian.kind ≠ 0 → f'.cartesian = f.cartesian) := by
  have key : ∀ q : SPoint, (transformPoint rot tr q).cartesian.kind = q.cartesian.kind ∧
      (q.cartesian.kind ≠ 0 → (transformPoint rot tr q).cartesian = q.cartesian) := by
    intro q
    unfold transformPoint
    split
    · rename_i h; simp at h; simp [h]
    · simp
  unfold perPointOf
  simp only
  generalize (if o.i2c then convertIntensity _ else _) = q
  cases b <;> cases o.transform <;> cases pose <;> simp [key q]
  · exact fun h => ((key q).2 h).symm
  · exact (key q).2

/-- without a pose the switch `transform` is not read by the post-processing at all -/
theorem no_pose_no_change_perPointOf (o : Options) (b : Bool) (rot : Array Float)
    (tr : Float × Float × Float) :
    perPointOf { o with transform := b } false rot tr = perPointOf o false rot tr := by
  funext p; simp [perPointOf]

/-- `ni`, `nc` are not read by the post-processing at all -/
theorem perPointOf_ni (o : Options) (b : Bool) (pose : Bool) (rot : Array Float) (tr : Float × Float × Float) :
    perPointOf { o with ni := b } pose rot tr = perPointOf o pose rot tr := rfl
theorem perPointOf_nc (o : Options) (b : Bool) (pose : Bool) (rot : Array Float) (tr : Float × Float × Float) :
    perPointOf { o with nc := b } pose rot tr = perPointOf o pose rot tr := rfl

/-- the four post-processing switches are not read by `viewPoint` -/
theorem viewPoint_postopts (it : SimpleIter) (o : Options) (hni : o.ni = it.opts.ni)
    (hnc : o.nc = it.opts.nc) : viewPoint { it with opts := o } = viewPoint it := by
  funext vs
  rw [viewPoint_eq_parts, viewPoint_eq_parts]
  simp only [hni, hnc]

/-- two optional points fail together or succeed together with `R`-related values -/
def AgreeOn (R : SPoint → SPoint → Prop) : Option SPoint → Option SPoint → Prop
  | none, none => True
  | some p', some p => R p' p
  | _, _ => False

theorem AgreeOn.isSome_eq {R v' v} (h : AgreeOn R v' v) : v'.isSome = v.isSome := by
  cases v' <;> cases v <;> simp_all [AgreeOn]

theorem AgreeOn.map {R R' : SPoint → SPoint → Prop} {v' v : Option SPoint} {g' g : SPoint → SPoint}
    (h : AgreeOn R v' v) (hg : ∀ p' p, R p' p → R' (g' p') (g p)) :
    AgreeOn R' (v'.map g') (v.map g) := by
  cases v' <;> cases v <;> simp_all [AgreeOn]

theorem colPart_isSome_nc (p ix) (b b' : Bool) (rr gr br vs) :
    (colPart p ix b rr gr br vs).isSome = (colPart p ix b' rr gr br vs).isSome := by
  rw [colPart_eq, colPart_eq]
  cases invPart p vs ix.colorInvalid (if ix.color.isSome then 0 else 1) with
  | none => rfl
  | some v =>
    show (colOf p ix b rr gr br vs v).isSome = (colOf p ix b' rr gr br vs v).isSome
    unfold colOf
    rcases ix.color with _ | ⟨x, y, z⟩
    · rfl
    · show (if (v == 0) = true then _ else _ : Option _).isSome
        = (if (v == 0) = true then _ else _ : Option _).isSome
      split
      · cases valF64 p vs x <;> cases valF64 p vs y <;> cases valF64 p vs z <;> rfl
      · rfl

theorem intPart_isSome_ni (p ix) (b b' : Bool) (ir vs) :
    (intPart p ix b ir vs).isSome = (intPart p ix b' ir vs).isSome := by
  rw [intPart_eq, intPart_eq]
  cases invPart p vs ix.intensityInvalid (if ix.intensity.isSome then 0 else 1) with
  | none => rfl
  | some v =>
    show (intOf p ix b ir vs v).isSome = (intOf p ix b' ir vs v).isSome
    unfold intOf
    rcases ix.intensity with _ | x
    · rfl
    · show (if (v == 0) = true then _ else _ : Option _).isSome
        = (if (v == 0) = true then _ else _ : Option _).isSome
      split
      · cases valF64 p vs x <;> rfl
      · rfl

/-- `nc` (colour normalisation) influences at most the `color` of the view … -/
theorem view_locality_nc (it : SimpleIter) (b : Bool) (vs : List Value) :
    AgreeOn (fun p' p => p'.cartesian = p.cartesian ∧ p'.spherical = p.spherical ∧
        p'.intensity = p.intensity ∧ p'.row = p.row ∧ p'.column = p.column)
      (viewPoint { it with opts := { it.opts with nc := b } } vs) (viewPoint it vs) := by
  rw [viewPoint_eq_parts, viewPoint_eq_parts]
  have h := colPart_isSome_nc it.pc.prototype it.indices b it.opts.nc it.redRange it.greenRange
    it.blueRange vs
  simp only
  revert h
  cases cartPart it.pc.prototype it.indices vs <;>
  cases sphPart it.pc.prototype it.indices vs <;>
  cases colPart it.pc.prototype it.indices b it.redRange it.greenRange it.blueRange vs <;>
  cases colPart it.pc.prototype it.indices it.opts.nc it.redRange it.greenRange it.blueRange vs <;>
  cases intPart it.pc.prototype it.indices it.opts.ni it.intensityRange vs <;>
  cases invPart it.pc.prototype vs it.indices.row (-1) <;>
  cases invPart it.pc.prototype vs it.indices.column (-1) <;> simp_all [AgreeOn]

/-- … and `ni` (intensity normalisation) at most the `intensity` of the view -/
theorem view_locality_ni (it : SimpleIter) (b : Bool) (vs : List Value) :
    AgreeOn (fun p' p => p'.cartesian = p.cartesian ∧ p'.spherical = p.spherical ∧
        p'.color = p.color ∧ p'.row = p.row ∧ p'.column = p.column)
      (viewPoint { it with opts := { it.opts with ni := b } } vs) (viewPoint it vs) := by
  rw [viewPoint_eq_parts, viewPoint_eq_parts]
  have h := intPart_isSome_ni it.pc.prototype it.indices b it.opts.ni it.intensityRange vs
  simp only
  revert h
  cases cartPart it.pc.prototype it.indices vs <;>
  cases sphPart it.pc.prototype it.indices vs <;>
  cases colPart it.pc.prototype it.indices it.opts.nc it.redRange it.greenRange it.blueRange vs <;>
  cases intPart it.pc.prototype it.indices b it.intensityRange vs <;>
  cases intPart it.pc.prototype it.indices it.opts.ni it.intensityRange vs <;>
  cases invPart it.pc.prototype vs it.indices.row (-1) <;>
  cases invPart it.pc.prototype vs it.indices.column (-1) <;> simp_all [AgreeOn]

/-- on the documented view: `nc` influences at most `color` -/
theorem locality_nc (it : SimpleIter) (b : Bool) (vs : List Value) :
    AgreeOn (fun f' f => f'.cartesian = f.cartesian ∧ f'.spherical = f.spherical ∧
        f'.intensity = f.intensity ∧ f'.row = f.row ∧ f'.column = f.column)
      (fullView { it with opts := { it.opts with nc := b } } vs) (fullView it vs) := by
  unfold fullView
  refine (view_locality_nc it b vs).map ?_
  rintro p' p ⟨hc, hs, hi, hr, hcl⟩
  simp only [perPoint_eq]
  have h' := perPointOf_frame { it.opts with nc := b } it.pc.transform.isSome it.rotation it.translation p'
  have h := perPointOf_frame it.opts it.pc.transform.isSome it.rotation it.translation p
  exact ⟨perPointOf_cartesian_congr _ _ _ hc hs rfl rfl,
    perPointOf_spherical_congr _ _ _ _ _ _ hc hs rfl rfl,
    by rw [h'.1, h.1, hi], by rw [h'.2.1, h.2.1, hr], by rw [h'.2.2, h.2.2, hcl]⟩

/-- on the documented view: `ni` influences at most `intensity` and – only when `i2c` is on and
    the point has no colour of its own – the `color` derived from the intensity -/
theorem locality_ni (it : SimpleIter) (b : Bool) (vs : List Value) :
    AgreeOn (fun f' f => f'.cartesian = f.cartesian ∧ f'.spherical = f.spherical ∧
        f'.row = f.row ∧ f'.column = f.column ∧ (it.opts.i2c = false → f'.color = f.color))
      (fullView { it with opts := { it.opts with ni := b } } vs) (fullView it vs) := by
  unfold fullView
  refine (view_locality_ni it b vs).map ?_
  rintro p' p ⟨hc, hs, hcol, hr, hcl⟩
  simp only [perPoint_eq]
  have h' := perPointOf_frame { it.opts with ni := b } it.pc.transform.isSome it.rotation it.translation p'
  have h := perPointOf_frame it.opts it.pc.transform.isSome it.rotation it.translation p
  refine ⟨perPointOf_cartesian_congr _ _ _ hc hs rfl rfl,
    perPointOf_spherical_congr _ _ _ _ _ _ hc hs rfl rfl,
    by rw [h'.2.1, h.2.1, hr], by rw [h'.2.2, h.2.2, hcl], ?_⟩
  intro hi
  rw [perPointOf_color_passthrough { it.opts with ni := b } _ _ _ p' (.inl hi),
    perPointOf_color_passthrough it.opts _ _ _ p (.inl hi), hcol]

/-- `ni` and stored colour: when the view has a colour of its own, `ni` does not change it -/
theorem locality_ni_color (it : SimpleIter) (b : Bool) (vs : List Value) (p' p : SPoint)
    (h' : viewPoint { it with opts := { it.opts with ni := b } } vs = some p')
    (h : viewPoint it vs = some p) (hcol : p.color.isSome) :
    (perPoint { it with opts := { it.opts with ni := b } } p').color = (perPoint it p).color := by
  have hv := view_locality_ni it b vs
  rw [h', h] at hv
  obtain ⟨_, _, hc, _, _⟩ := hv
  simp only [perPoint_eq]
  rw [perPointOf_color_passthrough { it.opts with ni := b } _ _ _ p' (.inr (by rw [hc]; exact hcol)),
    perPointOf_color_passthrough it.opts _ _ _ p (.inr hcol), hc]

/-- the four post-processing switches on the documented view (they are not read by `viewPoint`) -/
theorem fullView_postopts (it : SimpleIter) (o : Options) (hni : o.ni = it.opts.ni)
    (hnc : o.nc = it.opts.nc) (vs : List Value) :
    fullView { it with opts := o } vs
      = (viewPoint it vs).map (perPointOf o it.pc.transform.isSome it.rotation it.translation) := by
  unfold fullView
  rw [viewPoint_postopts it o hni hnc]
  rfl


/-! ### a point cloud without a pose: the switch `transform` has no effect -/

/-- the iterator with the switch `transform` set to `b` (`PointCloudReaderSimple::apply_pose`) -/
def SimpleIter.withTransform (it : SimpleIter) (b : Bool) : SimpleIter :=
  { it with opts := { it.opts with transform := b } }

/-- for a point cloud without a pose the four passes do the same to a batch whatever `transform` says
    (before the repair of the crate `transform := true` multiplied with the identity and added zero,
    which is not neutral for floats) -/
theorem no_pose_no_change (it : SimpleIter) (h : it.pc.transform = none) (b : Bool)
    (batch : List SPoint) :
    postProcess (it.withTransform b) batch = postProcess it batch := by
  unfold postProcess
  simp only [SimpleIter.withTransform, h, Option.isSome_none, Bool.and_false, Bool.false_eq_true,
    if_false]
  rfl

/-- … in particular `transform := true` and `transform := false` give the same points -/
theorem no_pose_no_change_true_false (it : SimpleIter) (h : it.pc.transform = none)
    (batch : List SPoint) :
    postProcess (it.withTransform true) batch = postProcess (it.withTransform false) batch := by
  rw [no_pose_no_change it h true, no_pose_no_change it h false]

/-- … and the pose is then not applied at all: the coordinates leave the post-processing as the
    conversions `s2c`, `c2s`, `i2c` left them -/
theorem no_pose_perPoint (it : SimpleIter) (h : it.pc.transform = none) :
    perPoint it = perPointOf { it.opts with transform := false } false it.rotation it.translation := by
  funext p
  unfold perPoint perPointOf
  simp only [h, Option.isSome_none, Bool.and_false, Bool.false_eq_true, if_false]

/-- the documented view of a raw point does not depend on `transform` either -/
theorem no_pose_no_change_fullView (it : SimpleIter) (h : it.pc.transform = none) (b : Bool) :
    fullView (it.withTransform b) = fullView it := by
  funext vs
  unfold fullView
  rw [show viewPoint (it.withTransform b) = viewPoint it from viewPoint_postopts it _ rfl rfl]
  congr 1
  funext p
  unfold perPoint
  simp only [SimpleIter.withTransform, h, Option.isSome_none, Bool.and_false, Bool.false_eq_true,
    if_false]
  rfl

theorem popBatch_congr (it it' : SimpleIter) (h : viewPoint it' = viewPoint it) :
    ∀ (n : Nat) (q : QR) (acc : List SPoint), popBatch it' n q acc = popBatch it n q acc := by
  intro n
  induction n with
  | zero => intro q acc; rfl
  | succ n ih =>
    intro q acc
    simp only [popBatch, h, ih]

/-- the remaining case of `next`, with any batch buffer: the refill succeeded and `popBatch` ran -/
theorem simple_next_popped (it : SimpleIter) (r : PR) (h : it.read < it.pc.records)
    (hp : it.points = []) {r1 : PR} {q1 q2 : QR} {batch : List SPoint} {ok : Bool}
    (hr : refill (refillFuel r) it.q r = (r1, q1, true))
    (hpb : popBatch it q1.available q1 [] = (q2, batch, ok)) :
    it.next r =
      if !ok then (r1, { it with q := q2, buffer := it.buffer ++ batch }, .error) else
      match postProcess { it with q := q2, buffer := it.buffer ++ batch } (it.buffer ++ batch) with
      | p :: rest => (r1, { it with q := q2, buffer := [], points := rest, read := it.read + 1 }, .value p)
      | [] => (r1, { it with q := q2, buffer := [] }, .error) := by
  have : ¬ it.pc.records ≤ it.read := by omega
  simp only [SimpleIter.next, ge_iff_le, this, if_false, hp, hr, hpb]
  rfl

/-- one call of `next`: same reader state, same item, same iterator state (up to the switch itself) -/
theorem no_pose_no_change_next (it : SimpleIter) (h : it.pc.transform = none) (b : Bool) (r : PR) :
    (it.withTransform b).next r
      = ((it.next r).1, (it.next r).2.1.withTransform b, (it.next r).2.2) := by
  have hv : viewPoint (it.withTransform b) = viewPoint it := viewPoint_postopts it _ rfl rfl
  by_cases h1 : it.pc.records ≤ it.read
  · rw [simple_next_done it r h1, simple_next_done (it.withTransform b) r h1]
  have h1 : it.read < it.pc.records := by omega
  rcases hp : it.points with _ | ⟨p, rest⟩
  case cons =>
    rw [simple_next_buffered it r h1 hp, simple_next_buffered (it.withTransform b) r h1 hp]; rfl
  rcases hr : refill (refillFuel r) it.q r with ⟨r1, q1, ok⟩
  cases ok
  · rw [simple_next_refill_fail it r h1 hp hr, simple_next_refill_fail (it.withTransform b) r h1 hp hr]; rfl
  rcases hpb : popBatch it q1.available q1 [] with ⟨q2, batch, ok2⟩
  have hpb' : popBatch (it.withTransform b) q1.available q1 [] = (q2, batch, ok2) := by
    rw [popBatch_congr it _ hv, hpb]
  rw [simple_next_popped it r h1 hp hr hpb, simple_next_popped (it.withTransform b) r h1 hp hr hpb']
  cases ok2
  · rfl
  · have hpp : postProcess { it.withTransform b with q := q2, buffer := (it.withTransform b).buffer ++ batch }
          ((it.withTransform b).buffer ++ batch)
        = postProcess { it with q := q2, buffer := it.buffer ++ batch } (it.buffer ++ batch) :=
      no_pose_no_change { it with q := q2, buffer := it.buffer ++ batch } h b (it.buffer ++ batch)
    simp only [Bool.not_true, Bool.false_eq_true, if_false]
    rw [hpp]
    cases postProcess { it with q := q2, buffer := it.buffer ++ batch } (it.buffer ++ batch) <;> rfl

/-- any number of calls: the items returned are the same with `transform := b` as without -/
theorem no_pose_no_change_items (k : Nat) : ∀ (it : SimpleIter) (r : PR), it.pc.transform = none →
    ∀ b, (it.withTransform b).items k r = it.items k r := by
  induction k with
  | zero => intro it r _ b; rfl
  | succ k ih =>
    intro it r h b
    rw [SimpleIter.items, SimpleIter.items, no_pose_no_change_next it h b r]
    simp only
    rw [ih _ _ (by rw [(next_frame it r).1]; exact h) b]


/-! ## 4. the simple iterator against the raw iterator -/

/-- the metadata read by the views is the same in both iterators -/
structure SameMeta (it' it : SimpleIter) : Prop where
  pc : it'.pc = it.pc
  opts : it'.opts = it.opts
  rotation : it'.rotation = it.rotation
  translation : it'.translation = it.translation
  indices : it'.indices = it.indices
  ir : it'.intensityRange = it.intensityRange
  rr : it'.redRange = it.redRange
  gr : it'.greenRange = it.greenRange
  br : it'.blueRange = it.blueRange

theorem SameMeta.refl (it : SimpleIter) : SameMeta it it := ⟨rfl, rfl, rfl, rfl, rfl, rfl, rfl, rfl, rfl⟩

theorem SameMeta.viewPoint {it' it} (h : SameMeta it' it) : viewPoint it' = viewPoint it :=
  viewPoint_congr it it' h.pc h.indices h.opts h.ir h.rr h.gr h.br

theorem SameMeta.fullView {it' it} (h : SameMeta it' it) : fullView it' = fullView it := by
  funext vs
  unfold E57.fullView
  rw [h.viewPoint, perPoint_congr it it' h.opts (by rw [h.pc]) h.rotation h.translation]

theorem next_sameMeta (it : SimpleIter) (r : PR) : SameMeta (it.next r).2.1 it := by
  obtain ⟨a, b, c, d, e, f, g, h, i⟩ := next_frame it r
  exact ⟨a, b, c, d, e, f, g, h, i⟩

/-- the lock-step invariant: both iterators use the same reader state; the simple iterator is `m`
    points ahead in the queues, and those `m` points (all that the raw queue reader has available)
    are waiting, viewed, in `points` -/
structure Sync (si : SimpleIter) (ri : RawIter) : Prop where
  buffer : si.buffer = []
  records : ri.records = si.pc.records
  read : ri.read = si.read
  ahead : ∃ m, (m = 0 ∨ m = ri.q.available) ∧ si.q = ri.q.dropN m ∧
    si.points = (ri.q.rawPoints m).filterMap (fullView si) ∧
    ∀ i, i < m → (viewPoint si (ri.q.peek i)).isSome

/-- the situation of the task: same queue reader, nothing read or buffered yet -/
theorem Sync.initial (si : SimpleIter) (ri : RawIter) (hq : ri.q = si.q)
    (hrec : ri.records = si.pc.records) (hread : ri.read = si.read) (hp : si.points = [])
    (hb : si.buffer = []) : Sync si ri :=
  ⟨hb, hrec, hread, 0, .inl rfl, by rw [hq, QR.dropN_zero], by simp [hp, QR.rawPoints],
    fun i hi => absurd hi (Nat.not_lt_zero i)⟩

theorem filterMap_fullView_length (it : SimpleIter) (l : List (List Value))
    (h : ∀ vs ∈ l, (viewPoint it vs).isSome) : (l.filterMap (fullView it)).length = l.length := by
  induction l with
  | nil => rfl
  | cons x xs ih =>
    obtain ⟨y, hy⟩ := Option.isSome_iff_exists.1 (h x (by simp))
    simp [fullView, hy]
    simpa [fullView] using ih (fun vs hvs => h vs (by simp [hvs]))

/-- one step of both iterators from synchronised states, while `read < records` -/
theorem sync_step (si : SimpleIter) (ri : RawIter) (r : PR) (hs : Sync si ri)
    (hlt : si.read < si.pc.records) :
    ((ri.next r).2.2 = .error ∧ (si.next r).2.2 = .error ∧
        (refill (refillFuel r) si.q r).2.2 = false) ∨
    (∃ vs p, (ri.next r).2.2 = .value vs ∧ (si.next r).2.2 = .value p ∧ fullView si vs = some p ∧
        (si.next r).1 = (ri.next r).1 ∧ Sync (si.next r).2.1 (ri.next r).2.1) ∨
    (∃ vs, (ri.next r).2.2 = .value vs ∧ (si.next r).2.2 = .error ∧
        ∃ r1 q1 i, refill (refillFuel r) si.q r = (r1, q1, true) ∧ i < q1.available ∧
          viewPoint si (q1.peek i) = none) := by
  obtain ⟨hb, hrec, hread, m, hm, hq, hpts, hall⟩ := hs
  have hlt' : ri.read < ri.records := by omega
  by_cases hp : si.points = []
  case neg =>
    -- points waiting: the raw queue reader has exactly these points available
    obtain ⟨p, rest, hp⟩ := List.exists_cons_of_ne_nil hp
    have hm0 : m ≠ 0 := by
      intro h0; subst h0; rw [hp] at hpts; simp [QR.rawPoints] at hpts
    have hmav : m = ri.q.available := by rcases hm with h | h; exact absurd h hm0; exact h
    obtain ⟨n, rfl⟩ : ∃ n, m = n + 1 := ⟨m - 1, by omega⟩
    have hav : 1 ≤ ri.q.available := by omega
    have hsn := simple_next_buffered si r hlt hp
    have hrn := raw_next_value ri r hlt' (refill_noop' ri.q r hav)
    rw [QR.rawPoints_succ, hp] at hpts
    obtain ⟨p0, hp0⟩ := Option.isSome_iff_exists.1 (hall 0 (by omega))
    have hfv : fullView si (ri.q.peek 0) = some (perPoint si p0) := by simp [fullView, hp0]
    rw [List.filterMap_cons, hfv] at hpts
    simp only [List.cons.injEq] at hpts
    obtain ⟨hpe, hreste⟩ := hpts
    right; left
    refine ⟨ri.q.peek 0, p, by rw [hrn], by rw [hsn], by rw [hfv, hpe], by rw [hsn, hrn], ?_⟩
    rw [hsn, hrn]
    refine ⟨hb, hrec, by simp [hread], n, .inr ?_, ?_, ?_, ?_⟩
    · simp [QR.available_dropN]; omega
    · simp only [QR.dropN_dropN]; rw [hq, Nat.add_comm]
    · simp only [hreste]; rfl
    · intro i hi
      have := hall (1 + i) (by omega)
      rw [QR.peek_dropN]; exact this
  case pos =>
    -- nothing waiting: both refill from the same state
    have hm0 : m = 0 := by
      have hlen := filterMap_fullView_length si (ri.q.rawPoints m) (by
        intro vs hvs
        simp only [QR.rawPoints, List.mem_map, List.mem_range] at hvs
        obtain ⟨i, hi, rfl⟩ := hvs
        exact hall i hi)
      rw [← hpts, hp, QR.length_rawPoints] at hlen
      exact hlen.symm
    subst hm0
    rw [QR.dropN_zero] at hq
    obtain ⟨r1, q1, ok, hr⟩ : ∃ r1 q1 ok, refill (refillFuel r) si.q r = (r1, q1, ok) :=
      ⟨_, _, _, rfl⟩
    have hr' : refill (refillFuel r) ri.q r = (r1, q1, ok) := by rw [← hq]; exact hr
    cases ok with
    | false =>
      left
      exact ⟨by rw [raw_next_refill_fail ri r hlt' hr'], by rw [simple_next_refill_fail si r hlt hp hr],
        by rw [hr]⟩
    | true =>
      right
      have hav := refill_ok_available _ _ _ _ _ hr
      have hrn := raw_next_value ri r hlt' hr'
      rcases views_all_or_first_fail (fun i => (viewPoint si (q1.peek i)).isSome) q1.available with
        hall' | ⟨i, hi, h1, h2⟩
      · left
        obtain ⟨p, rest, hfv, hfm, hsn⟩ := simple_next_batch si r hb hlt hp hr hall'
        refine ⟨q1.peek 0, p, by rw [hrn], by rw [hsn], hfv, by rw [hsn, hrn], ?_⟩
        rw [hsn, hrn]
        obtain ⟨n, hn⟩ : ∃ n, q1.available = n + 1 := ⟨q1.available - 1, by omega⟩
        rw [hn, QR.rawPoints_succ, List.filterMap_cons, hfv] at hfm
        simp only [List.cons.injEq, true_and] at hfm
        refine ⟨rfl, hrec, by simp [hread], n, .inr ?_, ?_, ?_, ?_⟩
        · simp [QR.available_dropN, hn]
        · simp only [QR.dropN_dropN, hn]; rw [Nat.add_comm]
        · simp only [← hfm]; rfl
        · intro i hi
          have := hall' (1 + i) (by omega)
          rw [QR.peek_dropN]; exact this
      · right
        have h2' : viewPoint si (q1.peek i) = none := by simpa using h2
        exact ⟨q1.peek 0, by rw [hrn], by rw [simple_next_view_fail si r hb hlt hp hr hi h1 h2'],
          r1, q1, i, hr, hi, h2'⟩


theorem SimpleIter.items_succ (k : Nat) (it : SimpleIter) (r : PR) :
    it.items (k + 1) r = (it.next r).2.2 :: SimpleIter.items k (it.next r).2.1 (it.next r).1 := rfl

theorem RawIter.items_succ (k : Nat) (it : RawIter) (r : PR) :
    it.items (k + 1) r = (it.next r).2.2 :: RawIter.items k (it.next r).2.1 (it.next r).1 := rfl

/-- `k` steps in lock-step: as long as the raw iterator yields values and the simple iterator does
    not fail, the simple iterator yields the documented views of the same raw points, in order;
    afterwards both are synchronised again (so the runs can be continued) -/
theorem sync_run (k : Nat) : ∀ (si : SimpleIter) (ri : RawIter) (r : PR), Sync si ri →
    si.read + k ≤ si.pc.records →
    (∀ x ∈ ri.items k r, ∃ vs, x = .value vs) →
    (∀ y ∈ si.items k r, y ≠ .error) →
    ∃ (vss : List (List Value)) (ps : List SPoint) (si' : SimpleIter) (ri' : RawIter) (r' : PR),
      vss.length = k ∧ vss.map (fullView si) = ps.map some ∧
      (∀ n, ri.items (n + k) r = vss.map .value ++ ri'.items n r') ∧
      (∀ n, si.items (n + k) r = ps.map .value ++ si'.items n r') ∧
      Sync si' ri' ∧ si'.read = si.read + k ∧ SameMeta si' si := by
  induction k with
  | zero =>
    intro si ri r hs _ _ _
    exact ⟨[], [], si, ri, r, rfl, rfl, fun n => rfl, fun n => rfl, hs, rfl, SameMeta.refl si⟩
  | succ k ih =>
    intro si ri r hs hle hraw hsim
    have hlt : si.read < si.pc.records := by omega
    rw [RawIter.items_succ] at hraw
    rw [SimpleIter.items_succ] at hsim
    rcases sync_step si ri r hs hlt with ⟨hx, _, _⟩ | ⟨vs, p, hx, hy, hfv, hr, hs'⟩ | ⟨_, _, hy, _⟩
    · obtain ⟨vs, hvs⟩ := hraw _ (List.mem_cons_self ..)
      rw [hx] at hvs; cases hvs
    · have hm := next_sameMeta si r
      have hread : (si.next r).2.1.read = si.read + 1 := ((next_read_mono si r).1 p hy).1
      obtain ⟨vss, ps, si', ri', r', hlen, hmap, hri, hsi, hsync, hrd, hmeta⟩ :=
        ih (si.next r).2.1 (ri.next r).2.1 (si.next r).1 hs' (by rw [hread, hm.pc]; omega)
          (by rw [hr]; exact fun x hx => hraw x (List.mem_cons_of_mem _ hx))
          (fun y hy => hsim y (List.mem_cons_of_mem _ hy))
      refine ⟨vs :: vss, p :: ps, si', ri', r', by simp [hlen], ?_, ?_, ?_, hsync, by omega, ?_⟩
      · rw [hm.fullView] at hmap
        simp [hfv, hmap]
      · intro n
        show ri.items (n + k + 1) r = _
        rw [RawIter.items_succ, hx, ← hr, hri]; rfl
      · intro n
        show si.items (n + k + 1) r = _
        rw [SimpleIter.items_succ, hy, hsi]; rfl
      · exact ⟨hmeta.pc.trans hm.pc, hmeta.opts.trans hm.opts, hmeta.rotation.trans hm.rotation,
          hmeta.translation.trans hm.translation, hmeta.indices.trans hm.indices,
          hmeta.ir.trans hm.ir, hmeta.rr.trans hm.rr, hmeta.gr.trans hm.gr, hmeta.br.trans hm.br⟩
    · exact absurd hy (hsim _ (List.mem_cons_self ..))

/-- C05, the proved form.  Both iterators start from the same queue reader `q` and reader `r` with
    nothing read or buffered.  If the raw iterator yields `records` values and the simple iterator
    does not fail on the way, then the simple iterator yields exactly `records` values, the `k`-th
    being the documented view `fullView` of the `k`-th raw point, and then both return `.done`
    (forever). -/
theorem simple_eq_map_raw_partial (si : SimpleIter) (ri : RawIter) (r : PR)
    (hq : ri.q = si.q) (hrec : ri.records = si.pc.records) (hr0 : ri.read = 0) (hs0 : si.read = 0)
    (hp : si.points = []) (hb : si.buffer = [])
    (hraw : ∀ x ∈ ri.items si.pc.records r, ∃ vs, x = .value vs)
    (hsim : ∀ y ∈ si.items si.pc.records r, y ≠ .error) :
    ∃ (vss : List (List Value)) (ps : List SPoint),
      vss.length = si.pc.records ∧ ps.length = si.pc.records ∧
      vss.map (fullView si) = ps.map some ∧
      ∀ n, ri.items (n + si.pc.records) r = vss.map .value ++ List.replicate n .done ∧
           si.items (n + si.pc.records) r = ps.map .value ++ List.replicate n .done := by
  have hs := Sync.initial si ri hq hrec (by rw [hr0, hs0]) hp hb
  obtain ⟨vss, ps, si', ri', r', hlen, hmap, hri, hsi, hsync, hrd, hmeta⟩ :=
    sync_run si.pc.records si ri r hs (by omega) hraw hsim
  have hplen : ps.length = si.pc.records := by
    have := congrArg List.length hmap; simp at this; omega
  refine ⟨vss, ps, hlen, hplen, hmap, fun n => ⟨?_, ?_⟩⟩
  · rw [hri, raw_done_forever_sv]
    rw [hsync.records, hsync.read, hmeta.pc]; omega
  · rw [hsi, simple_done_forever]
    rw [hmeta.pc]; omega

/-- in a synchronised run in which the raw iterator yields values, the simple iterator can only
    fail because the view of a raw point in a freshly refilled queue reader fails -/
theorem sync_error_cause (k : Nat) : ∀ (si : SimpleIter) (ri : RawIter) (r : PR), Sync si ri →
    si.read + k ≤ si.pc.records →
    (∀ x ∈ ri.items k r, ∃ vs, x = .value vs) →
    .error ∈ si.items k r →
    ∃ (q1 : QR) (i : Nat), i < q1.available ∧ viewPoint si (q1.peek i) = none := by
  induction k with
  | zero => intro si ri r _ _ _ h; simp [SimpleIter.items] at h
  | succ k ih =>
    intro si ri r hs hle hraw herr
    have hlt : si.read < si.pc.records := by omega
    rw [RawIter.items_succ] at hraw
    rw [SimpleIter.items_succ] at herr
    rcases sync_step si ri r hs hlt with ⟨hx, _, _⟩ | ⟨vs, p, hx, hy, hfv, hr, hs'⟩ |
      ⟨_, _, _, r1, q1, i, _, hi, hnone⟩
    · obtain ⟨vs, hvs⟩ := hraw _ (List.mem_cons_self ..)
      rw [hx] at hvs; cases hvs
    · have hm := next_sameMeta si r
      have hread : (si.next r).2.1.read = si.read + 1 := ((next_read_mono si r).1 p hy).1
      rw [hy] at herr
      simp only [List.mem_cons, reduceCtorEq, false_or] at herr
      obtain ⟨q1, i, hi, hnone⟩ :=
        ih (si.next r).2.1 (ri.next r).2.1 (si.next r).1 hs' (by rw [hread, hm.pc]; omega)
          (by rw [hr]; exact fun x hx => hraw x (List.mem_cons_of_mem _ hx)) herr
      exact ⟨q1, i, hi, by rw [← hm.viewPoint]; exact hnone⟩
    · exact ⟨q1, i, hi, hnone⟩


/-! ## 4b. the unrestricted statement is false for the model -/

/-- The statement asked for: only the raw points *within `records`* are assumed to have a view. -/
def simple_eq_map_raw_statement : Prop :=
  ∀ (si : SimpleIter) (ri : RawIter) (r : PR),
    ri.q = si.q → ri.records = si.pc.records → ri.read = 0 → si.read = 0 →
    si.points = [] → si.buffer = [] →
    ∀ vss : List (List Value), vss.length = si.pc.records →
      ri.items si.pc.records r = vss.map .value →
      (∀ vs ∈ vss, (viewPoint si vs).isSome) →
      ∃ ps : List SPoint, vss.map (fullView si) = ps.map some ∧
        ∀ n, si.items (n + si.pc.records) r = ps.map .value ++ List.replicate n .done

/-! Counterexample: the simple iterator views *all* points a packet made available, also those
beyond `records`.  One record is announced, the queues hold two points, the second one has
`cartesianInvalidState = 3`: the raw iterator yields one value and `.done`, the simple iterator
fails on its first call. -/

def cexProto : Prototype :=
  [⟨.cartesianX, .double none none⟩, ⟨.cartesianY, .double none none⟩,
   ⟨.cartesianZ, .double none none⟩, ⟨.cartesianInvalidState, .integer 0 3⟩]

def cexQ : QR :=
  ⟨cexProto, [],
   [[.double 0, .double 0], [.double 0, .double 0], [.double 0, .double 0], [.integer 0, .integer 3]]⟩

def cexR : PR := ⟨⟨[], 0⟩, 1024, 0, 0, 0, 0, none, []⟩

def cexSi : SimpleIter :=
  { pc := { records := 1, prototype := cexProto }, q := cexQ, opts := {}, rotation := #[],
    translation := (Float.ofBits 0, Float.ofBits 0, Float.ofBits 0),
    indices := prepareIndices cexProto, read := 0, points := [], buffer := [],
    intensityRange := none, redRange := none, greenRange := none, blueRange := none }

def cexRi : RawIter := ⟨cexQ, 1, 0⟩

theorem cex_available : cexQ.available = 2 := by decide

theorem cex_view0 : (viewPoint cexSi (cexQ.peek 0)).isSome = true := by decide
theorem cex_view1 : viewPoint cexSi (cexQ.peek 1) = none := by decide

theorem cex_raw : cexRi.items 1 cexR = [.value (cexQ.peek 0)] := by
  have hr := refill_noop' cexQ cexR (by rw [cex_available]; decide)
  have := raw_next_value cexRi cexR (by decide) hr
  simp [RawIter.items, this]

theorem cex_simple : cexSi.items 1 cexR = [.error] := by
  have hr := refill_noop' cexQ cexR (by rw [cex_available]; decide)
  have := simple_next_view_fail cexSi cexR rfl (by decide) rfl hr (i := 1)
    (by rw [cex_available]; decide)
    (by intro j hj; obtain rfl : j = 0 := by omega
        exact cex_view0) cex_view1
  simp [SimpleIter.items, this]

theorem simple_eq_map_raw_statement_false : ¬ simple_eq_map_raw_statement := by
  intro h
  obtain ⟨ps, _, hit⟩ := h cexSi cexRi cexR rfl rfl rfl rfl rfl rfl [cexQ.peek 0] rfl cex_raw
    (by intro vs hvs; simp at hvs; subst hvs; exact cex_view0)
  have h0 := hit 0
  rw [show 0 + cexSi.pc.records = 1 from rfl, cex_simple] at h0
  cases ps with
  | nil => simp at h0
  | cons p ps => simp at h0


/-! ## 4c. the repaired statement: a hypothesis on the data only -/

/-- the batches of raw points the refills make available: (refill; take everything available)
    repeated at most `f` times, stopping when a refill fails -/
def batches : Nat → QR → PR → List (List (List Value))
  | 0, _, _ => []
  | f + 1, q, r =>
    match refill (refillFuel r) q r with
    | (r1, q1, true) => q1.rawPoints q1.available :: batches f (q1.dropN q1.available) r1
    | (_, _, false) => []

/-- where a `.value` step of the simple iterator leaves the queue reader and the reader -/
theorem simple_next_progress (si : SimpleIter) (r : PR) (hb : si.buffer = []) {p : SPoint}
    (hv : (si.next r).2.2 = .value p) :
    (si.points ≠ [] ∧ (si.next r).2.1.q = si.q ∧ (si.next r).1 = r) ∨
    (si.points = [] ∧ ∃ r1 q1, refill (refillFuel r) si.q r = (r1, q1, true) ∧
      (si.next r).2.1.q = q1.dropN q1.available ∧ (si.next r).1 = r1) := by
  rcases simple_next_spec si r hb with ⟨_, h⟩ | ⟨_, _, _, hp, h⟩ | ⟨_, _, _, _, _, h⟩ |
    ⟨_, hp, r1, q1, hr, _, _, _, _, _, _, h⟩ | ⟨_, _, _, _, _, _, _, _, _, _, h⟩
  · rw [h] at hv; simp at hv
  · left; rw [h]; simp [hp]
  · rw [h] at hv; simp at hv
  · right; rw [h]; exact ⟨hp, r1, q1, hr, rfl, rfl⟩
  · rw [h] at hv; simp at hv

/-- if every point of every batch has a view, the simple iterator does not fail while the raw
    iterator yields values -/
theorem simple_no_error_of_batches (k : Nat) : ∀ (f : Nat) (si : SimpleIter) (ri : RawIter) (r : PR),
    Sync si ri → si.read + k ≤ si.pc.records → k ≤ f →
    (∀ b ∈ batches f si.q r, ∀ vs ∈ b, (viewPoint si vs).isSome) →
    (∀ x ∈ ri.items k r, ∃ vs, x = .value vs) →
    ∀ y ∈ si.items k r, y ≠ .error := by
  induction k with
  | zero => intro f si ri r _ _ _ _ _ y hy; simp [SimpleIter.items] at hy
  | succ k ih =>
    intro f si ri r hs hle hkf hB hraw
    have hlt : si.read < si.pc.records := by omega
    obtain ⟨f, rfl⟩ : ∃ f', f = f' + 1 := ⟨f - 1, by omega⟩
    rw [RawIter.items_succ] at hraw
    rw [SimpleIter.items_succ]
    rcases sync_step si ri r hs hlt with ⟨hx, _, _⟩ | ⟨vs, p, hx, hy, hfv, hr, hs'⟩ |
      ⟨_, _, _, r1, q1, i, hrf, hi, hnone⟩
    · obtain ⟨vs, hvs⟩ := hraw _ (List.mem_cons_self ..)
      rw [hx] at hvs; cases hvs
    · have hm := next_sameMeta si r
      have hread : (si.next r).2.1.read = si.read + 1 := ((next_read_mono si r).1 p hy).1
      have hB' : ∀ b ∈ batches f (si.next r).2.1.q (si.next r).1, ∀ vs ∈ b,
          (viewPoint (si.next r).2.1 vs).isSome := by
        rw [hm.viewPoint]
        rcases simple_next_progress si r hs.buffer hy with ⟨_, hq, hr'⟩ | ⟨_, r1, q1, hrf, hq, hr'⟩
        · rw [hq, hr']
          -- fewer refills from the same state: a prefix of the same batches
          have mono : ∀ (f : Nat) (q : QR) (r : PR) b, b ∈ batches f q r → b ∈ batches (f + 1) q r := by
            intro f
            induction f with
            | zero => intro q r b hb; simp [batches] at hb
            | succ f ihf =>
              intro q r b hb
              unfold batches at hb ⊢
              split at hb
              · rename_i r1 q1 hrf
                simp only [List.mem_cons] at hb ⊢
                rcases hb with hb | hb
                · exact .inl hb
                · exact .inr (ihf _ _ _ hb)
              · simp at hb
          exact fun b hb => hB b (mono _ _ _ _ hb)
        · rw [hq, hr']
          intro b hb
          refine hB b ?_
          simp only [batches, hrf, List.mem_cons]
          exact .inr hb
      intro y hy'
      simp only [List.mem_cons] at hy'
      rcases hy' with rfl | hy'
      · rw [hy]; simp
      · exact ih f (si.next r).2.1 (ri.next r).2.1 (si.next r).1 hs' (by rw [hread, hm.pc]; omega)
          (by omega) hB' (by rw [hr]; exact fun x hx => hraw x (List.mem_cons_of_mem _ hx)) y hy'
    · exfalso
      have := hB (q1.rawPoints q1.available) (by simp [batches, hrf]) (q1.peek i)
        (by simp only [QR.rawPoints, List.mem_map, List.mem_range]; exact ⟨i, hi, rfl⟩)
      rw [hnone] at this; simp at this

/-- C05, repaired: hypotheses on the data only.  If the raw iterator yields `records` values and
    every raw point of every batch the refills make available has a view – *including* the points
    of the last batch that lie beyond `records` – then the simple iterator yields exactly
    `records` values, the `k`-th being `fullView` of the `k`-th raw point, then `.done` forever. -/
theorem simple_eq_map_raw (si : SimpleIter) (ri : RawIter) (r : PR)
    (hq : ri.q = si.q) (hrec : ri.records = si.pc.records) (hr0 : ri.read = 0) (hs0 : si.read = 0)
    (hp : si.points = []) (hb : si.buffer = [])
    (hraw : ∀ x ∈ ri.items si.pc.records r, ∃ vs, x = .value vs)
    (hview : ∀ b ∈ batches si.pc.records si.q r, ∀ vs ∈ b, (viewPoint si vs).isSome) :
    ∃ (vss : List (List Value)) (ps : List SPoint),
      vss.length = si.pc.records ∧ ps.length = si.pc.records ∧
      vss.map (fullView si) = ps.map some ∧
      ∀ n, ri.items (n + si.pc.records) r = vss.map .value ++ List.replicate n .done ∧
           si.items (n + si.pc.records) r = ps.map .value ++ List.replicate n .done :=
  simple_eq_map_raw_partial si ri r hq hrec hr0 hs0 hp hb hraw
    (simple_no_error_of_batches si.pc.records si.pc.records si ri r
      (Sync.initial si ri hq hrec (by rw [hr0, hs0]) hp hb) (by omega) (Nat.le_refl _) hview hraw)


/-- index form: for every `k < records` the `k`-th item of the simple iterator is the value
    `fullView` of the `k`-th item of the raw iterator; item number `records` is `.done` in both -/
theorem simple_eq_map_raw_index (si : SimpleIter) (ri : RawIter) (r : PR)
    (hq : ri.q = si.q) (hrec : ri.records = si.pc.records) (hr0 : ri.read = 0) (hs0 : si.read = 0)
    (hp : si.points = []) (hb : si.buffer = [])
    (hraw : ∀ x ∈ ri.items si.pc.records r, ∃ vs, x = .value vs)
    (hview : ∀ b ∈ batches si.pc.records si.q r, ∀ vs ∈ b, (viewPoint si vs).isSome) :
    (∀ k, k < si.pc.records → ∃ vs p,
      (ri.items (si.pc.records + 1) r)[k]? = some (.value vs) ∧
      (si.items (si.pc.records + 1) r)[k]? = some (.value p) ∧ fullView si vs = some p) ∧
    (ri.items (si.pc.records + 1) r)[si.pc.records]? = some .done ∧
    (si.items (si.pc.records + 1) r)[si.pc.records]? = some .done := by
  obtain ⟨vss, ps, hl, hl', hmap, hit⟩ := simple_eq_map_raw si ri r hq hrec hr0 hs0 hp hb hraw hview
  obtain ⟨h1, h2⟩ := hit 1
  rw [Nat.add_comm] at h1 h2
  rw [h1, h2]
  refine ⟨fun k hk => ?_, ?_, ?_⟩
  · have hk1 : k < vss.length := by omega
    have hk2 : k < ps.length := by omega
    refine ⟨vss[k], ps[k], ?_, ?_, ?_⟩
    · rw [List.getElem?_append_left (by simpa using hk1)]; simp [hk1]
    · rw [List.getElem?_append_left (by simpa using hk2)]; simp [hk2]
    · have := congrArg (fun l => l[k]?) hmap
      simpa [hk1, hk2] using this
  · rw [List.getElem?_append_right (by simp [hl])]; simp [hl]
  · rw [List.getElem?_append_right (by simp [hl'])]; simp [hl']

end E57

/-! ## axioms -/
