/-
C20 (bundled tools) and the validation half of C07 ("validation fails exactly when a page is altered").
Namespace `E57.ToolsP`.  Models: `validateCrc` (E57/Model/Pages.lean = `E57Reader::validate_crc`, the whole of
e57-check-crc's `check_file`), E57/Model/Tools.lean (e57-from-xyz / e57-to-xyz).

Part 1  `validate_crc`
  * `AllPagesValid ps bytes` — every page `k < length / ps` stores, big-endian, the CRC-32C of its first
    `ps - 4` bytes; written with `drop`/`take`, `crc32c`, `toBE32` only (`storedCrc`, `payload`, `PageValid`).
    `ShapeOk ps bytes` — ≥ 48 bytes, the `u64` at offset 40 is `ps`, `4 < ps ≤ 2^20`, `length % ps = 0`.
  * `validateCrcLoop_iff` — the loop, from any page boundary, with fuel ≥ remaining pages + 1;
    `validateCrcLoop_new` — the model's fuel `pages * 2 + 2` suffices (so the `fuel = 0 ↦ true` arm of the
    model is never what decides).
  * **`validateCrc_iff`** : `validateCrc dev = some ps ↔ ShapeOk ps dev.data ∧ AllPagesValid ps dev.data`;
    `validateCrc_eq` (closed form), `validateCrc_some`, **`validateCrc_none_iff`**, `validateCrc_pos`.
  * **`validateCrc_detects`**, `validateCrc_detects_alteration`, `validateCrc_detects_burst` (a burst of at most
    32 bits inside the payload or inside the checksum of one page of a valid file is rejected end to end).
  * **`validateCrc_altered_iff`** — C07's clause in its true form: for a valid `dev` and a `dev'` of the same
    length and page size field, `validateCrc dev' = none` iff some page differs AND fails its checksum.
    `validateCrc_every_alteration_statement_false` — "every alteration is rejected" is false
    (`burst33`, 33 bits, on a one-page file: a different file that validates).
  * `validateCrc_image`, `validateCrc_image_header`, **`validateCrc_finalized`** — every file a writer session
    (`Session.Sess`) finishes passes: `validate_crc` returns `Ok(1024)`.
  * `checkFile_iff`, **`checkFiles_iff`** — the tool's exit status (`checkFile`/`checkFiles` are defined here:
    `(validateCrc dev).isSome`, `all`).
Part 2  e57-from-xyz
  * `fromXyzLine_skip_iff`, **`fromXyzLine_spec`**, `fromXyzLine_abort_iff` — the three outcomes of a line.
  * `xyzPrototype_valid/_extensions/_i64/_nodup/_bits`, `xyz_new_ok`, `parseUnsigned_le`,
    **`fromXyz_accepted`**, `fromXyzLine_accepted`.
  * `xyzPoints` (the points added for a text file), `xyzRoundTrip_eq`, `xyzPoints_eq`, `xyzPoints_accepted`,
    **`xyz_points_stored`** = `RoundTrip.C01_section_roundtrip` instantiated: `new`, all `add_point`s and
    `finalize` succeed and the raw iterator returns exactly the converted points, in order, then `done`.
Part 3  **`parseUnsigned_255_roundtrip`** (`some n` iff `n ≤ 255`), `colourToU8_parses_back`.
Part 4  e57-to-xyz (the tool's point cloud has NO pose; since the repair of the simple iterator the pose is applied
        only if the option is on AND the point cloud has one, so no arithmetic touches the coordinates)
  * **`toXyzPoint_eq`** — structural, no float fact: the six numbers printed for `[x,y,z,r,g,b]` are
    `back x`, `back y`, `back z` (the stored `f32` widened, held as a bit pattern, narrowed `as f32`; each a function
    of its own coordinate only) and `outColour` (normalise, `*255 as u8`).
  * `IEEEFacts` — the TWO facts about the OPAQUE native `Float` that the coordinate path still needs (hypotheses;
    spot-checked by evaluation): `bits` (f64 → bit pattern → f64 is the identity on a widened f32) and `widen_back`
    (`f32 → f64 → f32` is the identity), both for every pattern that is not a NaN.  **`IEEEFacts.coords`**: every
    non-NaN `f32` coordinate — −0.0, subnormals, ±∞ included — comes back with the same bit pattern.
    **`xyz_coords_bits`** (the full bit identity that `xyz_coords_bits_statement_false` refuted before the repair),
    `xyz_coords_bits_all`, `xyz_coords_bits_special` (−0.0, +∞, −∞), `xyz_coords_bits_partial` (now a corollary);
    `NaNFacts`, `xyz_coords_nan`: a NaN comes back as a NaN (Lean's `toBits` canonicalises NaNs, Rust leaves the
    payload after a cast unspecified, so no payload claim).
  * 4.4, the behaviour before the repair: `IdentityPoseFacts` (the former twelve `IEEEFacts`),
    `IdentityPoseFacts.coords` (the former `IEEEFacts.coords`, about `poseX/Y/Z` = `transformPoint` with the identity
    rotation and zero translation), **`identity_pose_not_neutral`**: the identity pose turns −0.0 into +0.0.
  * `ColourTable` — the 256-entry colour table on the hardware floats (hypothesis; theorem for the soft-float
    model: `SF.colour_roundTrip`).  **`toXyzPoint_roundtrip`**, **`xyzRoundTrip_spec`** (whole file).
Non-vacuity (`Ex`): `dev2` (two 32-byte pages, by the theorem and by kernel evaluation of the model),
  `dev2bad_rejected`, `stream2_ok`, `checkFiles` example; `lineEx_converted` (a 7-column line with blanks and
  newline), `skip_ex`, `points_ex`, an instance of `xyz_points_stored`.
Imports: core only (no Mathlib).
-/
import E57.Proofs.PagesRead
import E57.Proofs.CrcBurst
import E57.Proofs.Session
import E57.Model.Tools
namespace E57
namespace ToolsP
open Spec

/-! # Part 1 — `validate_crc` (e57-check-crc) -/

/-! ## 1.1 the model-independent predicate -/

/-- the four bytes stored behind the payload of page `k` (page size `ps`) -/
def storedCrc (ps : Nat) (bytes : Bytes) (k : Nat) : Bytes := (bytes.drop (k * ps + (ps - 4))).take 4

/-- the payload of page `k`: the first `ps - 4` bytes of the page -/
def payload (ps : Nat) (bytes : Bytes) (k : Nat) : Bytes := (bytes.drop (k * ps)).take (ps - 4)

/-- page `k` carries the big-endian CRC-32C of its payload -/
def PageValid (ps : Nat) (bytes : Bytes) (k : Nat) : Prop :=
  storedCrc ps bytes k = toBE32 (crc32c (payload ps bytes k)).toNat

/-- every page of the file carries the big-endian CRC-32C of its payload.  Stated with `drop`/`take`,
    `crc32c` and `toBE32` only: no reader involved. -/
def AllPagesValid (ps : Nat) (bytes : Bytes) : Prop :=
  ∀ k, k < bytes.length / ps → PageValid ps bytes k

instance (ps : Nat) (bytes : Bytes) (k : Nat) : Decidable (PageValid ps bytes k) := by
  unfold PageValid; infer_instance

instance (ps : Nat) (bytes : Bytes) : Decidable (AllPagesValid ps bytes) := by
  unfold AllPagesValid; infer_instance

/-- the file-shape conditions `validate_crc` checks before it reads a page: a header of at least 48
    bytes whose `u64` at offset 40 is `ps`, `4 < ps ≤ 2^20` (`PagedReader::new`), and a length that is
    a multiple of `ps` (it is positive because of the header) -/
def ShapeOk (ps : Nat) (bytes : Bytes) : Prop :=
  48 ≤ bytes.length ∧ leVal ((bytes.drop 40).take 8) = ps ∧ 4 < ps ∧ ps ≤ 1048576 ∧
  bytes.length % ps = 0

instance (ps : Nat) (bytes : Bytes) : Decidable (ShapeOk ps bytes) := by
  unfold ShapeOk; infer_instance

/-- the predicate of the page layer (`pageValid (devPage …)`) is the explicit one -/
theorem pageValid_devPage_iff (ps : Nat) (bytes : Bytes) (k : Nat) (h : 4 ≤ ps) :
    pageValid (devPage bytes ps k) ps ↔ PageValid ps bytes k := by
  unfold pageValid devPage PageValid storedCrc payload crcBytes
  rw [List.drop_take, List.drop_drop, List.take_take]
  have e1 : min (ps - 4) ps = ps - 4 := by omega
  have e2 : ps - (ps - 4) = 4 := by omega
  rw [e1, e2]

/-! ## 1.2 the loop -/

/-- The loop of `validate_crc`, started on a page boundary (`offset = k * (ps - 4)`) with enough fuel
    for the remaining pages and the final empty read: it succeeds iff all remaining pages are valid. -/
theorem validateCrcLoop_iff (fuel : Nat) (r : PR) (k : Nat) (hinv : r.CacheInv)
    (hoff : r.offset = k * (r.pageSize - 4)) (hk : k ≤ r.pages) (hf : r.pages - k + 1 ≤ fuel) :
    validateCrcLoop fuel r = true ↔
      ∀ p, k ≤ p → p < r.pages → pageValid (devPage r.dev.data r.pageSize p) r.pageSize := by
  induction fuel generalizing r k with
  | zero => omega
  | succ fuel ih =>
    have hinv' := hinv
    obtain ⟨h1, h2, h3, h4, h5, h6, h7⟩ := hinv
    have hds : 0 < r.pageSize - 4 := by omega
    have hpg : r.offset / (r.pageSize - 4) = k := by
      rw [hoff]; exact Nat.mul_div_cancel _ hds
    have hmod : r.offset % (r.pageSize - 4) = 0 := by
      rw [hoff]; exact Nat.mul_mod_left _ _
    by_cases hlast : k = r.pages
    · -- at the end: `read` returns 0, the loop stops
      have hp : r.pages ≤ r.offset / (r.pageSize - 4) := by omega
      unfold validateCrcLoop
      rw [pr_read_past r _ hp]
      simp only [List.isEmpty_nil, if_true, true_iff]
      intro p h1 h2; omega
    · have hlt : k < r.pages := by omega
      have hp : r.offset / (r.pageSize - 4) < r.pages := by omega
      unfold validateCrcLoop
      cases hread : r.read r.pageSize with
      | ok res =>
        obtain ⟨r', bs⟩ := res
        obtain ⟨hv, hbs⟩ := pr_read_ok r _ r' bs hinv' hread hp
        rw [hpg] at hv
        have hlen : bs.length = r.pageSize - 4 := by
          rw [hbs, hmod, slice_length _ r.pageSize _ _ (devPage_length _ _ _ _ (h1.trans h2) hp)]
          omega
        have hne : bs.isEmpty = false := by
          cases bs with
          | nil => simp at hlen; omega
          | cons _ _ => rfl
        obtain ⟨s1, s2, s3, s4, s5⟩ := pr_read_data r _ r' bs hread
        have hoff' : r'.offset = (k + 1) * (r'.pageSize - 4) := by
          rw [pr_read_offset r _ r' bs hinv' hread, hlen, hoff, s2, Nat.add_mul, Nat.one_mul]
        have := ih r' (k + 1) (pr_read_inv r _ r' bs hinv' hread) hoff' (by rw [s5]; omega)
          (by rw [s5]; omega)
        simp only [hne, Bool.false_eq_true, if_false]
        rw [this, s1, s2, s5]
        constructor
        · intro h p hkp hpp
          by_cases hpk : p = k
          · subst hpk; exact hv
          · exact h p (by omega) hpp
        · intro h p hkp hpp
          exact h p (by omega) hpp
      | err e =>
        simp only [Bool.false_eq_true, false_iff]
        intro h
        have hv := h k (Nat.le_refl _) hlt
        rcases pr_read_cases r r.pageSize hinv' with ⟨hp', _⟩ | ⟨_, _, _, _, e'⟩ | ⟨_, _, _, e'⟩ |
            ⟨_, hv', _⟩
        · omega
        · rw [e'] at hread; cases hread
        · rw [e'] at hread; cases hread
        · rw [hpg] at hv'; exact hv' hv
      | panic e =>
        rcases pr_read_cases r r.pageSize hinv' with ⟨_, e'⟩ | ⟨_, _, _, _, e'⟩ | ⟨_, _, _, e'⟩ |
            ⟨_, _, _, _, e'⟩ <;> (rw [e'] at hread; cases hread)

/-! ## 1.3 `validate_crc` -/

theorem devGetU64_40 (dev : Dev) :
    devGetU64 dev 40 =
      if 48 ≤ dev.data.length then some (leVal ((dev.data.drop 40).take 8)) else none := by
  unfold devGetU64
  simp only [List.length_take, List.length_drop]
  by_cases h : 48 ≤ dev.data.length
  · rw [if_pos h, if_neg (by omega)]
  · rw [if_neg h, if_pos (by omega)]

theorem pr_new_of_shape (dev : Dev) (ps : Nat) (h1 : 4 < ps) (h2 : ps ≤ 1048576)
    (h3 : dev.data.length ≠ 0) (h4 : dev.data.length % ps = 0) :
    PR.new dev ps = .ok ⟨⟨dev.data, dev.data.length⟩, ps, dev.data.length,
      (dev.data.length / ps) * (ps - 4), dev.data.length / ps, 0, none, zeros ps⟩ := by
  have a1 : ¬ ps > 1048576 := by omega
  have a2 : ¬ ps ≤ 4 := by omega
  simp [PR.new, Dev.seekEnd, a1, a2, h3, h4]

/-- the whole loop from a freshly opened reader: the fuel `pages * 2 + 2` of the model is enough -/
theorem validateCrcLoop_new (dev : Dev) (ps : Nat) (r : PR) (h : PR.new dev ps = .ok r) :
    validateCrcLoop (r.pages * 2 + 2) r = true ↔ AllPagesValid ps dev.data := by
  have hinv := pr_new_inv dev ps r h
  obtain ⟨h1, h2, h3, h4, rfl⟩ := pr_new_ok dev ps r h
  rw [validateCrcLoop_iff _ _ 0 hinv (by simp) (Nat.zero_le _) (by simp only; omega)]
  unfold AllPagesValid
  simp only
  constructor
  · intro hh k hk
    exact (pageValid_devPage_iff ps dev.data k (by omega)).1 (hh k (Nat.zero_le _) hk)
  · intro hh k _ hk
    exact (pageValid_devPage_iff ps dev.data k (by omega)).2 (hh k hk)

/-- **`validate_crc` succeeds exactly on well-shaped files all of whose pages are valid**, and then
    returns the page size stored in the header.  Both directions; the device cursor is irrelevant. -/
theorem validateCrc_iff (dev : Dev) (ps : Nat) :
    validateCrc dev = some ps ↔ ShapeOk ps dev.data ∧ AllPagesValid ps dev.data := by
  unfold validateCrc ShapeOk
  rw [devGetU64_40]
  by_cases h48 : 48 ≤ dev.data.length
  · rw [if_pos h48]
    dsimp only
    generalize hf : leVal ((dev.data.drop 40).take 8) = f
    cases hnew : PR.new dev f with
    | ok r =>
      obtain ⟨h1, h2, h3, h4, _⟩ := pr_new_ok dev f r hnew
      have hl := validateCrcLoop_new dev f r hnew
      dsimp only
      by_cases hloop : validateCrcLoop (r.pages * 2 + 2) r = true
      · rw [if_pos hloop]
        constructor
        · intro e; cases e
          exact ⟨⟨h48, rfl, h2, h1, h4⟩, hl.1 hloop⟩
        · rintro ⟨⟨_, e, _⟩, _⟩; rw [e]
      · rw [if_neg hloop]
        constructor
        · intro e; cases e
        · rintro ⟨⟨_, e, _⟩, hv⟩
          subst e
          exact absurd (hl.2 hv) hloop
    | err e =>
      dsimp only
      constructor
      · intro e; cases e
      · rintro ⟨⟨_, e1, e2, e3, e4⟩, _⟩
        subst e1
        rw [pr_new_of_shape dev f e2 e3 (by omega) e4] at hnew
        cases hnew
    | panic e =>
      dsimp only
      constructor
      · intro e; cases e
      · rintro ⟨⟨_, e1, e2, e3, e4⟩, _⟩
        subst e1
        rw [pr_new_of_shape dev f e2 e3 (by omega) e4] at hnew
        cases hnew
  · rw [if_neg h48]
    constructor
    · intro e; cases e
    · rintro ⟨⟨h, _⟩, _⟩; exact absurd h h48

/-- the page size field `validate_crc` reads -/
def psField (bytes : Bytes) : Nat := leVal ((bytes.drop 40).take 8)

/-- closed form: `validate_crc` is the decision procedure of `ShapeOk ∧ AllPagesValid` for the page
    size stored in the header -/
theorem validateCrc_eq (dev : Dev) :
    validateCrc dev =
      if ShapeOk (psField dev.data) dev.data ∧ AllPagesValid (psField dev.data) dev.data
      then some (psField dev.data) else none := by
  split
  · rename_i h; exact (validateCrc_iff dev _).2 h
  · rename_i h
    cases hv : validateCrc dev with
    | none => rfl
    | some ps =>
      have h' := (validateCrc_iff dev ps).1 hv
      have e : psField dev.data = ps := h'.1.2.1
      rw [e] at h; exact absurd h' h

/-- the only value `validate_crc` can return is the header field -/
theorem validateCrc_some (dev : Dev) (ps : Nat) (h : validateCrc dev = some ps) :
    ps = psField dev.data := ((validateCrc_iff dev ps).1 h).1.2.1.symm

/-- **validation fails exactly when the shape is wrong or some page is not valid** -/
theorem validateCrc_none_iff (dev : Dev) :
    validateCrc dev = none ↔
      ¬ ShapeOk (psField dev.data) dev.data ∨
      ∃ k, k < dev.data.length / psField dev.data ∧ ¬ PageValid (psField dev.data) dev.data k := by
  rw [validateCrc_eq]
  constructor
  · intro h
    split at h
    · cases h
    · rename_i hn
      by_cases hs : ShapeOk (psField dev.data) dev.data
      · right
        have : ¬ AllPagesValid (psField dev.data) dev.data := fun ha => hn ⟨hs, ha⟩
        unfold AllPagesValid at this
        exact Classical.byContradiction fun hc => this fun k hk =>
          Classical.byContradiction fun hv => hc ⟨k, hk, hv⟩
      · exact .inl hs
  · intro h
    rw [if_neg]
    rintro ⟨hs, ha⟩
    rcases h with h | ⟨k, hk, hv⟩
    · exact h hs
    · exact hv (ha k hk)

/-- the result does not depend on where the device cursor stands (`get_u64` and `PagedReader` seek) -/
theorem validateCrc_pos (data : Bytes) (p q : Nat) : validateCrc ⟨data, p⟩ = validateCrc ⟨data, q⟩ := by
  rw [validateCrc_eq, validateCrc_eq]

/-- **`validateCrc_detects`**: a file in which some page (with respect to the page size its own header
    announces) does not carry the CRC-32C of its payload is rejected — whatever the rest looks like -/
theorem validateCrc_detects (dev' : Dev) (k : Nat) (hk : k < dev'.data.length / psField dev'.data)
    (hbad : storedCrc (psField dev'.data) dev'.data k
      ≠ toBE32 (crc32c (payload (psField dev'.data) dev'.data k)).toNat) :
    validateCrc dev' = none :=
  (validateCrc_none_iff dev').2 (.inr ⟨k, hk, hbad⟩)

/-- … in particular: a device that differs from a validated one (same length, same header field) in a
    page whose checksum no longer matches -/
theorem validateCrc_detects_alteration (dev dev' : Dev) (ps k : Nat) (_hok : validateCrc dev = some ps)
    (_hlen : dev'.data.length = dev.data.length) (hfield : psField dev'.data = ps)
    (hk : k < dev'.data.length / ps) (hbad : ¬ PageValid ps dev'.data k) :
    validateCrc dev' = none := by
  subst hfield
  exact validateCrc_detects dev' k hk hbad

/-- pages of the standard size: `PageValid` is `pageOk` of `CrcAlgebra` on the page -/
theorem pageValid_iff_pageOk (bytes : Bytes) (k : Nat) :
    PageValid 1024 bytes k ↔ pageOk (devPage bytes 1024 k) = true := by
  rw [← pageValid_devPage_iff 1024 bytes k (by omega), pageOk_iff]
  rfl

/-- **burst clause, end to end**: take a file that validates with 1024-byte pages and alter page `k` by
    xor-ing the non-zero pattern `e` onto it, where `e` flips only bits inside one window of at most 32
    bits that lies in the payload or in the checksum field, and leaves the page size field as it is:
    `validate_crc` fails.  (`C07.burst_straddling_undetected`: the window may not straddle the two.) -/
theorem validateCrc_detects_burst (dev dev' : Dev) (k : Nat) (e : Bytes)
    (hok : validateCrc dev = some 1024) (hlen : dev'.data.length = dev.data.length)
    (hfield : psField dev'.data = 1024) (hk : k < dev.data.length / 1024)
    (hpage : devPage dev'.data 1024 k = xorBytes (devPage dev.data 1024 k) e)
    (he : e.length = 1024) (s len : Nat) (h32 : len ≤ 32) (hin : s + len ≤ 8160 ∨ 8160 ≤ s)
    (hwin : ∀ i, bitOf e i = true → s ≤ i ∧ i < s + len) (hne : ∃ i, bitOf e i = true) :
    validateCrc dev' = none := by
  obtain ⟨⟨_, _, _, _, hmod⟩, hall⟩ := (validateCrc_iff dev 1024).1 hok
  have hpl : (devPage dev.data 1024 k).length = 1024 :=
    devPage_length dev.data 1024 k (dev.data.length / 1024) (by omega) hk
  have hvk := (pageValid_iff_pageOk dev.data k).1 (hall k hk)
  have hbad := detect_burst _ e hpl he hvk s len h32 hin hwin hne
  rw [← hpage] at hbad
  apply validateCrc_detects_alteration dev dev' 1024 k hok hlen hfield (by rw [hlen]; exact hk)
  rw [pageValid_iff_pageOk, hbad]
  exact Bool.false_ne_true

/-! ## 1.4 files the page writer produces -/

theorem image_drop40 (d : Bytes) (hd : d.length % 1020 = 0) (hne : d ≠ []) :
    ((image d).drop 40).take 8 = (d.drop 40).take 8 := by
  rw [← List.drop_take (i := 40) (j := 48) (l := image d), Session.image_take48 d hd hne, List.drop_take]

theorem allPagesValid_image (d : Bytes) (hd : d.length % 1020 = 0) : AllPagesValid 1024 (image d) := by
  intro k hk
  rw [image_length d hd] at hk
  exact (pageValid_devPage_iff 1024 _ k (by omega)).1 (image_page_valid d hd k (by omega))

/-- **every paged image of a non-empty logical stream whose bytes 40..48 encode 1024 validates** -/
theorem validateCrc_image (d : Bytes) (pos : Nat) (hd : d.length % 1020 = 0) (hpos : 0 < d.length)
    (hfield : psField d = 1024) : validateCrc ⟨image d, pos⟩ = some 1024 := by
  have hne : d ≠ [] := List.length_pos_iff.mp hpos
  have hl := image_length d hd
  refine (validateCrc_iff _ _).2 ⟨⟨?_, ?_, by omega, by omega, ?_⟩, allPagesValid_image d hd⟩
  · show 48 ≤ (image d).length; omega
  · show leVal (((image d).drop 40).take 8) = 1024
    rw [image_drop40 d hd hne]; exact hfield
  · show (image d).length % 1024 = 0; omega

theorem psField_fileHeader (d : Bytes) (a b c : Nat) (h : d.take 48 = fileHeaderBytes a b c) :
    psField d = 1024 := by
  unfold psField
  rw [← List.drop_take (i := 40) (j := 48) (l := d), h]
  unfold fileHeaderBytes
  have hl : (utf8 "ASTM-E57" ++ toLE 1 4 ++ toLE 0 4 ++ toLE a 8 ++ toLE b 8 ++ toLE c 8).length = 40 := by
    simp only [List.length_append, RoundTrip.sig_length, toLE_length]
  rw [List.drop_left' hl, leVal_toLE]

/-- … in particular every image of a stream that starts with a file header of the writer -/
theorem validateCrc_image_header (d : Bytes) (pos a b c : Nat) (hd : d.length % 1020 = 0)
    (hpos : 0 < d.length) (h : d.take 48 = fileHeaderBytes a b c) :
    validateCrc ⟨image d, pos⟩ = some 1024 :=
  validateCrc_image d pos hd hpos (psField_fileHeader d a b c h)

/-- **every file the writer finishes passes e57-check-crc**: any session of successful writer calls
    (`Session.Sess`, covering every `Interrupt.Reach`: `Session.reach_sess`) followed by a successful
    `finalize` (any XML transformer) leaves device bytes on which `validate_crc` returns `Ok(1024)` -/
theorem validateCrc_finalized {e e' : EW} {ops : List WOp} {g : List Session.Entry} (ft : FloatText)
    (tr : String → Option String) (hS : Session.Sess e .top ops g)
    (hfin : EW.finalize ft e tr = .ok e') (pos : Nat) :
    validateCrc ⟨e'.pw.dev.data, pos⟩ = some 1024 := by
  have hT : Session.TopInv e.pw g := Session.sess_inv hS
  obtain ⟨xml0, xml, _, _, i', a', d'⟩ := Session.finalize_exact ft e e' tr hT.inv hfin
  have wf := abs_wf e.pw hT.inv
  have wf' := abs_wf e'.pw i'
  have ff := Session.final_facts e.pw.abs (utf8 xml) wf.1 wf.2 hT.h48
  have hh := ff.header
  have he := ff.xmlEnd
  rw [← a'] at hh he
  rw [d']
  exact validateCrc_image_header _ pos _ _ _ wf'.1 (by have := hT.h48; omega) hh

/-! ## 1.5 the tool e57-check-crc -/

/-- `check_file` of tools/e57-check-crc (a file that cannot be opened is outside the model) -/
def checkFile (dev : Dev) : Bool := (validateCrc dev).isSome

/-- `check_files`: the tool exits successfully iff this is `true` (`files.iter().all(check_file)`;
    for a single file argument the list has one element) -/
def checkFiles (devs : List Dev) : Bool := devs.all checkFile

/-- a file passes iff it has the shape and all its page checksums are valid, for the page size in its
    header -/
theorem checkFile_iff (dev : Dev) :
    checkFile dev = true ↔
      ShapeOk (psField dev.data) dev.data ∧ AllPagesValid (psField dev.data) dev.data := by
  unfold checkFile
  rw [validateCrc_eq]
  split <;> simp_all

/-- **the checksum tool exits successfully exactly when every page checksum of every file is valid**
    (and every file has the shape `PagedReader::new` requires) -/
theorem checkFiles_iff (devs : List Dev) :
    checkFiles devs = true ↔
      ∀ dev ∈ devs, ShapeOk (psField dev.data) dev.data ∧ AllPagesValid (psField dev.data) dev.data := by
  unfold checkFiles
  rw [List.all_eq_true]
  exact forall_congr' fun dev => imp_congr_right fun _ => checkFile_iff dev

/-! ## 1.7 "exactly when a page is altered" -/

/-- `PageValid` looks at page `k` only -/
theorem pageValid_congr (ps : Nat) (a b : Bytes) (k : Nat) (h4 : 4 ≤ ps)
    (h : devPage a ps k = devPage b ps k) : PageValid ps a k ↔ PageValid ps b k := by
  rw [← pageValid_devPage_iff ps a k h4, ← pageValid_devPage_iff ps b k h4, h]

/-- **C07, last clause, in its true form**: let `dev` pass validation and let `dev'` have the same length
    and the same page size field.  Then validation of `dev'` fails iff some page of `dev'` differs from
    the page of `dev` and does not carry the checksum of its (new) payload.  In particular unaltered
    files pass, and a failure always points at an altered page. -/
theorem validateCrc_altered_iff (dev dev' : Dev) (ps : Nat) (hok : validateCrc dev = some ps)
    (hlen : dev'.data.length = dev.data.length) (hfield : psField dev'.data = ps) :
    validateCrc dev' = none ↔
      ∃ k, k < dev.data.length / ps ∧ devPage dev'.data ps k ≠ devPage dev.data ps k ∧
        ¬ PageValid ps dev'.data k := by
  obtain ⟨⟨s1, s2, s3, s4, s5⟩, hall⟩ := (validateCrc_iff dev ps).1 hok
  have hshape : ShapeOk (psField dev'.data) dev'.data := by
    rw [hfield]; exact ⟨by omega, hfield, s3, s4, by rw [hlen]; exact s5⟩
  rw [validateCrc_none_iff, hfield, hlen]
  constructor
  · rintro (h | ⟨k, hk, hbad⟩)
    · rw [hfield] at hshape; exact absurd hshape h
    · refine ⟨k, hk, ?_, hbad⟩
      intro e
      exact hbad ((pageValid_congr ps _ _ k (by omega) e).2 (hall k hk))
  · rintro ⟨k, hk, _, hbad⟩
    exact .inr ⟨k, hk, hbad⟩

/-- the clause as written ("fails exactly when a page is altered", i.e. also: EVERY alteration makes it
    fail) … -/
def validateCrc_every_alteration_statement : Prop :=
  ∀ (dev dev' : Dev) (ps : Nat), validateCrc dev = some ps →
    dev'.data.length = dev.data.length → dev'.data ≠ dev.data → validateCrc dev' = none

namespace Ex

/-- one standard page: a logical stream of 1020 bytes with 1024 at offset 40 -/
def stream1 : Bytes := zeros 40 ++ toLE 1024 8 ++ zeros 972

theorem stream1_length : stream1.length = 1020 := by decide +kernel

theorem stream1_ok (pos : Nat) : validateCrc ⟨image stream1, pos⟩ = some 1024 :=
  validateCrc_image stream1 pos (by rw [stream1_length]) (by rw [stream1_length]; decide)
    (by decide +kernel)

end Ex

theorem xorBytes_zeros (l : Bytes) (n : Nat) (h : n = l.length) : xorBytes l (zeros n) = l := by
  subst h
  induction l with
  | nil => rfl
  | cons x xs ih =>
    show xorBytes (x :: xs) (0 :: zeros xs.length) = _
    rw [xorBytes_cons, ih]; simp

theorem xor_zeros_prefix (a r : Bytes) (n : Nat) (hn : n ≤ a.length) :
    (xorBytes a (zeros n ++ r)).take n = a.take n := by
  rw [xorBytes_take, List.take_left' (zeros_length n)]
  exact xorBytes_zeros _ n (by rw [List.length_take]; omega)

theorem xor_F1_ne (y : UInt8) : y ^^^ 0xF1 ≠ y := by
  intro h
  have h2 := congrArg (y ^^^ ·) h
  simp only [← UInt8.xor_assoc, UInt8.xor_self, UInt8.zero_xor] at h2
  revert h2; decide

/-- a one-page file altered by a pattern `e` that leaves the first 48 bytes alone and is not detected by
    the page checksum still validates -/
theorem validateCrc_xor_one_page (p e : Bytes) (pos : Nat) (hp : p.length = 1024)
    (he : e.length = 1024) (hfield : psField p = 1024) (hok' : pageOk (xorBytes p e) = true)
    (hpre : e.take 48 = zeros 48) : validateCrc ⟨xorBytes p e, pos⟩ = some 1024 := by
  have hl' : (xorBytes p e).length = 1024 := by rw [xorBytes_length, hp, he]; rfl
  have h48 : (xorBytes p e).take 48 = p.take 48 := by
    rw [xorBytes_take, hpre]
    exact xorBytes_zeros _ 48 (by rw [List.length_take, hp]; rfl)
  rw [validateCrc_iff]
  refine ⟨⟨by show 48 ≤ (xorBytes p e).length; omega, ?_, by omega, by omega,
    by show (xorBytes p e).length % 1024 = 0; omega⟩, ?_⟩
  · show leVal (((xorBytes p e).drop 40).take 8) = 1024
    rw [← List.drop_take (i := 40) (j := 48), h48, List.drop_take]
    exact hfield
  · intro k hk
    have hk' : k < (xorBytes p e).length / 1024 := hk
    rw [hl'] at hk'
    have : k = 0 := by omega
    subst this
    rw [pageValid_iff_pageOk]
    have : devPage (xorBytes p e) 1024 0 = xorBytes p e := by
      simp only [devPage, Nat.zero_mul, List.drop_zero]
      exact List.take_of_length_le (by omega)
    rw [this]; exact hok'

theorem burst33_facts : burst33.length = 1024 ∧ burst33.take 48 = zeros 48 ∧
    ∃ rest, burst33.drop 100 = 0xF1 :: rest := by
  refine ⟨?_, ?_, ?_⟩
  · simp only [burst33, List.length_append, zeros_length, List.length_cons, List.length_nil]
  · simp only [burst33, List.append_assoc]
    rw [List.take_append_of_le_length (by rw [zeros_length]; omega)]
    simp only [zeros, List.take_replicate]
    rfl
  · refine ⟨[0x76, 0xEC, 0x05, 0x01] ++ zeros 915 ++ zeros 4, ?_⟩
    simp only [burst33, List.append_assoc]
    rw [List.drop_left' (zeros_length 100)]
    rfl

theorem stream1_facts : ∃ p : Bytes, p.length = 1024 ∧ validateCrc ⟨p, 0⟩ = some 1024 ∧
    pageOk p = true ∧ psField p = 1024 := by
  have hd : Ex.stream1.length % 1020 = 0 := by rw [Ex.stream1_length]
  have hne : Ex.stream1 ≠ [] := by
    intro e; have := Ex.stream1_length; rw [e] at this; cases this
  have hl : (image Ex.stream1).length = 1024 := by
    rw [image_length _ hd, Ex.stream1_length]
  refine ⟨image Ex.stream1, hl, Ex.stream1_ok 0, ?_, ?_⟩
  · have := allPagesValid_image Ex.stream1 hd 0 (by rw [hl]; decide)
    rw [pageValid_iff_pageOk] at this
    have e : devPage (image Ex.stream1) 1024 0 = image Ex.stream1 := by
      simp only [devPage, Nat.zero_mul, List.drop_zero]
      exact List.take_of_length_le (by omega)
    rw [e] at this; exact this
  · unfold psField
    rw [image_drop40 _ hd hne]
    decide +kernel

/-- … is false: a CRC-32 cannot detect everything.  The 33-bit burst `burst33` (the generator polynomial,
    bytes 100..104 of the page) xor-ed onto the single page of a valid file gives a different file of the
    same length that `validate_crc` accepts. -/
theorem validateCrc_every_alteration_statement_false : ¬ validateCrc_every_alteration_statement := by
  intro h
  obtain ⟨hb, hpre, rest, hdrop⟩ := burst33_facts
  obtain ⟨p, hl, hok, hok0, hfield⟩ := stream1_facts
  have hok1 := burst33_undetected p hl hok0
  generalize burst33 = e at *
  have hval := validateCrc_xor_one_page p e 0 hl hb hfield hok1 hpre
  have hne : xorBytes p e ≠ p := by
    intro e0
    have e1 := congrArg (List.drop 100) e0
    rw [xorBytes_drop, hdrop] at e1
    cases hd : p.drop 100 with
    | nil =>
      have := congrArg List.length hd
      rw [List.length_drop, hl] at this
      cases this
    | cons y ys =>
      rw [hd, xorBytes_cons] at e1
      injection e1 with e3 _
      exact xor_F1_ne y e3
  have := h ⟨p, 0⟩ ⟨xorBytes p e, 0⟩ 1024 hok
    (by show (xorBytes p e).length = p.length; rw [xorBytes_length, hl, hb]; rfl) hne
  rw [hval] at this
  cases this

/-! # Part 2 — e57-from-xyz: one line of text to one point -/

/-- column `i` of a line (`parts[i]`; the empty string stands for "no such column") -/
def col (line : String) (i : Nat) : String := (xyzParts line).getD i ""

/-- the point e57-from-xyz adds for parsed coordinates and colours -/
def xyzValues (x y z : UInt32) (r g b : Nat) : List Value :=
  [.single x, .single y, .single z, .integer r, .integer g, .integer b]

/-- a line is skipped iff it has fewer than six space-separated columns -/
theorem fromXyzLine_skip_iff (fp : FloatParse) (line : String) :
    fromXyzLine fp line = some none ↔ (xyzParts line).length < 6 := by
  unfold fromXyzLine
  by_cases h : (xyzParts line).length ≥ 6
  · simp only [h, if_true]
    constructor
    · intro e
      cases h0 : fp.f32 ((xyzParts line).getD 0 "") <;> rw [h0] at e <;> try cases e
      cases h1 : fp.f32 ((xyzParts line).getD 1 "") <;> rw [h1] at e <;> try cases e
      cases h2 : fp.f32 ((xyzParts line).getD 2 "") <;> rw [h2] at e <;> try cases e
      cases h3 : parseUnsigned 255 ((xyzParts line).getD 3 "") <;> rw [h3] at e <;> try cases e
      cases h4 : parseUnsigned 255 ((xyzParts line).getD 4 "") <;> rw [h4] at e <;> try cases e
      cases h5 : parseUnsigned 255 ((xyzParts line).getD 5 "") <;> rw [h5] at e <;> cases e
    · intro; omega
  · simp only [h, if_false, true_iff]; omega

/-- **`fromXyzLine_spec`**: a line with at least six columns is converted iff the first three parse as
    `f32` and the next three as `u8`; the point is then `[x, y, z, r, g, b]` (further columns ignored) -/
theorem fromXyzLine_spec (fp : FloatParse) (line : String) (vs : List Value) :
    fromXyzLine fp line = some (some vs) ↔
      6 ≤ (xyzParts line).length ∧ ∃ x y z r g b,
        fp.f32 (col line 0) = some x ∧ fp.f32 (col line 1) = some y ∧ fp.f32 (col line 2) = some z ∧
        parseUnsigned 255 (col line 3) = some r ∧ parseUnsigned 255 (col line 4) = some g ∧
        parseUnsigned 255 (col line 5) = some b ∧ vs = xyzValues x y z r g b := by
  unfold fromXyzLine col xyzValues
  by_cases h : (xyzParts line).length ≥ 6
  · simp only [h, if_true]
    constructor
    · intro e
      refine ⟨trivial, ?_⟩
      cases h0 : fp.f32 ((xyzParts line).getD 0 "") <;> rw [h0] at e <;> try cases e
      cases h1 : fp.f32 ((xyzParts line).getD 1 "") <;> rw [h1] at e <;> try cases e
      cases h2 : fp.f32 ((xyzParts line).getD 2 "") <;> rw [h2] at e <;> try cases e
      cases h3 : parseUnsigned 255 ((xyzParts line).getD 3 "") <;> rw [h3] at e <;> try cases e
      cases h4 : parseUnsigned 255 ((xyzParts line).getD 4 "") <;> rw [h4] at e <;> try cases e
      cases h5 : parseUnsigned 255 ((xyzParts line).getD 5 "") <;> rw [h5] at e <;> try cases e
      exact ⟨_, _, _, _, _, _, rfl, rfl, rfl, rfl, rfl, rfl, rfl⟩
    · rintro ⟨_, x, y, z, r, g, b, h0, h1, h2, h3, h4, h5, rfl⟩
      rw [h0, h1, h2, h3, h4, h5]
      rfl
  · simp only [h, if_false]
    constructor
    · intro e; cases e
    · rintro ⟨h', _⟩; exact h'.elim

/-- the tool aborts on a line iff it has at least six columns and one of the six parses fails -/
theorem fromXyzLine_abort_iff (fp : FloatParse) (line : String) :
    fromXyzLine fp line = none ↔
      6 ≤ (xyzParts line).length ∧
        (fp.f32 (col line 0) = none ∨ fp.f32 (col line 1) = none ∨ fp.f32 (col line 2) = none ∨
         parseUnsigned 255 (col line 3) = none ∨ parseUnsigned 255 (col line 4) = none ∨
         parseUnsigned 255 (col line 5) = none) := by
  unfold fromXyzLine col
  by_cases h : (xyzParts line).length ≥ 6
  · simp only [h, if_true]
    cases h0 : fp.f32 ((xyzParts line).getD 0 "") <;>
    cases h1 : fp.f32 ((xyzParts line).getD 1 "") <;>
    cases h2 : fp.f32 ((xyzParts line).getD 2 "") <;>
    cases h3 : parseUnsigned 255 ((xyzParts line).getD 3 "") <;>
    cases h4 : parseUnsigned 255 ((xyzParts line).getD 4 "") <;>
    cases h5 : parseUnsigned 255 ((xyzParts line).getD 5 "") <;> simp
  · simp only [h, if_false]
    constructor
    · intro e; cases e
    · rintro ⟨h', _⟩; exact h'.elim

/-! ## 2.2 the prototype and the points are accepted by the writer -/

theorem xyzPrototype_valid : validatePrototype xyzPrototype = true := by decide

theorem xyzPrototype_extensions (exts : List (String × String)) :
    validateExtensions xyzPrototype exts = true := by
  simp [validateExtensions, xyzPrototype]

theorem xyzPrototype_i64 : ProtoI64 xyzPrototype := by
  intro r hr
  simp only [xyzPrototype, List.mem_cons, List.mem_nil_iff, or_false] at hr
  rcases hr with rfl | rfl | rfl | rfl | rfl | rfl <;> first | trivial | exact ⟨by decide, by decide⟩

theorem xyzPrototype_nodup : NoDupNames xyzPrototype := by unfold NoDupNames; decide

theorem xyzPrototype_bits : pointBits xyzPrototype = 120 := by decide

/-- `PointCloudWriter::new` accepts the prototype on every healthy page writer -/
theorem xyz_new_ok (pw : PW) (exts : List (String × String)) (guid : String) (hpw : pw.Inv) :
    ∃ pw0 w0, PcW.new pw exts guid xyzPrototype = .ok (pw0, w0) := by
  obtain ⟨⟨pw0, w0⟩, h⟩ := (PcW.new_ok_iff pw exts guid xyzPrototype hpw).2
    ⟨xyzPrototype_extensions exts, xyzPrototype_valid, by rw [xyzPrototype_bits]; decide⟩
  exact ⟨pw0, w0, h⟩

/-- what `parse::<u8>` returns is at most 255 -/
theorem parseUnsigned_le (max : Nat) (s : String) (n : Nat) (h : parseUnsigned max s = some n) :
    n ≤ max := by
  unfold parseUnsigned at h
  split at h
  all_goals
    cases hd : digitsVal _ <;> rw [hd] at h
    · cases h
    · simp only [Option.bind_eq_bind, Option.bind_some] at h
      split at h
      · cases h; assumption
      · cases h

/-- **`fromXyz_accepted`**: a converted point fits the prototype (`add_point` accepts it) -/
theorem fromXyz_accepted (x y z : UInt32) (r g b : Nat) (hr : r ≤ 255) (hg : g ≤ 255) (hb : b ≤ 255) :
    (xyzValues x y z r g b).length = xyzPrototype.length ∧
    checkValues xyzPrototype (xyzValues x y z r g b) = true := by
  refine ⟨rfl, ?_⟩
  simp only [xyzValues, xyzPrototype, checkValues, DataType.accepts, DataType.matches, Bool.and_true,
    Bool.true_and, Bool.and_eq_true, decide_eq_true_eq]
  omega

theorem fromXyzLine_accepted (fp : FloatParse) (line : String) (vs : List Value)
    (h : fromXyzLine fp line = some (some vs)) :
    vs.length = xyzPrototype.length ∧ checkValues xyzPrototype vs = true := by
  obtain ⟨_, x, y, z, r, g, b, _, _, _, h3, h4, h5, rfl⟩ := (fromXyzLine_spec fp line vs).1 h
  exact fromXyz_accepted x y z r g b (parseUnsigned_le _ _ _ h3) (parseUnsigned_le _ _ _ h4)
    (parseUnsigned_le _ _ _ h5)

/-! ## 2.3 the whole text file -/

/-- the points e57-from-xyz adds for a text file, in order; `none` = the tool aborts on a parse error -/
def xyzPoints (fp : FloatParse) : List String → Option (List (List Value))
  | [] => some []
  | l :: ls =>
    match fromXyzLine fp l with
    | none => none
    | some none => xyzPoints fp ls
    | some (some vs) => (xyzPoints fp ls).map (vs :: ·)

/-- `xyzRoundTrip` of the model = view every stored point with `toXyzPoint`, drop the unprintable -/
theorem xyzRoundTrip_eq (fp : FloatParse) (lines : List String) :
    xyzRoundTrip fp lines = (xyzPoints fp lines).map (fun pts => pts.filterMap toXyzPoint) := by
  induction lines with
  | nil => rfl
  | cons l ls ih =>
    unfold xyzRoundTrip xyzPoints
    cases hl : fromXyzLine fp l with
    | none => rfl
    | some o =>
      cases o with
      | none => simpa using ih
      | some vs =>
        simp only [ih]
        cases hp : xyzPoints fp ls with
        | none => rfl
        | some pts =>
          cases ht : toXyzPoint vs <;> simp [ht]

theorem xyzPoints_accepted (fp : FloatParse) : ∀ (lines : List String) (pts : List (List Value)),
    xyzPoints fp lines = some pts →
    ∀ pt ∈ pts, pt.length = xyzPrototype.length ∧ checkValues xyzPrototype pt = true
  | [], pts, h => by cases h; intro pt hpt; cases hpt
  | l :: ls, pts, h => by
    unfold xyzPoints at h
    cases hl : fromXyzLine fp l with
    | none => rw [hl] at h; cases h
    | some o =>
      rw [hl] at h
      cases o with
      | none => exact xyzPoints_accepted fp ls pts h
      | some vs =>
        simp only [Option.map_eq_some_iff] at h
        obtain ⟨rest, hrest, rfl⟩ := h
        intro pt hpt
        rcases List.mem_cons.1 hpt with rfl | hpt
        · exact fromXyzLine_accepted fp l _ hl
        · exact xyzPoints_accepted fp ls rest hrest pt hpt

/-- the converted points are exactly the converted lines, in order: a line contributes iff
    `fromXyzLine` converts it -/
theorem xyzPoints_eq (fp : FloatParse) (lines : List String) (pts : List (List Value))
    (h : xyzPoints fp lines = some pts) :
    pts = lines.filterMap (fun l => (fromXyzLine fp l).join) ∧ ∀ l ∈ lines, fromXyzLine fp l ≠ none := by
  induction lines generalizing pts with
  | nil => cases h; exact ⟨rfl, by intro l hl; cases hl⟩
  | cons l ls ih =>
    unfold xyzPoints at h
    cases hl : fromXyzLine fp l with
    | none => rw [hl] at h; cases h
    | some o =>
      rw [hl] at h
      cases o with
      | none =>
        obtain ⟨e, hn⟩ := ih pts h
        refine ⟨by simp [hl, ← e], ?_⟩
        intro l' hl'
        rcases List.mem_cons.1 hl' with rfl | hl'
        · rw [hl]; exact fun e => nomatch e
        · exact hn l' hl'
      | some vs =>
        simp only [Option.map_eq_some_iff] at h
        obtain ⟨rest, hrest, rfl⟩ := h
        obtain ⟨e, hn⟩ := ih rest hrest
        refine ⟨by simp [hl, ← e], ?_⟩
        intro l' hl'
        rcases List.mem_cons.1 hl' with rfl | hl'
        · rw [hl]; exact fun e => nomatch e
        · exact hn l' hl'

/-- **`xyz_points_stored`** (C01 instantiated for e57-from-xyz): for every text file the tool converts
    without a parse error, on every healthy, 4-byte aligned page writer: `new` with the tool's prototype,
    the `add_point`s and `finalize` all succeed, and every complete paged stream that still carries the
    section is decoded by the raw iterator into exactly the converted points, same count, same order,
    then `done`. -/
theorem xyz_points_stored (fp : FloatParse) (lines : List String) (pts : List (List Value))
    (hpts : xyzPoints fp lines = some pts)
    (pw : PW) (exts : List (String × String)) (guid : String)
    (hpw : pw.Inv) (hal : pw.abs.cur % 4 = 0) :
    ∃ pw0 w0 pw1 w1 pw2 w2 pc,
      PcW.new pw exts guid xyzPrototype = .ok (pw0, w0) ∧
      addPoints pts (pw0, w0) = .ok (pw1, w1) ∧ w1.finalize pw1 = .ok (pw2, w2, pc) ∧
      pw2.Inv ∧ pc.records = pts.length ∧ pc.prototype = xyzPrototype ∧
      ∀ (d : Bytes) (r0 : PR),
        RoundTrip.Contains d r0 pw.abs.cur
            (RoundTrip.sectionLen xyzPrototype (emitted pw exts guid xyzPrototype pts))
            (RoundTrip.sectionWindow pw pw2 xyzPrototype (emitted pw exts guid xyzPrototype pts)) →
        (pts = [] → pw.abs.cur + 32 < d.length) →
        ∃ r1 q, QR.new pc r0 = (r1, some q) ∧
          RawIter.run (pts.length + 1) ⟨q, pc.records, 0⟩ r1 = pts.map Item.value ++ [.done] := by
  obtain ⟨pw0, w0, hnew⟩ := xyz_new_ok pw exts guid hpw
  obtain ⟨pw1, w1, pw2, w2, pc, e1, e2, i2, _, hrec, hproto, _, h⟩ :=
    RoundTrip.C01_section_roundtrip pw exts guid xyzPrototype pts hpw hal xyzPrototype_i64
      xyzPrototype_nodup pw0 w0 hnew (xyzPoints_accepted fp lines pts hpts)
  refine ⟨pw0, w0, pw1, w1, pw2, w2, pc, hnew, e1, e2, i2, hrec, hproto, ?_⟩
  intro d r0 hc hroom
  apply h d r0 hc
  rintro (he | hb)
  · exact hroom he
  · rw [xyzPrototype_bits] at hb; cases hb

/-! # Part 3 — the colours e57-to-xyz prints parse back -/

/-- **`parseUnsigned_255_roundtrip`**: the decimal text of `n` parses back as `u8` iff `n ≤ 255` -/
theorem parseUnsigned_255_roundtrip (n : Nat) :
    parseUnsigned 255 (toString n) = if n ≤ 255 then some n else none := by
  split
  · rename_i h; exact MT.parseUnsigned_toString 255 n h
  · rename_i h
    obtain ⟨c, cs, hcs, hd⟩ := MT.toDigits_cons n
    have hv := MT.digitsVal_toDigits n
    unfold parseUnsigned
    rw [MT.toList_toString_nat, hcs]
    rw [hcs] at hv
    split
    · rename_i heq; injection heq with h1; exact absurd h1 (MT.isDigit_ne hd).2
    · simp [hv, h]

theorem parseUnsigned_255_of_le (n : Nat) (h : n ≤ 255) : parseUnsigned 255 (toString n) = some n := by
  rw [parseUnsigned_255_roundtrip, if_pos h]

theorem parseUnsigned_255_of_gt (n : Nat) (h : 255 < n) : parseUnsigned 255 (toString n) = none := by
  rw [parseUnsigned_255_roundtrip, if_neg (by omega)]

/-- every colour `colourToU8` produces (an `as u8` cast) is printed as text that e57-from-xyz reads back -/
theorem colourToU8_parses_back (c : UInt32) :
    parseUnsigned 255 (toString (colourToU8 c)) = some (colourToU8 c) := by
  apply parseUnsigned_255_of_le
  unfold colourToU8
  have := (Float32.toUInt8 (Float32.ofBits c * 255.0)).toNat_lt
  omega

/-! # Part 4 — e57-to-xyz: what is printed for a stored point

The point cloud e57-from-xyz writes has NO pose (`xyzPointCloud.transform = none`).  Since the repair of the
simple iterator (`postProcess`: the pose is applied only if the option is on AND the point cloud has a pose)
no arithmetic touches the coordinates on this path any more: stored `f32` → `as f64` → (bit pattern in the
`Point` structure) → `as f32`.

## 4.1 structure: `toXyzPoint` unfolded (no fact about floats needed) -/

/-- `f32 → f64` (exact) -/
def widen (x : UInt32) : Float := (Float32.ofBits x).toFloat

/-- the `f64` the simple iterator holds for a stored `f32` coordinate -/
def emb (x : UInt32) : Float := Float.ofBits (Float32.ofBits x).toFloat.toBits

/-- what e57-to-xyz obtains for the stored coordinate `x`: widened, held as a bit pattern in the `Point`
    structure, never touched, narrowed (`as f32`).  (Before the repair this depended on all three
    coordinates: `poseX/poseY/poseZ` in 4.4.) -/
def back (x : UInt32) : Nat := (emb x).toFloat32.toBits.toNat

/-- the normalisation range of an Integer colour record with limits 0..255 -/
def colourRange : Range := Range.fromMinMax (i64ToFloat 0) (i64ToFloat 255)

/-- colour `c` stored as Integer, normalised to `[0,1]` as `f32`, printed as `(c * 255.) as u8` -/
def outColour (c : Int) : Nat := colourToU8 (colourRange.normalize (Float.ofBits (i64ToFloat c).toBits))

/-- the tool's point cloud has no pose … -/
theorem xyzPointCloud_no_pose : xyzPointCloud.transform = none := rfl

/-- … so each printed coordinate is a function of the stored coordinate alone (no pose arithmetic) -/
theorem toXyzPoint_eq (x y z : UInt32) (r g b : Int) :
    toXyzPoint [.single x, .single y, .single z, .integer r, .integer g, .integer b] =
      some [back x, back y, back z, outColour r, outColour g, outColour b] := by
  rfl


/-! ## 4.2 the coordinates come back bit for bit

`Float`, `Float32` are opaque to the kernel, so the two conversions are characterised by hypotheses.  Of the
twelve facts the identity-pose arithmetic needed before the repair (kept in 4.4 as `IdentityPoseFacts`), TWO
remain, and none of them is about arithmetic. -/

/-- a binary32 pattern that is not a NaN: exponent field below 255, or 255 with a zero fraction (±∞).
    −0.0 (`0x80000000`), the subnormals and both infinities are included. -/
def NotNaN32 (x : UInt32) : Prop := x.toNat % 2147483648 ≤ 2139095040

instance (x : UInt32) : Decidable (NotNaN32 x) := by unfold NotNaN32; infer_instance

/-- a finite binary32 pattern: the exponent field is not 255 -/
def Fin32 (x : UInt32) : Prop := x.toNat % 2147483648 < 2139095040

instance (x : UInt32) : Decidable (Fin32 x) := by unfold Fin32; infer_instance

theorem Fin32.notNaN {x : UInt32} (h : Fin32 x) : NotNaN32 x := Nat.le_of_lt h

/-- The facts about the hardware floats the coordinate path of e57-to-xyz still needs:
    * `bits` — transmuting the widened value to its bit pattern and back (`f64::to_bits`/`from_bits`, the
      `Point` structure of the model) is the identity;
    * `widen_back` — `f32 → f64 → f32` is the identity.
    Both for every pattern that is not a NaN (−0.0 and ±∞ included).  NaNs are excluded because Lean's
    `Float.toBits`/`Float32.toBits` return the canonical quiet NaN for every NaN (evaluation:
    `0x7F800001 ↦ 0x7FC00000`), and Rust leaves the payload of a NaN produced by a cast unspecified; a NaN
    comes back as a NaN: `NaNFacts`, `xyz_coords_nan`.  Spot-checked by evaluation on the hardware. -/
structure IEEEFacts : Prop where
  bits : ∀ x, NotNaN32 x → Float.ofBits (widen x).toBits = widen x
  widen_back : ∀ x, NotNaN32 x → (widen x).toFloat32.toBits = x

/-- what is assumed about NaNs: widening, transmuting and narrowing a NaN give a NaN -/
structure NaNFacts : Prop where
  widen_nan : ∀ x, ¬ NotNaN32 x → (widen x).isNaN = true
  bits_nan : ∀ v : Float, v.isNaN = true → (Float.ofBits v.toBits).isNaN = true
  narrow_nan : ∀ v : Float, v.isNaN = true → ¬ NotNaN32 v.toFloat32.toBits

namespace IEEEFacts
variable (F : IEEEFacts)
include F

theorem emb_eq (x : UInt32) (hx : NotNaN32 x) : emb x = widen x := F.bits x hx

/-- one coordinate: the stored bit pattern comes back -/
theorem back_eq (x : UInt32) (hx : NotNaN32 x) : back x = x.toNat := by
  unfold back
  rw [F.emb_eq x hx, F.widen_back x hx]

/-- **the three coordinates come back**: the bit patterns e57-to-xyz obtains are the stored ones, for
    every value that is not a NaN — −0.0 stays −0.0, ±∞ stay ±∞, and an infinite coordinate no longer
    turns its finite neighbours into NaN -/
theorem coords (x y z : UInt32) (hx : NotNaN32 x) (hy : NotNaN32 y) (hz : NotNaN32 z) :
    back x = x.toNat ∧ back y = y.toNat ∧ back z = z.toNat :=
  ⟨F.back_eq x hx, F.back_eq y hy, F.back_eq z hz⟩

end IEEEFacts

/-- the statement with full bit identity for finite coordinates: before the repair it was FALSE
    (`xyz_coords_bits_statement_false`: −0.0 came back as +0.0; now `identity_pose_not_neutral` in 4.4) … -/
def xyz_coords_bits_statement : Prop :=
  ∀ x y z : UInt32, Fin32 x → Fin32 y → Fin32 z →
    back x = x.toNat ∧ back y = y.toNat ∧ back z = z.toNat

/-- … and is now a theorem (relative to the two `IEEEFacts`) -/
theorem xyz_coords_bits (F : IEEEFacts) : xyz_coords_bits_statement :=
  fun x y z hx hy hz => F.coords x y z hx.notNaN hy.notNaN hz.notNaN

/-- every coordinate by itself, infinities included: no dependence on the other two coordinates -/
theorem xyz_coords_bits_all (F : IEEEFacts) (x : UInt32) (hx : NotNaN32 x) : back x = x.toNat :=
  F.back_eq x hx

/-- −0.0, +∞ and −∞ come back as themselves (instances of `xyz_coords_bits_all`) -/
theorem xyz_coords_bits_special (F : IEEEFacts) :
    back 0x80000000 = 0x80000000 ∧ back 0x7F800000 = 0x7F800000 ∧ back 0xFF800000 = 0xFF800000 :=
  ⟨F.back_eq _ (by decide), F.back_eq _ (by decide), F.back_eq _ (by decide)⟩

/-- the former strongest true variant (bit identity for every finite coordinate other than −0.0), now a
    corollary of `xyz_coords_bits`: the side conditions `≠ −0.0` are no longer needed -/
theorem xyz_coords_bits_partial (F : IEEEFacts) (x y z : UInt32) (hx : Fin32 x) (hy : Fin32 y)
    (hz : Fin32 z) :
    (x ≠ 0x80000000 → back x = x.toNat) ∧ (y ≠ 0x80000000 → back y = y.toNat) ∧
    (z ≠ 0x80000000 → back z = z.toNat) := by
  obtain ⟨h1, h2, h3⟩ := xyz_coords_bits F x y z hx hy hz
  exact ⟨fun _ => h1, fun _ => h2, fun _ => h3⟩

/-- a NaN comes back as a NaN (which one is not specified) -/
theorem xyz_coords_nan (N : NaNFacts) (x : UInt32) (hx : ¬ NotNaN32 x) :
    ∃ n : UInt32, ¬ NotNaN32 n ∧ back x = n.toNat := by
  refine ⟨_, ?_, rfl⟩
  exact N.narrow_nan _ (N.bits_nan _ (N.widen_nan x hx))

/-! ## 4.3 colours, and the whole file -/

/-- The colour path on the hardware floats: Integer 0..255 → normalised `f32` → `(c * 255.) as u8` is the
    identity.  A closed, finite fact (256 cases); it evaluates to `true` on the hardware, and it is a
    THEOREM for the soft-float model of the same operations (`SF.colour_roundTrip` in
    `E57/Proofs/SoftFloat.lean`, which the differential suite `sfloat` ties to the hardware). -/
def ColourTable : Prop := ∀ c : Nat, c < 256 → outColour (c : Int) = c

/-- **one point through e57-from-xyz → file → e57-to-xyz**: the three bit patterns and the three colours -/
theorem toXyzPoint_roundtrip (F : IEEEFacts) (C : ColourTable) (x y z : UInt32) (r g b : Nat)
    (hx : NotNaN32 x) (hy : NotNaN32 y) (hz : NotNaN32 z) (hr : r ≤ 255) (hg : g ≤ 255) (hb : b ≤ 255) :
    toXyzPoint (xyzValues x y z r g b) = some [x.toNat, y.toNat, z.toNat, r, g, b] := by
  unfold xyzValues
  rw [toXyzPoint_eq]
  obtain ⟨h1, h2, h3⟩ := F.coords x y z hx hy hz
  rw [h1, h2, h3, C r (by omega), C g (by omega), C b (by omega)]

/-- what e57-to-xyz prints for a stored point of the tool's prototype: the stored numbers -/
def viewBack (pt : List Value) : List Nat :=
  pt.map (fun v => match v with
    | .single b => b.toNat
    | .integer i => i.toNat
    | _ => 0)

theorem viewBack_xyzValues (x y z : UInt32) (r g b : Nat) :
    viewBack (xyzValues x y z r g b) = [x.toNat, y.toNat, z.toNat, r, g, b] := by
  simp [viewBack, xyzValues]

/-- every converted point has the shape `[x, y, z, r, g, b]` with 8-bit colours -/
theorem xyzPoints_shape (fp : FloatParse) (lines : List String) (pts : List (List Value))
    (h : xyzPoints fp lines = some pts) :
    ∀ pt ∈ pts, ∃ x y z r g b, pt = xyzValues x y z r g b ∧ r ≤ 255 ∧ g ≤ 255 ∧ b ≤ 255 := by
  obtain ⟨e, _⟩ := xyzPoints_eq fp lines pts h
  intro pt hpt
  rw [e, List.mem_filterMap] at hpt
  obtain ⟨l, _, hl⟩ := hpt
  have hl' : fromXyzLine fp l = some (some pt) := by
    cases hf : fromXyzLine fp l with
    | none => rw [hf] at hl; cases hl
    | some o =>
      rw [hf] at hl
      cases o with
      | none => cases hl
      | some v => cases hl; rfl
  obtain ⟨_, x, y, z, r, g, b, _, _, _, h3, h4, h5, rfl⟩ := (fromXyzLine_spec fp l pt).1 hl'
  exact ⟨x, y, z, r, g, b, rfl, parseUnsigned_le _ _ _ h3, parseUnsigned_le _ _ _ h4,
    parseUnsigned_le _ _ _ h5⟩

/-- **C20, XYZ → E57 → XYZ, value level**: for a text file that is converted without a parse error and
    whose coordinates are not NaN (−0.0 and ±∞ allowed), the numbers e57-to-xyz obtains from the stored
    points are, line by converted line and in order, the BIT PATTERNS of the `f32` coordinates and the 8-bit
    colours that e57-from-xyz parsed.  Relative to the two `IEEEFacts` and `ColourTable` (hardware floats). -/
theorem xyzRoundTrip_spec (F : IEEEFacts) (C : ColourTable) (fp : FloatParse) (lines : List String)
    (pts : List (List Value)) (h : xyzPoints fp lines = some pts)
    (hfin : ∀ pt ∈ pts, ∀ b, Value.single b ∈ pt → NotNaN32 b) :
    xyzRoundTrip fp lines = some (pts.map viewBack) := by
  rw [xyzRoundTrip_eq, h, Option.map_some]
  congr 1
  have hs := xyzPoints_shape fp lines pts h
  clear h
  induction pts with
  | nil => rfl
  | cons pt rest ih =>
    obtain ⟨x, y, z, r, g, b, rfl, hr, hg, hb⟩ := hs _ (List.mem_cons_self)
    have hf := hfin _ (List.mem_cons_self)
    have e := toXyzPoint_roundtrip F C x y z r g b (hf x (by simp [xyzValues]))
      (hf y (by simp [xyzValues])) (hf z (by simp [xyzValues])) hr hg hb
    rw [List.filterMap_cons, e, List.map_cons, viewBack_xyzValues,
      ih (fun pt hpt => hfin pt (List.mem_cons_of_mem _ hpt)) (fun pt hpt => hs pt (List.mem_cons_of_mem _ hpt))]

/-! ## 4.4 the behaviour before the repair: the identity pose is not neutral

Kept as documentation of the defect.  Before the repair `postProcess` applied `transformPoint` with the
rotation and translation of `prepareTransform` also to a point cloud without a pose, i.e. it computed
`1·x + 0·y + 0·z + 0` and so on.  Under the twelve `IdentityPoseFacts` (the former `IEEEFacts`) that turns −0.0
into +0.0 (`identity_pose_not_neutral`, the former `xyz_coords_bits_statement_false`); an infinite coordinate
made the other two NaN (0·∞; not covered by these facts, which speak about finite values only). -/

/-- `v as f32`, after the value went through the `Point` structure as a bit pattern once more -/
def outF32 (v : Float) : Nat := (Float.ofBits v.toBits).toFloat32.toBits.toNat

/-- rotation matrix and translation the iterator computes for a point cloud without a pose -/
def idRot : Array Float := (prepareTransform xyzPointCloud).1
def idTr : Float × Float × Float := (prepareTransform xyzPointCloud).2

/-- `transformPoint` with the identity pose on the view of a stored point `(x, y, z)` -/
def posed (x y z : UInt32) : Coord :=
  (transformPoint idRot idTr
    ⟨⟨0, (widen x).toBits, (widen y).toBits, (widen z).toBits⟩, ⟨2, 0, 0, 0⟩, none, none, -1, -1⟩).cartesian

/-- what e57-to-xyz obtained from the posed coordinates (`as f32`) -/
def poseX (x y z : UInt32) : Nat := (Float.ofBits (posed x y z).a).toFloat32.toBits.toNat
def poseY (x y z : UInt32) : Nat := (Float.ofBits (posed x y z).b).toFloat32.toBits.toNat
def poseZ (x y z : UInt32) : Nat := (Float.ofBits (posed x y z).c).toFloat32.toBits.toNat

theorem poseX_eq (x y z : UInt32) :
    poseX x y z = outF32 (idRot[0]! * emb x + idRot[3]! * emb y + idRot[6]! * emb z + idTr.1) := rfl
theorem poseY_eq (x y z : UInt32) :
    poseY x y z = outF32 (idRot[1]! * emb x + idRot[4]! * emb y + idRot[7]! * emb z + idTr.2.1) := rfl
theorem poseZ_eq (x y z : UInt32) :
    poseZ x y z = outF32 (idRot[2]! * emb x + idRot[5]! * emb y + idRot[8]! * emb z + idTr.2.2) := rfl

def fOne : Float := Float.ofBits f64One
def fZero : Float := Float.ofBits 0
def fNegZero : Float := Float.ofBits 0x8000000000000000

/-- The facts about the hardware floats (`Float`, `Float32` are opaque in Lean) the coordinate path
    needed while the identity pose was applied.  All are instances of IEEE-754 round-to-nearest arithmetic:
    `pose` is a closed fact (the identity quaternion gives the identity matrix; confirmed by evaluation),
    the others are the laws "1·v = v", "0·v = ±0", "v + (+0) = v unless v = −0", "v + (−0) = v",
    "(−0) + (+0) = +0", "transmuting a finite `f64` to bits and back is the identity",
    "`f32 → f64` is finite and `f32 → f64 → f32` is the identity on finite values", and the images of ±0. -/
structure IdentityPoseFacts : Prop where
  pose : prepareTransform xyzPointCloud =
    (#[fOne, fZero, fZero, fZero, fOne, fZero, fZero, fZero, fOne], (fZero, fZero, fZero))
  one_mul : ∀ v : Float, v.isFinite = true → fOne * v = v
  zero_mul : ∀ v : Float, v.isFinite = true → fZero * v = fZero ∨ fZero * v = fNegZero
  add_zero : ∀ v : Float, v.isFinite = true → v = fNegZero ∨ v + fZero = v
  add_negZero : ∀ v : Float, v.isFinite = true → v + fNegZero = v
  negZero_add_zero : fNegZero + fZero = fZero
  add_comm : ∀ a b : Float, a.isFinite = true → b.isFinite = true → a + b = b + a
  bits : ∀ v : Float, v.isFinite = true → Float.ofBits v.toBits = v
  widen_finite : ∀ x, Fin32 x → (widen x).isFinite = true
  widen_back : ∀ x, Fin32 x → (widen x).toFloat32.toBits = x
  widen_zero : widen 0 = fZero
  widen_negZero : widen 0x80000000 = fNegZero

/-- what came back for a stored coordinate: the same bit pattern, except that −0.0 became +0.0 -/
def canon (x : UInt32) : Nat := if x = 0x80000000 then 0 else x.toNat

namespace IdentityPoseFacts
variable (F : IdentityPoseFacts)
include F

theorem zero_finite : fZero.isFinite = true := by
  rw [← F.widen_zero]; exact F.widen_finite 0 (by decide)

theorem negZero_finite : fNegZero.isFinite = true := by
  rw [← F.widen_negZero]; exact F.widen_finite 0x80000000 (by decide)

theorem zero_add_zero : fZero + fZero = fZero := by
  rcases F.add_zero fZero F.zero_finite with h | h
  · conv => lhs; arg 1; rw [h]
    exact F.negZero_add_zero
  · exact h

theorem widen_eq_negZero (x : UInt32) (hx : Fin32 x) : widen x = fNegZero ↔ x = 0x80000000 := by
  constructor
  · intro h
    have h1 := F.widen_back x hx
    rw [h, ← F.widen_negZero, F.widen_back 0x80000000 (by decide)] at h1
    exact h1.symm
  · rintro rfl; exact F.widen_negZero

/-- a zero of either sign -/
def IsZero (z : Float) : Prop := z = fZero ∨ z = fNegZero

theorem isZero_finite {z : Float} (hz : IsZero z) : z.isFinite = true := by
  rcases hz with rfl | rfl
  · exact F.zero_finite
  · exact F.negZero_finite

/-- `v` is `X`, or some zero if `X` is `−0` -/
def Like (X v : Float) : Prop := (X ≠ fNegZero → v = X) ∧ (X = fNegZero → IsZero v)

omit F in
theorem like_refl (X : Float) : Like X X := ⟨fun _ => rfl, fun h => .inr h⟩

theorem like_finite {X v : Float} (hX : X.isFinite = true) (h : Like X v) : v.isFinite = true := by
  by_cases hn : X = fNegZero
  · exact F.isZero_finite (h.2 hn)
  · rw [h.1 hn]; exact hX

/-- adding a zero of either sign on the right -/
theorem like_add {X v z : Float} (hX : X.isFinite = true) (h : Like X v) (hz : IsZero z) :
    Like X (v + z) := by
  have hv := F.like_finite hX h
  constructor
  · intro hn
    have e := h.1 hn
    subst e
    rcases hz with rfl | rfl
    · rcases F.add_zero v hv with h' | h'
      · exact absurd h' hn
      · exact h'
    · exact F.add_negZero v hv
  · intro hn
    rcases h.2 hn with rfl | rfl
    · rcases hz with rfl | rfl
      · exact .inl F.zero_add_zero
      · exact .inl (F.add_negZero _ F.zero_finite)
    · rcases hz with rfl | rfl
      · exact .inl F.negZero_add_zero
      · exact .inr (F.add_negZero _ F.negZero_finite)

/-- … and on the left -/
theorem like_add_left {X v z : Float} (hX : X.isFinite = true) (h : Like X v) (hz : IsZero z) :
    Like X (z + v) := by
  rw [F.add_comm z v (F.isZero_finite hz) (F.like_finite hX h)]
  exact F.like_add hX h hz

theorem isZero_add {a b : Float} (ha : IsZero a) (hb : IsZero b) : IsZero (a + b) := by
  rcases ha with rfl | rfl
  · exact (F.like_add F.negZero_finite (X := fNegZero) ⟨fun h => absurd rfl h, fun _ => .inl rfl⟩ hb).2 rfl
  · exact (F.like_add F.negZero_finite (like_refl fNegZero) hb).2 rfl

/-- the final `+ translation` (`+0`) -/
theorem like_add_zero {X v : Float} (hX : X.isFinite = true) (h : Like X v) :
    v + fZero = if X = fNegZero then fZero else X := by
  have h' := F.like_add hX h (.inl rfl)
  by_cases hn : X = fNegZero
  · rw [if_pos hn]
    rcases h.2 hn with rfl | rfl
    · exact F.zero_add_zero
    · exact F.negZero_add_zero
  · rw [if_neg hn]; exact h'.1 hn

theorem outF32_canon (x : UInt32) (hx : Fin32 x) :
    outF32 (if widen x = fNegZero then fZero else widen x) = canon x := by
  unfold outF32 canon
  by_cases h : x = 0x80000000
  · rw [if_pos ((F.widen_eq_negZero x hx).2 h), if_pos h, F.bits _ F.zero_finite, ← F.widen_zero,
      F.widen_back 0 (by decide)]
    rfl
  · rw [if_neg (fun e => h ((F.widen_eq_negZero x hx).1 e)), if_neg h, F.bits _ (F.widen_finite x hx),
      F.widen_back x hx]

theorem emb_eq (x : UInt32) (hx : Fin32 x) : emb x = widen x :=
  F.bits _ (F.widen_finite x hx)

theorem idRot_eq : idRot = #[fOne, fZero, fZero, fZero, fOne, fZero, fZero, fZero, fOne] := by
  unfold idRot; rw [F.pose]

theorem idTr_eq : idTr = (fZero, fZero, fZero) := by
  unfold idTr; rw [F.pose]

/-- the old `IEEEFacts.coords`: with the identity pose applied, for finite `f32` inputs the bit patterns
    obtained are the stored ones, except that `−0.0` comes back as `+0.0` -/
theorem coords (x y z : UInt32) (hx : Fin32 x) (hy : Fin32 y) (hz : Fin32 z) :
    poseX x y z = canon x ∧ poseY x y z = canon y ∧ poseZ x y z = canon z := by
  have fx := F.widen_finite x hx
  have fy := F.widen_finite y hy
  have fz := F.widen_finite z hz
  have zx : IsZero (fZero * widen x) := F.zero_mul _ fx
  have zy : IsZero (fZero * widen y) := F.zero_mul _ fy
  have zz : IsZero (fZero * widen z) := F.zero_mul _ fz
  rw [poseX_eq, poseY_eq, poseZ_eq]
  rw [F.idRot_eq, F.idTr_eq, F.emb_eq x hx, F.emb_eq y hy, F.emb_eq z hz]
  refine ⟨?_, ?_, ?_⟩
  · show outF32 (fOne * widen x + fZero * widen y + fZero * widen z + fZero) = _
    rw [F.one_mul _ fx,
      F.like_add_zero fx (F.like_add fx (F.like_add fx (like_refl _) zy) zz)]
    exact F.outF32_canon x hx
  · show outF32 (fZero * widen x + fOne * widen y + fZero * widen z + fZero) = _
    rw [F.one_mul _ fy,
      F.like_add_zero fy (F.like_add fy (F.like_add_left fy (like_refl _) zx) zz)]
    exact F.outF32_canon y hy
  · show outF32 (fZero * widen x + fZero * widen y + fOne * widen z + fZero) = _
    rw [F.one_mul _ fz,
      F.like_add_zero fz (F.like_add_left fz (like_refl _) (F.isZero_add zx zy))]
    exact F.outF32_canon z hz

end IdentityPoseFacts

/-- **the identity pose is not the identity on −0.0**: `transformPoint` with the rotation and translation
    prepared for a point cloud without a pose turns the stored −0.0 (`0x80000000`) into +0.0 (`0`), while
    the repaired path returns it unchanged (`xyz_coords_bits_special`).  Relative to `IdentityPoseFacts`;
    evaluation on the hardware agrees. -/
theorem identity_pose_not_neutral (F : IdentityPoseFacts) :
    poseX 0x80000000 0 0 = 0 ∧ poseX 0x80000000 0 0 ≠ (0x80000000 : UInt32).toNat := by
  have h := (F.coords 0x80000000 0 0 (by decide) (by decide) (by decide)).1
  rw [h]; decide

/-! # Non-vacuity -/

/-! ## Part 1: concrete devices -/

namespace Ex

def sealed (p : Bytes) : Bytes := p ++ toBE32 (crc32c p).toNat

/-- two pages of 32 bytes; the page size field (offset 40) lies in the second page -/
def dev2 : Dev := ⟨sealed (zeros 28) ++ sealed (zeros 8 ++ toLE 32 8 ++ zeros 12), 7⟩

/-- the same with one payload byte of the second page altered -/
def dev2bad : Dev := ⟨sealed (zeros 28) ++ (zeros 8 ++ toLE 32 8 ++ [1] ++ zeros 11
    ++ toBE32 (crc32c (zeros 8 ++ toLE 32 8 ++ zeros 12)).toNat), 7⟩

theorem dev2_length : dev2.data.length = 64 := by decide +kernel

theorem dev2_shape : ShapeOk 32 dev2.data := by decide +kernel

theorem dev2_valid : AllPagesValid 32 dev2.data := by decide +kernel

/-- by the theorem … -/
theorem dev2_ok : validateCrc dev2 = some 32 := (validateCrc_iff dev2 32).2 ⟨dev2_shape, dev2_valid⟩

/-- … and by evaluation of the model -/
example : validateCrc dev2 = some 32 := by decide +kernel

theorem dev2bad_field : psField dev2bad.data = 32 := by decide +kernel

theorem dev2bad_page1 : ¬ PageValid 32 dev2bad.data 1 := by decide +kernel

/-- the hypotheses of `validateCrc_detects_alteration` are satisfiable -/
theorem dev2bad_rejected : validateCrc dev2bad = none :=
  validateCrc_detects_alteration dev2 dev2bad 32 1 dev2_ok (by decide +kernel) dev2bad_field
    (by decide +kernel) dev2bad_page1

example : validateCrc dev2bad = none := by decide +kernel

/-- two standard pages: a logical stream of 2040 bytes with 1024 at offset 40 -/
def stream2 : Bytes := zeros 40 ++ toLE 1024 8 ++ zeros 1992

theorem stream2_ok (pos : Nat) : validateCrc ⟨image stream2, pos⟩ = some 1024 :=
  validateCrc_image stream2 pos (by decide +kernel) (by decide +kernel) (by decide +kernel)

example : checkFiles [dev2, ⟨image stream2, 0⟩] = true := by
  rw [checkFiles_iff]
  intro dev hdev
  apply (checkFile_iff dev).1
  simp only [List.mem_cons, List.mem_nil_iff, or_false] at hdev
  rcases hdev with rfl | rfl
  · unfold checkFile; rw [dev2_ok]; rfl
  · unfold checkFile; rw [stream2_ok]; rfl

end Ex

/-! ## Part 2: one line of text -/

namespace Ex

/-- the external float parser, on the three strings in play -/
def fpEx : FloatParse :=
  ⟨[("1.5", (none, some 0x3FC00000)), ("2", (none, some 0x40000000)), ("-3", (none, some 0xC0400000))]⟩

def lineEx : String := " 1.5 2 -3 255 0 7 x\n"
def lineExTrimmed : String := "1.5 2 -3 255 0 7 x"

theorem lineEx_trim : rustTrim lineEx = lineExTrimmed := by decide

theorem posRaw_zero : (0 : String.Pos.Raw) = ⟨0⟩ := rfl
theorem unoffsetBy_mk (a b : Nat) : String.Pos.Raw.unoffsetBy ⟨a⟩ ⟨b⟩ = ⟨a - b⟩ := rfl
set_option linter.unusedSimpArgs false in
theorem lineEx_split : lineExTrimmed.splitOn " " = ["1.5","2","-3","255","0","7","x"] := by
  unfold String.splitOn
  simp only [show (" " == "") = false by decide, posRaw_zero]
  have n0 : String.Pos.Raw.next lineExTrimmed ⟨0⟩ = ⟨1⟩ := by decide
  have n1 : String.Pos.Raw.next lineExTrimmed ⟨1⟩ = ⟨2⟩ := by decide
  have n2 : String.Pos.Raw.next lineExTrimmed ⟨2⟩ = ⟨3⟩ := by decide
  have n3 : String.Pos.Raw.next lineExTrimmed ⟨3⟩ = ⟨4⟩ := by decide
  have n4 : String.Pos.Raw.next lineExTrimmed ⟨4⟩ = ⟨5⟩ := by decide
  have n5 : String.Pos.Raw.next lineExTrimmed ⟨5⟩ = ⟨6⟩ := by decide
  have n6 : String.Pos.Raw.next lineExTrimmed ⟨6⟩ = ⟨7⟩ := by decide
  have n7 : String.Pos.Raw.next lineExTrimmed ⟨7⟩ = ⟨8⟩ := by decide
  have n8 : String.Pos.Raw.next lineExTrimmed ⟨8⟩ = ⟨9⟩ := by decide
  have n9 : String.Pos.Raw.next lineExTrimmed ⟨9⟩ = ⟨10⟩ := by decide
  have n10 : String.Pos.Raw.next lineExTrimmed ⟨10⟩ = ⟨11⟩ := by decide
  have n11 : String.Pos.Raw.next lineExTrimmed ⟨11⟩ = ⟨12⟩ := by decide
  have n12 : String.Pos.Raw.next lineExTrimmed ⟨12⟩ = ⟨13⟩ := by decide
  have n13 : String.Pos.Raw.next lineExTrimmed ⟨13⟩ = ⟨14⟩ := by decide
  have n14 : String.Pos.Raw.next lineExTrimmed ⟨14⟩ = ⟨15⟩ := by decide
  have n15 : String.Pos.Raw.next lineExTrimmed ⟨15⟩ = ⟨16⟩ := by decide
  have n16 : String.Pos.Raw.next lineExTrimmed ⟨16⟩ = ⟨17⟩ := by decide
  have n17 : String.Pos.Raw.next lineExTrimmed ⟨17⟩ = ⟨18⟩ := by decide
  have ns : String.Pos.Raw.next " " ⟨0⟩ = ⟨1⟩ := by decide
  repeat (rw [String.splitOnAux.eq_1]; simp (config := {decide := true}) only [↓reduceIte, posRaw_zero, unoffsetBy_mk, Nat.reduceSub, ns, n0, n1, n2, n3, n4, n5, n6, n7, n8, n9, n10, n11, n12, n13, n14, n15, n16, n17])

theorem lineEx_parts : xyzParts lineEx = ["1.5", "2", "-3", "255", "0", "7", "x"] := by
  unfold xyzParts; rw [lineEx_trim, lineEx_split]

/-- seven columns (the seventh is ignored), leading blank and newline trimmed: the point is converted -/
theorem lineEx_converted :
    fromXyzLine fpEx lineEx = some (some (xyzValues 0x3FC00000 0x40000000 0xC0400000 255 0 7)) := by
  rw [fromXyzLine_spec]
  refine ⟨by rw [lineEx_parts]; decide, _, _, _, _, _, _, ?_, ?_, ?_, ?_, ?_, ?_, rfl⟩ <;>
    (unfold col; rw [lineEx_parts]; decide)

/-- a line with five columns is skipped -/
theorem skip_ex (fp : FloatParse) (line : String) (h : xyzParts line = ["1", "2", "3", "4", "5"]) :
    fromXyzLine fp line = some none := by
  rw [fromXyzLine_skip_iff, h]; decide

theorem points_ex : xyzPoints fpEx [lineEx, lineEx] =
    some [xyzValues 0x3FC00000 0x40000000 0xC0400000 255 0 7,
          xyzValues 0x3FC00000 0x40000000 0xC0400000 255 0 7] := by
  simp only [xyzPoints, lineEx_converted, Option.map_some]

/-- `xyz_points_stored` applies: on the fresh page writer behind the 48-byte file header -/
example : ∃ pw0 w0 pw1 w1 pw2 w2 pc,
    PcW.new Interrupt.w1 [] "guid" xyzPrototype = .ok (pw0, w0) ∧
    addPoints [xyzValues 0x3FC00000 0x40000000 0xC0400000 255 0 7,
               xyzValues 0x3FC00000 0x40000000 0xC0400000 255 0 7] (pw0, w0) = .ok (pw1, w1) ∧
    w1.finalize pw1 = .ok (pw2, w2, pc) ∧ pc.records = 2 := by
  have hT := Session.w1_top
  obtain ⟨pw0, w0, pw1, w1, pw2, w2, pc, h1, h2, h3, _, h5, _⟩ :=
    xyz_points_stored fpEx [lineEx, lineEx] _ points_ex Interrupt.w1 [] "guid" hT.inv hT.al
  exact ⟨pw0, w0, pw1, w1, pw2, w2, pc, h1, h2, h3, h5⟩

end Ex

end ToolsP
end E57
