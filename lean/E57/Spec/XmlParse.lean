/-
A total, executable XML 1.0 + namespaces parser that follows `roxmltree` 0.20.0
(`Document::parse` with default options: `allow_dtd = false`, no node limit) decision for decision:
`tokenizer.rs` (stream functions, `parse`, `parse_misc`, `parse_declaration`, `parse_element`,
`parse_content`, `parse_text`, `parse_cdata`, `parse_comment`, `parse_pi`, `consume_qname`,
`consume_reference`) and `parse.rs` (`process_attribute`, `process_element`, `resolve_namespaces`,
`resolve_attributes`, `process_text`, `process_cdata`, `append_text`, `normalize_attribute`,
`TextBuffer`), followed by the view the harness dumps (`/verif/harness/src/eng_reader.rs`
`dump_xml`): the root element as an `XNode` tree, `lookup_prefix` for the reported element prefix,
`root_element().namespaces()`.

The parser works on `List Char` (a Rust `&str` is a sequence of Unicode scalar values, exactly what
`Char` is); every byte-level test in roxmltree concerns ASCII bytes only, so that the char-level
reading is the same function.  All recursions are structural: on the input list (scanners, the
reference decoder, the normalisation passes) or on a fuel counter that `parseDocumentL` sets to the
length of the input + 1 (every fuelled call consumes at least one character).

Fine print of roxmltree that IS mirrored (each is exercised by the differential corpus):
  * an optional U+FEFF first; the XML declaration only if the text starts with `<?xml ` (a space);
    `<?xml ` anywhere else is an error; `<?xml?>`, `<?xml\t…?>` are ordinary PIs;
    pseudo-attributes `version` (mandatory, only the PREFIX `version` of the name is checked),
    `encoding`, `standalone` in this order, values unchecked;
  * `consume_qname`: a run of name characters and at most one colon (a second colon is an error, it
    does not end the name); the prefix may be EMPTY (`<:a/>` is the element `a`); prefix and local
    part must start with a name-start character; roxmltree's own character tables (U+0080 is not a
    name character; ASCII `:` is handled before the tables);
  * attributes must be preceded by white space; value up to the quote, `<` forbidden, every character
    an XML `Char`; attribute named `xmlns` WITH ANY PREFIX other than `xmlns` declares the default
    namespace (`p:xmlns="u"` too); a second default declaration on the same element is NOT an error
    (only prefixed declarations are checked for duplicates); `xmlns:xml` must be the XML namespace and
    is not recorded; the XML namespace cannot be bound to another prefix or be the default; the
    xmlns namespace cannot be declared; `xmlns:p=""` and `xmlns=""` are accepted and recorded with
    the empty URI (an unprefixed element then reports the namespace `some ""`);
  * element prefix `xmlns` is an error; element prefix `xml` is NOT pre-bound (only attributes with
    prefix `xml` get the XML namespace without declaration): `<xml:a/>` is an unknown-namespace error;
  * the namespace list of an element: if it declares nothing, its parent's list; otherwise its own
    declarations in document order followed by those of the parent's list whose prefix is not yet in
    the list being built (so duplicates of the parent's list are dropped when inherited);
  * duplicate attributes are detected on expanded names (namespace URI, local name);
  * references: `&lt; &gt; &amp; &apos; &quot;`, `&#D+;`, `&#xH+;` (lower-case `x`); value above
    `u32::MAX` malformed; a value that is not a scalar value (surrogate, > 0x10FFFF) becomes U+FFFD;
    result must be an XML `Char` (so `&#0;`, `&#xFFFE;` are errors); any other entity is an error (no DTD);
  * text: `]]>` forbidden; maximal run up to `<`; if it contains neither `&` nor CR it is taken as is;
    otherwise `process_text`'s buffer discipline including its quirk that the character right after a
    reference is copied raw (so a literal CR right after a reference survives when it is the last
    character of the run or is followed by another reference);
  * CDATA: line ends normalised (`push_from_text`), no references; adjacent text/CDATA runs are merged into one
    text node (`after_text`), an empty CDATA section alone gives an empty text node;
  * attribute values: `push_from_attr` (CR LF → one space; CR, LF, TAB → space; referenced characters raw);
  * comments must not contain `--` nor end in `-`; PI target is a Name (colons allowed), content
    up to `?>`; all characters XML `Char`s.

Differences from roxmltree that a differential test could expose
  1. Nesting depth.  roxmltree 0.20.0 has NO depth limit: its tokenizer recurses (`parse_element` →
     `parse_content` → `parse_element`) and overflows the native stack on very deep nesting (a crash,
     not an `Err`).  This parser recurses on siblings as well as on depth and is limited only by the
     stack of the executable; logically (as a Lean function) it accepts any depth.
  2. Limits `nodes_limit` (u32::MAX nodes), 2^32 attributes, 2^16 distinct namespaces
     (`NamespacesLimitReached`) are not modelled: a document with more than 65536 distinct
     (prefix, URI) declarations is rejected by roxmltree and accepted here.
  3. Input is a sequence of `Char`s; invalid UTF-8 is rejected before this parser is called
     (`Drv.xmlLine`), as `std::str::from_utf8` does in the harness.
  4. Only the success value is modelled: every `Err(_)` is `none`; error kinds/positions are not.
  5. With `allow_dtd = false` a `<!DOCTYPE` at the place roxmltree looks for it is `DtdDetected`;
     consequently custom entities never exist and `&name;` other than the five predefined ones is an
     error; the entity-expansion machinery (`LoopDetector`, nested `parse_content`) is not modelled.
  Nothing else is known to differ; `standalone`/`encoding`/`version` VALUES are unchecked by both.

Core Lean only.
-/
import E57.Model.Xml
namespace E57.XmlP
open E57

abbrev Str := List Char
abbrev Nss := List (Option String × String)

/-! ### characters -/

/-- `XmlByteExt::is_xml_space` -/
def isSpace (c : Char) : Bool := c == ' ' || c == '\t' || c == '\n' || c == '\r'

/-- `XmlCharExt::is_xml_char` (surrogates cannot occur in a `Char`) -/
def isXmlChar (c : Char) : Bool :=
  if c.toNat < 0x20 then isSpace c else !(c.toNat == 0xFFFE || c.toNat == 0xFFFF)

def inRanges (n : Nat) (rs : List (Nat × Nat)) : Bool := rs.any (fun r => r.1 ≤ n && n ≤ r.2)

def nameStartRanges : List (Nat × Nat) :=
  [(0xC0, 0xD6), (0xD8, 0xF6), (0xF8, 0x2FF), (0x370, 0x37D), (0x37F, 0x1FFF), (0x200C, 0x200D),
   (0x2070, 0x218F), (0x2C00, 0x2FEF), (0x3001, 0xD7FF), (0xF900, 0xFDCF), (0xFDF0, 0xFFFD),
   (0x10000, 0xEFFFF)]

def nameRanges : List (Nat × Nat) :=
  [(0xB7, 0xB7), (0xC0, 0xD6), (0xD8, 0xF6), (0xF8, 0x2FF), (0x300, 0x36F), (0x370, 0x37D),
   (0x37F, 0x1FFF), (0x200C, 0x200D), (0x203F, 0x2040), (0x2070, 0x218F), (0x2C00, 0x2FEF),
   (0x3001, 0xD7FF), (0xF900, 0xFDCF), (0xFDF0, 0xFFFD), (0x10000, 0xEFFFF)]

def isAsciiLetter (n : Nat) : Bool := (65 ≤ n && n ≤ 90) || (97 ≤ n && n ≤ 122)

/-- `is_xml_name_start` without the colon -/
def isNameStartNC (c : Char) : Bool :=
  let n := c.toNat
  if n ≤ 128 then isAsciiLetter n || n == 95 else inRanges n nameStartRanges

/-- `is_xml_name` without the colon -/
def isNameCharNC (c : Char) : Bool :=
  let n := c.toNat
  if n ≤ 128 then isAsciiLetter n || (48 ≤ n && n ≤ 57) || n == 95 || n == 45 || n == 46
  else inRanges n nameRanges

def isNameStart (c : Char) : Bool := c == ':' || isNameStartNC c
def isNameChar (c : Char) : Bool := c == ':' || isNameCharNC c

/-! ### stream helpers -/

def skipSpaces (s : Str) : Str := s.dropWhile isSpace

def startsWithSpace (s : Str) : Bool :=
  match s with
  | c :: _ => isSpace c
  | [] => false

/-- `some rest` when `s = p ++ rest` -/
def strip : Str → Str → Option Str
  | [], s => some s
  | _ :: _, [] => none
  | p :: ps, c :: cs => if p = c then strip ps cs else none

def startsWith (p s : Str) : Bool := (strip p s).isSome

/-- does `p` occur in `s` -/
def containsSub (p : Str) : Str → Bool
  | [] => p.isEmpty
  | c :: cs => startsWith p (c :: cs) || containsSub p cs

/-- `consume_chars(|s, c| !(c == t₀ && s.starts_with(t)))` followed by `skip_string(t)`:
    the characters before the first occurrence of `t` (all XML chars) and the rest after it -/
def scanUntil (t : Str) : Str → Option (Str × Str)
  | [] => none
  | c :: cs =>
    match strip t (c :: cs) with
    | some rest => some ([], rest)
    | none =>
      if isXmlChar c then
        match scanUntil t cs with
        | some (a, r) => some (c :: a, r)
        | none => none
      else none

/-- `consume_name`: a non-empty Name (colons allowed) -/
def consumeName (s : Str) : Option (Str × Str) :=
  match s with
  | c :: cs => if isNameStart c then some (c :: cs.takeWhile isNameChar, cs.dropWhile isNameChar) else none
  | [] => none

def startOk (s : Str) : Bool :=
  match s with
  | c :: _ => isNameStart c
  | [] => true

/-- `consume_qname`: (prefix, local, rest) -/
def consumeQName (s : Str) : Option (Str × Str × Str) :=
  let nm := s.takeWhile isNameChar
  let rest := s.dropWhile isNameChar
  let pre := nm.takeWhile (· != ':')
  match nm.dropWhile (· != ':') with
  | [] => if nm.isEmpty || !startOk nm then none else some ([], nm, rest)
  | _ :: loc =>
    if loc.contains ':' then none
    else if loc.isEmpty || !startOk loc || !startOk pre then none
    else some (pre, loc, rest)

/-- `consume_eq` -/
def consumeEq (s : Str) : Option Str :=
  match skipSpaces s with
  | '=' :: r => some (skipSpaces r)
  | _ => none

/-- quote, raw value, closing quote: (raw value, rest) -/
def consumeValue (s : Str) : Option (Str × Str) :=
  match s with
  | q :: r =>
    if q == '"' || q == '\'' then
      let v := r.takeWhile (fun c => c != q && c != '<')
      if v.all isXmlChar then
        match r.dropWhile (fun c => c != q && c != '<') with
        | c :: r' => if c == q then some (v, r') else none
        | [] => none
      else none
    else none
  | [] => none

structure RawAttr where
  pfx : Str
  loc : Str
  raw : Str
  deriving Repr

/-- `parse_attribute`: Name Eq AttValue -/
def parseAttribute (s : Str) : Option (RawAttr × Str) :=
  match consumeQName s with
  | some (p, l, r) =>
    match consumeEq r with
    | some r =>
      match consumeValue r with
      | some (v, r) => some (⟨p, l, v⟩, r)
      | none => none
    | none => none
  | none => none

/-! ### references -/

def digitVal (radix : Nat) (c : Char) : Option Nat :=
  let n := c.toNat
  if 48 ≤ n && n ≤ 57 then some (n - 48)
  else if radix == 16 && 97 ≤ n && n ≤ 102 then some (n - 87)
  else if radix == 16 && 65 ≤ n && n ≤ 70 then some (n - 55)
  else none

/-- `u32::from_str_radix` on a run of digits (`none`: empty, a non-digit, or overflow; the value is
    capped during accumulation, which does not change the verdict) -/
def numVal (radix : Nat) (ds : Str) : Option Nat :=
  if ds.isEmpty then none
  else ds.foldl (fun acc c =>
    match acc, digitVal radix c with
    | some a, some d => if a * radix + d ≤ 0xFFFFFFFF then some (a * radix + d) else none
    | _, _ => none) (some 0)

/-- `char::from_u32(n).unwrap_or('\u{FFFD}')` -/
def charOfU32 (n : Nat) : Char :=
  if n < 0xD800 || (0xDFFF < n && n < 0x110000) then Char.ofNat n else Char.ofNat 0xFFFD

/-- the body of a reference (between `&` and `;`) -/
def resolveRef (body : Str) : Option Char :=
  match body with
  | '#' :: 'x' :: ds =>
    match numVal 16 ds with
    | some n => if isXmlChar (charOfU32 n) then some (charOfU32 n) else none
    | none => none
  | '#' :: ds =>
    match numVal 10 ds with
    | some n => if isXmlChar (charOfU32 n) then some (charOfU32 n) else none
    | none => none
  | _ =>
    if body == ['q', 'u', 'o', 't'] then some '"'
    else if body == ['a', 'm', 'p'] then some '&'
    else if body == ['a', 'p', 'o', 's'] then some '\''
    else if body == ['l', 't'] then some '<'
    else if body == ['g', 't'] then some '>'
    else none

/-- a character of the raw text, or a character produced by a reference -/
inductive Item where
  | lit (c : Char)
  | ref (c : Char)
  deriving Repr, DecidableEq

/-- splits raw text into literal characters and resolved references; `acc = some b`: inside a
    reference whose body so far is `b` reversed.  (`consume_reference` reads a run of digits or name
    characters and then demands `;`: since `;` is neither, that is "the body up to the first `;`
    must be entirely digits / one of the five names".) -/
def decodeRefs : Option Str → Str → Option (List Item)
  | none, [] => some []
  | some _, [] => none
  | none, c :: r =>
    if c == '&' then decodeRefs (some []) r
    else match decodeRefs none r with
      | some is => some (.lit c :: is)
      | none => none
  | some b, c :: r =>
    if c == ';' then
      match resolveRef b.reverse with
      | some ch =>
        match decodeRefs none r with
        | some is => some (.ref ch :: is)
        | none => none
      | none => none
    else decodeRefs (some (c :: b)) r

/-! ### normalisation (`TextBuffer`) -/

/-- `TextBuffer::push_from_text`; `out` is the buffer REVERSED -/
def pushFromText (out : Str) (c : Char) (atEnd : Bool) : Str :=
  match out with
  | '\r' :: o =>
    if atEnd && c == '\r' then '\n' :: '\n' :: o
    else if c != '\n' then c :: '\n' :: o
    else '\n' :: o
  | _ => if atEnd && c == '\r' then '\n' :: out else c :: out

/-- the loop of `process_text` over the chunks (`is_as_is`: the byte after a reference is raw) -/
def textPass (asIs : Bool) (out : Str) : List Item → Str
  | [] => out.reverse
  | .ref c :: r => textPass true (c :: out) r
  | .lit c :: r =>
    if asIs then textPass false (c :: out) r
    else textPass false (pushFromText out c r.isEmpty) r

/-- `process_text` on one text run -/
def processText (t : Str) : Option Str :=
  if t.all (fun c => c != '&' && c != '\r') then some t
  else match decodeRefs none t with
    | some is => some (textPass false [] is)
    | none => none

def cdataPass (out : Str) : Str → Str
  | [] => out.reverse
  | c :: r => cdataPass (pushFromText out c r.isEmpty) r

/-- `process_cdata` on the content of one section -/
def processCdata (t : Str) : Str :=
  if t.all (· != '\r') then t else cdataPass [] t

def normWs (c : Char) : Char := if c == '\n' || c == '\r' || c == '\t' then ' ' else c

/-- `_normalize_attribute` (`push_from_attr`) -/
def attrPass : List Item → Str
  | [] => []
  | .ref c :: r => c :: attrPass r
  | .lit c :: r =>
    if c == '\r' && r.head? == some (.lit '\n') then attrPass r
    else normWs c :: attrPass r

/-- `normalize_attribute` -/
def normAttr (v : Str) : Option Str :=
  if v.all (fun c => c != '&' && c != '\t' && c != '\n' && c != '\r') then some v
  else match decodeRefs none v with
    | some is => some (attrPass is)
    | none => none

/-! ### namespaces and attributes -/

def xmlNsUri : String := "http://www.w3.org/XML/1998/namespace"
def xmlnsNsUri : String := "http://www.w3.org/2000/xmlns/"
def xmlnsL : Str := ['x', 'm', 'l', 'n', 's']
def xmlL : Str := ['x', 'm', 'l']

structure PlainAttr where
  pfx : Str
  loc : Str
  value : String
  deriving Repr

/-- `process_attribute` over the attributes of one start tag: the namespaces declared here (in
    order) and the remaining attributes -/
def splitAttrs (own : Nss) (plain : List PlainAttr) : List RawAttr → Option (Nss × List PlainAttr)
  | [] => some (own, plain)
  | a :: as =>
    match normAttr a.raw with
    | none => none
    | some v =>
      let value := String.ofList v
      if a.pfx == xmlnsL then
        if value == xmlnsNsUri then none
        else
          let isXml := value == xmlNsUri
          if (a.loc == xmlL) != isXml then none
          else if own.any (fun n => n.1 == some (String.ofList a.loc)) then none
          else if isXml then splitAttrs own plain as
          else splitAttrs (own ++ [(some (String.ofList a.loc), value)]) plain as
      else if a.loc == xmlnsL then
        if value == xmlNsUri || value == xmlnsNsUri then none
        else splitAttrs (own ++ [(none, value)]) plain as
      else splitAttrs own (plain ++ [⟨a.pfx, a.loc, value⟩]) as

/-- `resolve_namespaces` -/
def inheritNs (own pns : Nss) : Nss :=
  if own.isEmpty then pns
  else pns.foldl (fun acc n => if acc.any (fun m => m.1 == n.1) then acc else acc ++ [n]) own

def optPrefix (p : Str) : Option String := if p.isEmpty then none else some (String.ofList p)

/-- `get_ns_idx_by_prefix`: outer `none` = unknown namespace prefix -/
def nsOfPrefix (nss : Nss) (p : Str) : Option (Option String) :=
  match nss.find? (fun n => n.1 == optPrefix p) with
  | some n => some (some n.2)
  | none => if p.isEmpty then some none else none

/-- `resolve_attributes` -/
def resolveAttrs (nss : Nss) (done : List XAttr) : List PlainAttr → Option (List XAttr)
  | [] => some done
  | a :: as =>
    let ns? : Option (Option String) :=
      if a.pfx == xmlL then some (some xmlNsUri)
      else if a.pfx.isEmpty then some none
      else nsOfPrefix nss a.pfx
    match ns? with
    | none => none
    | some ns =>
      let name := String.ofList a.loc
      if done.any (fun d => d.ns == ns && d.name == name) then none
      else resolveAttrs nss (done ++ [⟨ns, name, a.value⟩]) as

/-- roxmltree `Node::lookup_prefix` -/
def lookupPrefix (nss : Nss) (uri : String) : Option String :=
  if uri == xmlNsUri then some "xml"
  else match nss.find? (fun n => n.2 == uri) with
    | some n => n.1
    | none => none

/-- the attribute part of a start tag after the name: (attributes, is empty-element tag, rest).
    `parse_element`'s loop; running into the end of the input is an error in every case. -/
def parseAttrList : Nat → Str → Option (List RawAttr × Bool × Str)
  | 0, _ => none
  | fuel + 1, s =>
    let hasSpace := startsWithSpace s
    match skipSpaces s with
    | [] => none
    | c :: r =>
      if c == '/' then
        match r with
        | '>' :: r' => some ([], true, r')
        | _ => none
      else if c == '>' then some ([], false, r)
      else if !hasSpace then none
      else match parseAttribute (c :: r) with
        | none => none
        | some (a, r') =>
          match parseAttrList fuel r' with
          | some (as, e, r'') => some (a :: as, e, r'')
          | none => none

/-- everything known about an element once its start tag is read -/
structure Tag where
  rawPfx : Str
  loc : Str
  ns : Option String
  attrs : List XAttr
  nss : Nss
  empty : Bool
  deriving Repr

def Tag.node (t : Tag) (children : List XNode) : XNode :=
  .elem t.ns (lookupPrefix t.nss (t.ns.getD "")) (String.ofList t.loc) t.attrs children

/-- a start tag, `s` is the input after `<`; `pns`: the namespace list of the parent element
    (`[]` for the root element, whose parent is the document node) -/
def parseStartTag (fuel : Nat) (pns : Nss) (s : Str) : Option (Tag × Str) :=
  match consumeQName s with
  | none => none
  | some (p, l, r) =>
    if p == xmlnsL then none
    else match parseAttrList fuel r with
      | none => none
      | some (raws, empty, r') =>
        match splitAttrs [] [] raws with
        | none => none
        | some (own, plain) =>
          let nss := inheritNs own pns
          match resolveAttrs nss [] plain with
          | none => none
          | some attrs =>
            match nsOfPrefix nss p with
            | none => none
            | some ns => some (⟨p, l, ns, attrs, nss, empty⟩, r')

/-! ### content -/

/-- `append_text` seen from the front: a text run in front of a list that starts with a text node
    is merged with it -/
def consText (s : Str) : List XNode → List XNode
  | .text p :: cs => .text (String.ofList s ++ p) :: cs
  | cs => .text (String.ofList s) :: cs

def cdataOpen : Str := ['<', '!', '[', 'C', 'D', 'A', 'T', 'A', '[']
def cdataClose : Str := [']', ']', '>']
def commentOpen : Str := ['<', '!', '-', '-']
def commentClose : Str := ['-', '-', '>']
def piClose : Str := ['?', '>']
def xmlDeclOpen : Str := ['<', '?', 'x', 'm', 'l', ' ']

/-- `parse_comment`, `s` starts with `<!--`: the rest after `-->` -/
def parseComment (s : Str) : Option Str :=
  match scanUntil commentClose (s.drop 4) with
  | some (text, r) =>
    if containsSub ['-', '-'] text || text.getLast? == some '-' then none else some r
  | none => none

/-- `parse_pi`, `s` starts with `<?`: the rest after `?>` -/
def parsePI (s : Str) : Option Str :=
  if startsWith xmlDeclOpen s then none
  else match consumeName (s.drop 2) with
    | some (_, r) =>
      match scanUntil piClose (skipSpaces r) with
      | some (_, r') => some r'
      | none => none
    | none => none

/-- `parse_content` (with `parse_element` inlined) inside an element whose namespace list is `nss`,
    up to and including the closing tag: the children, the (prefix, local) of the closing tag, the
    rest of the input -/
def parseContent : Nat → Nss → Str → Option (List XNode × (Str × Str) × Str)
  | 0, _, _ => none
  | _ + 1, _, [] => none
  | fuel + 1, nss, c :: s =>
    if c == '<' then
      match s with
      | [] => none
      | d :: s' =>
        if d == '/' then
          match consumeQName s' with
          | some (p, l, r) =>
            match skipSpaces r with
            | '>' :: r' => some ([], (p, l), r')
            | _ => none
          | none => none
        else if d == '!' then
          if startsWith commentOpen (c :: s) then
            match parseComment (c :: s) with
            | some r =>
              match parseContent fuel nss r with
              | some (cs, cl, r') => some (.comment :: cs, cl, r')
              | none => none
            | none => none
          else if startsWith cdataOpen (c :: s) then
            match scanUntil cdataClose ((c :: s).drop 9) with
            | some (t, r) =>
              match parseContent fuel nss r with
              | some (cs, cl, r') => some (consText (processCdata t) cs, cl, r')
              | none => none
            | none => none
          else none
        else if d == '?' then
          match parsePI (c :: s) with
          | some r =>
            match parseContent fuel nss r with
            | some (cs, cl, r') => some (.pi :: cs, cl, r')
            | none => none
          | none => none
        else
          match parseStartTag (fuel + 1) nss s with
          | none => none
          | some (tag, r) =>
            if tag.empty then
              match parseContent fuel nss r with
              | some (cs, cl, r') => some (tag.node [] :: cs, cl, r')
              | none => none
            else
              match parseContent fuel tag.nss r with
              | none => none
              | some (kids, cl, r1) =>
                if cl.1 == tag.rawPfx && cl.2 == tag.loc then
                  match parseContent fuel nss r1 with
                  | some (cs, cl', r2) => some (tag.node kids :: cs, cl', r2)
                  | none => none
                else none
    else
      let t := (c :: s).takeWhile (· != '<')
      let r := (c :: s).dropWhile (· != '<')
      if !t.all isXmlChar || containsSub cdataClose t then none
      else match processText t with
        | none => none
        | some txt =>
          match parseContent fuel nss r with
          | some (cs, cl, r') => some (consText txt cs, cl, r')
          | none => none

/-! ### the document -/

/-- `parse_misc`: comments, PIs and white space; the input after them (and after the white space
    that follows the last of them) -/
def parseMisc : Nat → Str → Option Str
  | 0, _ => none
  | fuel + 1, s =>
    if s.isEmpty then some s
    else
      let s1 := skipSpaces s
      if startsWith commentOpen s1 then
        match parseComment s1 with
        | some r => parseMisc fuel r
        | none => none
      else if startsWith ['<', '?'] s1 then
        match parsePI s1 with
        | some r => parseMisc fuel r
        | none => none
      else some s1

/-- the helper `consume_spaces` local to `parse_declaration` -/
def declSpaces (s : Str) : Option Str :=
  if startsWithSpace s then some (skipSpaces s)
  else if !startsWith piClose s && !s.isEmpty then none
  else some s

/-- `parse_declaration`, `s` starts with `<?xml ` -/
def parseDecl (s : Str) : Option Str :=
  match declSpaces (s.drop 5) with
  | none => none
  | some s =>
    if !startsWith ['v', 'e', 'r', 's', 'i', 'o', 'n'] s then none
    else match parseAttribute s with
      | none => none
      | some (_, s) =>
        match declSpaces s with
        | none => none
        | some s =>
          let s? : Option Str :=
            if startsWith ['e', 'n', 'c', 'o', 'd', 'i', 'n', 'g'] s then
              match parseAttribute s with
              | some (_, s) => declSpaces s
              | none => none
            else some s
          match s? with
          | none => none
          | some s =>
            let s? : Option Str :=
              if startsWith ['s', 't', 'a', 'n', 'd', 'a', 'l', 'o', 'n', 'e'] s then
                match parseAttribute s with
                | some (_, s) => some s
                | none => none
              else some s
            match s? with
            | none => none
            | some s => strip piClose (skipSpaces s)

def doctypeOpen : Str := ['<', '!', 'D', 'O', 'C', 'T', 'Y', 'P', 'E']

/-- `tokenizer::parse` + `parse::parse` + the harness dump -/
def parseDocumentL (s0 : Str) : Option XDoc :=
  let fuel := s0.length + 1
  let s := match s0 with
    | c :: r => if c == Char.ofNat 0xFEFF then r else s0
    | [] => s0
  let s? := if startsWith xmlDeclOpen s then parseDecl s else some s
  match s? with
  | none => none
  | some s =>
    match parseMisc fuel s with
    | none => none
    | some s =>
      let s := skipSpaces s
      if startsWith doctypeOpen s then none
      else match s with
        | '<' :: r =>
          match parseStartTag fuel [] r with
          | none => none
          | some (tag, r) =>
            let body? : Option (List XNode × Str) :=
              if tag.empty then some ([], r)
              else match parseContent fuel tag.nss r with
                | some (kids, cl, r') =>
                  if cl.1 == tag.rawPfx && cl.2 == tag.loc then some (kids, r') else none
                | none => none
            match body? with
            | none => none
            | some (kids, r) =>
              match parseMisc fuel r with
              | some [] => some ⟨tag.node kids, tag.nss⟩
              | _ => none
        | _ => none

def parseDocument (s : String) : Option XDoc := parseDocumentL s.toList

end E57.XmlP
