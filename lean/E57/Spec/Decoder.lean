/-
An independent decoder / validator of E57 files, written from the format specification (ASTM
E2807: 1024-byte pages with CRC-32C, 48-byte header, XML section, blob and compressed-vector
sections with index/data/ignored packets, bit-packed byte streams) and NOT from the crate's reader:
it shares with the model only the byte vocabulary (`Bytes`, `leVal`), the bitwise CRC reference and
the neutral XML tree type.  It is generic over the XML: every element is interpreted by its `type`
attribute.  Core Lean only.
-/
import E57.Model.Crc
import E57.Model.Xml
namespace E57.Spec
open E57

def e57Ns : String := "http://www.astm.org/COMMIT/E57/2010-e57-v1.0"

abbrev V (α : Type) := Except String α

def need (c : Bool) (msg : String) : V Unit := if c then pure () else throw msg

/-! ### pages -/

/-- split a file into 1024-byte pages, check every checksum (bitwise CRC-32C, big-endian), and
    return the logical stream -/
def depageChecked : Nat → Bytes → Nat → Bytes → V Bytes
  | 0, _, _, acc => pure acc
  | fuel + 1, d, k, acc =>
    if d.isEmpty then pure acc else
    let page := d.take 1024
    let payload := page.take 1020
    let sum := page.drop 1020
    if sum ≠ toBE32 (crc32cRef payload).toNat then throw s!"page {k}: checksum mismatch"
    else depageChecked fuel (d.drop 1024) (k + 1) (acc ++ payload)

def physOk (fileLen p : Nat) : Bool := decide (p < fileLen) && decide (p % 1024 < 1020)

def toLogical (p : Nat) : Nat := p - 4 * (p / 1024)

def slice (d : Bytes) (off len : Nat) : V Bytes :=
  if off + len ≤ d.length then pure ((d.drop off).take len) else throw s!"range {off}+{len} beyond the logical end {d.length}"

def u (d : Bytes) (off n : Nat) : V Nat := do pure (leVal (← slice d off n))

/-! ### generic XML interpretation -/

/-- a leaf of the E57 data tree: `path`, element type and canonical value text -/
structure Leaf where
  path : String
  ty : String
  value : String
  deriving Repr

def isDeclaredNs (declared : List String) (ns : Option String) : Bool :=
  match ns with
  | none => false
  | some u => u == e57Ns || declared.contains u

structure PointsRef where
  path : String
  fileOffset : Nat
  recordCount : Nat
  prototype : List (String × XNode)   -- qualified name, node

structure Walk where
  leaves : List Leaf := []
  blobs : List (String × Nat × Nat) := []
  points : List PointsRef := []

def qname (n : XNode) : String :=
  match n.tagNs with
  | some ns => if ns == e57Ns then n.tagLocal else "{" ++ ns ++ "}" ++ n.tagLocal
  | none => "{}" ++ n.tagLocal

def intText (n : XNode) : V Int :=
  match parseI64 ((n.textOf).getD "0") with
  | some i => pure i
  | none => throw s!"{n.tagLocal}: not an integer"

def attrNat (n : XNode) (a : String) : V Nat :=
  match n.attr a with
  | some s => match parseU64 s with
    | some v => pure v
    | none => throw s!"{n.tagLocal}@{a}: not an unsigned integer"
  | none => throw s!"{n.tagLocal}: attribute {a} missing"

def optFloatAttr64 (fp : FloatParse) (n : XNode) (a : String) : V String :=
  match n.attr a with
  | none => pure "~"
  | some s => match fp.f64 s with
    | some b => pure (toString b.toNat)
    | none => throw s!"{n.tagLocal}@{a}: not a float"

def optFloatAttr32 (fp : FloatParse) (n : XNode) (a : String) : V String :=
  match n.attr a with
  | none => pure "~"
  | some s => match fp.f32 s with
    | some b => pure (toString b.toNat)
    | none => throw s!"{n.tagLocal}@{a}: not a float"

def optIntAttrText (n : XNode) (a : String) (dflt : Int) : V String :=
  match n.attr a with
  | none => pure (toString dflt)
  | some s => match parseI64 s with
    | some v => pure (toString v)
    | none => throw s!"{n.tagLocal}@{a}: not an integer"

/-- canonical text of a prototype record's type (defaults of omitted attributes applied) -/
def recordText (fp : FloatParse) (n : XNode) : V String :=
  match n.attr "type" with
  | some "Float" =>
    if (n.attr "precision").getD "double" == "single" then do
      pure s!"F32:{← optFloatAttr32 fp n "minimum"}:{← optFloatAttr32 fp n "maximum"}"
    else do
      pure s!"F64:{← optFloatAttr64 fp n "minimum"}:{← optFloatAttr64 fp n "maximum"}"
  | some "Integer" => do
    pure s!"I:{← optIntAttrText n "minimum" i64Min}:{← optIntAttrText n "maximum" i64Max}"
  | some "ScaledInteger" => do
    let sc ← match n.attr "scale" with
      | none => pure "4607182418800017408"
      | some _ => optFloatAttr64 fp n "scale"
    let off ← match n.attr "offset" with
      | none => pure "0"
      | some _ => optFloatAttr64 fp n "offset"
    pure s!"S:{← optIntAttrText n "minimum" i64Min}:{← optIntAttrText n "maximum" i64Max}:{sc}:{off}"
  | _ => throw s!"{n.tagLocal}: unsupported record type"

mutual
/-- interpret one element by its `type` attribute -/
def walkNode (fp : FloatParse) (declared : List String) (path : String) (n : XNode) (w : Walk) : V Walk :=
  match n with
  | XNode.elem ns _ name _ cs => do
    need (isDeclaredNs declared ns) s!"{path}/{name}: element is in no declared namespace"
    let p := path ++ "/" ++ qname n
    match n.attr "type" with
    | none => throw s!"{p}: no type attribute"
    | some "Structure" => walkChildren fp declared p false 0 cs w
    | some "Vector" => walkChildren fp declared p true 0 cs w
    | some "String" => pure { w with leaves := ⟨p, "String", hexTok (utf8 ((n.textOf).getD ""))⟩ :: w.leaves }
    | some "Integer" => do
      let i ← intText n
      pure { w with leaves := ⟨p, "Integer", toString i⟩ :: w.leaves }
    | some "ScaledInteger" => do
      let i ← intText n
      pure { w with leaves := ⟨p, "ScaledInteger", toString i⟩ :: w.leaves }
    | some "Float" =>
      let single := (n.attr "precision").getD "double" == "single"
      let txt := (n.textOf).getD "0"
      if single then
        match fp.f32 txt with
        | some b => pure { w with leaves := ⟨p, "Float32", toString b.toNat⟩ :: w.leaves }
        | none => throw s!"{p}: not a float"
      else
        match fp.f64 txt with
        | some b => pure { w with leaves := ⟨p, "Float", toString b.toNat⟩ :: w.leaves }
        | none => throw s!"{p}: not a float"
    | some "Blob" => do
      let off ← attrNat n "fileOffset"
      let len ← attrNat n "length"
      pure { w with leaves := ⟨p, "Blob", s!"{len}"⟩ :: w.leaves, blobs := (p, off, len) :: w.blobs }
    | some "CompressedVector" => do
      let off ← attrNat n "fileOffset"
      let cnt ← attrNat n "recordCount"
      match cs.find? (fun c => c.hasTagName "prototype") with
      | none => throw s!"{p}: no prototype"
      | some proto =>
        need (proto.attr "type" == some "Structure") s!"{p}: prototype is not a Structure"
        let recs := (proto.children.filter XNode.isElement).map (fun c => (qname c, c))
        let recLeaves ← recs.mapM (fun (qn, c) => do
          need (isDeclaredNs declared c.tagNs) s!"{p}/prototype/{qn}: record is in no declared namespace"
          pure (⟨p ++ "/prototype/" ++ qn, "Record", ← recordText fp c⟩ : Leaf))
        pure { w with leaves := recLeaves.reverse ++ (⟨p, "CompressedVector", s!"{cnt}"⟩ :: w.leaves),
                      points := ⟨p, off, cnt, recs⟩ :: w.points }
    | some other => throw s!"{p}: unknown type {other}"
  | _ => pure w
def walkChildren (fp : FloatParse) (declared : List String) (path : String) (indexed : Bool) (k : Nat) :
    List XNode → Walk → V Walk
  | [], w => pure w
  | c :: cs, w => do
    if c.isElement then
      let p := if indexed then path ++ s!"[{k}]" else path
      let w ← walkNode fp declared p c w
      walkChildren fp declared path indexed (k + 1) cs w
    else walkChildren fp declared path indexed k cs w
end

/-! ### record types (from the prototype elements) -/

inductive RType where
  | f32 | f64
  | int (min max : Int) (scaled : Bool)
  deriving Repr

def optIntAttr (n : XNode) (a : String) (dflt : Int) : V Int :=
  match n.attr a with
  | none => pure dflt
  | some s => match parseI64 s with
    | some v => pure v
    | none => throw s!"{n.tagLocal}@{a}: not an integer"

def recordType (n : XNode) : V RType :=
  match n.attr "type" with
  | some "Float" =>
    let p := (n.attr "precision").getD "double"
    if p == "single" then pure .f32 else if p == "double" then pure .f64 else throw "unknown precision"
  | some "Integer" => do
    let mn ← optIntAttr n "minimum" i64Min
    let mx ← optIntAttr n "maximum" i64Max
    need (decide (mn ≤ mx)) "minimum > maximum"
    pure (.int mn mx false)
  | some "ScaledInteger" => do
    let mn ← optIntAttr n "minimum" i64Min
    let mx ← optIntAttr n "maximum" i64Max
    need (decide (mn ≤ mx)) "minimum > maximum"
    pure (.int mn mx true)
  | _ => throw s!"{n.tagLocal}: unsupported record type"

/-- least number of bits `w` with `max - min < 2^w` -/
def widthOf (mn mx : Int) : Nat :=
  let r := (mx - mn).toNat
  (List.range 65).find? (fun w => decide (r < 2 ^ w)) |>.getD 64

def RType.bits : RType → Nat
  | .f32 => 32
  | .f64 => 64
  | .int mn mx _ => widthOf mn mx

/-- decode `count` values from a byte stream: LSB-first contiguous fields -/
def decodeStream (t : RType) (stream : Bytes) (count : Nat) : V (List String) := do
  let w := t.bits
  need (decide (count * w ≤ 8 * stream.length)) s!"byte stream too short: {stream.length} bytes for {count} values of {w} bits"
  need (decide (8 * stream.length < count * w + 8 + 8 * 3) || w == 0) "byte stream longer than the values need"
  let v := leVal stream
  pure ((List.range count).map (fun i =>
    let raw := (v >>> (i * w)) % 2 ^ w
    match t with
    | .f32 => s!"f{raw}"
    | .f64 => s!"d{raw}"
    | .int mn _ scaled => (if scaled then "s" else "i") ++ toString ((raw : Int) + mn)))

/-! ### sections -/

structure PacketWalk where
  chunks : List (List Bytes)   -- per data packet: one chunk per record
  firstData : Option Nat        -- logical offset of the first data packet

/-- walk the packets of a compressed vector section from `pos` to `endPos` by packet length -/
def walkPackets (d : Bytes) (nrec : Nat) : Nat → Nat → Nat → PacketWalk → V PacketWalk
  | 0, _, _, _ => throw "packet walk does not terminate"
  | fuel + 1, pos, endPos, acc =>
    if pos = endPos then pure acc
    else if pos > endPos then throw "a packet extends beyond the section"
    else do
      need (decide (pos % 4 = 0)) s!"packet at logical {pos} is not 4-byte aligned"
      let ty ← u d pos 1
      let len := (← u d (pos + 2) 2) + 1
      need (decide (len % 4 = 0)) s!"packet length {len} is not a multiple of 4"
      if ty = 1 then do
        let count ← u d (pos + 4) 2
        need (decide (count = nrec)) s!"data packet has {count} byte streams for {nrec} records"
        let sizes ← (List.range nrec).mapM (fun i => u d (pos + 6 + 2 * i) 2)
        let total := sizes.foldl (· + ·) 0
        let hdr := 6 + 2 * nrec
        need (decide (hdr + total ≤ len)) "byte streams exceed the packet length"
        need (decide (len < hdr + total + 4)) "data packet is padded by more than 3 bytes"
        let (chunks, _) ← sizes.foldlM (fun (acc : List Bytes × Nat) sz => do
          let c ← slice d acc.2 sz
          pure (acc.1 ++ [c], acc.2 + sz)) (([] : List Bytes), pos + hdr)
        walkPackets d nrec fuel (pos + len) endPos
          { chunks := acc.chunks ++ [chunks], firstData := acc.firstData.orElse (fun _ => some pos) }
      else if ty = 0 then do
        need (decide (len ≥ 16)) "index packet shorter than its header"
        let reserved ← slice d (pos + 7) 9
        need (reserved.all (· == 0)) "index packet reserved bytes are not zero"
        walkPackets d nrec fuel (pos + len) endPos acc
      else if ty = 2 then
        walkPackets d nrec fuel (pos + len) endPos acc
      else throw s!"unknown packet type {ty}"

structure Decoded where
  leaves : List Leaf
  clouds : List (String × List (List String))   -- path, points (one token list per point)
  blobs : List (String × Bytes)

/-- validate and decode a whole file -/
def decodeFile (file : Bytes) (xmlRef : Bytes) (doc : XDoc) (fp : FloatParse) (extraBlobs : List (Nat × Nat)) :
    V Decoded := do
  need (decide (file.length > 0 ∧ file.length % 1024 = 0)) "file size is not a whole number of 1024-byte pages"
  let d ← depageChecked (file.length / 1024 + 1) file 0 []
  -- header
  need (file.take 8 = utf8 "ASTM-E57") "signature"
  need (leVal ((file.drop 8).take 4) = 1 ∧ leVal ((file.drop 12).take 4) = 0) "version is not 1.0"
  let physLength := leVal ((file.drop 16).take 8)
  let xmlOff := leVal ((file.drop 24).take 8)
  let xmlLen := leVal ((file.drop 32).take 8)
  need (decide (leVal ((file.drop 40).take 8) = 1024)) "page size is not 1024"
  need (decide (physLength = file.length)) s!"header file length {physLength} but the file has {file.length} bytes"
  need (physOk file.length xmlOff) "XML offset is outside the file or inside checksum bytes"
  let xml ← slice d (toLogical xmlOff) xmlLen
  need (xml == xmlRef) "XML section differs from the reference extraction"
  -- XML
  match doc.root with
  | XNode.elem ns _ name _ _ =>
    need (name == "e57Root" && ns == some e57Ns) "root element is not e57Root in the E57 namespace"
  | _ => throw "no root element"
  let declared := doc.rootNamespaces.map (·.2)
  let w ← walkNode fp declared "" doc.root {}
  -- compressed vector sections
  let clouds ← w.points.reverse.mapM (fun (pr : PointsRef) => do
    need (physOk file.length pr.fileOffset) s!"{pr.path}: fileOffset is outside the file or inside checksum bytes"
    let s := toLogical pr.fileOffset
    need (decide (s % 4 = 0)) s!"{pr.path}: section is not 4-byte aligned"
    need (decide ((← u d s 1) = 1)) s!"{pr.path}: section id is not 1 (compressed vector)"
    need ((← slice d (s + 1) 7).all (· == 0)) s!"{pr.path}: reserved header bytes are not zero"
    let sl ← u d (s + 8) 8
    let dataOff ← u d (s + 16) 8
    let indexOff ← u d (s + 24) 8
    need (decide (sl % 4 = 0 ∧ sl ≥ 32)) s!"{pr.path}: section length {sl} is not a multiple of 4 or below the header size"
    need (decide (indexOff = 0) || physOk file.length indexOff) s!"{pr.path}: index offset invalid"
    let types ← pr.prototype.mapM (fun (_, n) => recordType n)
    let pw ← walkPackets d types.length (sl / 4 + 2) (s + 32) (s + sl) ⟨[], none⟩
    if pw.chunks.isEmpty then
      need (decide (pr.recordCount = 0) || types.all (fun t => t.bits == 0)) s!"{pr.path}: no data packets for {pr.recordCount} records"
    else do
      need (physOk file.length dataOff) s!"{pr.path}: data offset is outside the file or inside checksum bytes"
      need (pw.firstData == some (toLogical dataOff)) s!"{pr.path}: data offset does not point at the first data packet"
    let streams := (List.range types.length).map (fun i => (pw.chunks.map (fun cs => cs.getD i [])).flatten)
    let cols ← (types.zip streams).mapM (fun (t, st) => decodeStream t st pr.recordCount)
    let pts := (List.range pr.recordCount).map (fun k => cols.map (fun c => c.getD k "?"))
    pure (pr.path, pts))
  -- blob sections
  let blobRefs := w.blobs.reverse ++ extraBlobs.map (fun (o, l) => (s!"direct@{o}", o, l))
  let blobs ← blobRefs.mapM (fun (p, off, len) => do
    need (physOk file.length off) s!"{p}: blob offset is outside the file or inside checksum bytes"
    let s := toLogical off
    need (decide (s % 4 = 0)) s!"{p}: blob section is not 4-byte aligned"
    need (decide ((← u d s 1) = 0)) s!"{p}: section id is not 0 (blob)"
    need ((← slice d (s + 1) 7).all (· == 0)) s!"{p}: reserved header bytes are not zero"
    let sl ← u d (s + 8) 8
    need (decide (sl = (16 + len + 3) / 4 * 4)) s!"{p}: section length {sl} is not header + {len} data bytes padded to 4"
    let data ← slice d (s + 16) len
    pure (p, data))
  pure ⟨w.leaves.reverse, clouds, blobs⟩

end E57.Spec
