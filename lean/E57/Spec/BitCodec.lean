/- Specification of the bit-packed stream: fields of given widths, least-significant bit first,
   contiguous.  Independent of the buffer implementations. Core Lean only. -/
import E57.Model.Basic
namespace E57.Spec

/-- append the fields `(value, width)` to a stream `(value so far, bits so far)`:
    the `width` least significant bits of `value` land at the current bit cursor -/
def packFrom (acc : Nat × Nat) (fs : List (Nat × Nat)) : Nat × Nat :=
  fs.foldl (fun a f => (a.1 + 2 ^ a.2 * (f.1 % 2 ^ f.2), a.2 + f.2)) acc

def pack (fs : List (Nat × Nat)) : Nat × Nat := packFrom (0, 0) fs

/-- the byte string of a packed stream: little-endian, zero padded to a whole byte -/
def streamBytes (fs : List (Nat × Nat)) : Bytes := toLE (pack fs).1 (((pack fs).2 + 7) / 8)

/-- `i`-th field of width `w` of a stream value -/
def field (V w i : Nat) : Nat := (V >>> (i * w)) % 2 ^ w

end E57.Spec
