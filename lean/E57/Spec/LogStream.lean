/-
Specification of the page layer: a logical byte stream (zero-filled to whole 1020-byte pages) with
a cursor, the logical↔physical offset translation, and the paged image with per-page CRC-32C
(stored big-endian).  Independent of PagedWriter/PagedReader.  Core Lean only.
-/
import E57.Model.Crc
namespace E57.Spec
open E57

structure LogStream where
  data : Bytes   -- length is a multiple of 1020
  cur : Nat
  deriving Repr, BEq, DecidableEq

def LogStream.init : LogStream := ⟨[], 0⟩

/-- logical offset → physical offset: 4 checksum bytes after every 1020 payload bytes -/
def l2p (l : Nat) : Nat := l + 4 * (l / 1020)

/-- physical offset → logical offset (defined for offsets outside checksum bytes) -/
def p2l (p : Nat) : Nat := p - 4 * (p / 1024)

def LogStream.physPos (s : LogStream) : Nat := l2p s.cur

def LogStream.physSize (s : LogStream) : Nat := 1024 * (s.data.length / 1020)

/-- overwrite `b` at the cursor, zero-extending the stream to whole pages -/
def LogStream.write (s : LogStream) (b : Bytes) : LogStream :=
  let len' := max s.data.length ((s.cur + b.length + 1019) / 1020 * 1020)
  let base := s.data ++ zeros (len' - s.data.length)
  { data := base.take s.cur ++ b ++ base.drop (s.cur + b.length), cur := s.cur + b.length }

/-- a physical seek is accepted iff it is not beyond the (flushed) end and not inside checksum bytes -/
def LogStream.seekOk (s : LogStream) (p : Nat) : Bool :=
  decide (p ≤ s.physSize) && decide (p % 1024 < 1020)

def LogStream.seek (s : LogStream) (p : Nat) : LogStream :=
  if s.seekOk p then { s with cur := p2l p } else s

def LogStream.align (s : LogStream) : LogStream :=
  if s.cur % 4 ≠ 0 then s.write (zeros (4 - s.cur % 4)) else s

/-- split into 1020-byte payloads (`fuel` ≥ number of pages) -/
def chunkPayloads : Nat → Bytes → List Bytes
  | 0, _ => []
  | _ + 1, [] => []
  | fuel + 1, d => d.take 1020 :: chunkPayloads fuel (d.drop 1020)

/-- the file image of a logical stream: every 1020-byte payload followed by its CRC-32C, big-endian -/
def image (d : Bytes) : Bytes :=
  ((chunkPayloads (d.length + 1) d).map (fun p => p ++ crcBytes p)).flatten

end E57.Spec
