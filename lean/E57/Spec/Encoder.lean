/-
A specification-driven encoder: lays a scene out as an E57 file in any legal way chosen by a
`Layout` (packetisation of every byte stream, interleaved index/ignored packets, gaps, section
order, position of the XML).  Written from the format description, independent of the crate's
writer and of its model.  Used to produce inputs for the reader (C03).  Core Lean only.
-/
import E57.Spec.BitCodec
import E57.Spec.LogStream
namespace E57.Spec
open E57

inductive RecType where
  | f32 | f64
  | int (min max : Int)
  deriving Repr

/-- least `w` with `max - min < 2^w` -/
def RecType.bits : RecType → Nat
  | .f32 => 32
  | .f64 => 64
  | .int mn mx => ((List.range 65).find? (fun w => decide ((mx - mn).toNat < 2 ^ w))).getD 64

/-- the field stored for a raw value: float bit pattern, or `value - minimum` -/
def RecType.field (t : RecType) (v : Int) : Nat :=
  match t with
  | .int mn _ => (v - mn).toNat
  | _ => v.toNat

inductive PacketSpec where
  | data (chunkLens : List Nat)     -- bytes of each record's stream carried by this packet
  | index (len : Nat)               -- total packet length (multiple of 4, ≥ 16)
  | ignored (len : Nat)             -- total packet length (multiple of 4, ≥ 4)
  deriving Repr

inductive SectionSpec where
  | blob (data : Bytes)
  | cv (types : List RecType) (points : List (List Int)) (packets : List PacketSpec)
  | gap (n : Nat)
  deriving Repr

def pad4 (n : Nat) : Nat := (4 - n % 4) % 4

/-- the complete byte stream of record `i`: all values packed LSB first -/
def recordStream (types : List RecType) (points : List (List Int)) (i : Nat) : Bytes :=
  match types[i]? with
  | none => []
  | some t => streamBytes (points.map (fun p => (t.field (p.getD i 0), t.bits)))

/-- encode the packets of one section; `cursors` = bytes of each stream already emitted.
    Returns the bytes and the logical offsets (relative to the section start) of the first data
    and first index packet. -/
def encodePackets (streams : List Bytes) : List PacketSpec → List Nat → Nat → Bytes → Option Nat → Option Nat →
    Bytes × Option Nat × Option Nat
  | [], _, _, acc, fd, fi => (acc, fd, fi)
  | .data lens :: ps, cursors, pos, acc, fd, fi =>
    let chunks := (List.range streams.length).map (fun i =>
      ((streams.getD i []).drop (cursors.getD i 0)).take (lens.getD i 0))
    let body := (chunks.map (fun c => toLE c.length 2)).flatten ++ chunks.flatten
    let len0 := 6 + body.length
    let len := len0 + pad4 len0
    let pkt := [1, 0] ++ toLE (len - 1) 2 ++ toLE streams.length 2 ++ body ++ zeros (pad4 len0)
    let cursors' := (List.range streams.length).map (fun i => cursors.getD i 0 + (chunks.getD i []).length)
    encodePackets streams ps cursors' (pos + len) (acc ++ pkt) (fd.orElse (fun _ => some pos)) fi
  | .index len :: ps, cursors, pos, acc, fd, fi =>
    let pkt := [0, 0] ++ toLE (len - 1) 2 ++ toLE 0 2 ++ [0] ++ zeros 9 ++ zeros (len - 16)
    encodePackets streams ps cursors (pos + len) (acc ++ pkt) fd (fi.orElse (fun _ => some pos))
  | .ignored len :: ps, cursors, pos, acc, fd, fi =>
    let pkt := [2, 0] ++ toLE (len - 1) 2 ++ zeros (len - 4)
    encodePackets streams ps cursors (pos + len) (acc ++ pkt) fd fi

/-- bytes of one section placed at logical offset `start` -/
def encodeSection (start : Nat) : SectionSpec → Bytes
  | .blob data =>
    let sl := (16 + data.length + 3) / 4 * 4
    zeros 8 ++ toLE sl 8 ++ data ++ zeros (sl - 16 - data.length)
  | .gap n => zeros n
  | .cv types points packets =>
    let streams := (List.range types.length).map (recordStream types points)
    let (pk, fd, fi) := encodePackets streams packets (List.replicate types.length 0) 32 [] none none
    let sl := 32 + pk.length
    let phys := fun (o : Option Nat) => match o with
      | some rel => l2p (start + rel)
      | none => 0
    [1] ++ zeros 7 ++ toLE sl 8 ++ toLE (phys fd) 8 ++ toLE (phys fi) 8 ++ pk

/-- place sections one after the other from logical offset `pos`; returns bytes and the physical
    start offset of every section -/
def placeSections : List SectionSpec → Nat → Bytes → List Nat → Bytes × List Nat
  | [], _, acc, offs => (acc, offs.reverse)
  | s :: ss, pos, acc, offs =>
    let b := encodeSection pos s
    let b := b ++ zeros (pad4 b.length)
    placeSections ss (pos + b.length) (acc ++ b) (l2p pos :: offs)

def dec20 (n : Nat) : List Char :=
  let s := (toString n).toList
  List.replicate (20 - s.length) '0' ++ s

/-- replace every `@OFFk@` (k decimal) by the 20-digit zero-padded physical offset of section k -/
partial def substOffsets (offs : List Nat) : List Char → List Char → List Char
  | [], acc => acc.reverse
  | '@' :: 'O' :: 'F' :: 'F' :: rest, acc =>
    let digits := rest.takeWhile Char.isDigit
    let after := rest.dropWhile Char.isDigit
    match after with
    | '@' :: tail =>
      let k := (String.ofList digits).toNat!
      substOffsets offs tail ((dec20 (offs.getD k 0)).reverse ++ acc)
    | _ => substOffsets offs rest ('F' :: 'F' :: 'O' :: '@' :: acc)
  | c :: rest, acc => substOffsets offs rest (c :: acc)

/-- the whole file: 48-byte header, the sections (the XML is placed before section number
    `xmlPos`), zero fill to a whole page, paging with CRCs -/
def encodeFile (sections : List SectionSpec) (xmlTemplate : String) (xmlPos : Nat) : Bytes :=
  let before := sections.take xmlPos
  let after := sections.drop xmlPos
  let (b1, offs1) := placeSections before 48 [] []
  let xmlLen := (utf8 (String.ofList (substOffsets [] xmlTemplate.toList []))).length
  let xmlStart := 48 + b1.length
  let xmlPad := pad4 xmlLen
  let (b2, offs2) := placeSections after (xmlStart + xmlLen + xmlPad) [] []
  let offs := offs1 ++ offs2
  let xml := utf8 (String.ofList (substOffsets offs xmlTemplate.toList []))
  let body := b1 ++ xml ++ zeros xmlPad ++ b2
  let logicalLen := 48 + body.length
  let pages := (logicalLen + 1019) / 1020
  let header := utf8 "ASTM-E57" ++ toLE 1 4 ++ toLE 0 4 ++ toLE (pages * 1024) 8 ++ toLE (l2p xmlStart) 8
    ++ toLE xml.length 8 ++ toLE 1024 8
  let logical := header ++ body ++ zeros (pages * 1020 - logicalLen)
  image logical

/-- the logical length (header + sections + XML, before the zero fill to a whole page) of the file
    `encodeFile` lays out; used by the driver to size a gap so that the data ends exactly on a page end -/
def logicalLength (sections : List SectionSpec) (xmlTemplate : String) (xmlPos : Nat) : Nat :=
  let before := sections.take xmlPos
  let after := sections.drop xmlPos
  let (b1, _) := placeSections before 48 [] []
  let xmlLen := (utf8 (String.ofList (substOffsets [] xmlTemplate.toList []))).length
  let xmlStart := 48 + b1.length
  let (b2, _) := placeSections after (xmlStart + xmlLen + pad4 xmlLen) [] []
  48 + b1.length + xmlLen + pad4 xmlLen + b2.length

end E57.Spec
