/-
Metadata structures and their XML serialisation, string for string as the `format!` calls of
src/xml.rs, root.rs, pointcloud.rs, images.rs, limits.rs, bounds.rs, transform.rs, date_time.rs,
blob.rs write them.  Core Lean only.
-/
import E57.Model.Record
namespace E57

structure DateTime where
  gpsTime : UInt64
  atomic : Bool
  deriving DecidableEq, Repr, BEq

structure Transform where
  rw : UInt64
  rx : UInt64
  ry : UInt64
  rz : UInt64
  tx : UInt64
  ty : UInt64
  tz : UInt64
  deriving DecidableEq, Repr, BEq

structure CartesianBounds where
  xMin : Option UInt64 := none
  xMax : Option UInt64 := none
  yMin : Option UInt64 := none
  yMax : Option UInt64 := none
  zMin : Option UInt64 := none
  zMax : Option UInt64 := none
  deriving DecidableEq, Repr, BEq

structure SphericalBounds where
  rangeMin : Option UInt64 := none
  rangeMax : Option UInt64 := none
  elevationMin : Option UInt64 := none
  elevationMax : Option UInt64 := none
  azimuthStart : Option UInt64 := none
  azimuthEnd : Option UInt64 := none
  deriving DecidableEq, Repr, BEq

structure IndexBounds where
  rowMin : Option Int := none
  rowMax : Option Int := none
  columnMin : Option Int := none
  columnMax : Option Int := none
  returnMin : Option Int := none
  returnMax : Option Int := none
  deriving DecidableEq, Repr, BEq

structure IntensityLimits where
  min : Option Value
  max : Option Value
  deriving DecidableEq, Repr, BEq

structure ColorLimits where
  redMin : Option Value
  redMax : Option Value
  greenMin : Option Value
  greenMax : Option Value
  blueMin : Option Value
  blueMax : Option Value
  deriving DecidableEq, Repr, BEq

structure BlobRef where
  offset : Nat
  length : Nat
  deriving DecidableEq, Repr, BEq

inductive ImageFormat where
  | png | jpeg
  deriving DecidableEq, Repr, BEq

structure ImageBlob where
  data : BlobRef
  format : ImageFormat
  deriving DecidableEq, Repr, BEq

structure VisualRef where
  blob : ImageBlob
  mask : Option BlobRef
  width : Nat
  height : Nat
  deriving DecidableEq, Repr, BEq

structure Pinhole where
  blob : ImageBlob
  mask : Option BlobRef
  width : Nat
  height : Nat
  focalLength : UInt64
  pixelWidth : UInt64
  pixelHeight : UInt64
  principalX : UInt64
  principalY : UInt64
  deriving DecidableEq, Repr, BEq

structure SphericalImg where
  blob : ImageBlob
  mask : Option BlobRef
  width : Nat
  height : Nat
  pixelWidth : UInt64
  pixelHeight : UInt64
  deriving DecidableEq, Repr, BEq

structure Cylindrical where
  blob : ImageBlob
  mask : Option BlobRef
  width : Nat
  height : Nat
  radius : UInt64
  principalY : UInt64
  pixelWidth : UInt64
  pixelHeight : UInt64
  deriving DecidableEq, Repr, BEq

inductive Projection where
  | pinhole (p : Pinhole)
  | spherical (s : SphericalImg)
  | cylindrical (c : Cylindrical)
  deriving DecidableEq, Repr, BEq

structure Image where
  guid : Option String := none
  visualReference : Option VisualRef := none
  projection : Option Projection := none
  transform : Option Transform := none
  pointcloudGuid : Option String := none
  name : Option String := none
  description : Option String := none
  acquisition : Option DateTime := none
  sensorVendor : Option String := none
  sensorModel : Option String := none
  sensorSerial : Option String := none
  deriving DecidableEq, Repr, BEq

structure PointCloud where
  guid : Option String := none
  fileOffset : Nat := 0
  records : Nat := 0
  prototype : Prototype := []
  originalGuids : Option (List String) := none
  name : Option String := none
  description : Option String := none
  cartesianBounds : Option CartesianBounds := none
  sphericalBounds : Option SphericalBounds := none
  indexBounds : Option IndexBounds := none
  intensityLimits : Option IntensityLimits := none
  colorLimits : Option ColorLimits := none
  transform : Option Transform := none
  acquisitionStart : Option DateTime := none
  acquisitionEnd : Option DateTime := none
  sensorVendor : Option String := none
  sensorModel : Option String := none
  sensorSerial : Option String := none
  sensorHwVersion : Option String := none
  sensorSwVersion : Option String := none
  sensorFwVersion : Option String := none
  temperature : Option UInt64 := none
  humidity : Option UInt64 := none
  atmosphericPressure : Option UInt64 := none
  deriving DecidableEq, Repr, BEq

structure Root where
  guid : String
  libraryVersion : Option String := none
  creation : Option DateTime := none
  coordinateMetadata : Option String := none
  deriving DecidableEq, Repr, BEq

/-! ### generators of src/xml.rs -/

/-- `cdata_escape`: a CDATA section cannot contain its own end marker; split it.  A literal carriage return
    would be read back as a line feed: it leaves the section as the character reference `&#13;` -/
def cdataEscL : List Char → List Char
  | ']' :: ']' :: '>' :: cs => "]]]]><![CDATA[>".toList ++ cdataEscL cs
  | '\r' :: cs => "]]>&#13;<![CDATA[".toList ++ cdataEscL cs
  | c :: cs => c :: cdataEscL cs
  | [] => []

/-- Rust: `value.replace("]]>", "]]]]><![CDATA[>").replace('\r', "]]>&#13;<![CDATA[")` — written as ONE scan from
    left to right (the same function: the two patterns cannot overlap and neither replacement text contains the
    other pattern unescaped), so that it is a structural recursion the kernel can evaluate -/
def cdataEscape (value : String) : String := String.ofList (cdataEscL value.toList)

def genString (tag value : String) : String :=
  s!"<{tag} type=\"String\"><![CDATA[{cdataEscape value}]]></{tag}>\n"

def genFloat (ft : FloatText) (tag : String) (v : UInt64) : String :=
  s!"<{tag} type=\"Float\">{ft.show64 v}</{tag}>\n"

def genInt (tag : String) (v : Int) : String :=
  s!"<{tag} type=\"Integer\">{v}</{tag}>\n"

def optS {α} (o : Option α) (f : α → String) : String :=
  match o with
  | some a => f a
  | none => ""

def DateTime.xmlString (ft : FloatText) (d : DateTime) (tag : String) : String :=
  s!"<{tag} type=\"Structure\">\n" ++
  s!"<dateTimeValue type=\"Float\">{ft.show64 d.gpsTime}</dateTimeValue>\n" ++
  s!"<isAtomicClockReferenced type=\"Integer\">{if d.atomic then "1" else "0"}</isAtomicClockReferenced>\n" ++
  s!"</{tag}>\n"

def Transform.xmlString (ft : FloatText) (t : Transform) (tag : String) : String :=
  let quat := "<rotation type=\"Structure\">\n" ++ genFloat ft "w" t.rw ++ genFloat ft "x" t.rx
    ++ genFloat ft "y" t.ry ++ genFloat ft "z" t.rz ++ "</rotation>\n"
  let trans := "<translation type=\"Structure\">\n" ++ genFloat ft "x" t.tx ++ genFloat ft "y" t.ty
    ++ genFloat ft "z" t.tz ++ "</translation>\n"
  s!"<{tag} type=\"Structure\">\n{quat}{trans}</{tag}>\n"

def CartesianBounds.xmlString (ft : FloatText) (b : CartesianBounds) : String :=
  "<cartesianBounds type=\"Structure\">\n"
  ++ optS b.xMin (genFloat ft "xMinimum") ++ optS b.xMax (genFloat ft "xMaximum")
  ++ optS b.yMin (genFloat ft "yMinimum") ++ optS b.yMax (genFloat ft "yMaximum")
  ++ optS b.zMin (genFloat ft "zMinimum") ++ optS b.zMax (genFloat ft "zMaximum")
  ++ "</cartesianBounds>\n"

def SphericalBounds.xmlString (ft : FloatText) (b : SphericalBounds) : String :=
  "<sphericalBounds type=\"Structure\">\n"
  ++ optS b.azimuthStart (genFloat ft "azimuthStart") ++ optS b.azimuthEnd (genFloat ft "azimuthEnd")
  ++ optS b.elevationMin (genFloat ft "elevationMinimum") ++ optS b.elevationMax (genFloat ft "elevationMaximum")
  ++ optS b.rangeMin (genFloat ft "rangeMinimum") ++ optS b.rangeMax (genFloat ft "rangeMaximum")
  ++ "</sphericalBounds>\n"

def IndexBounds.xmlString (b : IndexBounds) : String :=
  "<indexBounds type=\"Structure\">\n"
  ++ optS b.rowMin (genInt "rowMinimum") ++ optS b.rowMax (genInt "rowMaximum")
  ++ optS b.columnMin (genInt "columnMinimum") ++ optS b.columnMax (genInt "columnMaximum")
  ++ optS b.returnMin (genInt "returnMinimum") ++ optS b.returnMax (genInt "returnMaximum")
  ++ "</indexBounds>\n"

def recordValueToXml (ft : FloatText) (tag : String) : Value → String
  | .integer v => s!"<{tag} type=\"Integer\">{v}</{tag}>\n"
  | .scaled v => s!"<{tag} type=\"ScaledInteger\">{v}</{tag}>\n"
  | .single v => s!"<{tag} type=\"Float\" precision=\"single\">{ft.show32 v}</{tag}>\n"
  | .double v => s!"<{tag} type=\"Float\">{ft.show64 v}</{tag}>\n"

def IntensityLimits.xmlString (ft : FloatText) (l : IntensityLimits) : String :=
  "<intensityLimits type=\"Structure\">\n"
  ++ optS l.min (recordValueToXml ft "intensityMinimum") ++ optS l.max (recordValueToXml ft "intensityMaximum")
  ++ "</intensityLimits>\n"

def ColorLimits.xmlString (ft : FloatText) (l : ColorLimits) : String :=
  "<colorLimits type=\"Structure\">\n"
  ++ optS l.redMin (recordValueToXml ft "colorRedMinimum") ++ optS l.redMax (recordValueToXml ft "colorRedMaximum")
  ++ optS l.greenMin (recordValueToXml ft "colorGreenMinimum") ++ optS l.greenMax (recordValueToXml ft "colorGreenMaximum")
  ++ optS l.blueMin (recordValueToXml ft "colorBlueMinimum") ++ optS l.blueMax (recordValueToXml ft "colorBlueMaximum")
  ++ "</colorLimits>\n"

def ColorLimits.complete (l : ColorLimits) : Bool :=
  l.redMin.isSome && l.redMax.isSome && l.greenMin.isSome && l.greenMax.isSome
    && l.blueMin.isSome && l.blueMax.isSome

def IntensityLimits.complete (l : IntensityLimits) : Bool := l.min.isSome && l.max.isSome

def PointCloud.xmlString (ft : FloatText) (pc : PointCloud) : String :=
  "<vectorChild type=\"Structure\">\n"
  ++ optS pc.guid (genString "guid")
  ++ optS pc.originalGuids (fun gs =>
      "<originalGuids type=\"Vector\" allowHeterogeneousChildren=\"0\">\n"
      ++ String.join (gs.map (genString "vectorChild")) ++ "</originalGuids>\n")
  ++ optS pc.cartesianBounds (CartesianBounds.xmlString ft)
  ++ optS pc.sphericalBounds (SphericalBounds.xmlString ft)
  ++ optS pc.indexBounds IndexBounds.xmlString
  ++ optS pc.colorLimits (fun l => if l.complete then l.xmlString ft else "")
  ++ optS pc.intensityLimits (fun l => if l.complete then l.xmlString ft else "")
  ++ optS pc.name (genString "name")
  ++ optS pc.description (genString "description")
  ++ optS pc.sensorVendor (genString "sensorVendor")
  ++ optS pc.sensorModel (genString "sensorModel")
  ++ optS pc.sensorSerial (genString "sensorSerialNumber")
  ++ optS pc.sensorSwVersion (genString "sensorSoftwareVersion")
  ++ optS pc.sensorFwVersion (genString "sensorFirmwareVersion")
  ++ optS pc.sensorHwVersion (genString "sensorHardwareVersion")
  ++ optS pc.transform (fun t => t.xmlString ft "pose")
  ++ optS pc.acquisitionStart (fun d => d.xmlString ft "acquisitionStart")
  ++ optS pc.acquisitionEnd (fun d => d.xmlString ft "acquisitionEnd")
  ++ optS pc.temperature (genFloat ft "temperature")
  ++ optS pc.humidity (genFloat ft "relativeHumidity")
  ++ optS pc.atmosphericPressure (genFloat ft "atmosphericPressure")
  ++ s!"<points type=\"CompressedVector\" fileOffset=\"{pc.fileOffset}\" recordCount=\"{pc.records}\">\n"
  ++ "<prototype type=\"Structure\">\n"
  ++ String.join (pc.prototype.map (Record.xmlString ft))
  ++ "</prototype>\n"
  ++ "</points>\n"
  ++ "</vectorChild>\n"

def BlobRef.xmlString (b : BlobRef) (tag : String) : String :=
  s!"<{tag} type=\"Blob\" fileOffset=\"{b.offset}\" length=\"{b.length}\"/>\n"

def ImageBlob.xmlString (b : ImageBlob) : String :=
  match b.format with
  | .png => b.data.xmlString "pngImage"
  | .jpeg => b.data.xmlString "jpegImage"

def VisualRef.xmlString (v : VisualRef) : String :=
  "<visualReferenceRepresentation type=\"Structure\">\n" ++ v.blob.xmlString
  ++ optS v.mask (fun m => m.xmlString "imageMask")
  ++ genInt "imageWidth" v.width ++ genInt "imageHeight" v.height
  ++ "</visualReferenceRepresentation>\n"

def Pinhole.xmlString (ft : FloatText) (p : Pinhole) : String :=
  "<pinholeRepresentation type=\"Structure\">\n" ++ p.blob.xmlString
  ++ optS p.mask (fun m => m.xmlString "imageMask")
  ++ genInt "imageWidth" p.width ++ genInt "imageHeight" p.height
  ++ genFloat ft "focalLength" p.focalLength
  ++ genFloat ft "pixelWidth" p.pixelWidth ++ genFloat ft "pixelHeight" p.pixelHeight
  ++ genFloat ft "principalPointX" p.principalX ++ genFloat ft "principalPointY" p.principalY
  ++ "</pinholeRepresentation>\n"

def SphericalImg.xmlString (ft : FloatText) (p : SphericalImg) : String :=
  "<sphericalRepresentation type=\"Structure\">\n" ++ p.blob.xmlString
  ++ optS p.mask (fun m => m.xmlString "imageMask")
  ++ genInt "imageWidth" p.width ++ genInt "imageHeight" p.height
  ++ genFloat ft "pixelWidth" p.pixelWidth ++ genFloat ft "pixelHeight" p.pixelHeight
  ++ "</sphericalRepresentation>\n"

/-- the tag of the cylinder radius as the writer emits it -/
def cylRadiusTag : String := "radius"

def Cylindrical.xmlString (ft : FloatText) (p : Cylindrical) : String :=
  "<cylindricalRepresentation type=\"Structure\">\n" ++ p.blob.xmlString
  ++ optS p.mask (fun m => m.xmlString "imageMask")
  ++ genInt "imageWidth" p.width ++ genInt "imageHeight" p.height
  ++ genFloat ft cylRadiusTag p.radius
  ++ genFloat ft "principalPointY" p.principalY
  ++ genFloat ft "pixelWidth" p.pixelWidth ++ genFloat ft "pixelHeight" p.pixelHeight
  ++ "</cylindricalRepresentation>\n"

def Projection.xmlString (ft : FloatText) : Projection → String
  | .pinhole p => p.xmlString ft
  | .spherical s => s.xmlString ft
  | .cylindrical c => c.xmlString ft

def Image.xmlString (ft : FloatText) (i : Image) : String :=
  "<vectorChild type=\"Structure\">\n"
  ++ optS i.guid (genString "guid")
  ++ optS i.visualReference VisualRef.xmlString
  ++ optS i.projection (Projection.xmlString ft)
  ++ optS i.transform (fun t => t.xmlString ft "pose")
  ++ optS i.pointcloudGuid (genString "associatedData3DGuid")
  ++ optS i.name (genString "name")
  ++ optS i.description (genString "description")
  ++ optS i.acquisition (fun d => d.xmlString ft "acquisitionDateTime")
  ++ optS i.sensorVendor (genString "sensorVendor")
  ++ optS i.sensorModel (genString "sensorModel")
  ++ optS i.sensorSerial (genString "sensorSerialNumber")
  ++ "</vectorChild>\n"

/-- escaping of the extension URL inside the `xmlns:` attribute -/
def attrEscChar (c : Char) : List Char :=
  if c == '&' then "&amp;".toList
  else if c == '<' then "&lt;".toList
  else if c == '"' then "&quot;".toList
  else if c == '\t' then "&#9;".toList
  else if c == '\n' then "&#10;".toList
  else if c == '\r' then "&#13;".toList
  else [c]

def attrEscL : List Char → List Char
  | [] => []
  | c :: cs => attrEscChar c ++ attrEscL cs

/-- Rust: six chained `replace` calls, `&` first — character by character the same function -/
def attrEscape (s : String) : String := String.ofList (attrEscL s.toList)

/-- `serialize_root`; `none` = "Empty file GUID is not allowed" -/
def serializeRoot (ft : FloatText) (root : Root) (pcs : List PointCloud) (imgs : List Image)
    (exts : List (String × String)) : Option String :=
  if root.guid.isEmpty then none else
  some (
    "<?xml version=\"1.0\" encoding=\"UTF-8\"?>\n"
    ++ "<e57Root type=\"Structure\" "
    ++ String.join (exts.map (fun e => s!"xmlns:{e.1}=\"{attrEscape e.2}\" "))
    ++ "xmlns=\"http://www.astm.org/COMMIT/E57/2010-e57-v1.0\">\n"
    ++ "<formatName type=\"String\"><![CDATA[ASTM E57 3D Imaging Data File]]></formatName>\n"
    ++ genString "guid" root.guid
    ++ "<versionMajor type=\"Integer\">1</versionMajor>\n"
    ++ "<versionMinor type=\"Integer\">0</versionMinor>\n"
    ++ optS root.coordinateMetadata (genString "coordinateMetadata")
    ++ optS root.libraryVersion (genString "e57LibraryVersion")
    ++ optS root.creation (fun d => d.xmlString ft "creationDateTime")
    ++ "<data3D type=\"Vector\" allowHeterogeneousChildren=\"1\">\n"
    ++ String.join (pcs.map (PointCloud.xmlString ft))
    ++ "</data3D>\n"
    ++ "<images2D type=\"Vector\" allowHeterogeneousChildren=\"1\">\n"
    ++ String.join (imgs.map (Image.xmlString ft))
    ++ "</images2D>\n"
    ++ "</e57Root>\n")

end E57
