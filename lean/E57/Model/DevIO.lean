/-
C16 — the page layer over a FAULTY device.

`E57/Model/Pages.lean` models src/paged_writer.rs and src/paged_reader.rs over an ideal device
(`Dev`: every transfer is complete and never fails).  This file is the model one level down: the
device is driven by a SCHEDULE chosen by the environment, one behaviour per device call

    full          the call does what an ideal device does
    short n       a `write`/`read` transfers at most `n` bytes (for `seek`/`flush`: same as `full`)
    fail          the call returns an error (`ErrorKind::Other`), nothing is transferred
    interrupted   the call returns `ErrorKind::Interrupted`, nothing is transferred

(an exhausted schedule behaves as `full` for ever).  Device calls are, in the order the Rust code
issues them: `write`, `read`, `seek` (`SeekFrom::Start`, `SeekFrom::End(0)` and `stream_position`,
which is `seek(SeekFrom::Current(0))`) and `flush`.  EVERY such call consumes exactly one behaviour:
"fault at the k-th device call" is the schedule `replicate (k-1) full ++ [fail]`.

On top of the primitive calls:
  * `FDev.writeAll`   std `Write::write_all`: retries `Interrupted`, `Ok(0)` is `WriteZero`
  * `FDev.readLoop`   the loop of `PagedWriter::read_current_page` (NO retry of `Interrupted`)
  * `FDev.readExact`  std `default_read_exact`: retries `Interrupted`, `Ok(0)` is `UnexpectedEof`
  * `FPW`             `PagedWriter` with its failure latch (`guard`, `guard_io`), operation by operation
  * `FPR`             `PagedReader`
  * `FPW.run`, `FPR.run`  drivers over an operation datatype (hooks for a line protocol)

All loops take fuel; running out of fuel is the value `Res.panic`, so that "never panics" is a theorem
(E57/Proofs/DevIO.lean) and not an artefact of the encoding.  Core Lean only.
-/
import E57.Model.Pages
namespace E57
namespace DIO

/-! ## behaviours, errors, results -/

inductive Beh where
  | full
  | short (n : Nat)
  | fail
  | interrupted
  deriving Repr, BEq, DecidableEq

/-- the errors the page layer can see or produce -/
inductive Err where
  | io           -- the device reported a failure
  | interrupted  -- the device reported `ErrorKind::Interrupted`
  | writeZero    -- `write_all`: a `write` returned `Ok(0)`
  | latched      -- "A previous IO operation failed, the writer can no longer be used"
  | eof          -- `read_exact`: `UnexpectedEof`
  | crc          -- `read_page`: invalid checksum
  | invalid      -- a rejected request (seek behind the end / into a checksum, page out of range,
                 -- supplied writer not empty, …): `Error::Invalid` / `ErrorKind::InvalidInput`
  deriving Repr, BEq, DecidableEq

/-- errors that an ideal device produces as well (requests the ideal model rejects too) -/
def Err.isLogic : Err → Bool
  | .invalid => true
  | .eof => true
  | .crc => true
  | _ => false

inductive Res (α : Type) where
  | ok (a : α)
  | err (e : Err)
  | panic
  deriving Repr, BEq, DecidableEq

def Res.isOk {α} : Res α → Bool
  | .ok _ => true
  | _ => false

def Res.isErr {α} : Res α → Bool
  | .err _ => true
  | _ => false

/-! ## the device -/

structure FDev where
  dev : Dev
  sched : List Beh
  deriving Repr, BEq, DecidableEq

/-- consume the behaviour of the next device call -/
def FDev.next (d : FDev) : Beh × FDev :=
  match d.sched with
  | [] => (.full, d)
  | b :: s => (b, { d with sched := s })

/-- one `Write::write` call -/
def FDev.write (d : FDev) (buf : Bytes) : Res Nat × FDev :=
  match d.next with
  | (.full, d') => (.ok buf.length, { d' with dev := d'.dev.writeAll buf })
  | (.short n, d') => (.ok (min n buf.length), { d' with dev := d'.dev.writeAll (buf.take n) })
  | (.fail, d') => (.err .io, d')
  | (.interrupted, d') => (.err .interrupted, d')

/-- one `Read::read` call with a buffer of `n` bytes -/
def FDev.read (d : FDev) (n : Nat) : Res Bytes × FDev :=
  match d.next with
  | (.full, d') => (.ok (d'.dev.read n).1, { d' with dev := (d'.dev.read n).2 })
  | (.short k, d') => (.ok (d'.dev.read (min k n)).1, { d' with dev := (d'.dev.read (min k n)).2 })
  | (.fail, d') => (.err .io, d')
  | (.interrupted, d') => (.err .interrupted, d')

/-- a call that transfers no data (`seek`, `flush`): `short` is as good as `full` -/
def FDev.ctl {α : Type} (d : FDev) (f : Dev → α × Dev) : Res α × FDev :=
  match d.next with
  | (.fail, d') => (.err .io, d')
  | (.interrupted, d') => (.err .interrupted, d')
  | (_, d') => (.ok (f d'.dev).1, { d' with dev := (f d'.dev).2 })

/-- `seek(SeekFrom::Start(p))` -/
def FDev.seekStart (p : Nat) (d : FDev) : Res Nat × FDev := d.ctl (fun v => (p, v.seekStart p))

/-- `seek(SeekFrom::End(0))` -/
def FDev.seekEnd (d : FDev) : Res Nat × FDev := d.ctl (fun v => (v.seekEnd.2, v.seekEnd.1))

/-- `stream_position()` = `seek(SeekFrom::Current(0))` -/
def FDev.streamPosition (d : FDev) : Res Nat × FDev := d.ctl (fun v => (v.pos, v))

/-- `Write::flush` of the device -/
def FDev.flush (d : FDev) : Res Unit × FDev := d.ctl (fun v => ((), v))

/-- std `Write::write_all` -/
def FDev.writeAllFuel : Nat → Bytes → FDev → Res Unit × FDev
  | _, [], d => (.ok (), d)
  | 0, _ :: _, d => (.panic, d)
  | fuel + 1, b :: bs, d =>
    match d.write (b :: bs) with
    | (.ok n, d') =>
      if n = 0 then (.err .writeZero, d') else FDev.writeAllFuel fuel ((b :: bs).drop n) d'
    | (.err .interrupted, d') => FDev.writeAllFuel fuel (b :: bs) d'
    | (.err e, d') => (.err e, d')
    | (.panic, d') => (.panic, d')

def FDev.writeAll (buf : Bytes) (d : FDev) : Res Unit × FDev :=
  FDev.writeAllFuel (d.sched.length + buf.length + 1) buf d

/-- the loop of `read_current_page`: `read` until `want` bytes have arrived or a call returns 0;
    an error (also `Interrupted`) ends it.  The bytes received so far are returned in every case. -/
def FDev.readLoopFuel : Nat → Nat → Bytes → FDev → Res Unit × Bytes × FDev
  | _, 0, acc, d => (.ok (), acc, d)
  | 0, _ + 1, acc, d => (.panic, acc, d)
  | fuel + 1, want + 1, acc, d =>
    match d.read (want + 1) with
    | (.ok bs, d') =>
      if bs.isEmpty then (.ok (), acc, d')
      else FDev.readLoopFuel fuel (want + 1 - bs.length) (acc ++ bs) d'
    | (.err e, d') => (.err e, acc, d')
    | (.panic, d') => (.panic, acc, d')

def FDev.readLoop (want : Nat) (d : FDev) : Res Unit × Bytes × FDev :=
  FDev.readLoopFuel (want + 1) want [] d

/-- std `default_read_exact` -/
def FDev.readExactFuel : Nat → Nat → Bytes → FDev → Res Unit × Bytes × FDev
  | _, 0, acc, d => (.ok (), acc, d)
  | 0, _ + 1, acc, d => (.panic, acc, d)
  | fuel + 1, want + 1, acc, d =>
    match d.read (want + 1) with
    | (.ok bs, d') =>
      if bs.isEmpty then (.err .eof, acc, d')
      else FDev.readExactFuel fuel (want + 1 - bs.length) (acc ++ bs) d'
    | (.err .interrupted, d') => FDev.readExactFuel fuel (want + 1) acc d'
    | (.err e, d') => (.err e, acc, d')
    | (.panic, d') => (.panic, acc, d')

def FDev.readExact (want : Nat) (d : FDev) : Res Unit × Bytes × FDev :=
  FDev.readExactFuel (d.sched.length + want + 1) want [] d

/-! ## a state monad that keeps the state when an operation fails (Rust `?` on `&mut self`) -/

def M (σ α : Type) : Type := σ → Res α × σ

def M.pure {σ α : Type} (a : α) : M σ α := fun s => (.ok a, s)

def M.bind {σ α β : Type} (m : M σ α) (f : α → M σ β) : M σ β := fun s =>
  match m s with
  | (.ok a, s') => f a s'
  | (.err e, s') => (.err e, s')
  | (.panic, s') => (.panic, s')

instance {σ : Type} : Monad (M σ) where
  pure := M.pure
  bind := M.bind

def M.fail {σ α : Type} (e : Err) : M σ α := fun s => (.err e, s)

/-! ## PagedWriter -/

structure FPW where
  dev : FDev
  offset : Nat
  page : Bytes
  failed : Bool
  deriving Repr, BEq, DecidableEq

/-- forget the schedule and the latch: the state of the ideal page writer -/
def FPW.abs (w : FPW) : PW := ⟨w.dev.dev, w.offset, w.page⟩

/-- a device call of the writer -/
def FPW.io {α : Type} (f : FDev → Res α × FDev) : M FPW α := fun w =>
  ((f w.dev).1, { w with dev := (f w.dev).2 })

def FPW.setOffset (o : Nat) : M FPW Unit := fun w => (.ok (), { w with offset := o })

/-- `PagedWriter::new`: one `seek(End(0))` -/
def FPW.new (d : FDev) : Res FPW × FDev :=
  match d.seekEnd with
  | (.ok e, d') => if e ≠ 0 then (.err .invalid, d') else (.ok ⟨d', 0, zeros pageSize, false⟩, d')
  | (.err e, d') => (.err e, d')
  | (.panic, d') => (.panic, d')

/-- `guard_io`: the latch is set on ANY error of the operation -/
def FPW.guardIO {α : Type} (op : M FPW α) : M FPW α := fun w =>
  if w.failed then (.err .latched, w)
  else
    match op w with
    | (.ok a, w') => (.ok a, w')
    | (.err e, w') => (.err e, { w' with failed := true })
    | (.panic, w') => (.panic, w')

/-- `guard`: the latch is set on `Error::Read` / `Error::Write` (every wrapped I/O error), not on
    `Error::Invalid` -/
def FPW.guard {α : Type} (op : M FPW α) : M FPW α := fun w =>
  if w.failed then (.err .latched, w)
  else
    match op w with
    | (.ok a, w') => (.ok a, w')
    | (.err e, w') => (.err e, if e = .invalid then w' else { w' with failed := true })
    | (.panic, w') => (.panic, w')

/-- `read_current_page` -/
def FPW.readCurrentPage : M FPW Unit := fun w =>
  match w.dev.readLoop pageSize with
  | (.ok _, bs, d) => (.ok (), { w with dev := d, page := bs ++ zeros (pageSize - bs.length) })
  | (.err e, bs, d) => (.err e, { w with dev := d, page := bs ++ w.page.drop bs.length })
  | (.panic, bs, d) => (.panic, { w with dev := d, page := bs ++ w.page.drop bs.length })

/-- the device calls of `write_inner` once the page buffer is full and sealed -/
def FPW.commitTail (sealed : Bytes) (n : Nat) : M FPW Nat := do
  FPW.io (FDev.writeAll sealed)
  let physOff ← FPW.io FDev.streamPosition
  FPW.setOffset 0
  FPW.readCurrentPage
  let _ ← FPW.io (FDev.seekStart physOff)
  pure n

/-- the part of `write_inner` after the page buffer became full: checksum into the buffer, then the
    device calls -/
def FPW.commitPage (n : Nat) : M FPW Nat := fun w =>
  FPW.commitTail (sealPage w.page) n { w with page := sealPage w.page }

/-- `write_inner` -/
def FPW.writeInner (buf : Bytes) : M FPW Nat := fun w =>
  let n := min buf.length (payloadSize - w.offset)
  let page1 := w.page.take w.offset ++ buf.take n ++ w.page.drop (w.offset + n)
  let off1 := w.offset + n
  if off1 = payloadSize then FPW.commitPage n { w with offset := off1, page := page1 }
  else (.ok n, { w with offset := off1, page := page1 })

/-- the device calls of `flush_inner` after the checksum went into the buffer -/
def FPW.flushTail (sealed : Bytes) (pos : Nat) : M FPW Unit := do
  FPW.io (FDev.writeAll sealed)
  let _ ← FPW.io (FDev.seekStart pos)
  FPW.io FDev.flush

/-- `flush_inner` with a non-empty page buffer -/
def FPW.flushPage : M FPW Unit := do
  let pos ← FPW.io FDev.streamPosition
  fun w => FPW.flushTail (sealPage w.page) pos { w with page := sealPage w.page }

/-- `flush_inner` -/
def FPW.flushInner : M FPW Unit := fun w =>
  if w.offset > 0 then FPW.flushPage w else FPW.io FDev.flush w

/-- `Write::write` of the paged writer -/
def FPW.write (buf : Bytes) : M FPW Nat := FPW.guardIO (FPW.writeInner buf)

/-- `Write::flush` of the paged writer -/
def FPW.flush : M FPW Unit := FPW.guardIO FPW.flushInner

/-- std `write_all` over `PagedWriter::write`.  An `Interrupted` coming out of `write` is retried by
    the loop, but `guard_io` has already set the latch: the retry returns `latched`. -/
def FPW.writeAllFuel : Nat → Bytes → M FPW Unit
  | _, [] => fun w => (.ok (), w)
  | 0, _ :: _ => fun w => (.panic, w)
  | fuel + 1, b :: bs => fun w =>
    match FPW.write (b :: bs) w with
    | (.ok n, w') =>
      if n = 0 then (.err .writeZero, w') else FPW.writeAllFuel fuel ((b :: bs).drop n) w'
    | (.err .interrupted, w') => FPW.writeAllFuel fuel (b :: bs) w'
    | (.err e, w') => (.err e, w')
    | (.panic, w') => (.panic, w')

def FPW.writeAll (buf : Bytes) : M FPW Unit := FPW.writeAllFuel (buf.length + 2) buf

/-- `physical_position_inner` -/
def FPW.physicalPositionInner : M FPW Nat := do
  let pos ← FPW.io FDev.streamPosition
  fun w => (.ok (pos + w.offset), w)

/-- the two rejections of `physical_seek_inner`: seek back, then `Error::Invalid` -/
def FPW.rejectSeek (current : Nat) : M FPW Unit := do
  let _ ← FPW.io (FDev.seekStart current)
  M.fail .invalid

/-- `physical_seek_inner` -/
def FPW.physicalSeekInner (pos : Nat) : M FPW Unit := do
  FPW.flush
  let current ← FPW.io FDev.streamPosition
  let e ← FPW.io FDev.seekEnd
  if pos > e then FPW.rejectSeek current
  else if pos % pageSize ≥ payloadSize then FPW.rejectSeek current
  else do
    let _ ← FPW.io (FDev.seekStart (pos / pageSize * pageSize))
    FPW.readCurrentPage
    let _ ← FPW.io (FDev.seekStart (pos / pageSize * pageSize))
    FPW.setOffset (pos % pageSize)

/-- `physical_size_inner` -/
def FPW.physicalSizeInner : M FPW Nat := do
  FPW.flush
  let pos ← FPW.io FDev.streamPosition
  let size ← FPW.io FDev.seekEnd
  let _ ← FPW.io (FDev.seekStart pos)
  pure size

/-- `align_inner` -/
def FPW.alignInner : M FPW Unit := fun w =>
  if w.offset % 4 ≠ 0 then FPW.writeAll (zeros (4 - w.offset % 4)) w else (.ok (), w)

def FPW.physicalPosition : M FPW Nat := FPW.guard FPW.physicalPositionInner
def FPW.physicalSeek (pos : Nat) : M FPW Unit := FPW.guard (FPW.physicalSeekInner pos)
def FPW.physicalSize : M FPW Nat := FPW.guard FPW.physicalSizeInner
def FPW.align : M FPW Unit := FPW.guard FPW.alignInner

/-! ### driver hook -/

inductive Op where
  | write (b : Bytes)   -- `write_all`
  | flush
  | seek (p : Nat)      -- `physical_seek`
  | size                -- `physical_size`
  | align
  | position            -- `physical_position`
  deriving Repr, BEq, DecidableEq

/-- the value an operation returns (0 for the operations returning `()`) -/
abbrev Result := Res Nat

def unit0 {σ : Type} (m : M σ Unit) : M σ Nat := fun s =>
  match m s with
  | (.ok _, s') => (.ok 0, s')
  | (.err e, s') => (.err e, s')
  | (.panic, s') => (.panic, s')

def FPW.step : Op → M FPW Nat
  | .write b => unit0 (FPW.writeAll b)
  | .flush => unit0 FPW.flush
  | .seek p => unit0 (FPW.physicalSeek p)
  | .size => FPW.physicalSize
  | .align => unit0 FPW.align
  | .position => FPW.physicalPosition

/-- run all operations, whatever their results (a failed operation does not stop the run) -/
def FPW.runOps : List Op → FPW → List Result × FPW
  | [], w => ([], w)
  | op :: ops, w =>
    let (r, w1) := FPW.step op w
    let (rs, w2) := FPW.runOps ops w1
    (r :: rs, w2)

/-- `PagedWriter::new` on the device, then the operations.  The first result is that of `new`
    (`ok 0`); if `new` fails it is the only one. -/
def FPW.run (ops : List Op) (d : FDev) : List Result × FDev :=
  match FPW.new d with
  | (.ok w, _) => let (rs, w') := FPW.runOps ops w; (.ok 0 :: rs, w'.dev)
  | (.err e, d') => ([.err e], d')
  | (.panic, d') => ([.panic], d')

/-! ## PagedReader -/

structure FPR where
  dev : FDev
  pageSize : Nat
  physSize : Nat
  logSize : Nat
  pages : Nat
  offset : Nat
  pageNum : Option Nat
  page : Bytes
  deriving Repr, BEq, DecidableEq

def FPR.abs (r : FPR) : PR :=
  ⟨r.dev.dev, r.pageSize, r.physSize, r.logSize, r.pages, r.offset, r.pageNum, r.page⟩

def FPR.io {α : Type} (f : FDev → Res α × FDev) : M FPR α := fun r =>
  ((f r.dev).1, { r with dev := (f r.dev).2 })

/-- `PagedReader::new`: the two parameter checks, one `seek(End(0))`, the two size checks -/
def FPR.new (d : FDev) (ps : Nat) : Res FPR × FDev :=
  if ps > 1048576 then (.err .invalid, d)
  else if ps ≤ 4 then (.err .invalid, d)
  else
    match d.seekEnd with
    | (.ok phys, d') =>
      if phys = 0 then (.err .invalid, d')
      else if phys % ps ≠ 0 then (.err .invalid, d')
      else (.ok ⟨d', ps, phys, (phys / ps) * (ps - 4), phys / ps, 0, none, zeros ps⟩, d')
    | (.err e, d') => (.err e, d')
    | (.panic, d') => (.panic, d')

/-- `seek_physical` (no device call) -/
def FPR.seekPhysical (off : Nat) : M FPR Nat := fun r =>
  if off ≥ r.physSize then (.err .invalid, r)
  else (.ok (off - (off / r.pageSize) * 4), { r with offset := off - (off / r.pageSize) * 4 })

/-- `align` (no device call) -/
def FPR.align : M FPR Unit := fun r =>
  if r.offset % 4 ≠ 0 then
    if r.offset + (4 - r.offset % 4) > r.logSize then (.err .invalid, r)
    else (.ok (), { r with offset := r.offset + (4 - r.offset % 4) })
  else (.ok (), r)

/-- `read_exact(&mut self.page_buffer)` on the device: the buffer keeps what arrived -/
def FPR.fillPage : M FPR Unit := fun r =>
  match r.dev.readExact r.pageSize with
  | (.ok _, bs, d) => (.ok (), { r with dev := d, page := bs })
  | (.err e, bs, d) => (.err e, { r with dev := d, page := bs ++ r.page.drop bs.length })
  | (.panic, bs, d) => (.panic, { r with dev := d, page := bs ++ r.page.drop bs.length })

/-- the checksum test at the end of `read_page` -/
def FPR.checkPage (p : Nat) : M FPR Unit := fun r' =>
  if r'.page.drop (r'.pageSize - 4) ≠ crcBytes (r'.page.take (r'.pageSize - 4)) then (.err .crc, r')
  else (.ok (), { r' with pageNum := some p })

/-- `read_page` -/
def FPR.readPage (p : Nat) : M FPR Unit := fun r =>
  if p ≥ r.pages then (.err .invalid, r)
  else
    (do
      let _ ← FPR.io (FDev.seekStart (p * r.pageSize))
      FPR.fillPage
      FPR.checkPage p) { r with pageNum := none }

/-- the end of `Read::read`: copy from the page buffer, advance the cursor -/
def FPR.readTail (n : Nat) : M FPR Bytes := fun r1 =>
  let pageOffset := r1.offset % (r1.pageSize - 4)
  let size := min n (r1.pageSize - 4 - pageOffset)
  (.ok ((r1.page.drop pageOffset).take size), { r1 with offset := r1.offset + size })

/-- `Read::read` of the paged reader with a buffer of `n` bytes -/
def FPR.read (n : Nat) : M FPR Bytes := fun r =>
  let page := r.offset / (r.pageSize - 4)
  if page ≥ r.pages then (.ok [], r)
  else if r.pageNum ≠ some page then (FPR.readPage page >>= fun _ => FPR.readTail n) r
  else FPR.readTail n r

/-- std `read_exact` over `PagedReader::read`; an `Interrupted` (it can only come from the `seek` in
    `read_page`) is retried -/
def FPR.readExactFuel : Nat → Nat → Bytes → M FPR Bytes
  | _, 0, acc => fun r => (.ok acc, r)
  | 0, _ + 1, _ => fun r => (.panic, r)
  | fuel + 1, n + 1, acc => fun r =>
    match FPR.read (n + 1) r with
    | (.ok bs, r') =>
      if bs.isEmpty then (.err .eof, r') else FPR.readExactFuel fuel (n + 1 - bs.length) (acc ++ bs) r'
    | (.err .interrupted, r') => FPR.readExactFuel fuel (n + 1) acc r'
    | (.err e, r') => (.err e, r')
    | (.panic, r') => (.panic, r')

def FPR.readExact (n : Nat) : M FPR Bytes := fun r =>
  FPR.readExactFuel (r.dev.sched.length + n + 1) n [] r

inductive ROp where
  | read (n : Nat)
  | readExact (n : Nat)
  | seek (p : Nat)
  | align
  deriving Repr, BEq, DecidableEq

inductive RResult where
  | bytes (b : Bytes)
  | num (n : Nat)
  | err (e : Err)
  | panic
  deriving Repr, BEq, DecidableEq

/-- report the outcome of a reader operation -/
def toR {α : Type} (c : α → RResult) (x : Res α × FPR) : RResult × FPR :=
  (match x.1 with
   | .ok a => c a
   | .err e => .err e
   | .panic => .panic, x.2)

def FPR.step (op : ROp) (r : FPR) : RResult × FPR :=
  match op with
  | .read n => toR .bytes (FPR.read n r)
  | .readExact n => toR .bytes (FPR.readExact n r)
  | .seek p => toR .num (FPR.seekPhysical p r)
  | .align => toR (fun _ => .num 0) (FPR.align r)

def FPR.runOps : List ROp → FPR → List RResult × FPR
  | [], r => ([], r)
  | op :: ops, r =>
    let (x, r1) := FPR.step op r
    let (xs, r2) := FPR.runOps ops r1
    (x :: xs, r2)

/-- `PagedReader::new` with page size `ps`, then the operations (first result: that of `new`) -/
def FPR.run (ps : Nat) (ops : List ROp) (d : FDev) : List RResult × FDev :=
  match FPR.new d ps with
  | (.ok r, _) => let (xs, r') := FPR.runOps ops r; (.num 0 :: xs, r'.dev)
  | (.err e, d') => ([.err e], d')
  | (.panic, d') => ([.panic], d')

end DIO
end E57
