/-
The view of an XML document that the crate uses: the tree `roxmltree` exposes (elements with
namespace URI, resolved prefix, local name, attributes; text, comment and PI nodes) and the queries
the crate performs on it; exact models of Rust's integer `FromStr`.  Float `FromStr` is external
(`FloatParse`).  Core Lean only.
-/
import E57.Model.Basic
namespace E57

structure XAttr where
  ns : Option String
  name : String
  value : String
  deriving Repr, BEq, DecidableEq

inductive XNode where
  | elem (ns : Option String) (pfx : Option String) (name : String) (attrs : List XAttr)
      (children : List XNode)
  | text (s : String)
  | comment
  | pi
  deriving Repr

namespace XNode

def isElement : XNode → Bool
  | elem .. => true
  | _ => false

def children : XNode → List XNode
  | elem _ _ _ _ cs => cs
  | _ => []

/-- the namespace of standard E57 elements -/
def e57NsUri : String := "http://www.astm.org/COMMIT/E57/2010-e57-v1.0"

/-- `xml::is_tag(node, "local")`: an element with that local name that is in no namespace or in
    the E57 namespace (elements of extension namespaces never match) -/
def hasTagName (n : XNode) (lname : String) : Bool :=
  match n with
  | elem ns _ name _ _ => name == lname && (ns.isNone || ns == some e57NsUri)
  | _ => false

def tagLocal : XNode → String
  | elem _ _ name _ _ => name
  | _ => ""

def tagNs : XNode → Option String
  | elem ns _ _ _ _ => ns
  | _ => none

def tagPrefix : XNode → Option String
  | elem _ p _ _ _ => p
  | _ => none

/-- `attribute("name")`: the attribute with that local name and NO namespace -/
def attr (n : XNode) (name : String) : Option String :=
  match n with
  | elem _ _ _ attrs _ => (attrs.find? (fun a => a.ns.isNone && a.name == name)).map (·.value)
  | _ => none

/-- the text pieces among the children of a node, in document order -/
def textPieces : List XNode → List String
  | [] => []
  | text s :: cs => s :: textPieces cs
  | _ :: cs => textPieces cs

/-- `xml::text_of`: ALL the text of an element — also if elements of extensions, comments or processing
    instructions stand before or between the pieces; `none` if the element contains no text at all
    (roxmltree's `text()`, used before, looked at the first child only) -/
def textOf (n : XNode) : Option String :=
  match textPieces n.children with
  | [] => none
  | t :: ts => some (ts.foldl (· ++ ·) t)

/-- `children().find(|n| n.has_tag_name(tag))` -/
def findChild (n : XNode) (tag : String) : Option XNode :=
  n.children.find? (fun c => c.hasTagName tag)

mutual
/-- `descendants()`: the node itself and all nodes below it, in document order -/
def descendants : XNode → List XNode
  | elem ns p name attrs cs => elem ns p name attrs cs :: descendantsList cs
  | n => [n]
def descendantsList : List XNode → List XNode
  | [] => []
  | c :: cs => descendants c ++ descendantsList cs
end

def findDescendant (n : XNode) (tag : String) : Option XNode :=
  n.descendants.find? (fun c => c.hasTagName tag)

mutual
/-- number of nodes (a measure for cost statements) -/
def size : XNode → Nat
  | elem _ _ _ _ cs => 1 + sizeList cs
  | _ => 1
def sizeList : List XNode → Nat
  | [] => 0
  | c :: cs => size c + sizeList cs
end

end XNode

/-- a parsed document: the root element and the namespaces in scope on it (prefix, uri) -/
structure XDoc where
  root : XNode
  rootNamespaces : List (Option String × String)
  deriving Repr

/-- `document.descendants()` starts at the document root node, whose only element child is `root`;
    comments/PIs next to the root element can never match a tag name -/
def XDoc.findDescendant (d : XDoc) (tag : String) : Option XNode := d.root.findDescendant tag

/-! ### Rust `FromStr` for integers -/

def digitsVal : List Char → Option Nat
  | [] => none
  | cs => cs.foldlM (fun acc c => if c.isDigit then some (acc * 10 + (c.toNat - 48)) else none) 0

/-- `str::parse::<i64>()` -/
def parseI64 (s : String) : Option Int :=
  match s.toList with
  | '-' :: rest => do
    let v ← digitsVal rest
    if v ≤ 9223372036854775808 then some (-(v : Int)) else none
  | '+' :: rest => do
    let v ← digitsVal rest
    if v ≤ 9223372036854775807 then some (v : Int) else none
  | cs => do
    let v ← digitsVal cs
    if v ≤ 9223372036854775807 then some (v : Int) else none

/-- `str::parse::<u64>()` / `<u32>()` with the given maximum -/
def parseUnsigned (max : Nat) (s : String) : Option Nat :=
  match s.toList with
  | '+' :: rest => do
    let v ← digitsVal rest
    if v ≤ max then some v else none
  | cs => do
    let v ← digitsVal cs
    if v ≤ max then some v else none

def parseU64 (s : String) : Option Nat := parseUnsigned 18446744073709551615 s
def parseU32 (s : String) : Option Nat := parseUnsigned 4294967295 s

/-- Rust's `str::parse::<f64>` / `<f32>`: external; given as a finite table for the strings in play -/
structure FloatParse where
  table : List (String × (Option UInt64 × Option UInt32))

def FloatParse.f64 (fp : FloatParse) (s : String) : Option UInt64 :=
  match fp.table.lookup s with
  | some (b, _) => b
  | none => none

def FloatParse.f32 (fp : FloatParse) (s : String) : Option UInt32 :=
  match fp.table.lookup s with
  | some (_, b) => b
  | none => none

end E57
