/-
CRC-32C exactly as src/crc32.rs computes it (table construction + table-driven fold), plus the
bitwise reference used by the proofs.  Core Lean only.
-/
import E57.Model.Basic
namespace E57

def crcPoly : UInt32 := 0x82F63B78

/-- one step of the table construction loop: `if val % 2 == 0 { val /= 2 } else { val /= 2; val ^= POLY }` -/
def crcShift (v : UInt32) : UInt32 :=
  if v % 2 == 0 then v / 2 else (v / 2) ^^^ crcPoly

def crcShift8 (v : UInt32) : UInt32 :=
  crcShift (crcShift (crcShift (crcShift (crcShift (crcShift (crcShift (crcShift v)))))))

/-- `Crc32::new`: the 256-entry table -/
def crcTable : Array UInt32 := (Array.range 256).map (fun i => crcShift8 (UInt32.ofNat i))

/-- one step of the fold in `Crc32::calculate` -/
def crcStep (sum : UInt32) (next : UInt8) : UInt32 :=
  let index := (sum ^^^ next.toUInt32).toUInt8
  crcTable[index.toNat]! ^^^ (sum >>> 8)

/-- `Crc32::calculate` -/
def crc32c (data : Bytes) : UInt32 :=
  ~~~ (data.foldl crcStep 0xFFFFFFFF)

/-- bitwise reference: process one byte without a table -/
def crcStepRef (sum : UInt32) (next : UInt8) : UInt32 :=
  crcShift8 (sum ^^^ next.toUInt32)

def crc32cRef (data : Bytes) : UInt32 :=
  ~~~ (data.foldl crcStepRef 0xFFFFFFFF)

/-- the four checksum bytes as stored in the file: big-endian -/
def crcBytes (payload : Bytes) : Bytes := toBE32 (crc32c payload).toNat

end E57
