/-
Records (src/record.rs): names, data types, values, prototype rules (src/pc_writer.rs validate_*,
src/extension.rs), XML form of a prototype entry.  Floats are bit patterns; their decimal text
(`format!("{}", f)`) is external and supplied through `FloatText`.  Core Lean only.
-/
import E57.Model.Bits
namespace E57

inductive RecordName where
  | cartesianX | cartesianY | cartesianZ | cartesianInvalidState
  | sphericalRange | sphericalAzimuth | sphericalElevation | sphericalInvalidState
  | intensity | isIntensityInvalid
  | colorRed | colorGreen | colorBlue | isColorInvalid
  | rowIndex | columnIndex | returnCount | returnIndex
  | timeStamp | isTimeStampInvalid
  | unknown (ns name : String)
  deriving DecidableEq, Repr, BEq

def RecordName.tagName : RecordName → String
  | .cartesianX => "cartesianX" | .cartesianY => "cartesianY" | .cartesianZ => "cartesianZ"
  | .cartesianInvalidState => "cartesianInvalidState"
  | .sphericalRange => "sphericalRange" | .sphericalAzimuth => "sphericalAzimuth"
  | .sphericalElevation => "sphericalElevation" | .sphericalInvalidState => "sphericalInvalidState"
  | .intensity => "intensity" | .isIntensityInvalid => "isIntensityInvalid"
  | .colorRed => "colorRed" | .colorGreen => "colorGreen" | .colorBlue => "colorBlue"
  | .isColorInvalid => "isColorInvalid"
  | .rowIndex => "rowIndex" | .columnIndex => "columnIndex"
  | .returnCount => "returnCount" | .returnIndex => "returnIndex"
  | .timeStamp => "timeStamp" | .isTimeStampInvalid => "isTimeStampInvalid"
  | .unknown _ name => name

def RecordName.namespace? : RecordName → Option String
  | .unknown ns _ => some ns
  | _ => none

/-- `from_namespace_and_tag_name` as the reader applies it -/
def RecordName.ofTag (ns : Option String) (tag : String) : RecordName :=
  match tag with
  | "cartesianX" => .cartesianX | "cartesianY" => .cartesianY | "cartesianZ" => .cartesianZ
  | "cartesianInvalidState" => .cartesianInvalidState
  | "sphericalRange" => .sphericalRange | "sphericalAzimuth" => .sphericalAzimuth
  | "sphericalElevation" => .sphericalElevation | "sphericalInvalidState" => .sphericalInvalidState
  | "intensity" => .intensity | "isIntensityInvalid" => .isIntensityInvalid
  | "colorRed" => .colorRed | "colorGreen" => .colorGreen | "colorBlue" => .colorBlue
  | "isColorInvalid" => .isColorInvalid
  | "rowIndex" => .rowIndex | "columnIndex" => .columnIndex
  | "returnCount" => .returnCount | "returnIndex" => .returnIndex
  | "timeStamp" => .timeStamp | "isTimeStampInvalid" => .isTimeStampInvalid
  | _ => .unknown (ns.getD "") tag

inductive DataType where
  | single (min max : Option UInt32)
  | double (min max : Option UInt64)
  | scaled (min max : Int) (scale offset : UInt64)
  | integer (min max : Int)
  deriving DecidableEq, Repr, BEq

inductive Value where
  | single (b : UInt32)
  | double (b : UInt64)
  | scaled (i : Int)
  | integer (i : Int)
  deriving DecidableEq, Repr, BEq

structure Record where
  name : RecordName
  dt : DataType
  deriving DecidableEq, Repr, BEq

abbrev Prototype := List Record

def DataType.bitSize : DataType → Nat
  | .single _ _ => 32
  | .double _ _ => 64
  | .scaled min max _ _ => integerBits min max
  | .integer min max => integerBits min max

/-- does the value have the kind the data type requires (the check of `add_point`) -/
def DataType.matches : DataType → Value → Bool
  | .single _ _, .single _ => true
  | .double _ _, .double _ => true
  | .scaled _ _ _ _, .scaled _ => true
  | .integer _ _, .integer _ => true
  | _, _ => false

/-- `RecordDataType::write` -/
def DataType.write (dt : DataType) (v : Value) (w : WBuf) : Outcome WBuf :=
  match dt, v with
  | .single _ _, .single b => w.addBytes (toLE b.toNat 4)
  | .double _ _, .double b => w.addBytes (toLE b.toNat 8)
  | .scaled min max _ _, .scaled i => serializeInteger i min max w
  | .integer min max, .integer i => serializeInteger i min max w
  | _, _ => .err "value kind does not match data type"

def DataType.limits : DataType → Option Value × Option Value
  | .single min max => (min.map .single, max.map .single)
  | .double min max => (min.map .double, max.map .double)
  | .scaled min max _ _ => (some (.scaled min), some (.scaled max))
  | .integer min max => (some (.integer min), some (.integer max))

/-! ### floats: arithmetic is native IEEE (`Float`), text is external -/

structure FloatText where
  f64 : List (UInt64 × String)
  f32 : List (UInt32 × String)

def FloatText.show64 (ft : FloatText) (b : UInt64) : String :=
  match ft.f64.lookup b with
  | some s => s
  | none => s!"?f64:{b.toNat}"

def FloatText.show32 (ft : FloatText) (b : UInt32) : String :=
  match ft.f32.lookup b with
  | some s => s
  | none => s!"?f32:{b.toNat}"

def i64ToFloat (i : Int) : Float := (Int64.ofInt i).toFloat

/-- `RecordValue::to_f64` (bit pattern of the result); `none` = internal error -/
def Value.toF64 (v : Value) (dt : DataType) : Option UInt64 :=
  match v with
  | .single b => some (Float32.ofBits b).toFloat.toBits
  | .double b => some b
  | .scaled i =>
    match dt with
    | .scaled _ _ scale offset =>
      some (i64ToFloat i * Float.ofBits scale + Float.ofBits offset).toBits
    | _ => none
  | .integer i => some (i64ToFloat i).toBits

def Value.toI64 (v : Value) (dt : DataType) : Option Int :=
  match v, dt with
  | .integer i, .integer _ _ => some i
  | _, _ => none

/-! ### prototype rules -/

def Prototype.has (p : Prototype) (n : RecordName) : Bool := p.any (fun r => r.name == n)
def Prototype.get (p : Prototype) (n : RecordName) : Option Record := p.find? (fun r => r.name == n)

def isIntegerType : DataType → Bool
  | .integer _ _ => true
  | _ => false

/-- `Extension::validate_xml_name` (= `validate_name` and the first character is a letter or an underscore,
    as XML requires of names) -/
def validName (s : String) : Bool :=
  !s.isEmpty && !(s.toLower.startsWith "xml") &&
    s.toList.all (fun c => c.isAlphanum || c == '_' || c == '-') &&
    (match s.toList with
     | c :: _ => c.isAlpha || c == '_'
     | [] => false)

/-- `Extension::validate_prototype` -/
def validateExtensions (p : Prototype) (exts : List (String × String)) : Bool :=
  p.all (fun r => match r.name with
    | .unknown ns name => validName ns && validName name && exts.any (fun e => e.1 == ns)
    | _ => true)

def boolToNat (b : Bool) : Nat := if b then 1 else 0

def validateCartesian (p : Prototype) : Bool :=
  let c := boolToNat (p.has .cartesianX) + boolToNat (p.has .cartesianY) + boolToNat (p.has .cartesianZ)
  (c == 0 || c == 3) &&
  (match p.get .cartesianInvalidState with
   | some r => p.has .cartesianX && r.dt == .integer 0 2
   | none => true)

def validateSpherical (p : Prototype) : Bool :=
  let c := boolToNat (p.has .sphericalAzimuth) + boolToNat (p.has .sphericalElevation)
            + boolToNat (p.has .sphericalRange)
  (c == 0 || c == 3) &&
  (match p.get .sphericalInvalidState with
   | some r => p.has .sphericalAzimuth && r.dt == .integer 0 2
   | none => true) &&
  (match p.get .sphericalAzimuth with
   | some r => !isIntegerType r.dt
   | none => true) &&
  (match p.get .sphericalElevation with
   | some r => !isIntegerType r.dt
   | none => true)

def validateColor (p : Prototype) : Bool :=
  let c := boolToNat (p.has .colorRed) + boolToNat (p.has .colorGreen) + boolToNat (p.has .colorBlue)
  (c == 0 || c == 3) &&
  (match p.get .isColorInvalid with
   | some r => p.has .colorRed && r.dt == .integer 0 1
   | none => true)

def validateReturn (p : Prototype) : Bool :=
  let okc := match p.get .returnCount with
    | some r => isIntegerType r.dt
    | none => true
  let oki := p.all (fun r => r.name != .returnIndex || isIntegerType r.dt)
  let n := boolToNat (p.get .returnCount).isSome + boolToNat (p.get .returnIndex).isSome
  okc && oki && (n == 0 || n == 2)

/-- `PointCloudWriter::validate_prototype`: the documented prototype rules -/
def validatePrototype (p : Prototype) : Bool :=
  validateCartesian p && validateSpherical p &&
  (p.has .cartesianX || p.has .sphericalAzimuth) &&
  validateColor p && validateReturn p &&
  p.all (fun r => r.name != .rowIndex || isIntegerType r.dt) &&
  p.all (fun r => r.name != .columnIndex || isIntegerType r.dt) &&
  (match p.get .isIntensityInvalid with
   | some r => p.has .intensity && r.dt == .integer 0 1
   | none => true) &&
  (match p.get .isTimeStampInvalid with
   | some r => p.has .timeStamp && r.dt == .integer 0 1
   | none => true) &&
  p.all (fun r => match r.dt with
    | .integer mn mx => decide (mn ≤ mx)
    | .scaled mn mx _ _ => decide (mn ≤ mx)
    | _ => true)

/-- `get_max_packet_points`: points of `pointBits` bits that fit a 64 KiB packet besides headers,
    incomplete bytes and a safety margin; zero-width points need no space at all -/
def maxPacketPoints (p : Prototype) : Nat :=
  let pointBits := (p.map (fun r => r.dt.bitSize)).foldl (· + ·) 0
  let headers := 6 + p.length * 2
  if pointBits = 0 then 65535
  else ((65535 - (headers + p.length + 500)) * 8) / pointBits

/-! ### XML of a prototype entry -/

def serializeRecordType (ft : FloatText) : DataType → String × String
  | .single min max =>
    let s := "type=\"Float\" precision=\"single\""
    let s := match min with
      | some m => s ++ " minimum=\"" ++ ft.show32 m ++ "\""
      | none => s
    let s := match max with
      | some m => s ++ " maximum=\"" ++ ft.show32 m ++ "\""
      | none => s
    (s, ft.show32 (min.getD 0))
  | .double min max =>
    let s := "type=\"Float\""
    let s := match min with
      | some m => s ++ " minimum=\"" ++ ft.show64 m ++ "\""
      | none => s
    let s := match max with
      | some m => s ++ " maximum=\"" ++ ft.show64 m ++ "\""
      | none => s
    (s, ft.show64 (min.getD 0))
  | .scaled min max scale offset =>
    (s!"type=\"ScaledInteger\" minimum=\"{min}\" maximum=\"{max}\" scale=\"{ft.show64 scale}\" offset=\"{ft.show64 offset}\"",
     toString min)
  | .integer min max => (s!"type=\"Integer\" minimum=\"{min}\" maximum=\"{max}\"", toString min)

def Record.xmlString (ft : FloatText) (r : Record) : String :=
  let ns := match r.name.namespace? with
    | some n => n ++ ":"
    | none => ""
  let tag := r.name.tagName
  let (attrs, value) := serializeRecordType ft r.dt
  s!"<{ns}{tag} {attrs}>{value}</{ns}{tag}>\n"

end E57
