/-
A soft-float model of IEEE-754 binary64 (and binary32) arithmetic, round-to-nearest-even, defined
from the standard on bit patterns with `Nat`/`Int`/`Rat` arithmetic only.  DEFINITIONS ONLY; the
facts about them are proved in `E57/Proofs/SoftFloat.lean`.  Core Lean only.

A format `Fmt` is given by `t` (fraction bits), `emin` (the smallest subnormal is `2^-emin`) and
`emax` (the exponent field of ∞/NaN).  A bit pattern is a `Nat`; its magnitude is
`b % signW` (`signW` = weight of the sign bit) and it is negative iff the sign bit is set.  Every
finite number of the format is `N / 2^emin` for the natural number `N = intMag`.

Rounding of a positive rational `n/d`: `e = ⌊log2 (n/d)⌋`, quantum exponent
`qe = max (e − t) (−emin)` (gradual underflow), mantissa `m = rne (n/d / 2^qe)` (ties to even,
`0 ≤ m ≤ 2^(t+1)`), magnitude bits `(qe + emin)·2^t + m` (a carry out of the mantissa propagates
into the exponent field by itself), ∞ if that reaches the exponent field `emax`.

`SF64` wraps a `UInt64`; `FloatOps SF64` is the instance the generic normalisation code of
`E57/Model/Simple.lean` runs on.  `check*` compare each operation with the hardware (`Float`,
`Float32`) for a differential test.
-/
import E57.Model.Simple
import E57.Model.Tools
namespace E57
namespace SF

/-- an IEEE-754 binary interchange format -/
structure Fmt where
  /-- number of fraction bits (52 / 23) -/
  t : Nat
  /-- the smallest positive (subnormal) number is `2^-emin` (1074 / 149) -/
  emin : Nat
  /-- exponent field of ∞ and NaN (2047 / 255) -/
  emax : Nat
  deriving Repr, DecidableEq

def b64 : Fmt := ⟨52, 1074, 2047⟩
def b32 : Fmt := ⟨23, 149, 255⟩

/-- weight of the sign bit -/
def signW (F : Fmt) : Nat := (F.emax + 1) * 2 ^ F.t
/-- magnitude bits of +∞ -/
def infMag (F : Fmt) : Nat := F.emax * 2 ^ F.t
/-- the canonical quiet NaN (0x7ff8000000000000 / 0x7fc00000) -/
def qNaN (F : Fmt) : Nat := infMag F + 2 ^ (F.t - 1)

def isNeg (F : Fmt) (b : Nat) : Bool := b / signW F % 2 == 1
def mag (F : Fmt) (b : Nat) : Nat := b % signW F
def isNaN (F : Fmt) (b : Nat) : Bool := decide (infMag F < mag F b)
def isInf (F : Fmt) (b : Nat) : Bool := mag F b == infMag F
def isFin (F : Fmt) (b : Nat) : Bool := decide (mag F b < infMag F)
/-- bits of the sign -/
def sgn (F : Fmt) (s : Bool) : Nat := if s then signW F else 0

/-- a finite magnitude `b` denotes `intMag b / 2^emin` -/
def intMag (F : Fmt) (b : Nat) : Nat :=
  let E := b / 2 ^ F.t
  let f := b % 2 ^ F.t
  if E = 0 then f else (2 ^ F.t + f) * 2 ^ (E - 1)

/-- value of a finite magnitude -/
def decodeMag (F : Fmt) (b : Nat) : Rat := mkRat (intMag F b) (2 ^ F.emin)

/-- value of a bit pattern taken as finite (sign applied; −0 ↦ 0) -/
def decodeS (F : Fmt) (b : Nat) : Rat :=
  if isNeg F b then - decodeMag F (mag F b) else decodeMag F (mag F b)

/-- real-number semantics: `none` for NaN and ±∞ -/
def decode (F : Fmt) (b : Nat) : Option Rat :=
  if mag F b < infMag F then some (decodeS F b) else none

/-- `2^e` -/
def pow2 (e : Int) : Rat := if 0 ≤ e then ((2 ^ e.toNat : Nat) : Rat) else mkRat 1 (2 ^ (-e).toNat)

/-- `⌊log2 (n/d)⌋` for `n, d > 0` -/
def ilog2Q (n d : Nat) : Int :=
  let e0 : Int := (Nat.log2 n : Int) - (Nat.log2 d : Int)
  if 0 ≤ e0 then (if d * 2 ^ e0.toNat ≤ n then e0 else e0 - 1)
  else (if d ≤ n * 2 ^ (-e0).toNat then e0 else e0 - 1)

/-- `n/d` rounded to the nearest natural number, ties to even -/
def rneDiv (n d : Nat) : Nat :=
  let k := n / d
  let r := n % d
  if 2 * r < d then k else if d < 2 * r then k + 1 else k + k % 2

/-- quantum exponent for a number in the binade `e` -/
def qexp (F : Fmt) (e : Int) : Int := max (e - F.t) (-(F.emin : Int))

/-- `n/d` (`n, d > 0`) rounded to the format, exponent unbounded above: `(m, qe)` denotes `m·2^qe` -/
def roundME (F : Fmt) (n d : Nat) : Nat × Int :=
  let qe := qexp F (ilog2Q n d)
  let m := if 0 ≤ qe then rneDiv n (d * 2 ^ qe.toNat) else rneDiv (n * 2 ^ (-qe).toNat) d
  (m, qe)

/-- magnitude bits of `m·2^qe` (before the overflow test) -/
def encodeME (F : Fmt) (m : Nat) (qe : Int) : Nat := (qe + F.emin).toNat * 2 ^ F.t + m

/-- magnitude bits of `n/d` rounded to the format; ∞ on overflow -/
def roundMag (F : Fmt) (n d : Nat) : Nat :=
  let me := roundME F n d
  min (encodeME F me.1 me.2) (infMag F)

/-- the rounding function of the format on rationals, exponent unbounded above -/
def rndQ (F : Fmt) (q : Rat) : Rat :=
  if q.num = 0 then 0
  else
    let me := roundME F q.num.natAbs q.den
    if q.num < 0 then - ((me.1 : Rat) * pow2 me.2) else (me.1 : Rat) * pow2 me.2

/-- a rational rounded to a bit pattern of the format; `neg0` = sign of the result when `q = 0` -/
def roundRat (F : Fmt) (neg0 : Bool) (q : Rat) : Nat :=
  if q.num = 0 then sgn F neg0
  else sgn F (decide (q.num < 0)) + roundMag F q.num.natAbs q.den

/-! ### the operations, on bit patterns -/

def mulB (F : Fmt) (a b : Nat) : Nat :=
  if isNaN F a || isNaN F b then qNaN F
  else
    let s := isNeg F a != isNeg F b
    if isInf F a then (if mag F b = 0 then qNaN F else sgn F s + infMag F)
    else if isInf F b then (if mag F a = 0 then qNaN F else sgn F s + infMag F)
    else roundRat F s (decodeS F a * decodeS F b)

def subB (F : Fmt) (a b : Nat) : Nat :=
  if isNaN F a || isNaN F b then qNaN F
  else if isInf F a then
    (if isInf F b && (isNeg F a == isNeg F b) then qNaN F else sgn F (isNeg F a) + infMag F)
  else if isInf F b then sgn F (!(isNeg F b)) + infMag F
  else
    -- an exact zero difference is +0, except (−0) − (+0) = −0
    let neg0 := mag F a == 0 && mag F b == 0 && isNeg F a && !(isNeg F b)
    roundRat F neg0 (decodeS F a - decodeS F b)

def divB (F : Fmt) (a b : Nat) : Nat :=
  if isNaN F a || isNaN F b then qNaN F
  else
    let s := isNeg F a != isNeg F b
    if isInf F a then (if isInf F b then qNaN F else sgn F s + infMag F)
    else if isInf F b then sgn F s
    else if mag F b = 0 then (if mag F a = 0 then qNaN F else sgn F s + infMag F)
    else roundRat F s (decodeS F a / decodeS F b)

/-- IEEE `<` -/
def ltB (F : Fmt) (a b : Nat) : Bool :=
  if isNaN F a || isNaN F b then false
  else if isInf F a then isNeg F a && !(isInf F b && isNeg F b)
  else if isInf F b then !(isNeg F b)
  else decide (decodeS F a < decodeS F b)

/-- conversion between formats (`as f32`) -/
def castB (F G : Fmt) (a : Nat) : Nat :=
  if isNaN F a then qNaN G
  else if isInf F a then sgn G (isNeg F a) + infMag G
  else roundRat G (isNeg F a) (decodeS F a)

/-- an integer to the format (`as f64`) -/
def ofIntB (F : Fmt) (i : Int) : Nat := roundRat F false (i : Rat)

/-- `as u8`: truncation toward zero, saturating, NaN ↦ 0 -/
def toU8B (F : Fmt) (a : Nat) : Nat :=
  if isNaN F a then 0
  else if isNeg F a then 0
  else if isInf F a then 255
  else
    let q := decodeMag F (mag F a)
    min (q.num.toNat / q.den) 255

/-! ### binary64 / binary32 carriers -/

/-- a binary64 number, as its bit pattern -/
structure SF64 where
  bits : UInt64
  deriving DecidableEq, Repr

def mul (a b : UInt64) : UInt64 := UInt64.ofNat (mulB b64 a.toNat b.toNat)
def sub (a b : UInt64) : UInt64 := UInt64.ofNat (subB b64 a.toNat b.toNat)
def div (a b : UInt64) : UInt64 := UInt64.ofNat (divB b64 a.toNat b.toNat)
def lt (a b : UInt64) : Bool := ltB b64 a.toNat b.toNat
def isFinite (a : UInt64) : Bool := isFin b64 a.toNat
def toF32Bits (a : UInt64) : UInt32 := UInt32.ofNat (castB b64 b32 a.toNat)
def ofInt (i : Int) : UInt64 := UInt64.ofNat (ofIntB b64 i)
def zeroBits : UInt64 := 0
def halfBits : UInt64 := 0x3FE0000000000000
def oneBits : UInt64 := 0x3FF0000000000000

def mul32 (a b : UInt32) : UInt32 := UInt32.ofNat (mulB b32 a.toNat b.toNat)
def f32ToU8 (a : UInt32) : Nat := toU8B b32 a.toNat
/-- `255.0f32` -/
def f32_255 : UInt32 := 0x437F0000

end SF

open SF in
instance : FloatOps SF.SF64 where
  zero := ⟨zeroBits⟩
  half := ⟨halfBits⟩
  one := ⟨oneBits⟩
  mul := fun a b => ⟨SF.mul a.bits b.bits⟩
  sub := fun a b => ⟨SF.sub a.bits b.bits⟩
  div := fun a b => ⟨SF.div a.bits b.bits⟩
  lt := fun a b => SF.lt a.bits b.bits
  isFinite := fun a => SF.isFinite a.bits
  toF32Bits := fun a => SF.toF32Bits a.bits

namespace SF

/-! ### the colour table of the tools (C20), on the soft-float carrier -/

/-- `(c * 255.) as u8` on the soft f32 (`colourToU8` of `E57/Model/Tools.lean`) -/
def colourToU8S (c : UInt32) : Nat := f32ToU8 (mul32 c f32_255)

/-- an 8-bit colour stored as Integer with limits 0..255, normalised by the simple iterator and
    converted back by e57-to-xyz -/
def colourRoundTrip (c : Nat) : Nat :=
  colourToU8S ((RangeG.fromMinMax (⟨ofInt 0⟩ : SF64) ⟨ofInt 255⟩).normalize ⟨ofInt c⟩)

/-! ### cross-checks against the hardware -/

def canon64 (b : UInt64) : UInt64 :=
  if (b &&& 0x7FFFFFFFFFFFFFFF) > 0x7FF0000000000000 then 0x7FF8000000000000 else b

def canon32 (b : UInt32) : UInt32 :=
  if (b &&& 0x7FFFFFFF) > 0x7F800000 then 0x7FC00000 else b

def checkMul (a b : UInt64) : Bool := mul a b == canon64 ((Float.ofBits a * Float.ofBits b).toBits)
def checkSub (a b : UInt64) : Bool := sub a b == canon64 ((Float.ofBits a - Float.ofBits b).toBits)
def checkDiv (a b : UInt64) : Bool := div a b == canon64 ((Float.ofBits a / Float.ofBits b).toBits)
def checkLt (a b : UInt64) : Bool := lt a b == decide (Float.ofBits a < Float.ofBits b)
def checkIsFinite (a : UInt64) : Bool := isFinite a == (Float.ofBits a).isFinite
def checkToF32Bits (a : UInt64) : Bool :=
  toF32Bits a == canon32 ((Float.ofBits a).toFloat32.toBits)
def checkOfInt (i : Int) : Bool := ofInt i == (i64ToFloat i).toBits
def checkMul32 (a b : UInt32) : Bool :=
  mul32 a b == canon32 ((Float32.ofBits a * Float32.ofBits b).toBits)
def checkF32ToU8 (a : UInt32) : Bool := f32ToU8 a == (Float32.ofBits a).toUInt8.toNat
def checkColour (c : UInt32) : Bool := colourToU8S c == colourToU8 c
/-- the decoded value agrees with the hardware number: `x = num/den` exactly (tested through
    a soft multiplication-free route: re-rounding the decoded value gives the pattern back) -/
def checkDecode (a : UInt64) : Bool :=
  match decode b64 a.toNat with
  | some q => UInt64.ofNat (roundRat b64 (isNeg b64 a.toNat) q) == a
  | none => !(Float.ofBits a).isFinite

end SF
end E57
