/-
Bit buffers (src/bs_write.rs, src/bs_read.rs), integer width (src/record.rs integer_bits),
integer (de)serialisation (record.rs serialize_integer, bitpack.rs unpack_*).  Core Lean only.
-/
import E57.Model.Basic
namespace E57

/-! ## write buffer -/

structure WBuf where
  buffer : Bytes
  lastBit : Nat
  deriving Repr, BEq, DecidableEq

def WBuf.new : WBuf := ⟨[], 0⟩

/-- the per-bit loop of `add_bits` (branch `last_byte_bit != 0`), iteration `b`, `n` iterations left -/
def addBitsLoop (data : Bytes) (startByte startBit : Nat) :
    (n b : Nat) → (buf : Bytes) → (lastBit : Nat) → Outcome WBuf
  | 0, _, buf, lastBit => .ok ⟨buf, lastBit⟩
  | n + 1, b, buf, lastBit =>
    match data[b / 8]? with
    | none => .panic "bs_write: data[source_byte]"
    | some src =>
      let bit := src.toNat.testBit (b % 8)
      let tgt := startByte + (startBit + b) / 8
      let buf1 := if tgt ≥ buf.length then buf ++ [0] else buf
      match buf1[tgt]? with
      | none => .panic "bs_write: buffer[target_byte]"
      | some old =>
        let mask : UInt8 := if bit then UInt8.ofNat (2 ^ lastBit) else 0
        addBitsLoop data startByte startBit n (b + 1) (buf1.set tgt (old ||| mask)) ((lastBit + 1) % 8)

/-- `add_bits`, literal transcription: the per-bit loop runs over the whole buffer -/
def WBuf.addBitsLit (w : WBuf) (data : Bytes) (bits : Nat) : Outcome WBuf :=
  if w.lastBit = 0 then
    let toAppend := (bits + 7) / 8
    if toAppend > data.length then .panic "bs_write: data[..to_append]"
    else .ok ⟨w.buffer ++ data.take toAppend, bits % 8⟩
  else
    if w.buffer.length = 0 then .panic "bs_write: buffer.len() - 1"
    else addBitsLoop data (w.buffer.length - 1) w.lastBit bits 0 w.buffer w.lastBit

def Outcome.mapBuf (init : Bytes) : Outcome WBuf → Outcome WBuf
  | .ok r => .ok ⟨init ++ r.buffer, r.lastBit⟩
  | .err e => .err e
  | .panic s => .panic s

/-- `add_bits` as executed by the model: the loop only ever touches the bytes from `start_byte`
    on, so it is run on that suffix (equal to `addBitsLit` by `WBuf.addBits_eq_lit`) -/
def WBuf.addBits (w : WBuf) (data : Bytes) (bits : Nat) : Outcome WBuf :=
  if w.lastBit = 0 then
    let toAppend := (bits + 7) / 8
    if toAppend > data.length then .panic "bs_write: data[..to_append]"
    else .ok ⟨w.buffer ++ data.take toAppend, bits % 8⟩
  else
    if w.buffer.length = 0 then .panic "bs_write: buffer.len() - 1"
    else
      let start := w.buffer.length - 1
      Outcome.mapBuf (w.buffer.take start)
        (addBitsLoop data 0 w.lastBit bits 0 (w.buffer.drop start) w.lastBit)

def WBuf.addBytes (w : WBuf) (data : Bytes) : Outcome WBuf :=
  if w.lastBit = 0 then .ok ⟨w.buffer ++ data, 0⟩
  else w.addBits data (data.length * 8)

def WBuf.fullBytes (w : WBuf) : Nat :=
  if w.lastBit ≠ 0 then w.buffer.length - 1 else w.buffer.length

def WBuf.allBytes (w : WBuf) : Nat := w.buffer.length

/-- `get_full_bytes`: drained bytes and the remaining buffer -/
def WBuf.getFullBytes (w : WBuf) : Bytes × WBuf :=
  let n := w.fullBytes
  (w.buffer.take n, ⟨w.buffer.drop n, w.lastBit⟩)

def WBuf.getAllBytes (w : WBuf) : Bytes × WBuf := (w.buffer, ⟨[], 0⟩)

/-! ## read buffer -/

structure RBuf where
  buffer : Bytes
  offset : Nat
  deriving Repr, BEq, DecidableEq

def RBuf.new : RBuf := ⟨[], 0⟩

def RBuf.append (r : RBuf) (data : Bytes) : Outcome RBuf :=
  let consumed := r.offset / 8
  if consumed > r.buffer.length then .panic "bs_read: buffer.len() - consumed_bytes"
  else .ok ⟨r.buffer.drop consumed ++ data, r.offset - consumed * 8⟩

def RBuf.available (r : RBuf) : Outcome Nat :=
  if r.offset > r.buffer.length * 8 then .panic "bs_read: len*8 - offset"
  else .ok (r.buffer.length * 8 - r.offset)

/-- `extract`: `none` when fewer than `bits` bits are available; the value is NOT masked to
    `bits` bits (callers mask), only truncated to 64 bits (`as u64`). -/
def RBuf.extract (r : RBuf) (bits : Nat) : Outcome (Option Nat × RBuf) :=
  match r.available with
  | .panic s => .panic s
  | .err e => .err e
  | .ok av =>
    if av < bits then .ok (none, r)
    else
      let startOff := r.offset / 8
      let endOff := (r.offset + bits + 7) / 8
      let off := r.offset % 8
      let dataLen := endOff - startOff
      if dataLen > 16 then .panic "bs_read: data[..data_len]"
      else if endOff > r.buffer.length then .panic "bs_read: buffer[start..end]"
      else
        let window := (r.buffer.drop startOff).take dataLen
        let v := (leVal window >>> off) % 2 ^ 64
        .ok (some v, ⟨r.buffer, r.offset + bits⟩)

/-! ## integer width and codecs -/

/-- `integer_bits(min, max)` of record.rs: computed in i128, `ilog2 + 1` for a positive range, else 0 -/
def integerBits (min max : Int) : Nat :=
  let range := max - min
  if range > 0 then range.toNat.log2 + 1 else 0

/-- `serialize_integer`: `(value as i128 - min as i128) as u64` little-endian, `bits` bits appended. -/
def serializeInteger (value min max : Int) (w : WBuf) : Outcome WBuf :=
  w.addBits (toLE (i64ToU64 (value - min)) 8) (integerBits min max)

/-- `BitPack::unpack_ints` / `unpack_scaled_ints` : repeatedly extract `bits` bits, mask, add `min`.
    `fuel` bounds the loop (each iteration consumes `bits ≥ 1` bits). -/
def unpackIntsLoop (bits : Nat) (min : Int) : (fuel : Nat) → RBuf → List Int → Outcome (List Int × RBuf)
  | 0, r, acc => .ok (acc.reverse, r)
  | fuel + 1, r, acc =>
    match r.extract bits with
    | .panic s => .panic s
    | .err e => .err e
    | .ok (none, r') => .ok (acc.reverse, r')
    | .ok (some u, r') =>
      let int := ((u % 2 ^ bits : Nat) : Int) + min
      unpackIntsLoop bits min fuel r' (u64ToI64 (i64ToU64 int) :: acc)

def unpackInts (r : RBuf) (min max : Int) : Outcome (List Int × RBuf) :=
  let range := max - min
  if range ≤ 0 then .panic "bitpack: ilog2 of non-positive range"
  else
    let bits := range.toNat.log2 + 1
    unpackIntsLoop bits min (r.buffer.length * 8 + 1) r []

/-- `unpack_doubles` / `unpack_singles`: raw bit patterns -/
def unpackFixedLoop (bits : Nat) : (fuel : Nat) → RBuf → List Nat → Outcome (List Nat × RBuf)
  | 0, r, acc => .ok (acc.reverse, r)
  | fuel + 1, r, acc =>
    match r.extract bits with
    | .panic s => .panic s
    | .err e => .err e
    | .ok (none, r') => .ok (acc.reverse, r')
    | .ok (some u, r') => unpackFixedLoop bits fuel r' ((u % 2 ^ bits) :: acc)

def unpackFixed (bits : Nat) (r : RBuf) : Outcome (List Nat × RBuf) :=
  unpackFixedLoop bits (r.buffer.length * 8 + 1) r []

end E57
