/-
Basic vocabulary of the model: byte strings, outcomes (panic is a value), little-endian codecs, hex.
Core Lean only (this file is linked into the compiled driver).
-/
namespace E57

abbrev Bytes := List UInt8

/-- Result of a modelled Rust operation.  `panic` stands for every way the Rust code can
    unwind or abort (slice index, arithmetic overflow in checked builds, division by zero …).
    It is a value so that "never panics" is a theorem and not an artefact of totalisation. -/
inductive Outcome (α : Type) where
  | ok (a : α)
  | err (e : String)
  | panic (site : String)
  deriving Repr, BEq, DecidableEq

namespace Outcome

@[inline] def bind {α β} : Outcome α → (α → Outcome β) → Outcome β
  | ok a, f => f a
  | err e, _ => err e
  | panic s, _ => panic s

instance : Monad Outcome where
  pure := Outcome.ok
  bind := Outcome.bind

def isOk {α} : Outcome α → Bool
  | ok _ => true
  | _ => false

def isErr {α} : Outcome α → Bool
  | err _ => true
  | _ => false

def isPanic {α} : Outcome α → Bool
  | panic _ => true
  | _ => false

def toOption {α} : Outcome α → Option α
  | ok a => some a
  | _ => none

@[simp] theorem bind_ok {α β} (a : α) (f : α → Outcome β) : (Outcome.ok a >>= f) = f a := rfl
@[simp] theorem bind_err {α β} (e : String) (f : α → Outcome β) :
    (Outcome.err e >>= f) = Outcome.err e := rfl
@[simp] theorem bind_panic {α β} (e : String) (f : α → Outcome β) :
    (Outcome.panic e >>= f) = Outcome.panic e := rfl
@[simp] theorem pure_eq {α} (a : α) : (pure a : Outcome α) = Outcome.ok a := rfl

end Outcome

/-- little-endian value of a byte string -/
def leVal : Bytes → Nat
  | [] => 0
  | b :: bs => b.toNat + 256 * leVal bs

/-- `k` little-endian bytes of `n` (truncating) -/
def toLE (n : Nat) : Nat → Bytes
  | 0 => []
  | k + 1 => UInt8.ofNat (n % 256) :: toLE (n / 256) k

/-- big-endian 4 bytes (used for the page checksum) -/
def toBE32 (n : Nat) : Bytes := (toLE n 4).reverse

def zeros (n : Nat) : Bytes := List.replicate n 0

/-- two's-complement encoding of an `i64` value as a `u64` (Rust `as u64`) -/
def i64ToU64 (i : Int) : Nat := (i % 18446744073709551616).toNat

/-- Rust `as i64` of a `u64` -/
def u64ToI64 (n : Nat) : Int :=
  if n % 18446744073709551616 < 9223372036854775808 then (n % 18446744073709551616 : Nat)
  else (n % 18446744073709551616 : Nat) - 18446744073709551616

def i64Min : Int := -9223372036854775808
def i64Max : Int := 9223372036854775807
def u64Max : Nat := 18446744073709551615

def inI64 (i : Int) : Bool := decide (i64Min ≤ i) && decide (i ≤ i64Max)

/-! ### hex (driver I/O only) -/

def hexDigit (n : Nat) : Char :=
  if n < 10 then Char.ofNat (48 + n) else Char.ofNat (87 + n)

def hexOfBytes (b : Bytes) : String :=
  String.ofList (b.foldl (fun acc x => hexDigit (x.toNat % 16) :: hexDigit (x.toNat / 16) :: acc) []).reverse

def hexVal (c : Char) : Option Nat :=
  let n := c.toNat
  if 48 ≤ n && n ≤ 57 then some (n - 48)
  else if 97 ≤ n && n ≤ 102 then some (n - 87)
  else if 65 ≤ n && n ≤ 70 then some (n - 55)
  else none

def bytesOfHexChars (acc : Bytes) : List Char → Option Bytes
  | [] => some acc.reverse
  | [_] => none
  | a :: b :: rest =>
    match hexVal a, hexVal b with
    | some x, some y => bytesOfHexChars (UInt8.ofNat (16 * x + y) :: acc) rest
    | _, _ => none

/-- `-` denotes the empty string so that every field is a non-empty token -/
def bytesOfHex (s : String) : Option Bytes :=
  if s == "-" then some [] else bytesOfHexChars [] s.toList

def hexTok (b : Bytes) : String := if b.isEmpty then "-" else hexOfBytes b

def utf8 (s : String) : Bytes := s.toUTF8.toList

end E57
