/-
The writer: src/blob.rs (write), src/header.rs, src/cv_section.rs, src/packet.rs (write),
src/pc_writer.rs, src/image_writer.rs, src/e57_writer.rs — as functions over the page-writer model.
Core Lean only.
-/
import E57.Model.Pages
import E57.Model.Meta
namespace E57

/-! ### binary headers -/

structure CvHeader where
  sectionLength : Nat
  dataOffset : Nat
  indexOffset : Nat
  deriving Repr, BEq, DecidableEq

def CvHeader.bytes (h : CvHeader) : Bytes :=
  [1] ++ zeros 7 ++ toLE h.sectionLength 8 ++ toLE h.dataOffset 8 ++ toLE h.indexOffset 8

def blobHeaderBytes (len : Nat) : Bytes := zeros 8 ++ toLE len 8

/-- `DataPacketHeader::write` (6 bytes): id 1, flags, length-1 as u16, stream count as u16 -/
def dataPacketHeaderBytes (restart : Bool) (packetLength : Nat) (count : Nat) : Outcome Bytes :=
  if packetLength = 0 then .panic "packet: packet_length - 1 underflows"
  else .ok ([1, if restart then 1 else 0] ++ toLE (packetLength - 1) 2 ++ toLE count 2)

def fileHeaderBytes (physLength xmlOffset xmlLength : Nat) : Bytes :=
  utf8 "ASTM-E57" ++ toLE 1 4 ++ toLE 0 4 ++ toLE physLength 8 ++ toLE xmlOffset 8
    ++ toLE xmlLength 8 ++ toLE 1024 8

/-! ### blobs -/

/-- `std::io::copy` from an in-memory reader: `write_all` of 8 KiB pieces (the result on the ideal
    device does not depend on the piece size; modelled as one `write_all`) -/
def blobWrite (pw : PW) (data : Bytes) : Outcome (PW × BlobRef) := do
  let start := pw.physicalPosition
  let pw ← pw.writeAll (blobHeaderBytes 0)
  let pw ← pw.writeAll data
  let endOff := pw.physicalPosition
  let (pw, ok) := pw.physicalSeek start
  if !ok then .err "seek to blob header failed" else
  let pw ← pw.writeAll (blobHeaderBytes ((16 + data.length + 3) / 4 * 4))
  let (pw, ok) := pw.physicalSeek endOff
  if !ok then .err "seek behind blob failed" else
  let pw ← pw.align
  pure (pw, ⟨start, data.length⟩)

/-! ### point cloud writer -/

structure PcW where
  guid : String
  sectionOffset : Nat
  header : CvHeader
  prototype : Prototype
  pointCount : Nat
  buffer : List (List Value)
  maxPoints : Nat
  streams : List WBuf
  pc : PointCloud          -- bounds, limits and the settable metadata
  deriving Repr

def fltLt (a b : UInt64) : Bool := Float.ofBits a < Float.ofBits b

/-- `update_min` for any strict order `lt`: replace when `current > value` -/
def updMinG {α : Type} (lt : α → α → Bool) (v : α) : Option α → Option α
  | some c => if lt v c then some v else some c
  | none => some v

/-- `update_max`: replace when `current < value` -/
def updMaxG {α : Type} (lt : α → α → Bool) (v : α) : Option α → Option α
  | some c => if lt c v then some v else some c
  | none => some v

/-- `value.partial_cmp(&value).is_none()`: the value is NaN -/
def fltIsNaN (a : UInt64) : Bool := (Float.ofBits a).isNaN

/-- on `f64` (IEEE comparison of the bit patterns; comparisons with NaN are false).  A NaN is not a bound of
    anything: `update_min`/`update_max` return at once for a value that cannot be compared with itself -/
def updMinF (v : UInt64) (cur : Option UInt64) : Option UInt64 := if fltIsNaN v then cur else updMinG fltLt v cur
def updMaxF (v : UInt64) (cur : Option UInt64) : Option UInt64 := if fltIsNaN v then cur else updMaxG fltLt v cur

/-- on `i64` -/
def updMinI (v : Int) (cur : Option Int) : Option Int := updMinG (fun a b => decide (a < b)) v cur
def updMaxI (v : Int) (cur : Option Int) : Option Int := updMaxG (fun a b => decide (a < b)) v cur

def PcW.new (pw : PW) (exts : List (String × String)) (guid : String) (proto : Prototype) :
    Outcome (PW × PcW) := do
  if !validateExtensions proto exts then .err "extension namespace or name not accepted" else
  if !validatePrototype proto then .err "prototype violates the documented rules" else
  let maxPoints := maxPacketPoints proto
  if maxPoints = 0 then .err "Prototype is too big, a single point does not fit into a data packet" else
  let sectionOffset := pw.physicalPosition
  let hdr0 : CvHeader := ⟨32, 0, 0⟩
  let pw ← pw.writeAll hdr0.bytes
  let hdr : CvHeader := { hdr0 with dataOffset := pw.physicalPosition }
  let cart := if proto.has .cartesianX then some ({} : CartesianBounds) else none
  let sph := if proto.has .sphericalAzimuth then some ({} : SphericalBounds) else none
  let idx := if proto.has .returnIndex || proto.has .columnIndex || proto.has .rowIndex
    then some ({} : IndexBounds) else none
  let colorLimits ←
    if proto.has .colorRed then
      match proto.get .colorRed, proto.get .colorGreen, proto.get .colorBlue with
      | some r, some g, some b =>
        let (rmin, rmax) := r.dt.limits
        let (gmin, gmax) := g.dt.limits
        let (bmin, bmax) := b.dt.limits
        (.ok (some (⟨rmin, rmax, gmin, gmax, bmin, bmax⟩ : ColorLimits)) : Outcome (Option ColorLimits))
      | _, _, _ => .err "Unable to find colour record"
    else .ok none
  let intensityLimits := (proto.get .intensity).map (fun r =>
    let (mn, mx) := r.dt.limits
    (⟨mn, mx⟩ : IntensityLimits))
  pure (pw, {
    guid := guid, sectionOffset := sectionOffset, header := hdr, prototype := proto,
    pointCount := 0, buffer := [], maxPoints := maxPoints,
    streams := List.replicate proto.length WBuf.new,
    pc := { cartesianBounds := cart, sphericalBounds := sph, indexBounds := idx,
            colorLimits := colorLimits, intensityLimits := intensityLimits } })

/-- serialise one point into the byte streams -/
def writePointStreams : List Record → List Value → List WBuf → Outcome (List WBuf)
  | [], _, _ => .ok []
  | _ :: _, [], _ => .err "Prototype is bigger than number of provided values"
  | _ :: _, _ :: _, [] => .panic "pc_writer: byte_streams[i]"
  | r :: rs, v :: vs, s :: ss => do
    let s' ← r.dt.write v s
    let rest ← writePointStreams rs vs ss
    pure (s' :: rest)

def writePoints : Nat → List (List Value) → List Record → List WBuf →
    Outcome (List (List Value) × List WBuf)
  | 0, buf, _, ss => .ok (buf, ss)
  | _ + 1, [], _, _ => .err "Failed to get next point for writing"
  | n + 1, p :: buf, proto, ss => do
    let ss' ← writePointStreams proto p ss
    writePoints n buf proto ss'

/-- `write_buffer_to_disk` -/
def PcW.writeBufferToDisk (w : PcW) (pw : PW) (lastFlush : Bool) : Outcome (PW × PcW) := do
  let packetPoints := min w.maxPoints w.buffer.length
  let (buffer, streams) ← writePoints packetPoints w.buffer w.prototype w.streams
  let sizes := streams.map (fun s => if lastFlush then s.allBytes else s.fullBytes)
  let sum := sizes.foldl (· + ·) 0
  let w := { w with buffer := buffer, streams := streams }
  if sum > 0 then
    let pl0 := 6 + w.prototype.length * 2 + sum
    let packetLength := if pl0 % 4 ≠ 0 then pl0 + (4 - pl0 % 4) else pl0
    if packetLength > 65535 then .err "Invalid data packet length detected" else
    let hdr ← dataPacketHeaderBytes false packetLength (w.prototype.length % 65536)
    let pw ← pw.writeAll hdr
    let pw ← pw.writeAll (sizes.map (fun s => toLE (s % 65536) 2)).flatten
    let drained := streams.map (fun s => if lastFlush then s.getAllBytes else s.getFullBytes)
    let pw ← pw.writeAll (drained.map (·.1)).flatten
    let pw ← pw.align
    pure (pw, { w with header := { w.header with sectionLength := w.header.sectionLength + packetLength },
                       streams := drained.map (·.2) })
  else
    let pw ← pw.align
    pure (pw, w)

/-- the bound updates of `add_point` for one (record, value) -/
def updateBounds (pc : PointCloud) (r : Record) (v : Value) : Outcome PointCloud :=
  let n := r.name
  if n == .cartesianX || n == .cartesianY || n == .cartesianZ then
    match v.toF64 r.dt, pc.cartesianBounds with
    | none, _ => .err "to_f64 failed"
    | _, none => .err "Cannot find cartesian bounds"
    | some f, some b =>
      let b := if n == .cartesianX then { b with xMin := updMinF f b.xMin, xMax := updMaxF f b.xMax } else b
      let b := if n == .cartesianY then { b with yMin := updMinF f b.yMin, yMax := updMaxF f b.yMax } else b
      let b := if n == .cartesianZ then { b with zMin := updMinF f b.zMin, zMax := updMaxF f b.zMax } else b
      .ok { pc with cartesianBounds := some b }
  else if n == .sphericalAzimuth || n == .sphericalElevation || n == .sphericalRange then
    match v.toF64 r.dt, pc.sphericalBounds with
    | none, _ => .err "to_f64 failed"
    | _, none => .err "Cannot find spherical bounds"
    | some f, some b =>
      let b := if n == .sphericalAzimuth then { b with azimuthStart := updMinF f b.azimuthStart, azimuthEnd := updMaxF f b.azimuthEnd } else b
      let b := if n == .sphericalElevation then { b with elevationMin := updMinF f b.elevationMin, elevationMax := updMaxF f b.elevationMax } else b
      let b := if n == .sphericalRange then { b with rangeMin := updMinF f b.rangeMin, rangeMax := updMaxF f b.rangeMax } else b
      .ok { pc with sphericalBounds := some b }
  else if n == .rowIndex || n == .columnIndex || n == .returnIndex then
    match v.toI64 r.dt, pc.indexBounds with
    | none, _ => .err "to_i64 failed"
    | _, none => .err "Cannot find index bounds"
    | some i, some b =>
      let b := if n == .rowIndex then { b with rowMin := updMinI i b.rowMin, rowMax := updMaxI i b.rowMax } else b
      let b := if n == .columnIndex then { b with columnMin := updMinI i b.columnMin, columnMax := updMaxI i b.columnMax } else b
      let b := if n == .returnIndex then { b with returnMin := updMinI i b.returnMin, returnMax := updMaxI i b.returnMax } else b
      .ok { pc with indexBounds := some b }
  else .ok pc

/-- is the value storable in the record (kind and, for integers, declared range) -/
def DataType.accepts (dt : DataType) (v : Value) : Bool :=
  dt.matches v &&
  (match dt, v with
   | .integer min max, .integer i => decide (min ≤ i) && decide (i ≤ max)
   | .scaled min max _ _, .scaled i => decide (min ≤ i) && decide (i ≤ max)
   | _, _ => true)

def checkValues : List Record → List Value → Bool
  | [], _ => true
  | _ :: _, [] => true
  | r :: rs, v :: vs => r.dt.accepts v && checkValues rs vs

def updateAllBounds : List Record → List Value → PointCloud → Outcome PointCloud
  | [], _, pc => .ok pc
  | _ :: _, [], pc => .ok pc
  | r :: rs, v :: vs, pc => do
    let pc ← updateBounds pc r v
    updateAllBounds rs vs pc

/-- `add_point`.  A rejected point leaves the writer unchanged (`err` carries no state). -/
def PcW.addPoint (w : PcW) (pw : PW) (values : List Value) : Outcome (PW × PcW) := do
  if values.length ≠ w.prototype.length then .err "Number of values does not match prototype length" else
  if !checkValues w.prototype values then .err "value does not fit the prototype" else
  let pc ← updateAllBounds w.prototype values w.pc
  let w := { w with pc := pc, buffer := w.buffer ++ [values], pointCount := w.pointCount + 1 }
  if w.buffer.length ≥ w.maxPoints then w.writeBufferToDisk pw false
  else pure (pw, w)

def PcW.drainLoop : Nat → PcW → PW → Outcome (PW × PcW)
  | 0, w, pw => if w.buffer.isEmpty then .ok (pw, w) else .panic "pc_writer: finalize does not terminate"
  | fuel + 1, w, pw =>
    if w.buffer.isEmpty then .ok (pw, w) else do
      let (pw, w) ← w.writeBufferToDisk pw false
      PcW.drainLoop fuel w pw

/-- `PointCloudWriter::finalize`: returns the page writer and the metadata pushed for the XML -/
def PcW.finalize (w : PcW) (pw : PW) : Outcome (PW × PcW × PointCloud) := do
  let (pw, w) ← PcW.drainLoop (w.buffer.length + 1) w pw
  let (pw, w) ← w.writeBufferToDisk pw true
  let endOff := pw.physicalPosition
  let (pw, ok) := pw.physicalSeek w.sectionOffset
  if !ok then .err "Failed to seek to section start for final update" else
  let pw ← pw.writeAll w.header.bytes
  let (pw, ok) := pw.physicalSeek endOff
  if !ok then .err "Failed to seek behind finalized section" else
  let pc := { w.pc with guid := some w.guid, records := w.pointCount, fileOffset := w.sectionOffset,
                        prototype := w.prototype }
  -- the `take()`s leave the writer's own metadata empty; a second finalize pushes an emptied copy
  let w' := { w with pc := { cartesianBounds := none, sphericalBounds := none, indexBounds := none } }
  pure (pw, w', pc)

/-! ### file writer -/

structure EW where
  pw : PW
  pcs : List PointCloud
  imgs : List Image
  exts : List (String × String)
  root : Root
  deriving Repr

def EW.new (dev : Dev) (guid libVersion : String) : Outcome EW := do
  let pw ← PW.new dev
  let pw ← pw.writeAll (fileHeaderBytes 0 0 0)
  pure ⟨pw, [], [], [], { guid := guid, libraryVersion := some libVersion }⟩

def EW.registerExtension (e : EW) (ns url : String) : Outcome EW :=
  if !validName ns then .err "invalid extension namespace"
  else if e.exts.any (fun x => x.1 == ns) then .err "namespace already registered"
  else if url == "http://www.w3.org/XML/1998/namespace" || url == "http://www.w3.org/2000/xmlns/" then
    .err "URL reserved by XML"
  else if url.isEmpty || url == "http://www.astm.org/COMMIT/E57/2010-e57-v1.0" || e.exts.any (fun x => x.2 == url) then .err "URL already used by another namespace"
  else .ok { e with exts := e.exts ++ [(ns, url)] }

def EW.addBlob (e : EW) (data : Bytes) : Outcome (EW × BlobRef) := do
  let (pw, b) ← blobWrite e.pw data
  pure ({ e with pw := pw }, b)

/-- the XML 1.0 `Char` production -/
def xmlChar (c : Char) : Bool :=
  c == '\t' || c == '\n' || c == '\r' || (0x20 ≤ c.toNat && c.toNat ≤ 0xD7FF) || (0xE000 ≤ c.toNat && c.toNat ≤ 0xFFFD)
    || (0x10000 ≤ c.toNat && c.toNat ≤ 0x10FFFF)

/-- `finalize_customized_xml`; `transform` is the caller's XML transformer (`none` = it failed) -/
def EW.finalize (ft : FloatText) (e : EW) (transform : String → Option String) : Outcome EW := do
  match serializeRoot ft e.root e.pcs e.imgs e.exts with
  | none => .err "Empty file GUID is not allowed"
  | some xml =>
    -- strings and URLs are written as they are; a character XML cannot carry would make the file unreadable
    if !(xml.toList.all xmlChar) then .err "a string contains a character that cannot be stored in XML" else
    match transform xml with
    | none => .err "transformer failed"
    | some xml =>
      let xmlBytes := utf8 xml
      -- the reader refuses XML sections above 10 MiB: never write what cannot be read back
      if xmlBytes.length > 1024 * 1024 * 10 then .err "XML section too large" else
      let xmlOffset := e.pw.physicalPosition
      let pw ← e.pw.writeAll xmlBytes
      let pw ← pw.align
      let endOff := pw.physicalPosition
      let (pw, physLength) := pw.physicalSize
      let (pw, ok) := pw.physicalSeek 0
      if !ok then .err "seek to header failed" else
      let pw ← pw.writeAll (fileHeaderBytes physLength xmlOffset xmlBytes.length)
      -- back behind the XML: whatever is written after finalize is appended
      let (pw, ok) := pw.physicalSeek endOff
      if !ok then .err "seek behind the XML failed" else
      pure { e with pw := pw.flush }

end E57

namespace E57

/-! ### image writer (src/image_writer.rs) -/

structure ImgW where
  image : Image
  deriving Repr

def ImgW.new (guid : String) : ImgW := ⟨{ guid := some guid }⟩

/-- write the image blob and the optional mask blob -/
def writeImageBlobs (pw : PW) (fmt : ImageFormat) (data : Bytes) (mask : Option Bytes) :
    Outcome (PW × ImageBlob × Option BlobRef) := do
  let (pw, b) ← blobWrite pw data
  match mask with
  | none => pure (pw, ⟨b, fmt⟩, none)
  | some m =>
    let (pw, mb) ← blobWrite pw m
    pure (pw, ⟨b, fmt⟩, some mb)

def ImgW.addVisualReference (w : ImgW) (pw : PW) (fmt : ImageFormat) (data : Bytes) (width height : Nat)
    (mask : Option Bytes) : Outcome (PW × ImgW) := do
  let (pw, blob, m) ← writeImageBlobs pw fmt data mask
  pure (pw, ⟨{ w.image with visualReference := some ⟨blob, m, width, height⟩ }⟩)

def ImgW.addProjection (w : ImgW) (pw : PW) (fmt : ImageFormat) (data : Bytes) (mask : Option Bytes)
    (mk : ImageBlob → Option BlobRef → Projection) : Outcome (PW × ImgW) := do
  if w.image.projection.isSome then .err "A projected image is already set" else
  let (pw, blob, m) ← writeImageBlobs pw fmt data mask
  pure (pw, ⟨{ w.image with projection := some (mk blob m) }⟩)

/-- `ImageWriter::finalize`: the image to push, or an error -/
def ImgW.finalize (w : ImgW) : Outcome Image :=
  if w.image.visualReference.isNone && w.image.projection.isNone then
    .err "Image must have a visual reference or a projection"
  else .ok w.image

end E57
