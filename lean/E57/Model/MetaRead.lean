/-
Reading metadata from the XML tree: src/xml.rs, root.rs, pointcloud.rs (from_node), record.rs
(from_node), limits.rs, bounds.rs, transform.rs, date_time.rs, images.rs, blob.rs (from_node),
extension.rs (vec_from_document).  `none` = the Rust function returns `Err`.  Core Lean only.
-/
import E57.Model.Xml
import E57.Model.Meta
namespace E57

/-- Rust `char::is_whitespace` (Unicode White_Space) -/
def rustIsWhitespace (c : Char) : Bool :=
  let n := c.toNat
  (9 ≤ n && n ≤ 13) || n == 32 || n == 0x85 || n == 0xA0 || n == 0x1680 ||
  (0x2000 ≤ n && n ≤ 0x200A) || n == 0x2028 || n == 0x2029 || n == 0x202F || n == 0x205F || n == 0x3000

/-- Rust `str::trim` -/
def rustTrim (s : String) : String :=
  String.ofList ((s.toList.dropWhile rustIsWhitespace).reverse.dropWhile rustIsWhitespace).reverse

/-- the common "find child, check `type` attribute" prelude: `none` = error,
    `some none` = no such child, `some (some tag)` = child with the expected type -/
def typedChild (parent : XNode) (tag expected : String) : Option (Option XNode) :=
  match parent.findChild tag with
  | none => some none
  | some t =>
    match t.attr "type" with
    | some ty => if ty == expected then some (some t) else none
    | none => none

def optString (parent : XNode) (tag : String) : Option (Option String) := do
  match ← typedChild parent tag "String" with
  | none => pure none
  | some t => pure (some ((t.textOf).getD ""))

def reqString (parent : XNode) (tag : String) : Option String := do
  match ← optString parent tag with
  | some s => pure s
  | none => none

def optF64 (fp : FloatParse) (parent : XNode) (tag : String) : Option (Option UInt64) := do
  match ← typedChild parent tag "Float" with
  | none => pure none
  | some t =>
    let v ← fp.f64 (rustTrim ((t.textOf).getD "0"))   -- white space around a number is not part of it
    pure (some v)

def reqF64 (fp : FloatParse) (parent : XNode) (tag : String) : Option UInt64 := do
  match ← optF64 fp parent tag with
  | some v => pure v
  | none => none

def optI64 (parent : XNode) (tag : String) : Option (Option Int) := do
  match ← typedChild parent tag "Integer" with
  | none => pure none
  | some t =>
    let v ← parseI64 (rustTrim ((t.textOf).getD "0"))
    pure (some v)

def reqI64 (parent : XNode) (tag : String) : Option Int := do
  match ← optI64 parent tag with
  | some v => pure v
  | none => none

def reqU32 (parent : XNode) (tag : String) : Option Nat := do
  match ← typedChild parent tag "Integer" with
  | none => none
  | some t => parseU32 (rustTrim ((t.textOf).getD "0"))

/-- `DateTime::from_node`: `Result<Option<DateTime>>` -/
def DateTime.fromNode (fp : FloatParse) (node : XNode) : Option (Option DateTime) := do
  let tv ← node.children.find? (fun n => n.hasTagName "dateTimeValue" && n.attr "type" == some "Float")
  match tv.textOf with
  | none => pure none
  | some text =>
    let gps ← fp.f64 (rustTrim text)
    match node.children.find? (fun n => n.hasTagName "isAtomicClockReferenced" && n.attr "type" == some "Integer") with
    | none => pure (some ⟨gps, false⟩)   -- the flag is optional
    | some an => pure (some ⟨gps, parseI64 (rustTrim ((an.textOf).getD "0")) == some 1⟩)

def optDateTime (fp : FloatParse) (parent : XNode) (tag : String) : Option (Option DateTime) := do
  match ← typedChild parent tag "Structure" with
  | none => pure none
  | some t => DateTime.fromNode fp t

def f64One : UInt64 := 0x3FF0000000000000

/-- `Transform::from_node` -/
def Transform.fromNode (fp : FloatParse) (node : XNode) : Option Transform := do
  let (tx, ty, tz) ← match node.findChild "translation" with
    | some t => do pure (← reqF64 fp t "x", ← reqF64 fp t "y", ← reqF64 fp t "z")
    | none => pure (0, 0, 0)
  let (rw, rx, ry, rz) ← match node.findChild "rotation" with
    | some r => do pure (← reqF64 fp r "w", ← reqF64 fp r "x", ← reqF64 fp r "y", ← reqF64 fp r "z")
    | none => pure (f64One, 0, 0, 0)
  pure ⟨rw, rx, ry, rz, tx, ty, tz⟩

def optTransform (fp : FloatParse) (parent : XNode) (tag : String) : Option (Option Transform) :=
  match parent.findChild tag with
  | some n => (Transform.fromNode fp n).map some
  | none => some none

/-- `optional_attribute::<T>` -/
def optAttr {α} (parse : String → Option α) (node : XNode) (name : String) : Option (Option α) :=
  match node.attr name with
  | some v => (parse v).map some
  | none => some none

/-- `RecordDataType::from_node` -/
def DataType.fromNode (fp : FloatParse) (node : XNode) : Option DataType := do
  let ty ← node.attr "type"
  if ty == "Float" then
    let precision := (node.attr "precision").getD "double"
    if precision == "double" then
      pure (.double (← optAttr fp.f64 node "minimum") (← optAttr fp.f64 node "maximum"))
    else if precision == "single" then
      pure (.single (← optAttr fp.f32 node "minimum") (← optAttr fp.f32 node "maximum"))
    else none
  else if ty == "Integer" then
    let min := (← optAttr parseI64 node "minimum").getD i64Min
    let max := (← optAttr parseI64 node "maximum").getD i64Max
    if max < min then none else pure (.integer min max)
  else if ty == "ScaledInteger" then
    let min := (← optAttr parseI64 node "minimum").getD i64Min
    let max := (← optAttr parseI64 node "maximum").getD i64Max
    if max < min then none else
    let scale := (← optAttr fp.f64 node "scale").getD f64One
    let offset := (← optAttr fp.f64 node "offset").getD 0
    pure (.scaled min max scale offset)
  else none

def e57Namespace : String := "http://www.astm.org/COMMIT/E57/2010-e57-v1.0"

/-- the record name of a prototype child -/
def recordNameOf (n : XNode) : RecordName :=
  let uri := n.tagNs.getD ""
  if uri.isEmpty || uri == e57Namespace then RecordName.ofTag n.tagPrefix n.tagLocal
  else .unknown (n.tagPrefix.getD "") n.tagLocal

def prototypeFromNode (fp : FloatParse) (proto : XNode) : Option Prototype :=
  (proto.children.filter XNode.isElement).mapM (fun n => do
    let dt ← DataType.fromNode fp n
    pure ⟨recordNameOf n, dt⟩)

/-- `extract_limit` -/
def extractLimit (fp : FloatParse) (bounds : XNode) (tag : String) : Option (Option Value) :=
  match bounds.findDescendant tag with
  | none => some none
  | some t => do
    let ty ← t.attr "type"
    let vs := rustTrim ((t.textOf).getD "0")
    if ty == "Integer" then pure (some (.integer (← parseI64 vs)))
    else if ty == "ScaledInteger" then pure (some (.scaled (← parseI64 vs)))
    else if ty == "Float" then
      if (t.attr "precision").getD "double" == "single" then pure (some (.single (← fp.f32 vs)))
      else pure (some (.double (← fp.f64 vs)))
    else none

def IntensityLimits.fromNode (fp : FloatParse) (n : XNode) : Option IntensityLimits := do
  pure ⟨← extractLimit fp n "intensityMinimum", ← extractLimit fp n "intensityMaximum"⟩

def ColorLimits.fromNode (fp : FloatParse) (n : XNode) : Option ColorLimits := do
  pure ⟨← extractLimit fp n "colorRedMinimum", ← extractLimit fp n "colorRedMaximum",
        ← extractLimit fp n "colorGreenMinimum", ← extractLimit fp n "colorGreenMaximum",
        ← extractLimit fp n "colorBlueMinimum", ← extractLimit fp n "colorBlueMaximum"⟩

def CartesianBounds.fromNode (fp : FloatParse) (n : XNode) : Option CartesianBounds := do
  pure ⟨← optF64 fp n "xMinimum", ← optF64 fp n "xMaximum", ← optF64 fp n "yMinimum",
        ← optF64 fp n "yMaximum", ← optF64 fp n "zMinimum", ← optF64 fp n "zMaximum"⟩

def SphericalBounds.fromNode (fp : FloatParse) (n : XNode) : Option SphericalBounds := do
  pure ⟨← optF64 fp n "rangeMinimum", ← optF64 fp n "rangeMaximum", ← optF64 fp n "elevationMinimum",
        ← optF64 fp n "elevationMaximum", ← optF64 fp n "azimuthStart", ← optF64 fp n "azimuthEnd"⟩

def IndexBounds.fromNode (n : XNode) : Option IndexBounds := do
  pure ⟨← optI64 n "rowMinimum", ← optI64 n "rowMaximum", ← optI64 n "columnMinimum",
        ← optI64 n "columnMaximum", ← optI64 n "returnMinimum", ← optI64 n "returnMaximum"⟩

def optNode {α} (parent : XNode) (tag : String) (f : XNode → Option α) : Option (Option α) :=
  match parent.findChild tag with
  | some n => (f n).map some
  | none => some none

/-- `PointCloud::from_node` -/
def PointCloud.fromNode (fp : FloatParse) (node : XNode) : Option PointCloud := do
  let guid ← optString node "guid"
  let name ← optString node "name"
  let description ← optString node "description"
  let sensorModel ← optString node "sensorModel"
  let sensorVendor ← optString node "sensorVendor"
  let sensorSerial ← optString node "sensorSerialNumber"
  let hw ← optString node "sensorHardwareVersion"
  let sw ← optString node "sensorSoftwareVersion"
  let fw ← optString node "sensorFirmwareVersion"
  let temperature ← optF64 fp node "temperature"
  let humidity ← optF64 fp node "relativeHumidity"
  let pressure ← optF64 fp node "atmosphericPressure"
  let acqStart ← optDateTime fp node "acquisitionStart"
  let acqEnd ← optDateTime fp node "acquisitionEnd"
  let transform ← optTransform fp node "pose"
  let originalGuids := (node.findChild "originalGuids").map (fun og =>
    (og.children.filter (fun n => n.isElement && n.hasTagName "vectorChild" && n.attr "type" == some "String")).map
      (fun n => (n.textOf).getD ""))
  let points ← node.children.find? (fun n => n.hasTagName "points" && n.attr "type" == some "CompressedVector")
  let fileOffset ← parseU64 (← points.attr "fileOffset")
  let records ← parseU64 (← points.attr "recordCount")
  let protoTag ← points.children.find? (fun n => n.hasTagName "prototype" && n.attr "type" == some "Structure")
  let prototype ← prototypeFromNode fp protoTag
  let cart ← optNode node "cartesianBounds" (CartesianBounds.fromNode fp)
  let sph ← optNode node "sphericalBounds" (SphericalBounds.fromNode fp)
  let idx ← optNode node "indexBounds" IndexBounds.fromNode
  let il ← optNode node "intensityLimits" (IntensityLimits.fromNode fp)
  let cl ← optNode node "colorLimits" (ColorLimits.fromNode fp)
  pure { guid := guid, fileOffset := fileOffset, records := records, prototype := prototype,
         originalGuids := originalGuids, name := name, description := description,
         cartesianBounds := cart, sphericalBounds := sph, indexBounds := idx,
         intensityLimits := il, colorLimits := cl, transform := transform,
         acquisitionStart := acqStart, acquisitionEnd := acqEnd,
         sensorVendor := sensorVendor, sensorModel := sensorModel, sensorSerial := sensorSerial,
         sensorHwVersion := hw, sensorSwVersion := sw, sensorFwVersion := fw,
         temperature := temperature, humidity := humidity, atmosphericPressure := pressure }

def vectorChildren (container : XNode) : List XNode :=
  container.children.filter (fun n => n.hasTagName "vectorChild" && n.attr "type" == some "Structure")

/-- `PointCloud::vec_from_document` -/
def pointcloudsFromDocument (fp : FloatParse) (d : XDoc) : Option (List PointCloud) :=
  match d.findDescendant "data3D" with
  | some c => (vectorChildren c).mapM (PointCloud.fromNode fp)
  | none => some []

/-- `Blob::from_node` -/
def BlobRef.fromNode (n : XNode) : Option BlobRef := do
  if n.attr "type" != some "Blob" then none else
  pure ⟨← parseU64 (← n.attr "fileOffset"), ← parseU64 (← n.attr "length")⟩

def ImageBlob.fromRepNode (rep : XNode) : Option ImageBlob :=
  match rep.findChild "jpegImage" with
  | some n => (BlobRef.fromNode n).map (fun b => ⟨b, .jpeg⟩)
  | none =>
    match rep.findChild "pngImage" with
    | some n => (BlobRef.fromNode n).map (fun b => ⟨b, .png⟩)
    | none => none

def maskOf (rep : XNode) : Option (Option BlobRef) := optNode rep "imageMask" BlobRef.fromNode

def VisualRef.fromNode (n : XNode) : Option VisualRef := do
  pure ⟨← ImageBlob.fromRepNode n, ← maskOf n, ← reqU32 n "imageWidth", ← reqU32 n "imageHeight"⟩

def Pinhole.fromNode (fp : FloatParse) (n : XNode) : Option Pinhole := do
  pure ⟨← ImageBlob.fromRepNode n, ← maskOf n, ← reqU32 n "imageWidth", ← reqU32 n "imageHeight",
        ← reqF64 fp n "focalLength", ← reqF64 fp n "pixelWidth", ← reqF64 fp n "pixelHeight",
        ← reqF64 fp n "principalPointX", ← reqF64 fp n "principalPointY"⟩

def f64Pi : Float := Float.ofBits 0x400921FB54442D18

def SphericalImg.fromNode (fp : FloatParse) (n : XNode) : Option SphericalImg := do
  let width ← reqU32 n "imageWidth"
  let height ← reqU32 n "imageHeight"
  let blob ← ImageBlob.fromRepNode n
  let mask ← maskOf n
  let pw := (← optF64 fp n "pixelWidth").getD ((2.0 * f64Pi) / (UInt32.ofNat width).toFloat).toBits
  let ph := (← optF64 fp n "pixelHeight").getD (f64Pi / (UInt32.ofNat height).toFloat).toBits
  pure ⟨blob, mask, width, height, pw, ph⟩

def Cylindrical.fromNode (fp : FloatParse) (n : XNode) : Option Cylindrical := do
  pure ⟨← ImageBlob.fromRepNode n, ← maskOf n, ← reqU32 n "imageWidth", ← reqU32 n "imageHeight",
        ← reqF64 fp n "radius", ← reqF64 fp n "principalPointY", ← reqF64 fp n "pixelWidth",
        ← reqF64 fp n "pixelHeight"⟩

def Projection.fromImageNode (fp : FloatParse) (img : XNode) : Option (Option Projection) :=
  match img.findChild "pinholeRepresentation" with
  | some n => (Pinhole.fromNode fp n).map (fun p => some (.pinhole p))
  | none =>
    match img.findChild "sphericalRepresentation" with
    | some n => (SphericalImg.fromNode fp n).map (fun p => some (.spherical p))
    | none =>
      match img.findChild "cylindricalRepresentation" with
      | some n => (Cylindrical.fromNode fp n).map (fun p => some (.cylindrical p))
      | none => some none

def Image.fromNode (fp : FloatParse) (node : XNode) : Option Image := do
  let guid ← optString node "guid"
  let pcGuid ← optString node "associatedData3DGuid"
  let transform ← optTransform fp node "pose"
  let name ← optString node "name"
  let description ← optString node "description"
  let sensorModel ← optString node "sensorModel"
  let sensorVendor ← optString node "sensorVendor"
  let sensorSerial ← optString node "sensorSerialNumber"
  let acquisition ← optDateTime fp node "acquisitionDateTime"
  let projection ← Projection.fromImageNode fp node
  let vis ← optNode node "visualReferenceRepresentation" VisualRef.fromNode
  pure { guid := guid, visualReference := vis, projection := projection, transform := transform,
         pointcloudGuid := pcGuid, name := name, description := description, acquisition := acquisition,
         sensorVendor := sensorVendor, sensorModel := sensorModel, sensorSerial := sensorSerial }

def imagesFromDocument (fp : FloatParse) (d : XDoc) : Option (List Image) :=
  match d.findDescendant "images2D" with
  | some c => (vectorChildren c).mapM (Image.fromNode fp)
  | none => some []

/-- what `root_from_document` returns (format name, guid, versions, optional fields) -/
structure RootRead where
  format : String
  guid : String
  major : Int
  minor : Int
  libraryVersion : Option String
  creation : Option DateTime
  coordinateMetadata : Option String
  deriving Repr

def rootFromDocument (fp : FloatParse) (d : XDoc) : Option RootRead := do
  let root ← d.findDescendant "e57Root"
  let format ← reqString root "formatName"
  let guid ← reqString root "guid"
  let major ← reqI64 root "versionMajor"
  let minor ← reqI64 root "versionMajor"
  let creation ← optDateTime fp root "creationDateTime"
  let cm ← optString root "coordinateMetadata"
  let lv ← optString root "e57LibraryVersion"
  pure ⟨format, guid, major, minor, lv, creation, cm⟩

/-- `Extension::vec_from_document` -/
def extensionsFromDocument (d : XDoc) : List (String × String) :=
  d.rootNamespaces.filterMap (fun (p, uri) =>
    if uri == e57Namespace then none else p.map (fun name => (name, uri)))

end E57
