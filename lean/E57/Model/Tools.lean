/-
The logic of the bundled tools e57-from-xyz and e57-to-xyz (tools/*/src/main.rs) as far as it is
logic: line parsing, the prototype used, the simple-iterator view with the default options the
tool sets, and the colour conversion `(c * 255.) as u8`.  File I/O, argument handling, `ryu`
(float text) and process exit codes are outside the model.  Core Lean only.
-/
import E57.Model.Simple
import E57.Model.Writer
namespace E57

/-- Rust `str::trim` + `split(' ')`: consecutive spaces yield empty parts -/
def xyzParts (line : String) : List String := (rustTrim line).splitOn " "

/-- `e57-from-xyz`: `some none` = line skipped (fewer than 6 columns), `none` = parse error (the
    tool aborts), `some (some values)` = the point added -/
def fromXyzLine (fp : FloatParse) (line : String) : Option (Option (List Value)) :=
  let parts := xyzParts line
  if parts.length ≥ 6 then do
    let x ← fp.f32 (parts.getD 0 "")
    let y ← fp.f32 (parts.getD 1 "")
    let z ← fp.f32 (parts.getD 2 "")
    let r ← parseUnsigned 255 (parts.getD 3 "")
    let g ← parseUnsigned 255 (parts.getD 4 "")
    let b ← parseUnsigned 255 (parts.getD 5 "")
    pure (some [.single x, .single y, .single z, .integer r, .integer g, .integer b])
  else some none

/-- the prototype e57-from-xyz uses -/
def xyzPrototype : Prototype :=
  [⟨.cartesianX, .single none none⟩, ⟨.cartesianY, .single none none⟩, ⟨.cartesianZ, .single none none⟩,
   ⟨.colorRed, .integer 0 255⟩, ⟨.colorGreen, .integer 0 255⟩, ⟨.colorBlue, .integer 0 255⟩]

/-- the metadata the writer stores for such a cloud that matter to the simple iterator -/
def xyzPointCloud : PointCloud :=
  { prototype := xyzPrototype,
    colorLimits := some ⟨some (.integer 0), some (.integer 255), some (.integer 0), some (.integer 255),
                         some (.integer 0), some (.integer 255)⟩ }

/-- `(c * 255.) as u8` on f32 (saturating, NaN ↦ 0) -/
def colourToU8 (c : UInt32) : Nat := ((Float32.ofBits c) * (255.0 : Float32)).toUInt8.toNat

/-- what e57-to-xyz prints for one raw point read back from the file: the three coordinates (as the
    f32 they denote) and the three 8-bit colours; `none` = nothing printed for this point -/
def toXyzPoint (vs : List Value) : Option (List Nat) :=
  let pc := xyzPointCloud
  let (rot, tr) := prepareTransform pc
  let it : SimpleIter :=
    { pc := pc, q := ⟨pc.prototype, [], []⟩, opts := { transform := true, s2c := true, c2s := false, i2c := true },
      rotation := rot, translation := tr, indices := prepareIndices pc.prototype, read := 0, points := [],
      buffer := [], intensityRange := none,
      redRange := rangeFor (pc.colorLimits.map (fun l => (l.redMin, l.redMax))) pc.prototype .colorRed,
      greenRange := rangeFor (pc.colorLimits.map (fun l => (l.greenMin, l.greenMax))) pc.prototype .colorGreen,
      blueRange := rangeFor (pc.colorLimits.map (fun l => (l.blueMin, l.blueMax))) pc.prototype .colorBlue }
  match viewPoint it vs with
  | none => none
  | some p =>
    match postProcess it [p] with
    | [q] =>
      if q.cartesian.kind == 0 then
        let f := fun (b : UInt64) => (Float.ofBits b).toFloat32.toBits.toNat
        let xyz := [f q.cartesian.a, f q.cartesian.b, f q.cartesian.c]
        match q.color with
        | some (r, g, b) => some (xyz ++ [colourToU8 r, colourToU8 g, colourToU8 b])
        | none => some xyz
      else none
    | _ => none

/-- XYZ text → E57 → XYZ: the numbers that come out, per line that was converted -/
def xyzRoundTrip (fp : FloatParse) : List String → Option (List (List Nat))
  | [] => some []
  | l :: ls =>
    match fromXyzLine fp l with
    | none => none
    | some none => xyzRoundTrip fp ls
    | some (some vs) => do
      let rest ← xyzRoundTrip fp ls
      match toXyzPoint vs with
      | some p => pure (p :: rest)
      | none => pure rest

end E57
