/-
The page layer: src/paged_writer.rs and src/paged_reader.rs over an ideal random-access device
(the semantics of `std::io::Cursor<Vec<u8>>`).  Core Lean only.
-/
import E57.Model.Crc
namespace E57

def pageSize : Nat := 1024
def payloadSize : Nat := 1020

/-! ## ideal device -/

structure Dev where
  data : Bytes
  pos : Nat
  deriving Repr, BEq, DecidableEq

def Dev.empty : Dev := ⟨[], 0⟩

def Dev.seekStart (d : Dev) (p : Nat) : Dev := { d with pos := p }

def Dev.seekEnd (d : Dev) : Dev × Nat := ({ d with pos := d.data.length }, d.data.length)

/-- one `read` call with a buffer of `n` bytes: as many bytes as are available -/
def Dev.read (d : Dev) (n : Nat) : Bytes × Dev :=
  let bs := (d.data.drop d.pos).take n
  (bs, { d with pos := d.pos + bs.length })

/-- `write_all`: overwrite/extend at the cursor; a cursor beyond the end zero-fills the gap -/
def Dev.writeAll (d : Dev) (b : Bytes) : Dev :=
  let base := if d.pos > d.data.length then d.data ++ zeros (d.pos - d.data.length) else d.data
  { data := base.take d.pos ++ b ++ base.drop (d.pos + b.length), pos := d.pos + b.length }

/-! ## PagedWriter -/

structure PW where
  dev : Dev
  offset : Nat
  page : Bytes        -- page_buffer, 1024 bytes
  deriving Repr, BEq, DecidableEq

/-- payload with its checksum appended: what `write`/`flush` put on the device -/
def sealPage (page : Bytes) : Bytes :=
  page.take payloadSize ++ crcBytes (page.take payloadSize)

/-- `read_current_page`: fill the page buffer from the device, zero-fill what the device lacks -/
def PW.readCurrentPage (w : PW) : PW :=
  let (bs, dev') := w.dev.read pageSize
  { w with dev := dev', page := bs ++ zeros (pageSize - bs.length) }

def PW.new (dev : Dev) : Outcome PW :=
  let (dev', e) := dev.seekEnd
  if e ≠ 0 then .err "Supplied writer is not empty"
  else .ok ⟨dev', 0, zeros pageSize⟩

def PW.physicalPosition (w : PW) : Nat := w.dev.pos + w.offset

/-- `Write::flush` -/
def PW.flush (w : PW) : PW :=
  if w.offset > 0 then
    let pos := w.dev.pos
    let sealed := sealPage w.page
    let dev1 := w.dev.writeAll sealed
    { w with dev := dev1.seekStart pos, page := sealed }
  else w

/-- one `Write::write` call: returns the number of bytes taken -/
def PW.write1 (w : PW) (buf : Bytes) : PW × Nat :=
  let n := min buf.length (payloadSize - w.offset)
  let page1 := w.page.take w.offset ++ buf.take n ++ w.page.drop (w.offset + n)
  let off1 := w.offset + n
  if off1 = payloadSize then
    let sealed := sealPage page1
    let dev1 := w.dev.writeAll sealed
    let physOff := dev1.pos
    let w2 : PW := PW.readCurrentPage ⟨dev1, 0, sealed⟩
    ({ w2 with dev := w2.dev.seekStart physOff }, n)
  else
    (⟨w.dev, off1, page1⟩, n)

/-- `write_all`: call `write` until the buffer is empty (`fuel` ≥ number of calls) -/
def PW.writeAllFuel : Nat → PW → Bytes → Outcome PW
  | _, w, [] => .ok w
  | 0, _, _ :: _ => .panic "write_all: fuel exhausted"
  | fuel + 1, w, buf =>
    let (w', n) := w.write1 buf
    if n = 0 then .err "failed to write whole buffer"
    else PW.writeAllFuel fuel w' (buf.drop n)

def PW.writeAll (w : PW) (buf : Bytes) : Outcome PW := PW.writeAllFuel (buf.length + 1) w buf

/-- `physical_seek`; a failing seek returns the writer state it leaves behind -/
def PW.physicalSeek (w : PW) (pos : Nat) : PW × Bool :=
  let w1 := w.flush
  let prev := w1.dev.pos
  let (dev2, e) := w1.dev.seekEnd
  if pos > e then ({ w1 with dev := dev2.seekStart prev }, false)
  else
    let page := pos / pageSize
    let off := pos % pageSize
    if off ≥ payloadSize then ({ w1 with dev := dev2.seekStart prev }, false)
    else
      let w3 := PW.readCurrentPage { w1 with dev := dev2.seekStart (page * pageSize) }
      ({ w3 with dev := w3.dev.seekStart (page * pageSize), offset := off }, true)

def PW.physicalSize (w : PW) : PW × Nat :=
  let w1 := w.flush
  let pos := w1.dev.pos
  let (dev2, size) := w1.dev.seekEnd
  ({ w1 with dev := dev2.seekStart pos }, size)

def PW.align (w : PW) : Outcome PW :=
  let m := w.offset % 4
  if m ≠ 0 then w.writeAll (zeros (4 - m)) else .ok w

/-! ## PagedReader -/

structure PR where
  dev : Dev
  pageSize : Nat
  physSize : Nat
  logSize : Nat
  pages : Nat
  offset : Nat
  pageNum : Option Nat
  page : Bytes
  deriving Repr, BEq, DecidableEq

def PR.new (dev : Dev) (ps : Nat) : Outcome PR :=
  if ps > 1048576 then .err "page size too big"
  else if ps ≤ 4 then .err "page size too small"
  else
    let (dev', phys) := dev.seekEnd
    if phys = 0 then .err "file size zero"
    else if phys % ps ≠ 0 then .err "file size not a multiple of the page size"
    else .ok ⟨dev', ps, phys, (phys / ps) * (ps - 4), phys / ps, 0, none, zeros ps⟩

def PR.seekPhysical (r : PR) (off : Nat) : Outcome (PR × Nat) :=
  if off ≥ r.physSize then .err "offset behind end of file"
  else
    let o := off - (off / r.pageSize) * 4
    .ok ({ r with offset := o }, o)

/-- `read_page`; `none` = error, with the state left behind -/
def PR.readPage (r : PR) (p : Nat) : PR × Bool :=
  if p ≥ r.pages then (r, false)
  else
    let dev1 := r.dev.seekStart (p * r.pageSize)
    let (bs, dev2) := dev1.read r.pageSize
    if bs.length < r.pageSize then
      -- `read_exact` failed: cannot happen on an ideal device whose size is a multiple of the page size
      ({ r with dev := dev2, page := bs ++ r.page.drop bs.length, pageNum := none }, false)
    else
      let dataSize := r.pageSize - 4
      if bs.drop dataSize ≠ crcBytes (bs.take dataSize) then
        ({ r with dev := dev2, page := bs, pageNum := none }, false)
      else
        ({ r with dev := dev2, page := bs, pageNum := some p }, true)

def PR.align (r : PR) : Outcome PR :=
  let m := r.offset % 4
  if m ≠ 0 then
    let skip := 4 - m
    if r.offset + skip > r.logSize then .err "Tried to seek behind end of the file"
    else .ok { r with offset := r.offset + skip }
  else .ok r

/-- one `Read::read` call with a buffer of `n` bytes -/
def PR.read (r : PR) (n : Nat) : Outcome (PR × Bytes) :=
  let page := r.offset / (r.pageSize - 4)
  if page ≥ r.pages then .ok (r, [])
  else
    let (r1, ok) := if r.pageNum ≠ some page then r.readPage page else (r, true)
    if !ok then .err "read_page failed" -- state r1 is kept by the caller-visible reader
    else
      let pageOffset := r1.offset % (r1.pageSize - 4)
      let readable := r1.pageSize - 4 - pageOffset
      let size := min n readable
      .ok ({ r1 with offset := r1.offset + size }, (r1.page.drop pageOffset).take size)

/-- state after a failing `read` (the cache has been invalidated / partly overwritten) -/
def PR.readFailState (r : PR) : PR :=
  let page := r.offset / (r.pageSize - 4)
  if page ≥ r.pages then r
  else if r.pageNum ≠ some page then (r.readPage page).1 else r

/-- `read_exact(n)`: loop over `read`; `Ok(0)` before `n` bytes is `UnexpectedEof`.
    Returns the state left behind also when it fails. -/
def PR.readExactFuel : Nat → PR → Nat → Bytes → PR × Option Bytes
  | _, r, 0, acc => (r, some acc)
  | 0, r, _ + 1, _ => (r, none)
  | fuel + 1, r, n + 1, acc =>
    match r.read (n + 1) with
    | .ok (r', bs) =>
      if bs.isEmpty then (r', none)
      else PR.readExactFuel fuel r' (n + 1 - bs.length) (acc ++ bs)
    | _ => (r.readFailState, none)

def PR.readExact (r : PR) (n : Nat) : PR × Option Bytes := PR.readExactFuel (n + 1) r n []

end E57

namespace E57

/-- `E57Reader::get_u64`: seek to `offset`, `read_exact` 8 bytes -/
def devGetU64 (dev : Dev) (offset : Nat) : Option Nat :=
  let bs := (dev.data.drop offset).take 8
  if bs.length < 8 then none else some (leVal bs)

/-- the loop of `validate_crc`: `read(page_size)` until it returns 0 -/
def validateCrcLoop : Nat → PR → Bool
  | 0, _ => true
  | fuel + 1, r =>
    match r.read r.pageSize with
    | .ok (r', bs) => if bs.isEmpty then true else validateCrcLoop fuel r'
    | _ => false

/-- `E57Reader::validate_crc`: `some page_size` on success -/
def validateCrc (dev : Dev) : Option Nat :=
  match devGetU64 dev 40 with
  | none => none
  | some ps =>
    match PR.new dev ps with
    | .ok r => if validateCrcLoop (r.pages * 2 + 2) r then some ps else none
    | _ => none

end E57
