/-
The reader: src/header.rs (read), src/e57_reader.rs, src/cv_section.rs (read), src/packet.rs (read),
src/queue_reader.rs, src/pc_reader_raw.rs, src/blob.rs (read).  The XML text → tree step
(`String::from_utf8` + `roxmltree::Document::parse`) is external: a parameter `XmlOracle`.
Core Lean only.
-/
import E57.Model.Pages
import E57.Model.MetaRead
namespace E57

/-! ### file header -/

structure FileHeader where
  physLength : Nat
  xmlOffset : Nat
  xmlLength : Nat
  pageSize : Nat
  deriving Repr, BEq, DecidableEq

/-- `Header::read` on the first 48 raw bytes -/
def FileHeader.read (file : Bytes) : Option FileHeader :=
  if file.length < 48 then none else
  let sig := file.take 8
  let major := leVal ((file.drop 8).take 4)
  let minor := leVal ((file.drop 12).take 4)
  let h : FileHeader := ⟨leVal ((file.drop 16).take 8), leVal ((file.drop 24).take 8),
    leVal ((file.drop 32).take 8), leVal ((file.drop 40).take 8)⟩
  if sig ≠ utf8 "ASTM-E57" then none
  else if major ≠ 1 then none
  else if minor ≠ 0 then none
  else if h.pageSize ≠ 1024 then none
  else some h

def maxXmlSize : Nat := 1024 * 1024 * 10

/-- `extract_xml` -/
def extractXml (r : PR) (offset length : Nat) : Option (PR × Bytes) :=
  if length > maxXmlSize then none else
  match r.seekPhysical offset with
  | .ok (r1, _) =>
    match r1.readExact length with
    | (r2, some bs) => some (r2, bs)
    | (_, none) => none
  | _ => none

/-- the external XML front end: bytes → parsed document (`none` = not UTF-8 or not well-formed) -/
abbrev XmlOracle := Bytes → Option XDoc

structure Reader where
  pr : PR
  header : FileHeader
  xml : Bytes
  root : RootRead
  pcs : List PointCloud
  imgs : List Image
  exts : List (String × String)
  deriving Repr

/-- the 48 header bytes are read from the device directly, without the page layer; reading them once more THROUGH
    the page layer checks the checksum of the page that holds them (`none` = that page is damaged) -/
def checkHeaderPage (r : PR) : Option PR :=
  match r.seekPhysical 0 with
  | .ok (r1, _) =>
    match r1.readExact 48 with
    | (r2, some _) => some r2
    | (_, none) => none
  | _ => none

/-- `E57Reader::new` -/
def Reader.open (file : Bytes) (xo : XmlOracle) (fp : FloatParse) : Option Reader := do
  let header ← FileHeader.read file
  let pr ← (PR.new ⟨file, 48⟩ header.pageSize).toOption
  let pr ← checkHeaderPage pr
  let (pr, xml) ← extractXml pr header.xmlOffset header.xmlLength
  let doc ← xo xml
  let root ← rootFromDocument fp doc
  let pcs ← pointcloudsFromDocument fp doc
  let imgs ← imagesFromDocument fp doc
  pure ⟨pr, header, xml, root, pcs, imgs, extensionsFromDocument doc⟩

/-- `E57Reader::raw_xml` -/
def rawXml (file : Bytes) : Option Bytes := do
  let ps ← devGetU64 ⟨file, 0⟩ 40
  let off ← devGetU64 ⟨file, 0⟩ 24
  let len ← devGetU64 ⟨file, 0⟩ 32
  let pr ← (PR.new ⟨file, 0⟩ ps).toOption
  let pr ← checkHeaderPage pr
  (extractXml pr off len).map (·.2)

/-! ### compressed vector section and packets -/

/-- `CompressedVectorSectionHeader::read`: (section_length, data_offset, index_offset) -/
def readCvHeader (r : PR) : PR × Option (Nat × Nat × Nat) :=
  match r.readExact 32 with
  | (r1, some b) =>
    let id := leVal (b.take 1)
    let sl := leVal ((b.drop 8).take 8)
    let d := leVal ((b.drop 16).take 8)
    let ix := leVal ((b.drop 24).take 8)
    if id ≠ 1 then (r1, none)
    else if sl % 4 ≠ 0 then (r1, none)
    else (r1, some (sl, d, ix))
  | (r1, none) => (r1, none)

inductive PacketHeader where
  | index (len : Nat)
  | data (restart : Bool) (len : Nat) (count : Nat)
  | ignored (len : Nat)
  deriving Repr, BEq, DecidableEq

/-- `PacketHeader::read` -/
def readPacketHeader (r : PR) : PR × Option PacketHeader :=
  match r.readExact 1 with
  | (r1, some [t]) =>
    if t = 0 then
      match r1.readExact 15 with
      | (r2, some b) =>
        let len := leVal ((b.drop 1).take 2) + 1
        if (b.take 1) ≠ [0] then (r2, none)
        else if (b.drop 7).any (· ≠ 0) then (r2, none)
        else if len % 4 ≠ 0 then (r2, none)
        else (r2, some (.index len))
      | (r2, none) => (r2, none)
    else if t = 1 then
      match r1.readExact 5 with
      | (r2, some b) =>
        let restart := (leVal (b.take 1)) % 2 = 1
        let len := leVal ((b.drop 1).take 2) + 1
        let count := leVal ((b.drop 3).take 2)
        if len % 4 ≠ 0 then (r2, none)
        else if count = 0 then (r2, none)
        else (r2, some (.data restart len count))
      | (r2, none) => (r2, none)
    else if t = 2 then
      match r1.readExact 3 with
      | (r2, some b) =>
        let len := leVal ((b.drop 1).take 2) + 1
        if (b.take 1) ≠ [0] then (r2, none)
        else if len % 4 ≠ 0 then (r2, none)
        else (r2, some (.ignored len))
      | (r2, none) => (r2, none)
    else (r1, none)
  | (r1, _) => (r1, none)

/-! ### queue reader -/

structure QR where
  proto : Prototype
  streams : List RBuf
  queues : List (List Value)
  deriving Repr

/-- `QueueReader::new`: seek to the section, read its header, seek to the first packet -/
def QR.new (pc : PointCloud) (r : PR) : PR × Option QR :=
  match r.seekPhysical pc.fileOffset with
  | .ok (r1, _) =>
    match readCvHeader r1 with
    | (r2, some (_, dataOffset, _)) =>
      match r2.seekPhysical dataOffset with
      | .ok (r3, _) =>
        (r3, some ⟨pc.prototype, List.replicate pc.prototype.length RBuf.new,
                   List.replicate pc.prototype.length []⟩)
      | _ => (r2, none)
    | (r2, none) => (r2, none)
  | _ => (r, none)

def minList : List Nat → Option Nat
  | [] => none
  | x :: xs => match minList xs with
    | some m => some (min x m)
    | none => some x

/-- `available()`: the shortest queue (0 without queues) -/
def QR.allZeroWidth (q : QR) : Bool := q.proto.all (fun r => r.dt.bitSize == 0)

/-- the known value of a record of zero bit size (integer types with `min = max`): such records store
    no data and are never queued — unless the cloud has no other records (`allConstant`) -/
def constOf (dt : DataType) : Option Value :=
  match dt with
  | .scaled min _ _ _ => if dt.bitSize = 0 then some (.scaled min) else none
  | .integer min _ => if dt.bitSize = 0 then some (.integer min) else none
  | _ => none

/-- `all_constant`: a non-empty prototype whose records all have zero bit size -/
def QR.allConstant (q : QR) : Bool := !q.proto.isEmpty && q.proto.all (fun r => (constOf r.dt).isSome)

/-- the queues that count: all of them for an all-constant cloud, otherwise those of the sized records -/
def QR.countedLengths (q : QR) : List Nat :=
  if q.allConstant then q.queues.map List.length
  else ((q.proto.zip q.queues).filter (fun (rec, _) => (constOf rec.dt).isNone)).map (fun (_, qu) => qu.length)

/-- `available`: complete points across the queues (0 without queues) -/
def QR.available (q : QR) : Nat :=
  if q.queues.isEmpty then 0 else (minList q.countedLengths).getD 0

/-- value a zero-width record stands for -/
def zeroValue : DataType → Value
  | .scaled min _ _ _ => .scaled min
  | .integer min _ => .integer min
  | .single _ _ => .single 0
  | .double _ _ => .double 0

/-- read the `count` u16 stream sizes -/
def readSizes : Nat → PR → List Nat → PR × Option (List Nat)
  | 0, r, acc => (r, some acc.reverse)
  | n + 1, r, acc =>
    match r.readExact 2 with
    | (r1, some b) => readSizes n r1 (leVal b :: acc)
    | (r1, none) => (r1, none)

/-- read each stream's bytes and append them to its buffer; streams processed so far are kept
    when a later read fails (as the code does) -/
def readStreams : List Nat → List RBuf → PR → List RBuf → PR × List RBuf × Bool
  | [], rest, r, acc => (r, acc.reverse ++ rest, true)
  | _ :: _, [], r, acc => (r, acc.reverse, true)
  | sz :: szs, s :: ss, r, acc =>
    match r.readExact sz with
    | (r1, some b) =>
      match s.append b with
      | .ok s' => readStreams szs ss r1 (s' :: acc)
      | _ => (r1, acc.reverse ++ (s :: ss), false)
    | (r1, none) => (r1, acc.reverse ++ (s :: ss), false)

/-- `parse_byte_streams` for one record -/
def parseStream (dt : DataType) (s : RBuf) (q : List Value) : Option (RBuf × List Value) :=
  match dt with
  | .single _ _ =>
    match unpackFixed 32 s with
    | .ok (vs, s') => some (s', q ++ vs.map (fun v => Value.single (UInt32.ofNat v)))
    | _ => none
  | .double _ _ =>
    match unpackFixed 64 s with
    | .ok (vs, s') => some (s', q ++ vs.map (fun v => Value.double (UInt64.ofNat v)))
    | _ => none
  | .scaled min max _ _ =>
    -- nothing to unpack for a record of zero bit size (see `constOf`)
    if dt.bitSize = 0 then some (s, q)
    else match unpackInts s min max with
      | .ok (vs, s') => some (s', q ++ vs.map Value.scaled)
      | _ => none
  | .integer min max =>
    if dt.bitSize = 0 then some (s, q)
    else match unpackInts s min max with
      | .ok (vs, s') => some (s', q ++ vs.map Value.integer)
      | _ => none

def parseStreams : List Record → List RBuf → List (List Value) → Option (List RBuf × List (List Value))
  | [], _, _ => some ([], [])
  | _ :: _, [], _ => none
  | _ :: _, _ :: _, [] => none
  | r :: rs, s :: ss, q :: qs => do
    let (s', q') ← parseStream r.dt s q
    let (ss', qs') ← parseStreams rs ss qs
    pure (s' :: ss', q' :: qs')

/-- `advance`: consume one packet.  `(reader', queue reader', ok)` -/
def QR.advance (q : QR) (r : PR) : PR × QR × Bool :=
  if q.allZeroWidth && !q.proto.isEmpty then
    -- no bytes are stored for such a cloud: one point is synthesised per call
    (r, { q with queues := (q.proto.zip q.queues).map (fun (rec, qu) => qu ++ [zeroValue rec.dt]) }, true)
  else
  match readPacketHeader r with
  | (r1, none) => (r1, q, false)
  | (r1, some (.index len)) =>
    if len < 16 then (r1, q, false) else
    match r1.readExact (len - 16) with
    | (r2, some _) => match r2.align with
      | .ok r3 => (r3, q, true)
      | _ => (r2, q, false)
    | (r2, none) => (r2, q, false)
  | (r1, some (.ignored len)) =>
    match r1.readExact (len - 4) with
    | (r2, some _) => match r2.align with
      | .ok r3 => (r3, q, true)
      | _ => (r2, q, false)
    | (r2, none) => (r2, q, false)
  | (r1, some (.data _ _ count)) =>
    if count ≠ q.streams.length then (r1, q, false) else
    match readSizes q.streams.length r1 [] with
    | (r2, none) => (r2, q, false)
    | (r2, some sizes) =>
      let (r3, streams, ok) := readStreams sizes q.streams r2 []
      let q1 := { q with streams := streams }
      if !ok then (r3, q1, false) else
      match parseStreams q.proto streams q.queues with
      | none => (r3, q1, false)
      | some (streams', queues') =>
        let q2 := { q1 with streams := streams', queues := queues' }
        match r3.align with
        | .ok r4 => (r4, q2, true)
        | _ => (r3, q2, false)

/-- `pop_point` -/
def QR.popPoint (q : QR) : Option (List Value × QR) :=
  if q.allConstant then
    if q.queues.any List.isEmpty then none
    else some (q.queues.map (fun l => l.headD (.integer 0)), { q with queues := q.queues.map List.tail })
  else
    -- constant records yield their value without a queue; the others pop one value each
    let pairs := q.proto.zip q.queues
    if pairs.any (fun (rec, qu) => (constOf rec.dt).isNone && qu.isEmpty) then none
    else some (pairs.map (fun (rec, qu) => match constOf rec.dt with
                | some v => v
                | none => qu.headD (.integer 0)),
               { q with queues := pairs.map (fun (rec, qu) => if (constOf rec.dt).isSome then qu else qu.tail) })

/-! ### raw iterator -/

structure RawIter where
  q : QR
  records : Nat
  read : Nat
  deriving Repr

inductive Item (α : Type) where
  | done
  | error
  | value (a : α)
  deriving Repr

/-- the refill loop `while available() < 1 { advance()? }`; every successful `advance` on a
    non-degenerate cloud consumes at least 4 bytes, so `fuel` = remaining bytes suffices -/
def refill : Nat → QR → PR → PR × QR × Bool
  | 0, q, r => (r, q, false)
  | fuel + 1, q, r =>
    if q.available ≥ 1 then (r, q, true) else
    match q.advance r with
    | (r1, q1, true) => refill fuel q1 r1
    | (r1, q1, false) => (r1, q1, false)

def refillFuel (r : PR) : Nat := r.logSize + 2

/-- `PointCloudReaderRaw::next` -/
def RawIter.next (it : RawIter) (r : PR) : PR × RawIter × Item (List Value) :=
  if it.read ≥ it.records then (r, it, .done) else
  match refill (refillFuel r) it.q r with
  | (r1, q1, false) => (r1, { it with q := q1 }, .error)
  | (r1, q1, true) =>
    match q1.popPoint with
    | some (p, q2) => (r1, { it with q := q2, read := it.read + 1 }, .value p)
    | none => (r1, { it with q := q1 }, .error)

/-! ### blobs -/

/-- `Blob::read`: `none` = error, otherwise exactly `length` bytes -/
def blobRead (r : PR) (b : BlobRef) : PR × Option Bytes :=
  match r.seekPhysical b.offset with
  | .ok (r1, _) =>
    match r1.readExact 16 with
    | (r2, some h) =>
      let id := leVal (h.take 1)
      let sl := leVal ((h.drop 8).take 8)
      if id ≠ 0 then (r2, none)
      else if b.length > sl + 16 then (r2, none)
      else
        -- `take(length)` + `io::copy`: reads until `length` bytes or end of file; a short copy is an error
        match r2.readExact b.length with
        | (r3, some d) => (r3, some d)
        | (r3, none) => (r3, none)
    | (r2, none) => (r2, none)
  | _ => (r, none)

end E57
