/-
The TREE that the XML emitted by the writer's serialisers (E57/Model/Meta.lean, Record.lean) denotes,
in the shape `roxmltree` reports it (E57/Model/Xml.lean `XNode`), a renderer `render` for this XML
dialect, and the token dump `XNode.tokens` / `docTokens` that E57/Drv/Reader.lean `parseTree` reads.

Conventions (what roxmltree reports for the writer's output):
* every un-prefixed element is in the E57 namespace because of the default `xmlns` on the root;
  the prefix reported for it is `lookup_prefix(E57 namespace)`: `none` unless an extension was
  registered with the E57 namespace as its URL (then that extension's prefix) — parameter `p0`;
* an extension record `ns:name` is in the namespace `url` of the extension `ns`; the prefix reported
  is `lookup_prefix(url)`, the FIRST namespace declared on the root with that URL;
* the writer ends every element with "\n": the children of a container element are
  `text "\n"` followed by each child element followed by `text "\n"` (`lines`);
* a `String` element has exactly one text child carrying the raw string (CDATA sections are merged by
  the parser); `Float`/`Integer` elements have one text child with the printed number;
* `Blob` elements are empty (`<tag .../>`): no children;
* namespace declarations are not attributes; attribute values are raw.
What obligation C has to keep in mind (properties of XML/roxmltree, not of these definitions):
* a `Float`/`Integer` element whose printed text were EMPTY would have no text child at all (Rust never
  prints a number as the empty string); an empty CDATA section does give a text child `""`;
* the parser normalises "\r\n" and "\r" to "\n" in text and CDATA, and white space to spaces in attribute
  values; the writer therefore writes a carriage return of a string as the reference `&#13;` outside the
  CDATA section (`cdataEscape`) and tab/newline/CR of an extension URL as references (`attrEscape`): both
  come back unchanged (`XmlP.cdata_roundtrip`, `XmlP.attr_roundtrip`);
* an extension URL equal to the XML or XMLNS namespace makes roxmltree reject the document.
Obligation C is now a theorem: `E57/Spec/XmlParse.lean` (a parser following roxmltree),
`E57/Proofs/XmlRender.lean` (`parse_render`), `E57/Proofs/XmlRoundTrip.lean` (`C04_text_roundtrip`).

Core Lean only.
-/
import E57.Model.MetaRead
namespace E57.MT
open E57

/-! ### namespaces in scope on the root element -/

/-- the namespace of the `xml:` prefix, which roxmltree resolves without a declaration -/
def xmlNsUri : String := "http://www.w3.org/XML/1998/namespace"

/-- `root_element().namespaces()`: the declarations in document order (extensions, then the default) -/
def rootNamespaces (exts : List (String × String)) : List (Option String × String) :=
  exts.map (fun e => (some e.1, e.2)) ++ [(none, XNode.e57NsUri)]

/-- roxmltree `lookup_prefix(uri)` -/
def lookupPrefix (nss : List (Option String × String)) (uri : String) : Option String :=
  if uri == xmlNsUri then some "xml"
  else match nss.find? (fun n => n.2 == uri) with
    | some n => n.1
    | none => none

/-- the prefix reported for elements of the E57 namespace -/
def e57Prefix (exts : List (String × String)) : Option String :=
  lookupPrefix (rootNamespaces exts) XNode.e57NsUri

/-- the URL an extension prefix is bound to (prefixes are unique in the writer) -/
def extUrl (exts : List (String × String)) (ns : String) : Option String :=
  (exts.find? (fun e => e.1 == ns)).map (·.2)

/-! ### building blocks -/

/-- the text node between two elements -/
def nl : XNode := .text "\n"

/-- each element followed by the "\n" the writer puts after it -/
def sep : List XNode → List XNode
  | [] => []
  | k :: ks => k :: nl :: sep ks

/-- the children of a container: "\n" after the opening tag, then the lines -/
def lines (kids : List XNode) : List XNode := nl :: sep kids

/-- an attribute without namespace -/
def at_ (name value : String) : XAttr := ⟨none, name, value⟩

/-- the `type` attribute -/
def tattr (ty : String) : XAttr := at_ "type" ty

/-- an element of the E57 namespace -/
def el (p0 : Option String) (name : String) (attrs : List XAttr) (children : List XNode) : XNode :=
  .elem (some XNode.e57NsUri) p0 name attrs children

/-- `<tag type="Structure">\n … </tag>` -/
def structT (p0 : Option String) (tag : String) (kids : List XNode) : XNode :=
  el p0 tag [tattr "Structure"] (lines kids)

/-- tree counterpart of `optS` -/
def optT {α β} (o : Option α) (f : α → β) : List β :=
  match o with
  | some a => [f a]
  | none => []

/-! ### src/xml.rs generators -/

def genStringTree (p0 : Option String) (tag value : String) : XNode :=
  el p0 tag [tattr "String"] [.text value]

def genFloatTree (ft : FloatText) (p0 : Option String) (tag : String) (v : UInt64) : XNode :=
  el p0 tag [tattr "Float"] [.text (ft.show64 v)]

def genIntTree (p0 : Option String) (tag : String) (v : Int) : XNode :=
  el p0 tag [tattr "Integer"] [.text (toString v)]

def DateTime.tree (ft : FloatText) (p0 : Option String) (d : DateTime) (tag : String) : XNode :=
  structT p0 tag
    [genFloatTree ft p0 "dateTimeValue" d.gpsTime,
     el p0 "isAtomicClockReferenced" [tattr "Integer"] [.text (if d.atomic then "1" else "0")]]

def Transform.tree (ft : FloatText) (p0 : Option String) (t : Transform) (tag : String) : XNode :=
  structT p0 tag
    [structT p0 "rotation" [genFloatTree ft p0 "w" t.rw, genFloatTree ft p0 "x" t.rx,
       genFloatTree ft p0 "y" t.ry, genFloatTree ft p0 "z" t.rz],
     structT p0 "translation" [genFloatTree ft p0 "x" t.tx, genFloatTree ft p0 "y" t.ty,
       genFloatTree ft p0 "z" t.tz]]

/-! ### bounds (src/bounds.rs) -/

def CartesianBounds.tree (ft : FloatText) (p0 : Option String) (b : CartesianBounds) : XNode :=
  structT p0 "cartesianBounds"
    (optT b.xMin (genFloatTree ft p0 "xMinimum") ++ optT b.xMax (genFloatTree ft p0 "xMaximum")
     ++ optT b.yMin (genFloatTree ft p0 "yMinimum") ++ optT b.yMax (genFloatTree ft p0 "yMaximum")
     ++ optT b.zMin (genFloatTree ft p0 "zMinimum") ++ optT b.zMax (genFloatTree ft p0 "zMaximum"))

def SphericalBounds.tree (ft : FloatText) (p0 : Option String) (b : SphericalBounds) : XNode :=
  structT p0 "sphericalBounds"
    (optT b.azimuthStart (genFloatTree ft p0 "azimuthStart") ++ optT b.azimuthEnd (genFloatTree ft p0 "azimuthEnd")
     ++ optT b.elevationMin (genFloatTree ft p0 "elevationMinimum")
     ++ optT b.elevationMax (genFloatTree ft p0 "elevationMaximum")
     ++ optT b.rangeMin (genFloatTree ft p0 "rangeMinimum") ++ optT b.rangeMax (genFloatTree ft p0 "rangeMaximum"))

def IndexBounds.tree (p0 : Option String) (b : IndexBounds) : XNode :=
  structT p0 "indexBounds"
    (optT b.rowMin (genIntTree p0 "rowMinimum") ++ optT b.rowMax (genIntTree p0 "rowMaximum")
     ++ optT b.columnMin (genIntTree p0 "columnMinimum") ++ optT b.columnMax (genIntTree p0 "columnMaximum")
     ++ optT b.returnMin (genIntTree p0 "returnMinimum") ++ optT b.returnMax (genIntTree p0 "returnMaximum"))

/-! ### limits (src/limits.rs) -/

def recordValueTree (ft : FloatText) (p0 : Option String) (tag : String) : Value → XNode
  | .integer v => el p0 tag [tattr "Integer"] [.text (toString v)]
  | .scaled v => el p0 tag [tattr "ScaledInteger"] [.text (toString v)]
  | .single v => el p0 tag [tattr "Float", at_ "precision" "single"] [.text (ft.show32 v)]
  | .double v => el p0 tag [tattr "Float"] [.text (ft.show64 v)]

def IntensityLimits.tree (ft : FloatText) (p0 : Option String) (l : IntensityLimits) : XNode :=
  structT p0 "intensityLimits"
    (optT l.min (recordValueTree ft p0 "intensityMinimum") ++ optT l.max (recordValueTree ft p0 "intensityMaximum"))

def ColorLimits.tree (ft : FloatText) (p0 : Option String) (l : ColorLimits) : XNode :=
  structT p0 "colorLimits"
    (optT l.redMin (recordValueTree ft p0 "colorRedMinimum") ++ optT l.redMax (recordValueTree ft p0 "colorRedMaximum")
     ++ optT l.greenMin (recordValueTree ft p0 "colorGreenMinimum")
     ++ optT l.greenMax (recordValueTree ft p0 "colorGreenMaximum")
     ++ optT l.blueMin (recordValueTree ft p0 "colorBlueMinimum")
     ++ optT l.blueMax (recordValueTree ft p0 "colorBlueMaximum"))

/-! ### prototype entries (src/record.rs) -/

/-- attributes and text of a prototype entry, parallel to `serializeRecordType` -/
def recordTypeTree (ft : FloatText) : DataType → List XAttr × String
  | .single min max =>
    ([tattr "Float", at_ "precision" "single"]
      ++ optT min (fun m => at_ "minimum" (ft.show32 m)) ++ optT max (fun m => at_ "maximum" (ft.show32 m)),
     ft.show32 (min.getD 0))
  | .double min max =>
    ([tattr "Float"]
      ++ optT min (fun m => at_ "minimum" (ft.show64 m)) ++ optT max (fun m => at_ "maximum" (ft.show64 m)),
     ft.show64 (min.getD 0))
  | .scaled min max scale offset =>
    ([tattr "ScaledInteger", at_ "minimum" (toString min), at_ "maximum" (toString max),
      at_ "scale" (ft.show64 scale), at_ "offset" (ft.show64 offset)], toString min)
  | .integer min max =>
    ([tattr "Integer", at_ "minimum" (toString min), at_ "maximum" (toString max)], toString min)

/-- namespace URI and reported prefix of a prototype entry -/
def recordNs (exts : List (String × String)) (name : RecordName) : Option String × Option String :=
  match name.namespace? with
  | some ns =>
    match extUrl exts ns with
    | some url => (some url, lookupPrefix (rootNamespaces exts) url)
    | none => (none, none)   -- unbound prefix: not well-formed, the writer refuses such prototypes
  | none => (some XNode.e57NsUri, e57Prefix exts)

def Record.tree (ft : FloatText) (exts : List (String × String)) (r : Record) : XNode :=
  let (uri, pfx) := recordNs exts r.name
  let (attrs, value) := recordTypeTree ft r.dt
  .elem uri pfx r.name.tagName attrs [.text value]

/-! ### point clouds (src/pointcloud.rs) -/

def pointsTree (ft : FloatText) (exts : List (String × String)) (pc : PointCloud) : XNode :=
  let p0 := e57Prefix exts
  el p0 "points"
    [tattr "CompressedVector", at_ "fileOffset" (toString pc.fileOffset), at_ "recordCount" (toString pc.records)]
    (lines [structT p0 "prototype" (pc.prototype.map (Record.tree ft exts))])

def originalGuidsTree (p0 : Option String) (gs : List String) : XNode :=
  el p0 "originalGuids" [tattr "Vector", at_ "allowHeterogeneousChildren" "0"]
    (lines (gs.map (genStringTree p0 "vectorChild")))

def PointCloud.tree (ft : FloatText) (exts : List (String × String)) (pc : PointCloud) : XNode :=
  let p0 := e57Prefix exts
  structT p0 "vectorChild"
    (optT pc.guid (genStringTree p0 "guid")
     ++ optT pc.originalGuids (originalGuidsTree p0)
     ++ optT pc.cartesianBounds (CartesianBounds.tree ft p0)
     ++ optT pc.sphericalBounds (SphericalBounds.tree ft p0)
     ++ optT pc.indexBounds (IndexBounds.tree p0)
     ++ optT (pc.colorLimits.filter ColorLimits.complete) (ColorLimits.tree ft p0)
     ++ optT (pc.intensityLimits.filter IntensityLimits.complete) (IntensityLimits.tree ft p0)
     ++ optT pc.name (genStringTree p0 "name")
     ++ optT pc.description (genStringTree p0 "description")
     ++ optT pc.sensorVendor (genStringTree p0 "sensorVendor")
     ++ optT pc.sensorModel (genStringTree p0 "sensorModel")
     ++ optT pc.sensorSerial (genStringTree p0 "sensorSerialNumber")
     ++ optT pc.sensorSwVersion (genStringTree p0 "sensorSoftwareVersion")
     ++ optT pc.sensorFwVersion (genStringTree p0 "sensorFirmwareVersion")
     ++ optT pc.sensorHwVersion (genStringTree p0 "sensorHardwareVersion")
     ++ optT pc.transform (fun t => Transform.tree ft p0 t "pose")
     ++ optT pc.acquisitionStart (fun d => DateTime.tree ft p0 d "acquisitionStart")
     ++ optT pc.acquisitionEnd (fun d => DateTime.tree ft p0 d "acquisitionEnd")
     ++ optT pc.temperature (genFloatTree ft p0 "temperature")
     ++ optT pc.humidity (genFloatTree ft p0 "relativeHumidity")
     ++ optT pc.atmosphericPressure (genFloatTree ft p0 "atmosphericPressure")
     ++ [pointsTree ft exts pc])

/-! ### images (src/blob.rs, src/images.rs) -/

def BlobRef.tree (p0 : Option String) (b : BlobRef) (tag : String) : XNode :=
  el p0 tag [tattr "Blob", at_ "fileOffset" (toString b.offset), at_ "length" (toString b.length)] []

def ImageBlob.tree (p0 : Option String) (b : ImageBlob) : XNode :=
  match b.format with
  | .png => BlobRef.tree p0 b.data "pngImage"
  | .jpeg => BlobRef.tree p0 b.data "jpegImage"

def VisualRef.tree (p0 : Option String) (v : VisualRef) : XNode :=
  structT p0 "visualReferenceRepresentation"
    ([ImageBlob.tree p0 v.blob] ++ optT v.mask (fun m => BlobRef.tree p0 m "imageMask")
     ++ [genIntTree p0 "imageWidth" v.width, genIntTree p0 "imageHeight" v.height])

def Pinhole.tree (ft : FloatText) (p0 : Option String) (p : Pinhole) : XNode :=
  structT p0 "pinholeRepresentation"
    ([ImageBlob.tree p0 p.blob] ++ optT p.mask (fun m => BlobRef.tree p0 m "imageMask")
     ++ [genIntTree p0 "imageWidth" p.width, genIntTree p0 "imageHeight" p.height,
         genFloatTree ft p0 "focalLength" p.focalLength,
         genFloatTree ft p0 "pixelWidth" p.pixelWidth, genFloatTree ft p0 "pixelHeight" p.pixelHeight,
         genFloatTree ft p0 "principalPointX" p.principalX, genFloatTree ft p0 "principalPointY" p.principalY])

def SphericalImg.tree (ft : FloatText) (p0 : Option String) (p : SphericalImg) : XNode :=
  structT p0 "sphericalRepresentation"
    ([ImageBlob.tree p0 p.blob] ++ optT p.mask (fun m => BlobRef.tree p0 m "imageMask")
     ++ [genIntTree p0 "imageWidth" p.width, genIntTree p0 "imageHeight" p.height,
         genFloatTree ft p0 "pixelWidth" p.pixelWidth, genFloatTree ft p0 "pixelHeight" p.pixelHeight])

def Cylindrical.tree (ft : FloatText) (p0 : Option String) (p : Cylindrical) : XNode :=
  structT p0 "cylindricalRepresentation"
    ([ImageBlob.tree p0 p.blob] ++ optT p.mask (fun m => BlobRef.tree p0 m "imageMask")
     ++ [genIntTree p0 "imageWidth" p.width, genIntTree p0 "imageHeight" p.height,
         genFloatTree ft p0 cylRadiusTag p.radius,
         genFloatTree ft p0 "principalPointY" p.principalY,
         genFloatTree ft p0 "pixelWidth" p.pixelWidth, genFloatTree ft p0 "pixelHeight" p.pixelHeight])

def Projection.tree (ft : FloatText) (p0 : Option String) : Projection → XNode
  | .pinhole p => Pinhole.tree ft p0 p
  | .spherical s => SphericalImg.tree ft p0 s
  | .cylindrical c => Cylindrical.tree ft p0 c

def Image.tree (ft : FloatText) (p0 : Option String) (i : Image) : XNode :=
  structT p0 "vectorChild"
    (optT i.guid (genStringTree p0 "guid")
     ++ optT i.visualReference (VisualRef.tree p0)
     ++ optT i.projection (Projection.tree ft p0)
     ++ optT i.transform (fun t => Transform.tree ft p0 t "pose")
     ++ optT i.pointcloudGuid (genStringTree p0 "associatedData3DGuid")
     ++ optT i.name (genStringTree p0 "name")
     ++ optT i.description (genStringTree p0 "description")
     ++ optT i.acquisition (fun d => DateTime.tree ft p0 d "acquisitionDateTime")
     ++ optT i.sensorVendor (genStringTree p0 "sensorVendor")
     ++ optT i.sensorModel (genStringTree p0 "sensorModel")
     ++ optT i.sensorSerial (genStringTree p0 "sensorSerialNumber"))

/-! ### the root (src/root.rs) -/

def vectorT (p0 : Option String) (tag : String) (kids : List XNode) : XNode :=
  el p0 tag [tattr "Vector", at_ "allowHeterogeneousChildren" "1"] (lines kids)

/-- the root element of the document `serializeRoot` writes (for a non-empty file GUID) -/
def rootTree (ft : FloatText) (root : Root) (pcs : List PointCloud) (imgs : List Image)
    (exts : List (String × String)) : XNode :=
  let p0 := e57Prefix exts
  structT p0 "e57Root"
    ([genStringTree p0 "formatName" "ASTM E57 3D Imaging Data File",
      genStringTree p0 "guid" root.guid,
      genIntTree p0 "versionMajor" 1,
      genIntTree p0 "versionMinor" 0]
     ++ optT root.coordinateMetadata (genStringTree p0 "coordinateMetadata")
     ++ optT root.libraryVersion (genStringTree p0 "e57LibraryVersion")
     ++ optT root.creation (fun d => DateTime.tree ft p0 d "creationDateTime")
     ++ [vectorT p0 "data3D" (pcs.map (PointCloud.tree ft exts)),
         vectorT p0 "images2D" (imgs.map (Image.tree ft p0))])

/-- the document `serializeRoot` writes; `none` = "Empty file GUID is not allowed" -/
def rootDoc (ft : FloatText) (root : Root) (pcs : List PointCloud) (imgs : List Image)
    (exts : List (String × String)) : Option XDoc :=
  if root.guid.isEmpty then none
  else some ⟨rootTree ft root pcs imgs exts, rootNamespaces exts⟩

/-! ### rendering a tree in the writer's dialect -/

/-- the name as written: prefix, colon, local name -/
def qname (pfx : Option String) (name : String) : String :=
  match pfx with
  | some p => p ++ ":" ++ name
  | none => name

/-- attribute values the writer emits (type names, numbers) are written as they are -/
def renderAttr (a : XAttr) : String := " " ++ a.name ++ "=\"" ++ a.value ++ "\""

def renderAttrs (attrs : List XAttr) : String := String.join (attrs.map renderAttr)

/-- is this the attribute list of a `String` element -/
def isStringTyped (attrs : List XAttr) : Bool :=
  (attrs.find? (fun a => a.ns.isNone && a.name == "type")).map (·.value) == some "String"

mutual
/-- `cd`: we are inside a `String` element, text is written as a CDATA section -/
def render (cd : Bool) : XNode → String
  | .elem _ pfx name attrs [] => "<" ++ qname pfx name ++ renderAttrs attrs ++ "/>"
  | .elem _ pfx name attrs (c :: cs) =>
    "<" ++ qname pfx name ++ renderAttrs attrs ++ ">"
      ++ renderList (isStringTyped attrs) (c :: cs) ++ "</" ++ qname pfx name ++ ">"
  | .text s => if cd then "<![CDATA[" ++ cdataEscape s ++ "]]>" else s
  | .comment => ""
  | .pi => ""
def renderList (cd : Bool) : List XNode → String
  | [] => ""
  | c :: cs => render cd c ++ renderList cd cs
end

/-- an element and the "\n" the writer puts after it -/
def renderLn (n : XNode) : String := render false n ++ "\n"

/-- the namespace declarations of the root element as `serializeRoot` writes them -/
def renderNsDecls (exts : List (String × String)) : String :=
  String.join (exts.map (fun e => "xmlns:" ++ e.1 ++ "=\"" ++ attrEscape e.2 ++ "\" "))
    ++ "xmlns=\"http://www.astm.org/COMMIT/E57/2010-e57-v1.0\""

/-- the whole document: XML declaration, root element with its namespace declarations -/
def renderDoc (exts : List (String × String)) : XNode → String
  | .elem _ pfx name attrs cs =>
    "<?xml version=\"1.0\" encoding=\"UTF-8\"?>\n"
      ++ "<" ++ qname pfx name ++ renderAttrs attrs ++ " " ++ renderNsDecls exts ++ ">"
      ++ renderList false cs ++ "</" ++ qname pfx name ++ ">\n"
  | _ => ""

/-! ### the token dump read by E57/Drv/Reader.lean `parseTree` -/

def hexS (s : String) : String := hexTok (utf8 s)

def oHex (o : Option String) : String :=
  match o with
  | some s => hexS s
  | none => "~"

def attrTokens (a : XAttr) : List String := [oHex a.ns, hexS a.name, hexS a.value]

mutual
/-- `E ns pfx name nattrs (ns name value)* nchildren child*`, `T text`, `C`, `P` -/
def tokens : XNode → List String
  | .elem ns pfx name attrs cs =>
    ["E", oHex ns, oHex pfx, hexS name, toString attrs.length] ++ (attrs.map attrTokens).flatten
      ++ [toString cs.length] ++ tokensList cs
  | .text s => ["T", hexS s]
  | .comment => ["C"]
  | .pi => ["P"]
def tokensList : List XNode → List String
  | [] => []
  | c :: cs => tokens c ++ tokensList cs
end

/-- `TREE <nns> (pfx uri)* <root>` -/
def docTokens (d : XDoc) : List String :=
  ["TREE", toString d.rootNamespaces.length]
    ++ (d.rootNamespaces.map (fun n => [oHex n.1, hexS n.2])).flatten ++ tokens d.root

end E57.MT
