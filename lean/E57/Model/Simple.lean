/-
The simple point iterator: src/pc_reader_simple.rs, src/point.rs.  Float arithmetic is native IEEE
(`Float`, `Float32`; libm for cos/sin/atan2/asin/sqrt); values cross the interface as bit patterns.
Core Lean only.
-/
import E57.Model.Reader
namespace E57

/-- 0 = valid, 1 = direction only, 2 = invalid -/
structure Coord where
  kind : Nat
  a : UInt64 := 0   -- x / range
  b : UInt64 := 0   -- y / azimuth
  c : UInt64 := 0   -- z / elevation
  deriving Repr, BEq, DecidableEq

structure SPoint where
  cartesian : Coord
  spherical : Coord
  color : Option (UInt32 × UInt32 × UInt32)
  intensity : Option UInt32
  row : Int
  column : Int
  deriving Repr, BEq, DecidableEq

structure Options where
  transform : Bool := true
  s2c : Bool := true
  c2s : Bool := false
  i2c : Bool := true
  ni : Bool := true
  nc : Bool := true
  deriving Repr, BEq, DecidableEq

structure Indices where
  cartesian : Option (Nat × Nat × Nat)
  cartesianInvalid : Option Nat
  spherical : Option (Nat × Nat × Nat)
  sphericalInvalid : Option Nat
  color : Option (Nat × Nat × Nat)
  colorInvalid : Option Nat
  intensity : Option Nat
  intensityInvalid : Option Nat
  row : Option Nat
  column : Option Nat
  deriving Repr

def findIndex (p : Prototype) (n : RecordName) : Option Nat := p.findIdx? (fun r => r.name == n)

def triple (a b c : Option Nat) : Option (Nat × Nat × Nat) :=
  match a, b, c with
  | some a, some b, some c => some (a, b, c)
  | _, _, _ => none

def prepareIndices (p : Prototype) : Indices :=
  { cartesian := triple (findIndex p .cartesianX) (findIndex p .cartesianY) (findIndex p .cartesianZ)
    cartesianInvalid := findIndex p .cartesianInvalidState
    spherical := triple (findIndex p .sphericalRange) (findIndex p .sphericalAzimuth) (findIndex p .sphericalElevation)
    sphericalInvalid := findIndex p .sphericalInvalidState
    color := triple (findIndex p .colorRed) (findIndex p .colorGreen) (findIndex p .colorBlue)
    colorInvalid := findIndex p .isColorInvalid
    intensity := findIndex p .intensity
    intensityInvalid := findIndex p .isIntensityInvalid
    row := findIndex p .rowIndex
    column := findIndex p .columnIndex }

/-! ### normalisation ranges

The normalisation arithmetic is written once, over any carrier `F` with IEEE-style operations
(`FloatOps`); the executable model instantiates `F := Float` (native binary64), the theorems of
C13 quantify over every carrier satisfying the IEEE facts they need. -/

class FloatOps (F : Type) where
  zero : F
  half : F                      -- 0.5
  one : F                       -- 1.0
  mul : F → F → F
  sub : F → F → F
  div : F → F → F
  lt : F → F → Bool             -- IEEE `<` (false when either side is NaN)
  isFinite : F → Bool
  toF32Bits : F → UInt32        -- `as f32`, bit pattern

instance : FloatOps Float where
  zero := 0.0
  half := 0.5
  one := 1.0
  mul := (· * ·)
  sub := (· - ·)
  div := (· / ·)
  lt := fun a b => a < b
  isFinite := Float.isFinite
  toF32Bits := fun x => x.toFloat32.toBits

structure RangeG (F : Type) where
  min : F
  max : F
  scale : F
  range : F

open FloatOps in
/-- `Range::from_min_max`: the values of very big ranges are halved to avoid overflow; reversed,
    empty, NaN and infinite ranges are degenerate (everything normalises to 0) -/
def RangeG.fromMinMax {F} [FloatOps F] (min max : F) : RangeG F :=
  let scale := if isFinite (sub max min) then one else half
  let range := sub (mul max scale) (mul min scale)
  if lt zero range && isFinite range then ⟨min, max, scale, range⟩ else ⟨zero, zero, one, zero⟩

open FloatOps in
/-- Rust `f64::clamp` for `min ≤ max`, non-NaN bounds -/
def fclampG {F} [FloatOps F] (v lo hi : F) : F := if lt v lo then lo else if lt hi v then hi else v

open FloatOps in
def RangeG.normalizeF {F} [FloatOps F] (r : RangeG F) (v : F) : F :=
  div (sub (mul (fclampG v r.min r.max) r.scale) (mul r.min r.scale)) r.range

open FloatOps in
def RangeG.normalize {F} [FloatOps F] (r : RangeG F) (v : F) : UInt32 :=
  if !(lt zero r.range) then 0
  else toF32Bits (r.normalizeF v)

abbrev Range := RangeG Float
def Range.fromMinMax (min max : Float) : Range := RangeG.fromMinMax min max
def Range.normalize (r : Range) (v : Float) : UInt32 := RangeG.normalize r v

def f32ToF64 (b : UInt32) : Float := (Float32.ofBits b).toFloat

def f32Max : UInt32 := 0x7F7FFFFF
def f32Min : UInt32 := 0xFF7FFFFF
def f64Max : UInt64 := 0x7FEFFFFFFFFFFFFF
def f64Min : UInt64 := 0xFFEFFFFFFFFFFFFF

/-- `Range::limit_value`: the real value a limit stands for; a scaled-integer limit is a raw value of the
    attribute's data type -/
def limitValue (v : Value) (dt : Option DataType) : Option Float :=
  match v with
  | .double a => some (Float.ofBits a)
  | .single a => some (f32ToF64 a)
  | .integer a => some (i64ToFloat a)
  | .scaled a =>
    match dt with
    | some (.scaled _ _ scale offset) => some (i64ToFloat a * Float.ofBits scale + Float.ofBits offset)
    | _ => none

def Range.fromLimits (mn mx : Option Value) (dt : Option DataType) : Option Range :=
  match mn.bind (limitValue · dt), mx.bind (limitValue · dt) with
  | some a, some b => some (Range.fromMinMax a b)
  | _, _ => none

def Range.fromDataType : DataType → Range
  | .single mn mx => Range.fromMinMax (f32ToF64 (mn.getD f32Min)) (f32ToF64 (mx.getD f32Max))
  | .double mn mx => Range.fromMinMax (Float.ofBits (mn.getD f64Min)) (Float.ofBits (mx.getD f64Max))
  | .scaled mn mx scale offset =>
    Range.fromMinMax (i64ToFloat mn * Float.ofBits scale + Float.ofBits offset)
      (i64ToFloat mx * Float.ofBits scale + Float.ofBits offset)
  | .integer mn mx => Range.fromMinMax (i64ToFloat mn) (i64ToFloat mx)

def rangeFor (limits : Option (Option Value × Option Value)) (p : Prototype) (n : RecordName) : Option Range :=
  let rec? := p.find? (fun r => r.name == n)
  match limits.bind (fun (a, b) => Range.fromLimits a b (rec?.map (·.dt))) with
  | some r => some r
  | none => rec?.map (fun r => Range.fromDataType r.dt)

/-! ### the iterator -/

structure SimpleIter where
  pc : PointCloud
  q : QR
  opts : Options
  rotation : Array Float
  translation : Float × Float × Float
  indices : Indices
  read : Nat
  points : List SPoint
  buffer : List SPoint
  intensityRange : Option Range
  redRange : Option Range
  greenRange : Option Range
  blueRange : Option Range

def prepareTransform (pc : PointCloud) : Array Float × (Float × Float × Float) :=
  let t : Transform := pc.transform.getD ⟨f64One, 0, 0, 0, 0, 0, 0⟩
  let w := Float.ofBits t.rw; let x := Float.ofBits t.rx; let y := Float.ofBits t.ry; let z := Float.ofBits t.rz
  (#[ w * w + x * x - y * y - z * z,
      2.0 * (x * y + w * z),
      2.0 * (x * z - w * y),
      2.0 * (x * y - w * z),
      w * w + y * y - x * x - z * z,
      2.0 * (y * z + w * x),
      2.0 * (x * z + w * y),
      2.0 * (y * z - w * x),
      w * w + z * z - x * x - y * y ],
   (Float.ofBits t.tx, Float.ofBits t.ty, Float.ofBits t.tz))

/-- `PointCloudReaderSimple::new` -/
def SimpleIter.new (pc : PointCloud) (r : PR) : PR × Option SimpleIter :=
  match QR.new pc r with
  | (r1, none) => (r1, none)
  | (r1, some q) =>
    let (rot, tr) := prepareTransform pc
    let il := pc.intensityLimits.map (fun l => (l.min, l.max))
    let cl := pc.colorLimits
    (r1, some {
      pc := pc, q := q, opts := {}, rotation := rot, translation := tr,
      indices := prepareIndices pc.prototype, read := 0, points := [], buffer := [],
      intensityRange := rangeFor il pc.prototype .intensity,
      redRange := rangeFor (cl.map (fun l => (l.redMin, l.redMax))) pc.prototype .colorRed,
      greenRange := rangeFor (cl.map (fun l => (l.greenMin, l.greenMax))) pc.prototype .colorGreen,
      blueRange := rangeFor (cl.map (fun l => (l.blueMin, l.blueMax))) pc.prototype .colorBlue })

def normalizeValue (enabled : Bool) (v : UInt64) (range : Option Range) : UInt32 :=
  if enabled then
    match range with
    | some r => r.normalize (Float.ofBits v)
    | none => 0
  else (Float.ofBits v).toFloat32.toBits

/-- value `i` as f64 / i64; `none` = the Rust code returns an error (or would index out of range) -/
def valF64 (p : Prototype) (vs : List Value) (i : Nat) : Option UInt64 := do
  let v ← vs[i]?
  let r ← p[i]?
  v.toF64 r.dt

def valI64 (p : Prototype) (vs : List Value) (i : Nat) : Option Int := do
  let v ← vs[i]?
  let r ← p[i]?
  v.toI64 r.dt

/-- `pop_point` after the raw values have been popped: the documented view of one raw point
    (before the post-processing passes) -/
def viewPoint (it : SimpleIter) (vs : List Value) : Option SPoint := do
  let p := it.pc.prototype
  let ix := it.indices
  let cinv ← match ix.cartesianInvalid with
    | some i => valI64 p vs i
    | none => pure (if ix.cartesian.isSome then 0 else 2)
  let cartesian ← match ix.cartesian with
    | some (a, b, c) =>
      if cinv == 0 then do pure (⟨0, ← valF64 p vs a, ← valF64 p vs b, ← valF64 p vs c⟩ : Coord)
      else if cinv == 1 then do pure (⟨1, ← valF64 p vs a, ← valF64 p vs b, ← valF64 p vs c⟩ : Coord)
      else if cinv == 2 then pure ⟨2, 0, 0, 0⟩
      else none
    | none => pure ⟨2, 0, 0, 0⟩
  let sinv ← match ix.sphericalInvalid with
    | some i => valI64 p vs i
    | none => pure (if ix.spherical.isSome then 0 else 2)
  let spherical ← match ix.spherical with
    | some (a, b, c) =>
      if sinv == 0 then do pure (⟨0, ← valF64 p vs a, ← valF64 p vs b, ← valF64 p vs c⟩ : Coord)
      else if sinv == 1 then do pure (⟨1, 0, ← valF64 p vs b, ← valF64 p vs c⟩ : Coord)
      else if sinv == 2 then pure ⟨2, 0, 0, 0⟩
      else none
    | none => pure ⟨2, 0, 0, 0⟩
  let colinv ← match ix.colorInvalid with
    | some i => valI64 p vs i
    | none => pure (if ix.color.isSome then 0 else 1)
  let color ← match ix.color with
    | some (a, b, c) =>
      if colinv == 0 then do
        pure (some (normalizeValue it.opts.nc (← valF64 p vs a) it.redRange,
                    normalizeValue it.opts.nc (← valF64 p vs b) it.greenRange,
                    normalizeValue it.opts.nc (← valF64 p vs c) it.blueRange))
      else if colinv == 1 then pure none
      else none
    | none => pure none
  let iinv ← match ix.intensityInvalid with
    | some i => valI64 p vs i
    | none => pure (if ix.intensity.isSome then 0 else 1)
  let intensity ← match ix.intensity with
    | some i =>
      if iinv == 0 then do pure (some (normalizeValue it.opts.ni (← valF64 p vs i) it.intensityRange))
      else if iinv == 1 then pure none
      else none
    | none => pure none
  let row ← match ix.row with
    | some i => valI64 p vs i
    | none => pure (-1)
  let column ← match ix.column with
    | some i => valI64 p vs i
    | none => pure (-1)
  pure ⟨cartesian, spherical, color, intensity, row, column⟩

def convertToCartesian (p : SPoint) : SPoint :=
  if p.cartesian.kind == 0 then p
  else if p.spherical.kind == 0 then
    let range := Float.ofBits p.spherical.a
    let az := Float.ofBits p.spherical.b
    let el := Float.ofBits p.spherical.c
    let ce := Float.cos el
    { p with cartesian := ⟨0, (range * ce * Float.cos az).toBits, (range * ce * Float.sin az).toBits,
                           (range * Float.sin el).toBits⟩ }
  else if p.cartesian.kind == 1 then p
  else if p.spherical.kind == 1 then
    let az := Float.ofBits p.spherical.b
    let el := Float.ofBits p.spherical.c
    let ce := Float.cos el
    { p with cartesian := ⟨1, (1.0 * ce * Float.cos az).toBits, (1.0 * ce * Float.sin az).toBits,
                           (1.0 * Float.sin el).toBits⟩ }
  else p

def convertToSpherical (p : SPoint) : SPoint :=
  if p.spherical.kind == 0 then p
  else if p.cartesian.kind == 0 then
    let x := Float.ofBits p.cartesian.a
    let y := Float.ofBits p.cartesian.b
    let z := Float.ofBits p.cartesian.c
    let r := Float.sqrt (x * x + y * y + z * z)
    { p with spherical := ⟨0, r.toBits, (Float.atan2 y x).toBits, (Float.asin (z / r)).toBits⟩ }
  else if p.spherical.kind == 1 then p
  else if p.cartesian.kind == 1 then
    let x := Float.ofBits p.cartesian.a
    let y := Float.ofBits p.cartesian.b
    let z := Float.ofBits p.cartesian.c
    { p with spherical := ⟨1, 0, (Float.atan2 y x).toBits,
                           (Float.asin (z / Float.sqrt (x * x + y * y + z * z))).toBits⟩ }
  else p

def convertIntensity (p : SPoint) : SPoint :=
  if p.color.isSome then p
  else match p.intensity with
    | some i => { p with color := some (i, i, i) }
    | none => p

def transformPoint (rot : Array Float) (tr : Float × Float × Float) (p : SPoint) : SPoint :=
  if p.cartesian.kind == 0 then
    let x := Float.ofBits p.cartesian.a
    let y := Float.ofBits p.cartesian.b
    let z := Float.ofBits p.cartesian.c
    let r (i : Nat) : Float := rot[i]!
    let nx := r 0 * x + r 3 * y + r 6 * z
    let ny := r 1 * x + r 4 * y + r 7 * z
    let nz := r 2 * x + r 5 * y + r 8 * z
    { p with cartesian := ⟨0, (nx + tr.1).toBits, (ny + tr.2.1).toBits, (nz + tr.2.2).toBits⟩ }
  else p

/-- the four post-processing passes over a batch -/
def postProcess (it : SimpleIter) (batch : List SPoint) : List SPoint :=
  let b := if it.opts.s2c then batch.map convertToCartesian else batch
  let b := if it.opts.c2s then b.map convertToSpherical else b
  let b := if it.opts.i2c then b.map convertIntensity else b
  -- without a pose there is nothing to apply (multiplying with the identity is not neutral for floats:
  -- it turns -0.0 into 0.0 and finite values next to an infinite one into NaN)
  if it.opts.transform && it.pc.transform.isSome then b.map (transformPoint it.rotation it.translation) else b

/-- pop `n` raw points and view them; stops at the first point whose view fails
    (that point is consumed, the ones before it stay in the batch buffer) -/
def popBatch (it : SimpleIter) : Nat → QR → List SPoint → QR × List SPoint × Bool
  | 0, q, acc => (q, acc.reverse, true)
  | n + 1, q, acc =>
    match q.popPoint with
    | none => (q, acc.reverse, false)
    | some (vs, q') =>
      match viewPoint it vs with
      | some p => popBatch it n q' (p :: acc)
      | none => (q', acc.reverse, false)

/-- `PointCloudReaderSimple::next` -/
def SimpleIter.next (it : SimpleIter) (r : PR) : PR × SimpleIter × Item SPoint :=
  if it.read ≥ it.pc.records then (r, it, .done) else
  match it.points with
  | p :: rest => (r, { it with points := rest, read := it.read + 1 }, .value p)
  | [] =>
    match refill (refillFuel r) it.q r with
    | (r1, q1, false) => (r1, { it with q := q1 }, .error)
    | (r1, q1, true) =>
      let (q2, batch, ok) := popBatch it q1.available q1 []
      let it1 := { it with q := q2, buffer := it.buffer ++ batch }
      if !ok then (r1, it1, .error) else
      match postProcess it1 it1.buffer with
      | p :: rest => (r1, { it1 with buffer := [], points := rest, read := it1.read + 1 }, .value p)
      | [] => (r1, { it1 with buffer := [] }, .error)

end E57
