/- Line protocol of engine "spec": the independent decoder/validator on files (C02). Driver glue. -/
import E57.Spec.Decoder
import E57.Drv.Reader
namespace E57.Drv
open E57

def parsePairs : List String → Option (List (Nat × Nat))
  | [] => some []
  | t :: rest =>
    match t.splitOn ":" with
    | [a, b] => do
      let r ← parsePairs rest
      some ((← a.toNat?, ← b.toNat?) :: r)
    | _ => none

def specLine (toks : List String) : String :=
  match toks with
  | "sd" :: fileHex :: xmlRef :: rest =>
    match bytesOfHex fileHex, parseTree rest with
    | some file, some (doc, rest) =>
      match parseFp rest with
      | some (fp, "|" :: extra) =>
        match doc, bytesOfHex xmlRef, parsePairs (extra.takeWhile (· ≠ "##")) with
        | some doc, some xml, some extraBlobs =>
          match Spec.decodeFile file xml doc fp extraBlobs with
          | .error e => s!"INVALID {hexS e}"
          | .ok d =>
            let leaves := (d.leaves.map (fun l => s!"{hexS l.path}:{l.ty}={l.value}")).mergeSort (fun a b => decide (a ≤ b))
            let clouds := d.clouds.map (fun (p, pts) => s!"{hexS p}=" ++ ";".intercalate (pts.map (fun vs => ",".intercalate vs)))
            let blobs := (d.blobs.map (fun (p, b) => s!"{hexS p}={b.length}:{(fnv b).toNat}")).mergeSort (fun a b => decide (a ≤ b))
            s!"VALID | L {joinSp leaves} | C {joinSp clouds} | B {joinSp blobs}"
        | _, _, _ => "INVALID " ++ hexS "the XML section cannot be extracted or parsed"
      | _ => "BADCASE"
    | _, _ => "BADCASE"
  | _ => "BADCASE"

end E57.Drv
