/- Line protocol of engine "pages" (harness/src/eng_pages.rs). Driver glue. -/
import E57.Model.Pages
import E57.Drv.Bits
namespace E57.Drv
open E57

def fnv (b : Bytes) : UInt64 :=
  b.foldl (fun h x => (h ^^^ x.toUInt64) * 0x100000001b3) 0xcbf29ce484222325

/-- generated data: n bytes, byte i = (seed + 7 i) mod 251 -/
def genData (n seed : Nat) : Bytes := (List.range n).map (fun i => UInt8.ofNat ((seed + 7 * i) % 251))

def devTok (d : Dev) : String := s!"{d.data.length}:{(fnv d.data).toNat}"

def parseData (tok : String) : Option Bytes :=
  -- "w:<hex>" or "g<n>:<seed>"
  if tok.startsWith "w:" then bytesOfHex (tok.drop 2).toString
  else if tok.startsWith "g" then
    match (tok.drop 1).toString.splitOn ":" with
    | [n, s] => do some (genData (← n.toNat?) (← s.toNat?))
    | _ => none
  else none

def runPw : List String → PW → List String → List String
  | [], _, acc => acc.reverse
  | op :: ops, w, acc =>
    if op == "f" then
      let w' := w.flush
      runPw ops w' (s!".@{devTok w'.dev}" :: acc)
    else if op == "a" then
      match w.align with
      | .ok w' => runPw ops w' (s!".@{devTok w'.dev}" :: acc)
      | _ => ("PANIC" :: acc).reverse
    else if op == "p" then runPw ops w (toString w.physicalPosition :: acc)
    else if op == "z" then
      let (w', n) := w.physicalSize
      runPw ops w' (s!"{n}@{devTok w'.dev}" :: acc)
    else if op == "D" then runPw ops w (hexTok w.dev.data :: acc)
    else if op.startsWith "s" then
      match (op.drop 1).toString.toNat? with
      | some p =>
        let (w', ok) := w.physicalSeek p
        runPw ops w' ((if ok then s!".@{devTok w'.dev}" else s!"err@{devTok w'.dev}") :: acc)
      | none => ("BADCASE" :: acc).reverse
    else match parseData op with
      | some d =>
        match w.writeAll d with
        | .ok w' => runPw ops w' (s!".@{devTok w'.dev}" :: acc)
        | _ => ("PANIC" :: acc).reverse
      | none => ("BADCASE" :: acc).reverse

def runPr : List String → PR → List String → List String
  | [], _, acc => acc.reverse
  | op :: ops, r, acc =>
    if op == "a" then
      match r.align with
      | .ok r' => runPr ops r' ("." :: acc)
      | _ => runPr ops r ("err" :: acc)
    else if op.startsWith "s" then
      match (op.drop 1).toString.toNat? with
      | some p =>
        match r.seekPhysical p with
        | .ok (r', o) => runPr ops r' (toString o :: acc)
        | _ => runPr ops r ("err" :: acc)
      | none => ("BADCASE" :: acc).reverse
    else if op.startsWith "r" then
      match (op.drop 1).toString.toNat? with
      | some n =>
        match r.read n with
        | .ok (r', bs) => runPr ops r' (hexTok bs :: acc)
        | _ => runPr ops r.readFailState ("err" :: acc)
      | none => ("BADCASE" :: acc).reverse
    else if op.startsWith "x" then
      match (op.drop 1).toString.toNat? with
      | some n =>
        match r.readExact n with
        | (r', some bs) => runPr ops r' (hexTok bs :: acc)
        | (r', none) => runPr ops r' ("err" :: acc)
      | none => ("BADCASE" :: acc).reverse
    else ("BADCASE" :: acc).reverse

/-- apply `pos:xx` xor-alterations -/
def applyAlter (d : Bytes) (spec : String) : Option Bytes :=
  if spec == "-" then some d else
  (spec.splitOn ",").foldlM (fun (acc : Bytes) item =>
    match item.splitOn ":" with
    | [p, m] => do
      let p ← p.toNat?
      let m ← bytesOfHex m
      match m, acc[p]? with
      | [x], some old => some (acc.set p (old ^^^ x))
      | _, _ => none
    | _ => none) d

/-- the logical stream of the damage cases: generated data with the page size (1024) at bytes 40..48 -/
def dmLogical (pages seed : Nat) : Bytes :=
  let d := genData (pages * 1020) seed
  d.take 40 ++ toLE 1024 8 ++ d.drop 48

/-- paged image built by the model's own sealing function -/
partial def imageOf (d : Bytes) (acc : Bytes) : Bytes :=
  if d.isEmpty then acc else imageOf (d.drop 1020) (acc ++ sealPage (d.take 1020 ++ zeros 4))

def pagesLine (toks : List String) : String :=
  match toks with
  | "pw" :: ops =>
    match PW.new Dev.empty with
    | .ok w => joinSp (runPw ops w [])
    | _ => "NEWERR"
  | "pwne" :: hex :: _ =>
    match bytesOfHex hex with
    | some d => (match PW.new ⟨d, 0⟩ with | .ok _ => "ok" | _ => "err")
    | none => "BADCASE"
  | "pr" :: ps :: hex :: ops =>
    match ps.toNat?, bytesOfHex hex with
    | some ps, some d =>
      match PR.new ⟨d, 0⟩ ps with
      | .ok r => joinSp ("ok" :: runPr ops r [])
      | _ => "err"
    | _, _ => "BADCASE"
  | "dm" :: pages :: seed :: alter :: ops =>
    match pages.toNat?, seed.toNat? with
    | some pages, some seed =>
      match applyAlter (imageOf (dmLogical pages seed) []) alter with
      | some dev =>
        let v := match validateCrc ⟨dev, 0⟩ with
          | some ps => s!"V{ps}"
          | none => "Verr"
        match PR.new ⟨dev, 0⟩ 1024 with
        | .ok r => joinSp (v :: "ok" :: runPr ops r [])
        | _ => joinSp [v, "err"]
      | none => "BADCASE"
    | _, _ => "BADCASE"
  | ["crc", hex] =>
    match bytesOfHex hex with
    | some d => toString (crc32c d).toNat
    | none => "BADCASE"
  | _ => "BADCASE"

end E57.Drv
