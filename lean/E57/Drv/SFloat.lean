/- Line protocol of engine "sfloat": the soft-float model of binary64/binary32 (E57/Model/SoftFloat.lean)
   against the hardware arithmetic the crate runs on, and the generic normalisation instantiated with
   the soft-float carrier against the crate's real `Range::normalize`. Driver glue. -/
import E57.Model.SoftFloat
import E57.Drv.Bits
namespace E57.Drv
open E57

def u64? (s : String) : Option UInt64 := s.toNat?.map UInt64.ofNat

/-- one line in, one line out:
    `op mul|sub|div a b` → bits, `op lt a b` → 0/1, `op fin a` → 0/1, `op cast a` → f32 bits,
    `op ofint i` → bits, `op mul32 a b` → f32 bits, `op u8 a` → 0..255,
    `norm min max v` → f32 bits of `Range::from_min_max(min, max).normalize(v)` over the soft floats -/
def sfloatLine (toks : List String) : String :=
  match toks with
  | ["op", "mul", a, b] => match u64? a, u64? b with
    | some a, some b => toString (SF.mul a b).toNat | _, _ => "BADCASE"
  | ["op", "sub", a, b] => match u64? a, u64? b with
    | some a, some b => toString (SF.sub a b).toNat | _, _ => "BADCASE"
  | ["op", "div", a, b] => match u64? a, u64? b with
    | some a, some b => toString (SF.div a b).toNat | _, _ => "BADCASE"
  | ["op", "lt", a, b] => match u64? a, u64? b with
    | some a, some b => if SF.lt a b then "1" else "0" | _, _ => "BADCASE"
  | ["op", "fin", a] => match u64? a with
    | some a => if SF.isFinite a then "1" else "0" | _ => "BADCASE"
  | ["op", "cast", a] => match u64? a with
    | some a => toString (SF.toF32Bits a).toNat | _ => "BADCASE"
  | ["op", "ofint", i] => match i.toInt? with
    | some i => toString (SF.ofInt i).toNat | _ => "BADCASE"
  | ["op", "mul32", a, b] => match a.toNat?, b.toNat? with
    | some a, some b => toString (SF.mul32 (UInt32.ofNat a) (UInt32.ofNat b)).toNat | _, _ => "BADCASE"
  | ["op", "u8", a] => match a.toNat? with
    | some a => toString (SF.f32ToU8 (UInt32.ofNat a)) | _ => "BADCASE"
  | ["norm", mn, mx, v] => match u64? mn, u64? mx, u64? v with
    | some mn, some mx, some v =>
      let r : RangeG SF.SF64 := RangeG.fromMinMax ⟨mn⟩ ⟨mx⟩
      toString (r.normalize ⟨v⟩).toNat
    | _, _, _ => "BADCASE"
  | _ => "BADCASE"

end E57.Drv
