/- Line protocol of engine "devio": the device-level model of the page layer (E57/Model/DevIO.lean)
   under a per-call schedule of short transfers, interruptions and failures. Driver glue. -/
import E57.Model.DevIO
import E57.Spec.LogStream
import E57.Drv.Pages
namespace E57.Drv
open E57 E57.DIO

def parseBeh (s : String) : Option Beh :=
  if s == "F" then some .full
  else if s == "X" then some .fail
  else if s == "I" then some .interrupted
  else if s.startsWith "S" then (s.drop 1).toString.toNat?.map .short
  else none

def parseWOp (s : String) : Option Op :=
  if s == "f" then some .flush
  else if s == "a" then some .align
  else if s == "p" then some .position
  else if s == "z" then some .size
  else if s.startsWith "s" then (s.drop 1).toString.toNat?.map .seek
  else (parseData s).map .write

def resTok : Result → String
  | .ok n => s!"ok:{n}"
  | .err _ => "err"
  | .panic => "panic"

def parseROp (s : String) : Option ROp :=
  if s == "a" then some .align
  else if s.startsWith "s" then (s.drop 1).toString.toNat?.map .seek
  else if s.startsWith "x" then (s.drop 1).toString.toNat?.map .readExact
  else if s.startsWith "r" then (s.drop 1).toString.toNat?.map .read
  else none

def rresTok (op : ROp) : RResult → String
  | .bytes b => match op with
    | .readExact _ => s!"ok:{(fnv b).toNat}"
    | _ => s!"ok:{b.length}:{(fnv b).toNat}"
  | .num _ => "ok"
  | .err _ => "err"
  | .panic => "panic"

def devioLine (toks : List String) : String :=
  match toks with
  | kind :: ns :: rest =>
    match ns.toNat? with
    | none => "BADCASE"
    | some n =>
      match (rest.take n).mapM parseBeh, rest.drop n with
      | some sched, "|" :: ops =>
        if kind == "dw" then
          match ops.mapM parseWOp with
          | none => "BADCASE"
          | some wops =>
            let (rs, d) := FPW.run wops ⟨Dev.empty, sched⟩
            match rs with
            | [.err _] => s!"err | {devTok d.dev} {d.sched.length}"
            | _ => s!"{joinSp (rs.map resTok)} | {devTok d.dev} {d.sched.length}"
        else if kind == "dr" then
          match ops with
          | pages :: seed :: rops =>
            match pages.toNat?, seed.toNat?, rops.mapM parseROp with
            | some pages, some seed, some rops =>
              let file := Spec.image (genData (pages * 1020) seed)
              let (xs, d) := FPR.run 1024 rops ⟨⟨file, 0⟩, sched⟩
              match xs with
              | [.err _] => s!"err | {d.sched.length}"
              | _ =>
                let toks := match xs with
                  | _ :: tl => "ok" :: (List.zipWith rresTok rops tl)
                  | [] => []
                s!"{joinSp toks} | {d.sched.length}"
            | _, _, _ => "BADCASE"
          | _ => "BADCASE"
        else "BADCASE"
      | _, _ => "BADCASE"
  | _ => "BADCASE"

end E57.Drv
