/- Line protocol of engine "bits" (see harness/src/eng_bits.rs). Driver glue, not part of the model. -/
import E57.Model.Bits
namespace E57.Drv
open E57

def joinSp (l : List String) : String := " ".intercalate l

def decList (l : List Int) : String :=
  if l.isEmpty then "-" else ",".intercalate (l.map toString)

def decListN (l : List Nat) : String :=
  if l.isEmpty then "-" else ",".intercalate (l.map toString)

/-- run write-buffer ops; output tokens accumulate in reverse -/
def runBw : List String → WBuf → List String → List String
  | [], _, acc => acc.reverse
  | op :: ops, w, acc =>
    if op == "f" then
      let (d, w') := w.getFullBytes
      runBw ops w' (hexTok d :: acc)
    else if op == "a" then
      let (d, w') := w.getAllBytes
      runBw ops w' (hexTok d :: acc)
    else if op.startsWith "y:" then
      match bytesOfHex (op.drop 2).toString with
      | none => ("BADCASE" :: acc).reverse
      | some d =>
        match w.addBytes d with
        | .ok w' => runBw ops w' ("." :: acc)
        | _ => ("PANIC" :: acc).reverse
    else if op.startsWith "b" then
      match (op.drop 1).toString.splitOn ":" with
      | [bits, data] =>
        match bits.toNat?, bytesOfHex data with
        | some n, some d =>
          match w.addBits d n with
          | .ok w' => runBw ops w' ("." :: acc)
          | _ => ("PANIC" :: acc).reverse
        | _, _ => ("BADCASE" :: acc).reverse
      | _ => ("BADCASE" :: acc).reverse
    else ("BADCASE" :: acc).reverse

def runBr : List String → RBuf → List String → List String
  | [], _, acc => acc.reverse
  | op :: ops, r, acc =>
    if op == "v" then
      match r.available with
      | .ok n => runBr ops r (toString n :: acc)
      | _ => ("PANIC" :: acc).reverse
    else if op.startsWith "a:" then
      match bytesOfHex (op.drop 2).toString with
      | none => ("BADCASE" :: acc).reverse
      | some d =>
        match r.append d with
        | .ok r' => runBr ops r' ("." :: acc)
        | _ => ("PANIC" :: acc).reverse
    else if op.startsWith "x" then
      match (op.drop 1).toString.toNat? with
      | none => ("BADCASE" :: acc).reverse
      | some bits =>
        match r.extract bits with
        | .ok (none, r') => runBr ops r' ("none" :: acc)
        | .ok (some v, r') => runBr ops r' (toString v :: acc)
        | _ => ("PANIC" :: acc).reverse
    else ("BADCASE" :: acc).reverse

def runUi (min max : Int) : List String → RBuf → List String → List String
  | [], _, acc => acc.reverse
  | c :: cs, r, acc =>
    match bytesOfHex c with
    | none => ("BADCASE" :: acc).reverse
    | some d =>
      match r.append d with
      | .ok r1 =>
        match unpackInts r1 min max with
        | .ok (vs, r2) => runUi min max cs r2 (decList vs :: acc)
        | _ => ("PANIC" :: acc).reverse
      | _ => ("PANIC" :: acc).reverse

def runUf (bits : Nat) : List String → RBuf → List String → List String
  | [], _, acc => acc.reverse
  | c :: cs, r, acc =>
    match bytesOfHex c with
    | none => ("BADCASE" :: acc).reverse
    | some d =>
      match r.append d with
      | .ok r1 =>
        match unpackFixed bits r1 with
        | .ok (vs, r2) => runUf bits cs r2 (decListN vs :: acc)
        | _ => ("PANIC" :: acc).reverse
      | _ => ("PANIC" :: acc).reverse

inductive Dt where
  | int (min max : Int) | scaled (min max : Int) | f32 | f64

def Dt.parse (s : String) : Option Dt :=
  match s.splitOn ":" with
  | ["I", a, b] => do some (Dt.int (← a.toInt?) (← b.toInt?))
  | ["S", a, b] => do some (Dt.scaled (← a.toInt?) (← b.toInt?))
  | ["F32"] => some .f32
  | ["F64"] => some .f64
  | _ => none

def Dt.width : Dt → Nat
  | .int a b | .scaled a b => integerBits a b
  | .f32 => 32
  | .f64 => 64

/-- record.rs `RecordDataType::write` for a value of the matching kind -/
def Dt.write (d : Dt) (v : Int) (w : WBuf) : Outcome WBuf :=
  match d with
  | .int a b | .scaled a b => serializeInteger v a b w
  | .f32 => w.addBytes (toLE v.toNat 4)
  | .f64 => w.addBytes (toLE v.toNat 8)

def rtWrite (d : Dt) : List Int → List Char → WBuf → List Bytes → Outcome (List Bytes)
  | [], _, w, acc => .ok ((w.getAllBytes.1 :: acc).reverse)
  | v :: vs, cuts, w, acc =>
    match d.write v w with
    | .ok w1 =>
      match cuts with
      | '1' :: cs =>
        let (p, w2) := w1.getFullBytes
        rtWrite d vs cs w2 (p :: acc)
      | _ :: cs => rtWrite d vs cs w1 acc
      | [] => rtWrite d vs [] w1 acc
    | .err e => .err e
    | .panic s => .panic s

def rtRead (d : Dt) : List Bytes → RBuf → List String → Outcome (List String)
  | [], _, acc => .ok acc.reverse
  | p :: ps, r, acc =>
    match r.append p with
    | .ok r1 =>
      match d with
      | .int a b | .scaled a b =>
        match unpackInts r1 a b with
        | .ok (vs, r2) => rtRead d ps r2 ((vs.map toString).reverse ++ acc)
        | .err e => .err e
        | .panic s => .panic s
      | .f32 =>
        match unpackFixed 32 r1 with
        | .ok (vs, r2) => rtRead d ps r2 ((vs.map toString).reverse ++ acc)
        | .err e => .err e
        | .panic s => .panic s
      | .f64 =>
        match unpackFixed 64 r1 with
        | .ok (vs, r2) => rtRead d ps r2 ((vs.map toString).reverse ++ acc)
        | .err e => .err e
        | .panic s => .panic s
    | .err e => .err e
    | .panic s => .panic s

def runRt (toks : List String) : String :=
  match toks with
  | dts :: ns :: rest =>
    match Dt.parse dts, ns.toNat? with
    | some d, some n =>
      let vals := (rest.take n).filterMap String.toInt?
      let cuts := ((rest.drop n).headD "").toList
      if vals.length ≠ n then "BADCASE" else
      match rtWrite d vals cuts WBuf.new [] with
      | .ok pieces =>
        let ps := joinSp (pieces.map hexTok) ++ " |"
        if d.width = 0 then ps ++ " zw"
        else match rtRead d pieces RBuf.new [] with
          | .ok vs => if vs.isEmpty then ps else ps ++ " " ++ joinSp vs
          | _ => ps ++ " PANIC"
      | _ => "PANIC"
    | _, _ => "BADCASE"
  | _ => "BADCASE"

def bitsLine (toks : List String) : String :=
  match toks with
  | "bw" :: ops => joinSp (runBw ops WBuf.new [])
  | "br" :: ops => joinSp (runBr ops RBuf.new [])
  | ["ib", a, b] =>
    match a.toInt?, b.toInt? with
    | some a, some b => toString (integerBits a b)
    | _, _ => "BADCASE"
  | "ui" :: a :: b :: cs | "us" :: a :: b :: cs =>
    match a.toInt?, b.toInt? with
    | some a, some b => joinSp (runUi a b cs RBuf.new [])
    | _, _ => "BADCASE"
  | "uf" :: n :: cs =>
    match n.toNat? with
    | some n => joinSp (runUf n cs RBuf.new [])
    | none => "BADCASE"
  | "rt" :: rest => runRt rest
  | _ => "BADCASE"

end E57.Drv
