/- Line protocol of engine "enc": the specification encoder (C03 inputs). Driver glue. -/
import E57.Spec.Encoder
import E57.Drv.Writer
namespace E57.Drv
open E57 E57.Spec

def parseRecType (s : String) : Option RecType :=
  match s.splitOn ":" with
  | ["f32"] => some .f32
  | ["f64"] => some .f64
  | ["i", a, b] => do some (.int (← a.toInt?) (← b.toInt?))
  | _ => none

def parsePacket (s : String) : Option PacketSpec :=
  match s.splitOn ":" with
  | ["D", lens] => do
    let ls ← (if lens == "-" then some [] else (lens.splitOn ",").mapM String.toNat?)
    some (.data ls)
  | ["I", n] => n.toNat?.map .index
  | ["X", n] => n.toNat?.map .ignored
  | _ => none

partial def chunksOf {α} (n : Nat) (l : List α) (acc : List (List α)) : List (List α) :=
  if n = 0 || l.isEmpty then acc.reverse else chunksOf n (l.drop n) (l.take n :: acc)

partial def parseSections : Nat → List String → List SectionSpec → Option (List SectionSpec × List String)
  | 0, rest, acc => some (acc.reverse, rest)
  | k + 1, "B" :: d :: rest, acc => do
    parseSections k rest (.blob (← parseData d) :: acc)
  | k + 1, "G" :: n :: rest, acc => do
    parseSections k rest (.gap (← n.toNat?) :: acc)
  | k + 1, "V" :: nrec :: rest, acc => do
    let nrec ← nrec.toNat?
    let types ← (rest.take nrec).mapM parseRecType
    match rest.drop nrec with
    | npts :: rest =>
      let npts ← npts.toNat?
      let vals ← (rest.take (nrec * npts)).mapM String.toInt?
      match rest.drop (nrec * npts) with
      | npk :: rest =>
        let npk ← npk.toNat?
        let pks ← (rest.take npk).mapM parsePacket
        let points := if nrec = 0 then List.replicate npts [] else chunksOf nrec vals []
        parseSections k (rest.drop npk) (.cv types points pks :: acc)
      | [] => none
    | [] => none
  | _, _, _ => none

def encLine (toks : List String) : String :=
  match toks with
  | "enc" :: xmlPos :: tmpl :: n :: rest =>
    match xmlPos.toNat?, strOfHex tmpl, n.toNat? with
    | some xp, some t, some n =>
      match parseSections n rest [] with
      | some (secs, _) =>
        -- a gap of the marker size is resized so that the logical length becomes a multiple of 1020
        let isFit := fun (s : SectionSpec) => match s with | .gap 999999937 => true | _ => false
        let secs0 := secs.map (fun s => if isFit s then SectionSpec.gap 0 else s)
        let l := logicalLength secs0 t xp
        let n := (1020 - l % 1020) % 1020
        let secs := secs.map (fun s => if isFit s then SectionSpec.gap n else s)
        hexTok (encodeFile secs t xp)
      | none => "BADCASE"
    | _, _, _ => "BADCASE"
  | _ => "BADCASE"

end E57.Drv
