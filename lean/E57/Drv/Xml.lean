/- Line protocol of engine "xml": `xml <hex of the UTF-8 bytes of a document>` → the token dump of the
   tree `E57.XmlP.parseDocument` builds (`MT.docTokens`, the format of harness/src/eng_reader.rs
   `dump_xml`) or `TFAIL` (not well-formed, or not UTF-8).  Driver glue.  Core Lean only. -/
import E57.Spec.XmlParse
import E57.Model.MetaTree
import E57.Drv.Writer
namespace E57.Drv
open E57

def xmlToks (toks : List String) : String :=
  match toks with
  | ["xml", h] =>
    match strOfHex h with
    | some s =>
      match XmlP.parseDocument s with
      | some d => String.intercalate " " (MT.docTokens d)
      | none => "TFAIL"
    | none => "TFAIL"
  | _ => "BADCASE"

def xmlLine (line : String) : String :=
  xmlToks ((line.trimAscii.toString.splitOn " ").filter (· ≠ ""))

end E57.Drv
