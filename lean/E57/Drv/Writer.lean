/- Line protocol of engine "writer" (harness/src/eng_writer.rs): writer programs → file bytes. Driver glue. -/
import E57.Model.Writer
import E57.Model.MetaTree
import E57.Drv.Pages
namespace E57.Drv
open E57

def strOfHex (s : String) : Option String := do
  let b ← bytesOfHex s
  String.fromUTF8? (ByteArray.mk b.toArray)

def optStr (s : String) : Option (Option String) :=
  if s == "~" then some none else (strOfHex s).map some

def parseU64 (s : String) : Option UInt64 := s.toNat?.map UInt64.ofNat
def parseU32 (s : String) : Option UInt32 := s.toNat?.map UInt32.ofNat

def optU64 (s : String) : Option (Option UInt64) :=
  if s == "~" then some none else (parseU64 s).map some
def optU32 (s : String) : Option (Option UInt32) :=
  if s == "~" then some none else (parseU32 s).map some

def parseValue (s : String) : Option Value :=
  if s.startsWith "i" then (s.drop 1).toString.toInt?.map Value.integer
  else if s.startsWith "s" then (s.drop 1).toString.toInt?.map Value.scaled
  else if s.startsWith "f" then (parseU32 (s.drop 1).toString).map Value.single
  else if s.startsWith "d" then (parseU64 (s.drop 1).toString).map Value.double
  else none

def optValue (s : String) : Option (Option Value) :=
  if s == "~" then some none else (parseValue s).map some

def stdNames : List RecordName :=
  [.cartesianX, .cartesianY, .cartesianZ, .cartesianInvalidState, .sphericalRange, .sphericalAzimuth,
   .sphericalElevation, .sphericalInvalidState, .intensity, .isIntensityInvalid, .colorRed, .colorGreen,
   .colorBlue, .isColorInvalid, .rowIndex, .columnIndex, .returnCount, .returnIndex, .timeStamp,
   .isTimeStampInvalid]

def parseName (s : String) : Option RecordName :=
  match s.splitOn ":" with
  | ["U", ns, name] => do some (.unknown (← strOfHex ns) (← strOfHex name))
  | [n] => stdNames.find? (fun r => r.tagName == n)
  | _ => none

def parseDataType (s : String) : Option DataType :=
  match s.splitOn ":" with
  | ["F32", a, b] => do some (.single (← optU32 a) (← optU32 b))
  | ["F64", a, b] => do some (.double (← optU64 a) (← optU64 b))
  | ["I", a, b] => do some (.integer (← a.toInt?) (← b.toInt?))
  | ["S", a, b, c, d] => do some (.scaled (← a.toInt?) (← b.toInt?) (← parseU64 c) (← parseU64 d))
  | _ => none

def parseRecord (s : String) : Option Record :=
  match s.splitOn "|" with
  | [n, d] => do some ⟨← parseName n, ← parseDataType d⟩
  | _ => none

def parseDateTime (s : String) : Option (Option DateTime) :=
  if s == "~" then some none else
  match s.splitOn ":" with
  | [b, a] => do some (some ⟨← parseU64 b, a == "1"⟩)
  | _ => none

def parseTransform (l : List String) : Option Transform :=
  match l.mapM parseU64 with
  | some [a, b, c, d, e, f, g] => some ⟨a, b, c, d, e, f, g⟩
  | _ => none

def parseFmt (s : String) : ImageFormat := if s == "J" then .jpeg else .png

def optData (s : String) : Option (Option Bytes) :=
  if s == "~" then some none else (parseData s).map some

/-- first-occurrence replace on byte level (the Rust side uses `replacen(a, b, 1)`) -/
partial def replaceFirst (s a b : List Char) : List Char :=
  if a.isEmpty then b ++ s else
  let rec go (pre : List Char) (rest : List Char) : List Char :=
    if a.isPrefixOf rest then pre.reverse ++ b ++ rest.drop a.length
    else match rest with
      | [] => pre.reverse
      | c :: cs => go (c :: pre) cs
  go [] s

def parseTransformer (mode : String) : Option (String → Option String) :=
  if mode == "id" then some (fun x => some x)
  else if mode == "err" then some (fun _ => none)
  else match mode.splitOn ":" with
    | ["app", h] => (strOfHex h).map (fun t => fun x => some (x ++ t))
    | ["ins", pos, h] => do
      let pos ← pos.toNat?
      let t ← bytesOfHex h
      some (fun x =>
        let b := utf8 x
        String.fromUTF8? (ByteArray.mk (b.take pos ++ t ++ b.drop pos).toArray))
    | ["sub", a, b] => do
      let a ← strOfHex a
      let b ← strOfHex b
      some (fun x => some (String.ofList (replaceFirst x.toList a.toList b.toList)))
    | _ => none

/-- split off the float text tables: `<n> bits=hex ...` -/
def parseFT64 : Nat → List String → List (UInt64 × String) → Option (List (UInt64 × String) × List String)
  | 0, rest, acc => some (acc, rest)
  | n + 1, t :: rest, acc =>
    match t.splitOn "=" with
    | [b, h] => do parseFT64 n rest ((← parseU64 b, ← strOfHex h) :: acc)
    | _ => none
  | _, [], _ => none

def parseFT32 : Nat → List String → List (UInt32 × String) → Option (List (UInt32 × String) × List String)
  | 0, rest, acc => some (acc, rest)
  | n + 1, t :: rest, acc =>
    match t.splitOn "=" with
    | [b, h] => do parseFT32 n rest ((← parseU32 b, ← strOfHex h) :: acc)
    | _ => none
  | _, [], _ => none

def parseFloatTables (toks : List String) : Option (FloatText × List String) :=
  match toks with
  | n :: rest => do
    let (t64, rest) ← parseFT64 (← n.toNat?) rest []
    match rest with
    | m :: rest => do
      let (t32, rest) ← parseFT32 (← m.toNat?) rest []
      some (⟨t64, t32⟩, rest)
    | [] => none
  | [] => none

inductive Cur where
  | top
  | pc (w : PcW)
  | pcFailed
  /-- a point cloud writer after its `finalize` succeeded (`finalized` flag of the crate): `add_point` and
      `finalize` are refused, the setters have no effect any more -/
  | pcDone
  | img (w : ImgW)

structure WState where
  e : EW
  cur : Cur
  res : List String   -- reversed
  stop : Bool := false
  /-- tokens of the tree the XML of the last finalize denotes (`MT.rootDoc`), when that was a plain
      `finalize()` that succeeded -/
  tree : Option (List String) := none

def outTok {α} : Outcome α → String
  | .ok _ => "ok"
  | .err _ => "err"
  | .panic _ => "panic"

/-- consume one statement; returns the new state and the remaining tokens -/
def stepW (ft : FloatText) (s : WState) (toks : List String) : Option (WState × List String) :=
  let push (r : String) (s : WState) : WState := { s with res := r :: s.res }
  match s.cur, toks with
  -- ---------- top level
  | .top, "EXT" :: ns :: url :: rest => do
    let r := s.e.registerExtension (← strOfHex ns) (← strOfHex url)
    match r with
    | .ok e => some (push "ok" { s with e := e }, rest)
    | o => some (push (outTok o) s, rest)
  | .top, "CM" :: v :: rest => do
    some (push "ok" { s with e := { s.e with root := { s.e.root with coordinateMetadata := ← optStr v } } }, rest)
  | .top, "CR" :: v :: rest => do
    some (push "ok" { s with e := { s.e with root := { s.e.root with creation := ← parseDateTime v } } }, rest)
  | .top, "BLOB" :: d :: rest => do
    match s.e.addBlob (← parseData d) with
    | .ok (e, b) => some (push s!"ok:{b.offset}:{b.length}" { s with e := e }, rest)
    | .panic _ => some ({ push "panic" s with stop := true }, rest)
    | .err _ => some (push "err" s, rest)
  | .top, "PC" :: g :: n :: rest => do
    let n ← n.toNat?
    let proto ← (rest.take n).mapM parseRecord
    if proto.length ≠ n then none else
    match PcW.new s.e.pw s.e.exts (← strOfHex g) proto with
    | .ok (pw, w) => some (push "ok" { s with e := { s.e with pw := pw }, cur := .pc w }, rest.drop n)
    | .err _ => some (push "err" { s with cur := .pcFailed }, rest.drop n)
    | .panic _ => some ({ push "panic" { s with cur := .pcFailed } with stop := true }, rest.drop n)
  | .top, "IMG" :: g :: rest => do
    some (push "ok" { s with cur := .img (ImgW.new (← strOfHex g)) }, rest)
  | .top, "FIN" :: rest =>
    match EW.finalize ft s.e (fun x => some x) with
    | .ok e =>
      let t := (MT.rootDoc ft s.e.root s.e.pcs s.e.imgs s.e.exts).map MT.docTokens
      some (push "ok" { s with e := e, tree := t }, rest)
    | .err _ => some (push "err" { s with tree := none }, rest)
    | .panic _ => some ({ push "panic" s with stop := true }, rest)
  | .top, "FINX" :: m :: rest => do
    match EW.finalize ft s.e (← parseTransformer m) with
    | .ok e => some (push "ok" { s with e := e, tree := none }, rest)
    | .err _ => some (push "err" { s with tree := none }, rest)
    | .panic _ => some ({ push "panic" s with stop := true }, rest)
  -- ---------- failed point cloud: skip statements
  | .pcFailed, "PFIN" :: rest => some (push "-" s, rest)
  | .pcFailed, "END" :: rest => some (push "-" { s with cur := .top }, rest)
  | .pcFailed, "ABANDON" :: rest => some (push "-" { s with cur := .top }, rest)
  | .pcFailed, "P" :: k :: rest => do some (push "-" s, rest.drop (← k.toNat?))
  | .pcFailed, "OG" :: k :: rest =>
    if k == "~" then some (push "-" s, rest) else do some (push "-" s, rest.drop (← k.toNat?))
  | .pcFailed, "TR" :: k :: rest => if k == "~" then some (push "-" s, rest) else some (push "-" s, rest.drop 6)
  | .pcFailed, "ILN" :: rest => some (push "-" s, rest)
  | .pcFailed, "CLN" :: rest => some (push "-" s, rest)
  | .pcFailed, "IL" :: rest => some (push "-" s, rest.drop 2)
  | .pcFailed, "CL" :: rest => some (push "-" s, rest.drop 6)
  | .pcFailed, _ :: _ :: rest => some (push "-" s, rest)
  -- ---------- finalized point cloud writer
  | .pcDone, "PFIN" :: rest => some (push "err" s, rest)
  | .pcDone, "END" :: rest => some (push "err" { s with cur := .top }, rest)
  | .pcDone, "ABANDON" :: rest => some (push "ok" { s with cur := .top }, rest)
  | .pcDone, "P" :: k :: rest => do some (push "err" s, rest.drop (← k.toNat?))
  | .pcDone, "OG" :: k :: rest =>
    if k == "~" then some (push "ok" s, rest) else do some (push "ok" s, rest.drop (← k.toNat?))
  | .pcDone, "TR" :: k :: rest => if k == "~" then some (push "ok" s, rest) else some (push "ok" s, rest.drop 6)
  | .pcDone, "ILN" :: rest => some (push "ok" s, rest)
  | .pcDone, "CLN" :: rest => some (push "ok" s, rest)
  | .pcDone, "IL" :: rest => some (push "ok" s, rest.drop 2)
  | .pcDone, "CL" :: rest => some (push "ok" s, rest.drop 6)
  | .pcDone, _ :: _ :: rest => some (push "ok" s, rest)
  -- ---------- point cloud writer
  | .pc w, "PFIN" :: rest =>
    match w.finalize s.e.pw with
    | .ok (pw, _, pc) => some (push "ok" { s with e := { s.e with pw := pw, pcs := s.e.pcs ++ [pc] }, cur := .pcDone }, rest)
    | .err _ => some (push "err" s, rest)
    | .panic _ => some ({ push "panic" s with stop := true }, rest)
  | .pc w, "P" :: k :: rest => do
    let k ← k.toNat?
    let vals ← (rest.take k).mapM parseValue
    match w.addPoint s.e.pw vals with
    | .ok (pw, w) => some (push "ok" { s with e := { s.e with pw := pw }, cur := .pc w }, rest.drop k)
    | .err _ => some (push "err" s, rest.drop k)
    | .panic _ => some ({ push "panic" s with stop := true }, rest.drop k)
  | .pc w, "END" :: rest =>
    match w.finalize s.e.pw with
    | .ok (pw, _, pc) => some (push "ok" { s with e := { s.e with pw := pw, pcs := s.e.pcs ++ [pc] }, cur := .top }, rest)
    | .err _ => some (push "err" { s with cur := .top }, rest)
    | .panic _ => some ({ push "panic" s with stop := true }, rest)
  | .pc _, "ABANDON" :: rest => some (push "ok" { s with cur := .top }, rest)
  | .pc w, "OG" :: k :: rest =>
    if k == "~" then some (push "ok" { s with cur := .pc { w with pc := { w.pc with originalGuids := none } } }, rest)
    else do
      let k ← k.toNat?
      let gs ← (rest.take k).mapM strOfHex
      some (push "ok" { s with cur := .pc { w with pc := { w.pc with originalGuids := some gs } } }, rest.drop k)
  | .pc w, "TR" :: k :: rest =>
    if k == "~" then some (push "ok" { s with cur := .pc { w with pc := { w.pc with transform := none } } }, rest)
    else do
      let t ← parseTransform (k :: rest.take 6)
      some (push "ok" { s with cur := .pc { w with pc := { w.pc with transform := some t } } }, rest.drop 6)
  | .pc w, "ILN" :: rest =>
    some (push "ok" { s with cur := .pc { w with pc := { w.pc with intensityLimits := none } } }, rest)
  | .pc w, "CLN" :: rest =>
    some (push "ok" { s with cur := .pc { w with pc := { w.pc with colorLimits := none } } }, rest)
  | .pc w, "IL" :: k :: rest => do
      match rest with
      | m :: rest' =>
        let l : IntensityLimits := ⟨← optValue k, ← optValue m⟩
        some (push "ok" { s with cur := .pc { w with pc := { w.pc with intensityLimits := some l } } }, rest')
      | [] => none
  | .pc w, "CL" :: k :: rest => do
      match (k :: rest.take 5).mapM optValue with
      | some [a, b, c, d, e, f] =>
        some (push "ok" { s with cur := .pc { w with pc := { w.pc with colorLimits := some ⟨a, b, c, d, e, f⟩ } } }, rest.drop 5)
      | _ => none
  | .pc w, kw :: v :: rest => do
    let setS (f : Option String → PointCloud) : Option (WState × List String) := do
      some (push "ok" { s with cur := .pc { w with pc := f (← optStr v) } }, rest)
    let setF (f : Option UInt64 → PointCloud) : Option (WState × List String) := do
      some (push "ok" { s with cur := .pc { w with pc := f (← optU64 v) } }, rest)
    match kw with
    | "NAME" => setS (fun x => { w.pc with name := x })
    | "DESC" => setS (fun x => { w.pc with description := x })
    | "VENDOR" => setS (fun x => { w.pc with sensorVendor := x })
    | "MODEL" => setS (fun x => { w.pc with sensorModel := x })
    | "SERIAL" => setS (fun x => { w.pc with sensorSerial := x })
    | "HW" => setS (fun x => { w.pc with sensorHwVersion := x })
    | "SW" => setS (fun x => { w.pc with sensorSwVersion := x })
    | "FW" => setS (fun x => { w.pc with sensorFwVersion := x })
    | "TEMP" => setF (fun x => { w.pc with temperature := x })
    | "HUM" => setF (fun x => { w.pc with humidity := x })
    | "PRES" => setF (fun x => { w.pc with atmosphericPressure := x })
    | "AS" => do some (push "ok" { s with cur := .pc { w with pc := { w.pc with acquisitionStart := ← parseDateTime v } } }, rest)
    | "AE" => do some (push "ok" { s with cur := .pc { w with pc := { w.pc with acquisitionEnd := ← parseDateTime v } } }, rest)
    | _ => none
  -- ---------- image writer
  | .img w, "END" :: rest =>
    match w.finalize with
    | .ok img => some (push "ok" { s with e := { s.e with imgs := s.e.imgs ++ [img] }, cur := .top }, rest)
    | _ => some (push "err" { s with cur := .top }, rest)
  | .img _, "ABANDON" :: rest => some (push "ok" { s with cur := .top }, rest)
  | .img w, "TR" :: rest => do
    let t ← parseTransform (rest.take 7)
    some (push "ok" { s with cur := .img ⟨{ w.image with transform := some t }⟩ }, rest.drop 7)
  | .img w, "VIS" :: f :: d :: wd :: ht :: m :: rest => do
    match w.addVisualReference s.e.pw (parseFmt f) (← parseData d) (← wd.toNat?) (← ht.toNat?) (← optData m) with
    | .ok (pw, w) => some (push "ok" { s with e := { s.e with pw := pw }, cur := .img w }, rest)
    | .err _ => some (push "err" s, rest)
    | .panic _ => some ({ push "panic" s with stop := true }, rest)
  | .img w, "PIN" :: f :: d :: wd :: ht :: fl :: pwd :: pht :: px :: py :: m :: rest => do
    let wd ← wd.toNat?; let ht ← ht.toNat?
    let fl ← parseU64 fl; let pwd ← parseU64 pwd; let pht ← parseU64 pht; let px ← parseU64 px; let py ← parseU64 py
    match w.addProjection s.e.pw (parseFmt f) (← parseData d) (← optData m)
        (fun b mk => .pinhole ⟨b, mk, wd, ht, fl, pwd, pht, px, py⟩) with
    | .ok (pw, w) => some (push "ok" { s with e := { s.e with pw := pw }, cur := .img w }, rest)
    | .err _ => some (push "err" s, rest)
    | .panic _ => some ({ push "panic" s with stop := true }, rest)
  | .img w, "SPH" :: f :: d :: wd :: ht :: pwd :: pht :: m :: rest => do
    let wd ← wd.toNat?; let ht ← ht.toNat?
    let pwd ← parseU64 pwd; let pht ← parseU64 pht
    match w.addProjection s.e.pw (parseFmt f) (← parseData d) (← optData m)
        (fun b mk => .spherical ⟨b, mk, wd, ht, pwd, pht⟩) with
    | .ok (pw, w) => some (push "ok" { s with e := { s.e with pw := pw }, cur := .img w }, rest)
    | .err _ => some (push "err" s, rest)
    | .panic _ => some ({ push "panic" s with stop := true }, rest)
  | .img w, "CYL" :: f :: d :: wd :: ht :: ra :: py :: pwd :: pht :: m :: rest => do
    let wd ← wd.toNat?; let ht ← ht.toNat?
    let ra ← parseU64 ra; let py ← parseU64 py; let pwd ← parseU64 pwd; let pht ← parseU64 pht
    match w.addProjection s.e.pw (parseFmt f) (← parseData d) (← optData m)
        (fun b mk => .cylindrical ⟨b, mk, wd, ht, ra, py, pwd, pht⟩) with
    | .ok (pw, w) => some (push "ok" { s with e := { s.e with pw := pw }, cur := .img w }, rest)
    | .err _ => some (push "err" s, rest)
    | .panic _ => some ({ push "panic" s with stop := true }, rest)
  | .img w, kw :: v :: rest => do
    let setS (f : String → Image) : Option (WState × List String) := do
      some (push "ok" { s with cur := .img ⟨f (← strOfHex v)⟩ }, rest)
    match kw with
    | "NAME" => setS (fun x => { w.image with name := some x })
    | "DESC" => setS (fun x => { w.image with description := some x })
    | "PCG" => setS (fun x => { w.image with pointcloudGuid := some x })
    | "VENDOR" => setS (fun x => { w.image with sensorVendor := some x })
    | "MODEL" => setS (fun x => { w.image with sensorModel := some x })
    | "SERIAL" => setS (fun x => { w.image with sensorSerial := some x })
    | "ACQ" => do
      match ← parseDateTime v with
      | some d => some (push "ok" { s with cur := .img ⟨{ w.image with acquisition := some d }⟩ }, rest)
      | none => none
    | _ => none
  | _, _ => none

partial def runW (ft : FloatText) (s : WState) (toks : List String) : Option WState :=
  if toks.isEmpty || s.stop then some s else
  match stepW ft s toks with
  | some (s', rest) => runW ft s' rest
  | none => none

/-- remove the checksum bytes of every 1024-byte page -/
partial def depage (d : Bytes) (acc : Bytes) : Bytes :=
  if d.isEmpty then acc else depage (d.drop 1024) (acc ++ (d.take 1020))

def extractXmlBytes (file : Bytes) : Bytes :=
  if file.length < 48 then [] else
  let off := leVal ((file.drop 24).take 8)
  let len := leVal ((file.drop 32).take 8)
  if off > file.length || len > file.length then [] else
  let logical := depage file []
  (logical.drop (off - 4 * (off / 1024))).take len

/-- run a writer program; returns the result tokens and the final device bytes -/
def runWriterProgramT (toks : List String) : Option (List String × Bytes × Option (List String)) := do
  let (ft, rest) ← parseFloatTables toks
  match rest with
  | lv :: g :: stmts =>
    match EW.new Dev.empty (← strOfHex g) (← strOfHex lv) with
    | .ok e =>
      let s ← runW ft ⟨e, .top, [], false, none⟩ stmts
      some (s.res.reverse, s.e.pw.flush.dev.data, s.tree)
    | _ => some (["NEWERR"], [], none)
  | _ => none

def runWriterProgram (toks : List String) : Option (List String × Bytes) := do
  let (ft, rest) ← parseFloatTables toks
  match rest with
  | lv :: g :: stmts =>
    match EW.new Dev.empty (← strOfHex g) (← strOfHex lv) with
    | .ok e =>
      let s ← runW ft ⟨e, .top, [], false, none⟩ stmts
      -- dropping the writer flushes the page buffer
      some (s.res.reverse, s.e.pw.flush.dev.data)
    | _ => some (["NEWERR"], [])
  | _ => none

def writerLine (toks : List String) : String :=
  match toks with
  | "wr" :: rest =>
    match runWriterProgramT rest with
    | some (res, file, tree) =>
      let t := match tree with
        | some toks => s!"{toks.length}:{(fnv (utf8 (joinSp toks))).toNat}"
        | none => "-"
      s!"R {joinSp res} | F {file.length}:{(fnv file).toNat} | X {hexTok (extractXmlBytes file)} | T {t}"
    | none => "BADCASE"
  | "wrdump" :: rest =>
    match runWriterProgram rest with
    | some (_, file) => hexTok file
    | none => "BADCASE"
  | _ => "BADCASE"

end E57.Drv
