/- Line protocol of engine "reader" (harness/src/eng_reader.rs). Driver glue. -/
import E57.Model.Simple
import E57.Drv.Writer
namespace E57.Drv
open E57

/-! ### parsing the tree dump -/

def optHexStr (s : String) : Option (Option String) :=
  if s == "~" then some none else (strOfHex s).map some

partial def parseAttrs : Nat → List String → List XAttr → Option (List XAttr × List String)
  | 0, rest, acc => some (acc.reverse, rest)
  | n + 1, ns :: name :: val :: rest, acc => do
    parseAttrs n rest (⟨← optHexStr ns, ← strOfHex name, ← strOfHex val⟩ :: acc)
  | _, _, _ => none

mutual
partial def parseNode : List String → Option (XNode × List String)
  | "T" :: h :: rest => do some (XNode.text (← strOfHex h), rest)
  | "C" :: rest => some (XNode.comment, rest)
  | "P" :: rest => some (XNode.pi, rest)
  | "E" :: ns :: pfx :: name :: na :: rest => do
    let (attrs, rest) ← parseAttrs (← na.toNat?) rest []
    match rest with
    | nc :: rest =>
      let (cs, rest) ← parseNodes (← nc.toNat?) rest []
      some (XNode.elem (← optHexStr ns) (← optHexStr pfx) (← strOfHex name) attrs cs, rest)
    | [] => none
  | _ => none
partial def parseNodes : Nat → List String → List XNode → Option (List XNode × List String)
  | 0, rest, acc => some (acc.reverse, rest)
  | n + 1, toks, acc => do
    let (c, rest) ← parseNode toks
    parseNodes n rest (c :: acc)
end

partial def parseNsList : Nat → List String → List (Option String × String) → Option (List (Option String × String) × List String)
  | 0, rest, acc => some (acc.reverse, rest)
  | n + 1, p :: u :: rest, acc => do parseNsList n rest ((← optHexStr p, ← strOfHex u) :: acc)
  | _, _, _ => none

/-- `TFAIL` or `TREE <nns> (pfx uri)* <node>` -/
def parseTree (toks : List String) : Option (Option XDoc × List String) :=
  match toks with
  | "TFAIL" :: rest => some (none, rest)
  | "TREE" :: n :: rest => do
    let (nss, rest) ← parseNsList (← n.toNat?) rest []
    let (root, rest) ← parseNode rest
    some (some ⟨root, nss⟩, rest)
  | _ => none

partial def parseFpEntries : Nat → List String → List (String × (Option UInt64 × Option UInt32)) →
    Option (List (String × (Option UInt64 × Option UInt32)) × List String)
  | 0, rest, acc => some (acc, rest)
  | n + 1, s :: a :: b :: rest, acc => do
    parseFpEntries n rest ((← strOfHex s, (← optU64 a, ← optU32 b)) :: acc)
  | _, _, _ => none

def parseFp (toks : List String) : Option (FloatParse × List String) :=
  match toks with
  | "FP" :: n :: rest => do
    let (t, rest) ← parseFpEntries (← n.toNat?) rest []
    some (⟨t⟩, rest)
  | _ => none

/-! ### canonical dumps (must match harness/src/eng_reader.rs) -/

def oTok {α} (o : Option α) (f : α → String) : String :=
  match o with
  | some a => f a
  | none => "~"

def hexS (s : String) : String := hexTok (utf8 s)

def valTok : Value → String
  | .integer i => s!"i{i}"
  | .scaled i => s!"s{i}"
  | .single b => s!"f{b.toNat}"
  | .double b => s!"d{b.toNat}"

def nameTok : RecordName → String
  | .unknown ns n => s!"U:{hexS ns}:{hexS n}"
  | r => r.tagName

def dtTok : DataType → String
  | .single a b => s!"F32:{oTok a (fun x => toString x.toNat)}:{oTok b (fun x => toString x.toNat)}"
  | .double a b => s!"F64:{oTok a (fun x => toString x.toNat)}:{oTok b (fun x => toString x.toNat)}"
  | .integer a b => s!"I:{a}:{b}"
  | .scaled a b c d => s!"S:{a}:{b}:{c.toNat}:{d.toNat}"

def recTok (r : Record) : String := s!"{nameTok r.name}|{dtTok r.dt}"

def listTok (l : List String) : String := if l.isEmpty then "[]" else ",".intercalate l

def f64Tok (b : UInt64) : String := toString b.toNat
def dateTok (d : DateTime) : String := s!"{d.gpsTime.toNat}:{if d.atomic then 1 else 0}"
def trTok (t : Transform) : String :=
  ",".intercalate ([t.rw, t.rx, t.ry, t.rz, t.tx, t.ty, t.tz].map f64Tok)

def pcTok (pc : PointCloud) : String :=
  let of64 := fun (o : Option UInt64) => oTok o f64Tok
  let oint := fun (o : Option Int) => oTok o toString
  let oval := fun (o : Option Value) => oTok o valTok
  joinSp [
    "PC", s!"guid={oTok pc.guid hexS}", s!"off={pc.fileOffset}", s!"rec={pc.records}",
    s!"proto={listTok (pc.prototype.map recTok)}",
    s!"og={oTok pc.originalGuids (fun l => listTok (l.map hexS))}",
    s!"name={oTok pc.name hexS}", s!"desc={oTok pc.description hexS}",
    s!"vendor={oTok pc.sensorVendor hexS}", s!"model={oTok pc.sensorModel hexS}",
    s!"serial={oTok pc.sensorSerial hexS}", s!"hw={oTok pc.sensorHwVersion hexS}",
    s!"sw={oTok pc.sensorSwVersion hexS}", s!"fw={oTok pc.sensorFwVersion hexS}",
    s!"temp={of64 pc.temperature}", s!"hum={of64 pc.humidity}", s!"pres={of64 pc.atmosphericPressure}",
    s!"as={oTok pc.acquisitionStart dateTok}", s!"ae={oTok pc.acquisitionEnd dateTok}",
    s!"tr={oTok pc.transform trTok}",
    s!"cart={oTok pc.cartesianBounds (fun b => listTok ([b.xMin, b.xMax, b.yMin, b.yMax, b.zMin, b.zMax].map of64))}",
    s!"sph={oTok pc.sphericalBounds (fun b => listTok ([b.rangeMin, b.rangeMax, b.elevationMin, b.elevationMax, b.azimuthStart, b.azimuthEnd].map of64))}",
    s!"idx={oTok pc.indexBounds (fun b => listTok ([b.rowMin, b.rowMax, b.columnMin, b.columnMax, b.returnMin, b.returnMax].map oint))}",
    s!"il={oTok pc.intensityLimits (fun l => listTok ([l.min, l.max].map oval))}",
    s!"cl={oTok pc.colorLimits (fun l => listTok ([l.redMin, l.redMax, l.greenMin, l.greenMax, l.blueMin, l.blueMax].map oval))}"]

def blobTok (b : BlobRef) : String := s!"{b.offset}:{b.length}"
def fmtTok : ImageFormat → String
  | .png => "P"
  | .jpeg => "J"
def iblobTok (b : ImageBlob) (m : Option BlobRef) : String :=
  s!"{fmtTok b.format},{blobTok b.data},{oTok m blobTok}"

def projTok : Projection → String
  | .pinhole p => s!"PIN,{iblobTok p.blob p.mask},{p.width},{p.height},{listTok ([p.focalLength, p.pixelWidth, p.pixelHeight, p.principalX, p.principalY].map f64Tok)}"
  | .spherical p => s!"SPH,{iblobTok p.blob p.mask},{p.width},{p.height},{listTok ([p.pixelWidth, p.pixelHeight].map f64Tok)}"
  | .cylindrical p => s!"CYL,{iblobTok p.blob p.mask},{p.width},{p.height},{listTok ([p.radius, p.principalY, p.pixelWidth, p.pixelHeight].map f64Tok)}"

def imgTok (i : Image) : String :=
  joinSp [
    "IMG", s!"guid={oTok i.guid hexS}",
    s!"vis={oTok i.visualReference (fun v => s!"{iblobTok v.blob v.mask},{v.width},{v.height}")}",
    s!"proj={oTok i.projection projTok}", s!"tr={oTok i.transform trTok}",
    s!"pcg={oTok i.pointcloudGuid hexS}", s!"name={oTok i.name hexS}", s!"desc={oTok i.description hexS}",
    s!"acq={oTok i.acquisition dateTok}", s!"vendor={oTok i.sensorVendor hexS}",
    s!"model={oTok i.sensorModel hexS}", s!"serial={oTok i.sensorSerial hexS}"]

def metaTok (r : Reader) : String :=
  joinSp ([
    "META", s!"guid={hexS r.root.guid}", s!"format={hexS r.root.format}",
    s!"lv={oTok r.root.libraryVersion hexS}", s!"cm={oTok r.root.coordinateMetadata hexS}",
    s!"cr={oTok r.root.creation dateTok}",
    s!"hdr={r.header.physLength}:{r.header.xmlOffset}:{r.header.xmlLength}:{r.header.pageSize}",
    s!"exts={listTok (r.exts.map (fun e => s!"{hexS e.1}:{hexS e.2}"))}",
    s!"npc={r.pcs.length}", s!"nimg={r.imgs.length}"]
    ++ r.pcs.map pcTok ++ r.imgs.map imgTok)

def pointTok (vs : List Value) : String := listTok (vs.map valTok)

/-- computed floats: every NaN is printed as the canonical quiet NaN (payload and sign of a NaN
    produced by arithmetic are not specified) -/
def canon64 (b : UInt64) : Nat := if (Float.ofBits b).isNaN then 0x7FF8000000000000 else b.toNat
def canon32 (b : UInt32) : Nat := if (Float32.ofBits b).isNaN then 0x7FC00000 else b.toNat

def coordTok (c : Coord) : String :=
  if c.kind == 2 then "2" else s!"{c.kind}:{canon64 c.a}:{canon64 c.b}:{canon64 c.c}"

def spointTok (p : SPoint) : String :=
  let col := oTok p.color (fun (r, g, b) => s!"{canon32 r}:{canon32 g}:{canon32 b}")
  s!"{coordTok p.cartesian},{coordTok p.spherical},{col},{oTok p.intensity (fun x => toString (canon32 x))},{p.row},{p.column}"

/-- drive the raw iterator: up to `max` calls, stop after `done` or three errors -/
partial def driveRaw (max errs : Nat) (it : RawIter) (r : PR) (acc : List String) : PR × List String :=
  if max = 0 then (r, ("MAX" :: acc).reverse) else
  match it.next r with
  | (r1, _, .done) => (r1, ("D" :: acc).reverse)
  | (r1, it1, .error) =>
    if errs ≥ 2 then (r1, ("E" :: acc).reverse) else driveRaw (max - 1) (errs + 1) it1 r1 ("E" :: acc)
  | (r1, it1, .value p) => driveRaw (max - 1) errs it1 r1 (pointTok p :: acc)

partial def driveSimple (max errs : Nat) (it : SimpleIter) (r : PR) (acc : List String) : PR × List String :=
  if max = 0 then (r, ("MAX" :: acc).reverse) else
  match it.next r with
  | (r1, _, .done) => (r1, ("D" :: acc).reverse)
  | (r1, it1, .error) =>
    if errs ≥ 2 then (r1, ("E" :: acc).reverse) else driveSimple (max - 1) (errs + 1) it1 r1 ("E" :: acc)
  | (r1, it1, .value p) => driveSimple (max - 1) errs it1 r1 (spointTok p :: acc)

def parseOpts (bits : Nat) : Options :=
  { transform := bits.testBit 0, s2c := bits.testBit 1, c2s := bits.testBit 2,
    i2c := bits.testBit 3, ni := bits.testBit 4, nc := bits.testBit 5 }

/-- run the read operations on an opened reader -/
partial def runOps (file : Bytes) (rd : Reader) : List String → List String → List String
  | [], acc => acc.reverse
  | "META" :: rest, acc => runOps file rd rest (metaTok rd :: acc)
  | "XMLH" :: rest, acc => runOps file rd rest (s!"XMLH {rd.xml.length}:{(fnv rd.xml).toNat}" :: acc)
  | "CRC" :: rest, acc =>
    let v := match validateCrc ⟨file, 0⟩ with
      | some ps => s!"CRC ok:{ps}"
      | none => "CRC err"
    runOps file rd rest (v :: acc)
  | "RAWXML" :: rest, acc =>
    let v := match rawXml file with
      | some x => s!"RAWXML {x.length}:{(fnv x).toNat}"
      | none => "RAWXML err"
    runOps file rd rest (v :: acc)
  | "RAW" :: k :: max :: rest, acc =>
    match k.toNat?, max.toNat? with
    | some k, some max =>
      match rd.pcs[k]? with
      | none => runOps file rd rest ("RAW nopc" :: acc)
      | some pc =>
        match QR.new pc rd.pr with
        | (pr1, none) => runOps file { rd with pr := pr1 } rest ("RAW openerr" :: acc)
        | (pr1, some q) =>
          let (pr2, toks) := driveRaw max 0 ⟨q, pc.records, 0⟩ pr1 []
          runOps file { rd with pr := pr2 } rest (("RAW " ++ ";".intercalate toks) :: acc)
    | _, _ => ("BADCASE" :: acc).reverse
  | "SIMPLE" :: k :: o :: max :: rest, acc =>
    match k.toNat?, o.toNat?, max.toNat? with
    | some k, some o, some max =>
      match rd.pcs[k]? with
      | none => runOps file rd rest ("SIMPLE nopc" :: acc)
      | some pc =>
        match SimpleIter.new pc rd.pr with
        | (pr1, none) => runOps file { rd with pr := pr1 } rest ("SIMPLE openerr" :: acc)
        | (pr1, some it) =>
          let (pr2, toks) := driveSimple max 0 { it with opts := parseOpts o } pr1 []
          runOps file { rd with pr := pr2 } rest (("SIMPLE " ++ ";".intercalate toks) :: acc)
    | _, _, _ => ("BADCASE" :: acc).reverse
  | "BLOB" :: o :: l :: rest, acc =>
    match o.toNat?, l.toNat? with
    | some o, some l =>
      match blobRead rd.pr ⟨o, l⟩ with
      | (pr1, some d) => runOps file { rd with pr := pr1 } rest (s!"BLOB {d.length}:{(fnv d).toNat}" :: acc)
      | (pr1, none) => runOps file { rd with pr := pr1 } rest ("BLOB err" :: acc)
    | _, _ => ("BADCASE" :: acc).reverse
  | _, acc => ("BADCASE" :: acc).reverse

def readerLine (toks : List String) : String :=
  match toks with
  | "rd" :: fileHex :: xmlRef :: rest =>
    match bytesOfHex fileHex, parseTree rest with
    | some file, some (doc, rest) =>
      match parseFp rest with
      | some (fp, "|" :: ops) =>
        let xo : XmlOracle := fun xml =>
          if xmlRef == "XFAIL" then none
          else if hexTok xml == xmlRef then doc else none
        -- the model's own extraction must agree with the reference extraction the tree was built from
        let mismatch : Bool := match FileHeader.read file with
          | none => false
          | some h =>
            match (PR.new ⟨file, 48⟩ h.pageSize).toOption with
            | none => false
            | some pr =>
              match extractXml pr h.xmlOffset h.xmlLength with
              | some (_, x) => xmlRef != "XFAIL" && hexTok x != xmlRef
              | none => false
        if mismatch then "XMLMISMATCH" else
        match Reader.open file xo fp with
        | none =>
          -- operations that do not need an open reader
          let stat := ops.filterMap (fun o =>
            if o == "CRC" then some (match validateCrc ⟨file, 0⟩ with
              | some ps => s!"CRC ok:{ps}"
              | none => "CRC err")
            else if o == "RAWXML" then some (match rawXml file with
              | some x => s!"RAWXML {x.length}:{(fnv x).toNat}"
              | none => "RAWXML err")
            else none)
          " | ".intercalate ("OPENERR" :: stat)
        | some rd => " | ".intercalate ("OPEN" :: runOps file rd ops [])
      | _ => "BADCASE"
    | _, _ => "BADCASE"
  | _ => "BADCASE"

end E57.Drv
