/- Line protocol of engine "tools": XYZ round trip through the tool logic. Driver glue. -/
import E57.Model.Tools
import E57.Drv.Reader
namespace E57.Drv
open E57

def toolsLine (toks : List String) : String :=
  match toks with
  | "xyz" :: n :: rest =>
    match n.toNat? with
    | some n =>
      match (rest.take n).mapM strOfHex, parseFp (rest.drop n) with
      | some lines, some (fp, _) =>
        match xyzRoundTrip fp lines with
        | some pts => if pts.isEmpty then "-" else ";".intercalate (pts.map (fun p => ",".intercalate (p.map toString)))
        | none => "ERR"
      | _, _ => "BADCASE"
    | none => "BADCASE"
  | _ => "BADCASE"

end E57.Drv
