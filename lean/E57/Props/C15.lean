/-
C15 — an interrupted write is never mistaken for a complete file (model level).
Theorems in `E57/Proofs/Interrupted.lean`, namespace `E57.Interrupt`:

 * `reach_safe`, `reach_xml_fields_zero`  invariant over ALL writer sessions before the top-level
   finalize (new, register_extension, root setters, add_blob, point-cloud new/add_point/finalize,
   image operations, abandoned sub-writers): the logical bytes [24,40) (XML offset, XML length)
   stay zero, and so do they in every page-0 content that reaches the device.
 * `run_data`  the write log defined for the page writer replays to the device content (the log is
   faithful), `reach_crashSafe`: every crash image (first k device writes complete, the next one
   cut at any byte) has an unfinalized header.
 * `open_rejects_unfinalized` / `open_unfinalized_iff`  the reader rejects every device content
   whose header is missing, incomplete or has XML length 0 — under the hypothesis `RejectsEmpty`
   on the external XML parser (it yields no usable document for the empty text); the `iff` shows
   the hypothesis cannot be weakened.
 * `crash_image_rejected`  every crash image from before the top-level finalize is rejected.
 * `killed_rejected`, `dropped_rejected`, `dropped_log_crashSafe`  a writer that is killed or
   dropped without finalize (the drop flushes once more) leaves a rejected device, also for every
   torn image of that last flush.
 * `finalize_log`, `finalize_crash`  the log of the top-level finalize: everything before the write
   of the new page 0 is rejected; after it the image equals the final device.
 * torn header write: `tornHeader_early` (cut ≤ 32: rejected), `tornHeader_mid` (33..39: the XML
   length is truncated), `tornHeader_late` / `tornHeader_late_opens` (cut ≥ 40: all payload bytes
   are final, only the page-0 checksum may be old; the opened view equals the complete file's),
   `tornHeader_newLength`.
 * `torn_header_rejected_statement_false`  "a mid-header-write image that differs from the final
   file is rejected" is FALSE (cut 40..1023: final header over the old page-0 checksum; the
   reader reads the header raw).  The property itself only demands that an accepted image shows
   the completed file's content or errors, which is what `tornHeader_late_opens` gives.
 * non-vacuity: `ex_session`, `exCheck_true`, `ex_finalize`, `finalize_succeeds`.
-/
import E57.Proofs.Interrupted
