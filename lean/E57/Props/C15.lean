/- C15 — property theorems (to be added); model: -/
import E57.Model.Writer
