/-
C15 — an interrupted write is never mistaken for a complete file (model level).
Theorems in `E57/Proofs/Interrupted.lean`, namespace `E57.Interrupt`:

 * `reach_safe`, `reach_xml_fields_zero`  invariant over ALL writer sessions before the top-level
   finalize (new, register_extension, root setters, add_blob, point-cloud new/add_point/finalize,
   image operations, abandoned sub-writers): the logical bytes [24,40) (XML offset, XML length)
   stay zero, and so do they in every page-0 content that reaches the device.
 * `run_data`  the write log defined for the page writer replays to the device content (the log is
   faithful), `reach_crashSafe`: every crash image (first k device writes complete, the next one
   cut at any byte) has an unfinalized header.
 * `open_rejects_unfinalized` / `open_unfinalized_iff`  the reader rejects every device content
   whose header is missing, incomplete or has XML length 0 — under the hypothesis `RejectsEmpty`
   on the external XML parser (it yields no usable document for the empty text); the `iff` shows
   the hypothesis cannot be weakened.
 * `crash_image_rejected`  every crash image from before the top-level finalize is rejected.
 * `killed_rejected`, `dropped_rejected`, `dropped_log_crashSafe`  a writer that is killed or
   dropped without finalize (the drop flushes once more) leaves a rejected device, also for every
   torn image of that last flush.
 * `finalize_log`, `finalize_crash`  the log of the top-level finalize: everything before the write
   of the new page 0 is rejected; after it the image equals the final device.
 * torn header write: `tornHeader_early` (cut ≤ 32: rejected), `tornHeader_mid` (33..39: the XML
   length is truncated), `tornHeader_late` (cut ≥ 40: all payload bytes are final, only the page-0
   checksum may be old), `tornHeader_newLength`.  `E57Reader::new` validates the header page
   (`E57.HeaderPage.open_checks_header_page`): `tornHeader_late_valid_iff` (cut ≥ 40: page 0 is valid
   iff the image is the complete file), `tornHeader_late_rejected` (otherwise rejected),
   `tornHeader_late_opens` (a torn image with a VALID page 0 is opened like the complete file),
   `torn_header_rejected` (every torn image that differs from the complete file is rejected, except
   for a cut in 33..39 whose torn page 0 happens to carry a valid checksum).
 * `torn_header_rejected_statement_false`  "a mid-header-write image that differs from the final
   file is rejected" is still FALSE without that exception: the witness is a cut at byte 33 (XML length
   257 truncated to 1) with a CRC collision between the torn page 0 and the placeholder page 0
   (`w_crc_eq`); the earlier witness (cut 40: final header over the old checksum, read raw) is now
   rejected.
 * non-vacuity: `ex_session`, `exCheck_true`, `ex_finalize`, `finalize_succeeds`.
-/
import E57.Proofs.Interrupted
import E57.Proofs.Closed
