/- C10 — property theorems (being extended); the writer model these will be about: -/
import E57.Model.Writer
