/-
C10 — The writer API is total and never stores what it cannot represent.

Proved in E57/Proofs/WriterProps.lean (Parts B and C) on the writer model.  In the model every
Rust panic site (slice index, arithmetic in checked builds, the never-ending loop of `finalize`
with a packet capacity of zero) is the distinguished outcome `.panic`, so these are genuine
theorems, not artefacts of totalisation.  The `writer` correspondence suite runs every call under
`catch_unwind` in an overflow-checked build and must agree with the model on ok/err/panic.
-/
import E57.Proofs.WriterProps
namespace E57.C10
open E57

/-- `add_pointcloud` never panics, for any prototype, guid and registered extensions -/
theorem add_pointcloud_never_panics (pw : PW) (exts : List (String × String)) (guid : String)
    (proto : Prototype) : ¬ ∃ s, PcW.new pw exts guid proto = .panic s :=
  PcW.new_never_panics pw exts guid proto

/-- it returns an error exactly when the prototype breaks the documented rules, uses an
    unregistered/malformed extension name, or is so large that not a single point fits a packet -/
theorem add_pointcloud_error_iff (pw : PW) (exts : List (String × String)) (guid : String)
    (proto : Prototype) (hpw : pw.Inv) :
    (∃ e, PcW.new pw exts guid proto = .err e) ↔
      (validateExtensions proto exts = false ∨ validatePrototype proto = false ∨
        maxPacketPoints proto = 0) := PcW.new_err_iff pw exts guid proto hpw

/-- wrong arity, wrong kind or an integer outside the declared minimum..maximum is rejected -/
theorem add_point_rejects (w : PcW) (pw : PW) (vs : List Value)
    (h : vs.length ≠ w.prototype.length ∨ checkValues w.prototype vs = false) :
    ∃ e, w.addPoint pw vs = .err e := addPoint_rejects w pw vs h

/-- `add_point` never panics and keeps the writer and page-writer invariants -/
theorem add_point_total (w : PcW) (pw : PW) (hw : w.Inv) (hpw : pw.Inv) (vs : List Value) :
    (¬ ∃ s, w.addPoint pw vs = .panic s) ∧
    ∀ pw' w', w.addPoint pw vs = .ok (pw', w') → w'.Inv ∧ pw'.Inv := addPoint_total w pw hw hpw vs

/-- `finalize` of a point cloud never panics; in particular its drain loop terminates -/
theorem pc_finalize_total (w : PcW) (pw : PW) (hw : w.Inv) (hpw : pw.Inv) :
    ¬ ∃ s, w.finalize pw = .panic s := finalize_total w pw hw hpw

/-- blobs: writing always succeeds on an ideal device and returns the descriptor (start, length) -/
theorem add_blob_total (pw : PW) (data : Bytes) (hpw : pw.Inv) :
    ∃ pw' b, blobWrite pw data = .ok (pw', b) ∧ pw'.Inv ∧ b.offset = pw.physicalPosition ∧
      b.length = data.length := blobWrite_total pw data hpw

/-- **Whole session.**  For a prototype with i64 bounds and distinct record names that
    `add_pointcloud` accepted, every point that fits is accepted, `finalize` succeeds, and the
    metadata pushed for the XML carries the exact bounds, the record count, prototype and guid. -/
theorem session_succeeds (pw : PW) (exts : List (String × String)) (guid : String) (proto : Prototype)
    (hpw : pw.Inv) (hi : ProtoI64 proto) (hn : NoDupNames proto)
    (pw0 : PW) (w0 : PcW) (hnew : PcW.new pw exts guid proto = .ok (pw0, w0))
    (pts : List (List Value))
    (hpts : ∀ pt ∈ pts, pt.length = proto.length ∧ checkValues proto pt = true) :
    ∃ pw1 w1 pw2 w2 pc, addPoints pts (pw0, w0) = .ok (pw1, w1) ∧
      w1.finalize pw1 = .ok (pw2, w2, pc) ∧ pw2.Inv ∧
      BoundsExact proto pts pc ∧ pc.records = pts.length ∧ pc.prototype = proto ∧
      pc.guid = some guid := session_ok pw exts guid proto hpw hi hn pw0 w0 hnew pts hpts

end E57.C10
