/-
C07 — Corrupted pages never yield data; the checksum is CRC-32C (Castagnoli), stored big-endian.

Proved in E57/Proofs/CrcAlgebra.lean (algebra of the checksum as src/crc32.rs computes it) and
E57/Proofs/PagesRead.lean (cache invariant of the page reader for all histories).  The hardware
back end (crate `crc32c`) is third-party code: it is tied to the same model by differential
testing in the `pages` suite built with the `crc32c` feature, not by a theorem.
-/
import E57.Proofs.CrcAlgebra
import E57.Proofs.PagesRead
import E57.Proofs.CrcBurst
import E57.Proofs.ToolsProps
import E57.Proofs.HeaderPage
namespace E57.C07
open E57

/-! ## the checksum is CRC-32C -/

/-- the table-driven fold of `Crc32::calculate` equals bitwise reflected division by 0x82F63B78
    with initial value and final complement ~0, for every input -/
theorem crc_is_bitwise_crc32c (data : Bytes) : crc32c data = crc32cRef data := crc32c_eq_ref data

/-- every table entry is 8 shift-xor steps of its index (the 256-entry table of `Crc32::new`) -/
theorem table_entries (i : Nat) (h : i < 256) : crcTable[i]! = crcShift8 (UInt32.ofNat i) :=
  crcTable_getElem i h

/-- an alteration `e` of the payload changes the checksum by an amount that does not depend on the data -/
theorem checksum_affine (a e : Bytes) (h : e.length = a.length) :
    crc32c (xorBytes a e) = crc32c a ^^^ crcRaw 0 e := crc_xor_affine a e h

/-! ## small alterations are always detected -/

/-- **Up to three flipped bits anywhere in a page (payload or stored checksum) are detected.** -/
theorem detects_up_to_three_bits (p e : Bytes) (hp : p.length = 1024) (he : e.length = 1024)
    (hok : pageOk p = true) (h1 : 1 ≤ popBytes e) (h3 : popBytes e ≤ 3) :
    pageOk (xorBytes p e) = false := detect_up_to_three p e hp he hok h1 h3

/-- every odd number of flipped bits is detected -/
theorem detects_odd (p e : Bytes) (hp : p.length = 1024) (he : e.length = 1024)
    (hok : pageOk p = true) (hodd : popBytes e % 2 = 1) : pageOk (xorBytes p e) = false :=
  detect_odd p e hp he hok hodd

/-- any alteration confined to the four checksum bytes is detected -/
theorem detects_checksum_alteration (p e : Bytes) (hp : p.length = 1024) (he : e.length = 1024)
    (hok : pageOk p = true) (hpay : e.take 1020 = zeros 1020) (hck : e.drop 1020 ≠ zeros 4) :
    pageOk (xorBytes p e) = false := detect_checksum_only p e hp he hok hpay hck

/-- whether an alteration is detected depends on the alteration only -/
theorem undetected_iff (p e : Bytes) (hp : p.length = 1024) (he : e.length = 1024) (hok : pageOk p = true) :
    pageOk (xorBytes p e) = true ↔ e.drop 1020 = toBE32 (crcRaw 0 (e.take 1020)).toNat :=
  alteration_undetected_iff p e hp he hok

/-! ## the burst clause and the big-endian checksum (format-level finding)

CRC-32C detects every burst of up to 32 bits *of the codeword in transmission order*.  E57 stores
the checksum byte-swapped (big-endian), so a burst that straddles the end of the payload and the
stored checksum is not a burst of the codeword.  The following alteration flips bits only inside
one 32-bit window (byte 1016 bit 6 … byte 1020 bit 5, least significant bit first) and is
undetected on every page.  It is replayed on the real reader on every run
(`dm … 1016:c0,1017:2e,1018:8d,1019:5e,1020:37`) and carried as a known finding about the format. -/

def straddlingBurst : Bytes := (zeros 1016 ++ [0xc0, 0x2e, 0x8d, 0x5e]) ++ ([0x37] ++ zeros 3)

theorem straddlingBurst_payload_length : (zeros 1016 ++ [0xc0, 0x2e, 0x8d, 0x5e] : Bytes).length = 1020 := by
  simp only [List.length_append, zeros, List.length_replicate, List.length_cons, List.length_nil]

theorem straddlingBurst_length : straddlingBurst.length = 1024 := by
  simp only [straddlingBurst, List.length_append, zeros, List.length_replicate, List.length_cons,
    List.length_nil]

/-- the payload part: 1016 zero bytes (which leave the pure LFSR state at 0) and four altered bytes -/
theorem straddlingBurst_take : straddlingBurst.take 1020 = zeros 1016 ++ [0xc0, 0x2e, 0x8d, 0x5e] := by
  rw [straddlingBurst, List.take_left' straddlingBurst_payload_length]

theorem straddlingBurst_drop : straddlingBurst.drop 1020 = [0x37, 0, 0, 0] := by
  rw [straddlingBurst, List.drop_left' straddlingBurst_payload_length]
  rfl

theorem straddlingBurst_tail : ([0x37, 0, 0, 0] : Bytes) = toBE32 (crcRaw 0 [0xc0, 0x2e, 0x8d, 0x5e]).toNat := by
  decide +kernel

theorem straddlingBurst_syndrome :
    straddlingBurst.drop 1020 = toBE32 (crcRaw 0 (straddlingBurst.take 1020)).toNat := by
  rw [straddlingBurst_take, straddlingBurst_drop, crcRaw_append, crcRaw_zeros]
  exact straddlingBurst_tail

/-- the straddling burst is undetected on every valid page: the "burst ≤ 32 bits" clause of the
    property is false for bursts that straddle payload end and checksum -/
theorem burst_straddling_undetected (p : Bytes) (hp : p.length = 1024) (hok : pageOk p = true) :
    pageOk (xorBytes p straddlingBurst) = true :=
  (alteration_undetected_iff p straddlingBurst hp straddlingBurst_length hok).2 straddlingBurst_syndrome

/-- **Bursts.**  Every alteration confined to a window of at most 32 bits (bit `8k+j` = bit `j`,
    least significant first, of byte `k`) that lies inside the payload or inside the stored
    checksum is detected. -/
theorem detects_burst_not_straddling (p e : Bytes) (hp : p.length = 1024) (he : e.length = 1024)
    (hok : pageOk p = true) (s len : Nat) (h32 : len ≤ 32) (hin : s + len ≤ 8160 ∨ 8160 ≤ s)
    (hwin : ∀ i, bitOf e i = true → s ≤ i ∧ i < s + len) (hne : ∃ i, bitOf e i = true) :
    pageOk (xorBytes p e) = false := detect_burst p e hp he hok s len h32 hin hwin hne

/-- byte-aligned formulation (independent of the bit order inside a byte): any non-zero alteration
    confined to at most 4 consecutive bytes of the payload, or of the checksum, is detected -/
theorem detects_burst_bytes (p e : Bytes) (hp : p.length = 1024) (he : e.length = 1024)
    (hok : pageOk p = true) (a n : Nat) (hn : n ≤ 4) (hin : a + n ≤ 1020 ∨ 1020 ≤ a)
    (hwin : ∀ k : Nat, e[k]! ≠ 0 → a ≤ k ∧ k < a + n) (hne : ∃ k : Nat, e[k]! ≠ 0) :
    pageOk (xorBytes p e) = false := detect_burst_bytes p e hp he hok a n hn hin hwin hne

/-- with the checksum bytes taken in codeword order (reversed), EVERY burst of up to 32 bits is
    detected wherever it lies — the straddling exception is due to the big-endian storage alone -/
theorem detects_burst_in_codeword_order (p e : Bytes) (hp : p.length = 1024) (he : e.length = 1024)
    (hok : pageOk p = true) (s len : Nat) (h32 : len ≤ 32)
    (hwin : ∀ i, bitOf (codeword e) i = true → s ≤ i ∧ i < s + len)
    (hne : ∃ i, bitOf (codeword e) i = true) : pageOk (xorBytes p e) = false :=
  detect_burst_codeword p e hp he hok s len h32 hwin hne

/-- 32 is sharp: the generator polynomial itself is a 33-bit burst inside the payload that no page detects -/
theorem burst_33_bits_undetected (p : Bytes) (hp : p.length = 1024) (hok : pageOk p = true) :
    pageOk (xorBytes p burst33) = true := burst33_undetected p hp hok

/-! ## data from a corrupt page is never handed out -/

/-- **Soundness for every history.**  In every reader state reachable from opening a device by
    any sequence of seeks, alignments, reads, exact reads and failed reads, every non-empty result
    of `read` is the payload slice of a device page whose stored checksum matches its content. -/
theorem read_only_from_valid_pages (dev : Dev) (ps : Nat) (r : PR) (n : Nat) (r' : PR) (bs : Bytes)
    (hreach : PR.Reach dev ps r) (hread : r.read n = .ok (r', bs)) (hne : bs ≠ []) :
    pageValid (devPage dev.data ps (r.offset / (ps - 4))) ps := by
  exact (pr_reach_read_sound dev ps r n r' bs hreach hread hne).1

/-- a read positioned on a page whose checksum does not match fails, in every reachable state
    (in particular again after earlier failures) -/
theorem read_on_invalid_page_fails (dev : Dev) (ps : Nat) (r : PR) (n : Nat)
    (hreach : PR.Reach dev ps r) (hp : r.offset / (ps - 4) < r.pages)
    (hbad : ¬ pageValid (devPage dev.data ps (r.offset / (ps - 4))) ps) :
    ∃ e, r.read n = .err e := pr_reach_invalid_fails dev ps r n hreach hp hbad

/-- **Error or the same answer.**  If two devices differ only on pages that are invalid on the
    second, a read on the second fails or returns exactly what the first returns. -/
theorem read_err_or_same (r r2 : PR) (n : Nat) (h1 : r.CacheInv) (h2 : r2.CacheInv)
    (hps : r2.pageSize = r.pageSize) (hpg : r2.pages = r.pages) (hoff : r2.offset = r.offset)
    (hdiff : ∀ p < r.pages, devPage r.dev.data r.pageSize p ≠ devPage r2.dev.data r.pageSize p →
      ¬ pageValid (devPage r2.dev.data r.pageSize p) r.pageSize) :
    ∀ r2' bs, r2.read n = .ok (r2', bs) → ∃ r', r.read n = .ok (r', bs) ∧ r'.offset = r2'.offset :=
  pr_read_err_or_same r r2 n h1 h2 hps hpg hoff hdiff

/-! ## the file header is protected like all other data -/

/-- **`E57Reader::new` validates the header page.**  The 48 header bytes are read from the bare device
    (they contain the page size), then once more through the page layer: an accepted file has a valid
    page 0. -/
theorem open_checks_header_page (file : Bytes) (xo : XmlOracle) (fp : FloatParse) (rd : Reader)
    (h : Reader.open file xo fp = some rd) : pageValid (devPage file 1024 0) 1024 :=
  HeaderPage.open_checks_header_page file xo fp rd h

/-- the same for `E57Reader::raw_xml`, with the page size its header bytes store -/
theorem rawXml_checks_header_page (file xml : Bytes) (h : rawXml file = some xml) :
    ∃ ps, devGetU64 ⟨file, 0⟩ 40 = some ps ∧ pageValid (devPage file ps 0) ps :=
  HeaderPage.rawXml_checks_header_page file xml h

/-- **An altered header is rejected**: a content whose page 0 does not carry a valid checksum (for
    1024-byte pages, and for the page size its own header bytes store) is opened by neither entry point. -/
theorem header_alteration_rejected (d d' : Bytes) (xo : XmlOracle) (fp : FloatParse)
    (hlen : d'.length = d.length) (hsame : d'.drop 1024 = d.drop 1024)
    (hbad : ¬ pageValid (devPage d' 1024 0) 1024)
    (hbadRaw : ∀ ps, devGetU64 ⟨d', 0⟩ 40 = some ps → ¬ pageValid (devPage d' ps 0) ps) :
    Reader.open d' xo fp = none ∧ rawXml d' = none :=
  HeaderPage.header_alteration_rejected d d' xo fp hlen hsame hbad hbadRaw

/-- in terms of the explicit predicate of `validate_crc` (`ToolsP.PageValid`: `drop`/`take`, `crc32c`,
    `toBE32`) -/
theorem open_checks_header_page_explicit (file : Bytes) (xo : XmlOracle) (fp : FloatParse) (rd : Reader)
    (h : Reader.open file xo fp = some rd) : ToolsP.PageValid 1024 file 0 :=
  (ToolsP.pageValid_devPage_iff 1024 file 0 (by omega)).mp (open_checks_header_page file xo fp rd h)

end E57.C07
