/-
C04 — all metadata survives write → read unchanged.

Three obligations connect the writer's XML text to what the reader reports:

 A. (proved, `E57/Proofs/MetaRoundTrip.lean`, namespace `E57.MT`) the tree stated for every serialiser
    in `E57/Model/MetaTree.lean` renders to exactly the text the writer model emits:
    `renderLn (X.tree …) = X.xmlString …` for strings/floats/integers, date-time, pose, the three
    bounds, limits, record types, records, `PointCloud.tree_xml`, blob references, the four image
    representations, `Image.tree_xml`; whole file: `rootTree_xml_partial`, `document_text`
    (partial only in that `cdataEscape` of the constant format name is an explicit closed hypothesis
    `FormatNameUnescaped`: `String.replace` does not reduce in the kernel).
 B. (proved) the readers invert the trees for ALL field values: `C04_document_roundtrip`
    (root, every point cloud, every image, the extension list), `PointCloud.roundtrip(_partial)`,
    `prototype_roundtrip`, `DataType.roundtrip`, `IntensityLimits/ColorLimits.roundtrip` (value kinds kept),
    the bounds, `DateTime.roundtrip`, `Transform.roundtrip`, `Image.roundtrip` and the four
    representations, `parseI64_toString` (every i64), `optString_of_find` (every string incl. empty and
    whitespace-only).  Floats: under `F64OK/F32OK ft fp v` = "the external float printer and parser
    invert each other on v" (Rust's `Display`/`FromStr`; checked per value by the suites;
    `nan_payload_lost` shows what the hypothesis excludes).
    Side conditions that are NECESSARY and discharged from the writer's own checks:
    `ExtsOk` (prefixes distinct; URLs distinct, non-empty, not the E57 namespace —
    `registerExtension_keeps_ExtsOk`: the fixed `register_extension` keeps it; `recordName_shared_url`,
    `recordName_e57_url`, `extensions_statement_false`: without it the round trip is false),
    `PrototypeOK_of_validate`, `RecordNameOK_of_validate`, `NoImagesShadow_of_validate`.
    Known asymmetry kept visible: incomplete limits are not stored (`PointCloud.stored`,
    `PointCloud.roundtrip_statement_false`).
 C. (differential, on every run) XML text → tree is roxmltree's: for every generated program whose
    last finalize is a plain `finalize()` the writer suite compares the tree roxmltree reports for the
    REAL writer's XML (token dump) with `MT.docTokens (MT.rootDoc …)` of the model — field `T` of the
    writer protocol.  (`parseTree (docTokens d) = some d` could only be tested, the driver's parser
    is a `partial def`.)
-/
import E57.Model.MetaTree
import E57.Proofs.MetaRoundTrip
