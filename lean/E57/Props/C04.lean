/-
C04 — all metadata survives write → read unchanged.

Three obligations connect the writer's XML text to what the reader reports:

 A. (proved, `E57/Proofs/MetaRoundTrip.lean`, namespace `E57.MT`) the tree stated for every serialiser
    in `E57/Model/MetaTree.lean` renders to exactly the text the writer model emits:
    `renderLn (X.tree …) = X.xmlString …` for strings/floats/integers, date-time, pose, the three
    bounds, limits, record types, records, `PointCloud.tree_xml`, blob references, the four image
    representations, `Image.tree_xml`; whole file: `rootTree_xml_partial`, `document_text`
    (partial only in that `cdataEscape` of the constant format name is an explicit closed hypothesis
    `FormatNameUnescaped`: `String.replace` does not reduce in the kernel).
 B. (proved) the readers invert the trees for ALL field values: `C04_document_roundtrip`
    (root, every point cloud, every image, the extension list), `PointCloud.roundtrip(_partial)`,
    `prototype_roundtrip`, `DataType.roundtrip`, `IntensityLimits/ColorLimits.roundtrip` (value kinds kept),
    the bounds, `DateTime.roundtrip`, `Transform.roundtrip`, `Image.roundtrip` and the four
    representations, `parseI64_toString` (every i64), `optString_of_find` (every string incl. empty and
    whitespace-only).  Floats: under `F64OK/F32OK ft fp v` = "the external float printer and parser
    invert each other on v, and the printed text has no white space around it" (numeric element texts are
    `trim`med before parsing: `trim_invisible`; Rust's `Display`/`FromStr`; checked per value by the suites;
    `nan_payload_lost` shows what the hypothesis excludes).
    Side conditions that are NECESSARY and discharged from the writer's own checks:
    `ExtsOk` (prefixes distinct; URLs distinct, non-empty, not the E57 namespace —
    `registerExtension_keeps_ExtsOk`: the fixed `register_extension` keeps it; `recordName_shared_url`,
    `recordName_e57_url`, `extensions_statement_false`: without it the round trip is false),
    `PrototypeOK_of_validate`, `RecordNameOK_of_validate`, `NoImagesShadow_of_validate`.
    Known asymmetry kept visible: incomplete limits are not stored (`PointCloud.stored`,
    `PointCloud.roundtrip_statement_false`).
 C. (proved + differential) XML text → tree.  `E57/Spec/XmlParse.lean` is a total XML parser that follows
    roxmltree 0.20.0 decision for decision (differentially tested against the real crate: engine `xml`,
    `E57/Drv/Xml.lean`); `E57/Proofs/XmlRender.lean` proves `XmlP.parse_render`
    (`Dialect exts t → parseDocument (renderDoc exts t) = some ⟨t, rootNamespaces exts⟩`) and
    `E57/Proofs/XmlRoundTrip.lean` proves `XmlP.rootTree_dialect` and the capstone
    `XmlP.C04_text_roundtrip : (serializeRoot …).bind parseDocument = MT.rootDoc …` under `XmlP.InputOK`
    (strings/URLs are XML characters, names passed `validate_xml_name`, `ExtsOk`, floats print as
    `[0-9a-zA-Z+.-]+`), `XmlP.cdata_roundtrip` (EVERY string of XML characters, CR and `]]>` included),
    `XmlP.attr_roundtrip`, and `XmlP.formatNameUnescaped` (the former hypothesis of A is a theorem).
    The comparison of the REAL writer's XML (token dump of roxmltree) with `MT.docTokens (MT.rootDoc …)`
    — field `T` of the writer protocol — remains as the differential link to the real crate.
-/
import E57.Model.MetaTree
import E57.Proofs.MetaRoundTrip
import E57.Proofs.XmlRoundTrip
import E57.Proofs.XmlBridge
import E57.Proofs.Closed
