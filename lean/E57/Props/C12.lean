/-
C12 — Bit-packed integers: exact width, bit order and decode at any alignment.

Property theorems (helper lemmas live in E57/Proofs).  All statements are about the executable
model in E57/Model/Bits.lean, which the correspondence suite `bits` ties to src/bs_write.rs,
src/bs_read.rs, src/bitpack.rs and src/record.rs on every run.
-/
import E57.Proofs.BitsWrite
import E57.Proofs.BitsRead
import E57.Proofs.BitCodec
namespace E57.C12
open E57

/-! ## (1) exact width -/

/-- `integer_bits(min,max)` is the least `w` with `max - min < 2^w` -/
theorem integerBits_least (min max : Int) (h : min ≤ max) :
    (max - min).toNat < 2 ^ integerBits min max ∧
    ∀ w, (max - min).toNat < 2 ^ w → integerBits min max ≤ w := by
  unfold integerBits
  by_cases hr : max - min > 0
  · simp only [hr, if_true]
    have hne : (max - min).toNat ≠ 0 := by omega
    refine ⟨Nat.lt_log2_self, fun w hw => ?_⟩
    have := (Nat.log2_lt hne).2 hw
    omega
  · have : max - min = 0 := by omega
    simp [this]

/-- zero bits exactly when minimum = maximum -/
theorem integerBits_eq_zero_iff (min max : Int) (h : min ≤ max) :
    integerBits min max = 0 ↔ min = max := by
  constructor
  · intro h0
    have := (integerBits_least min max h).1
    rw [h0] at this
    omega
  · intro he
    subst he
    simp [integerBits]

/-- never more than 64 bits for `i64` bounds -/
theorem integerBits_le_64 (min max : Int) (h : min ≤ max) (hmin : inI64 min = true) (hmax : inI64 max = true) :
    integerBits min max ≤ 64 := by
  rw [inI64_iff] at hmin hmax
  apply (integerBits_least min max h).2
  have : (2 : Nat) ^ 64 = 18446744073709551616 := by decide
  omega

/-- 64 bits for the full range -/
theorem integerBits_full_range : integerBits i64Min i64Max = 64 := by
  have hle : i64Min ≤ i64Max := by decide
  have h64 := integerBits_le_64 i64Min i64Max hle (by decide) (by decide)
  have hlt := (integerBits_least i64Min i64Max hle).1
  by_cases h : integerBits i64Min i64Max ≤ 63
  · have hp : 2 ^ integerBits i64Min i64Max ≤ 2 ^ 63 := Nat.pow_le_pow_right (by omega) h
    have e : (i64Max - i64Min).toNat = 18446744073709551615 := by decide
    have e63 : (2 : Nat) ^ 63 = 9223372036854775808 := by decide
    omega
  · omega

/-! ## (2) the write buffer refines the bit-list codec -/

/-- operations of the write buffer as the point-cloud writer uses them -/
inductive Op where
  | bits (data : Bytes) (n : Nat)   -- add_bits(&data, n)
  | bytes (data : Bytes)            -- add_bytes(&data)
  | drainFull                       -- get_full_bytes()  (a packet is written)

/-- well-formed use: the data carry no bits above the declared width and are long enough -/
def Op.Valid : Op → Prop
  | .bits data n => leVal data < 2 ^ n ∧ n ≤ 8 * data.length
  | _ => True

/-- the fields an operation contributes to the stream -/
def Op.fields : Op → List (Nat × Nat)
  | .bits data n => [(leVal data, n)]
  | .bytes data => [(leVal data, 8 * data.length)]
  | .drainFull => []

def fieldsOf (ops : List Op) : List (Nat × Nat) := (ops.map Op.fields).flatten

/-- run a history on the model; `em` collects the drained bytes in order -/
def run : List Op → WBuf → Bytes → Outcome (WBuf × Bytes)
  | [], w, em => .ok (w, em)
  | .bits data n :: ops, w, em =>
    match w.addBits data n with
    | .ok w' => run ops w' em
    | .err e => .err e
    | .panic s => .panic s
  | .bytes data :: ops, w, em =>
    match w.addBytes data with
    | .ok w' => run ops w' em
    | .err e => .err e
    | .panic s => .panic s
  | .drainFull :: ops, w, em =>
    run ops w.getFullBytes.2 (em ++ w.getFullBytes.1)

theorem run_inv (ops : List Op) (hv : ∀ o ∈ ops, o.Valid) :
    ∀ (w : WBuf) (em : Bytes), w.Inv →
      ∃ w' em', run ops w em = .ok (w', em') ∧ w'.Inv ∧
        (leVal (em' ++ w'.buffer), 8 * em'.length + w'.used)
          = Spec.packFrom (leVal (em ++ w.buffer), 8 * em.length + w.used) (fieldsOf ops) := by
  induction ops with
  | nil => intro w em hinv; exact ⟨w, em, rfl, hinv, by simp [fieldsOf, Spec.packFrom]⟩
  | cons o ops ih =>
    intro w em hinv
    have hvo := hv o (by simp)
    have hvs : ∀ o ∈ ops, o.Valid := fun o ho => hv o (by simp [ho])
    cases o with
    | bits data n =>
      obtain ⟨hfit, hlen⟩ := hvo
      obtain ⟨w1, hadd, hinv1, hused1, hval1⟩ := WBuf.addBits_spec w data n hinv hfit hlen
      obtain ⟨w', em', hrun, hinv', hspec⟩ := ih hvs w1 em hinv1
      refine ⟨w', em', by simp [run, hadd, hrun], hinv', ?_⟩
      rw [hspec]
      simp only [fieldsOf, List.map_cons, List.flatten_cons, Op.fields, List.singleton_append]
      rw [Spec.packFrom_cons]
      congr 2
      · simp only []
        rw [leVal_append, leVal_append, hval1, Nat.mod_eq_of_lt hfit, Nat.mul_add,
            ← Nat.mul_assoc, ← Nat.pow_add, Nat.add_assoc]
      · simp only []; omega
    | bytes data =>
      obtain ⟨w1, hadd, hinv1, hused1, hval1⟩ := WBuf.addBytes_spec w data hinv
      obtain ⟨w', em', hrun, hinv', hspec⟩ := ih hvs w1 em hinv1
      refine ⟨w', em', by simp [run, hadd, hrun], hinv', ?_⟩
      rw [hspec]
      simp only [fieldsOf, List.map_cons, List.flatten_cons, Op.fields, List.singleton_append]
      rw [Spec.packFrom_cons]
      congr 2
      · simp only []
        rw [leVal_append, leVal_append, hval1, Nat.mod_eq_of_lt (leVal_lt data), Nat.mul_add,
            ← Nat.mul_assoc, ← Nat.pow_add, Nat.add_assoc]
      · simp only []; omega
    | drainFull =>
      obtain ⟨hinv1, hsplit, hbits⟩ := WBuf.getFullBytes_spec w hinv
      obtain ⟨w', em', hrun, hinv', hspec⟩ := ih hvs w.getFullBytes.2 (em ++ w.getFullBytes.1) hinv1
      refine ⟨w', em', by simp [run, hrun], hinv', ?_⟩
      rw [hspec]
      simp only [fieldsOf, List.map_cons, List.flatten_cons, Op.fields, List.nil_append]
      congr 2
      · rw [List.append_assoc, hsplit]
      · simp only [List.length_append]; omega

/-- **Write side of C12.**  For every history of `add_bits` / `add_bytes` calls whose data fit their
    widths, interleaved with any number of packet drains (`get_full_bytes`) and ended by
    `get_all_bytes`, no call panics and the concatenation of everything emitted is exactly the
    specification stream: every field least-significant bit first, contiguous across fields, bytes
    and drains, zero padded to a whole byte. -/
theorem bsWrite_refines (ops : List Op) (hv : ∀ o ∈ ops, o.Valid) :
    ∃ w em, run ops WBuf.new [] = .ok (w, em) ∧
      em ++ w.getAllBytes.1 = Spec.streamBytes (fieldsOf ops) := by
  obtain ⟨w, em, hrun, hinv, hspec⟩ := run_inv ops hv WBuf.new [] WBuf.inv_new
  refine ⟨w, em, hrun, ?_⟩
  have h0 : Spec.packFrom (leVal ([] ++ WBuf.new.buffer), 8 * ([] : Bytes).length + WBuf.new.used) (fieldsOf ops)
      = Spec.pack (fieldsOf ops) := by
    simp [WBuf.new, WBuf.used, Spec.pack]
  rw [h0] at hspec
  have hV : leVal (em ++ w.buffer) = (Spec.pack (fieldsOf ops)).1 := by rw [← hspec]
  have hN : 8 * em.length + w.used = (Spec.pack (fieldsOf ops)).2 := by rw [← hspec]
  have hlen : (em ++ w.buffer).length = ((Spec.pack (fieldsOf ops)).2 + 7) / 8 := by
    rw [List.length_append, WBuf.length_eq w hinv, ← hN]; omega
  simp only [WBuf.getAllBytes, Spec.streamBytes]
  apply eq_of_leVal_eq
  · rw [toLE_length, hlen]
  · rw [leVal_toLE, hV]
    symm
    apply Nat.mod_eq_of_lt
    have := Spec.pack_lt (fieldsOf ops)
    have hp : 2 ^ (Spec.pack (fieldsOf ops)).2 ≤ 2 ^ (8 * (((Spec.pack (fieldsOf ops)).2 + 7) / 8)) :=
      Nat.pow_le_pow_right (by omega) (by omega)
    omega

end E57.C12

namespace E57.C12
open E57

/-! ## (3) the read buffer refines the codec, for every chunking -/

/-- the queue reader's use of the buffer for one integer record:
    append the next chunk of the byte stream, then unpack greedily (`BitPack::unpack_ints`) -/
def readChunksInts (bits : Nat) (min : Int) : List Bytes → RBuf → List Int → Outcome (List Int)
  | [], _, acc => .ok acc
  | c :: cs, r, acc =>
    match r.append c with
    | .ok r1 =>
      match unpackIntsLoop bits min (r1.buffer.length * 8 + 1) r1 [] with
      | .ok (vs, r2) => readChunksInts bits min cs r2 (acc ++ vs)
      | .err e => .err e
      | .panic s => .panic s
    | .err e => .err e
    | .panic s => .panic s

/-- same for fixed-width bit patterns (`unpack_singles`, `unpack_doubles`) -/
def readChunksFixed (bits : Nat) : List Bytes → RBuf → List Nat → Outcome (List Nat)
  | [], _, acc => .ok acc
  | c :: cs, r, acc =>
    match r.append c with
    | .ok r1 =>
      match unpackFixedLoop bits (r1.buffer.length * 8 + 1) r1 [] with
      | .ok (vs, r2) => readChunksFixed bits cs r2 (acc ++ vs)
      | .err e => .err e
      | .panic s => .panic s
    | .err e => .err e
    | .panic s => .panic s

theorem field_append_stable (S d : Bytes) (w i : Nat) (h : (i + 1) * w ≤ 8 * S.length) :
    Spec.field (leVal (S ++ d)) w i = Spec.field (leVal S) w i := by
  simp only [Spec.field]
  apply Nat.eq_of_testBit_eq
  intro j
  simp only [Nat.testBit_mod_two_pow, Nat.testBit_shiftRight]
  by_cases hj : j < w
  · simp only [hj, decide_true, Bool.true_and]
    have hidx : i * w + j < 8 * S.length := by rw [Nat.succ_mul] at h; omega
    rw [leVal_append, Nat.add_comm, Nat.testBit_two_pow_mul_add _ (leVal_lt S)]
    simp [hidx]
  · simp [hj]

theorem fieldAt_eq_field (V k w i : Nat) : fieldAt V (k * w) w i = Spec.field V w (k + i) := by
  simp [fieldAt, Spec.field, Nat.add_mul]

theorem rep_fuel (r : RBuf) (S : Bytes) (P bits : Nat) (h : r.Rep S P) :
    (8 * S.length - P) / bits < r.buffer.length * 8 + 1 := by
  obtain ⟨c, h1, h2, hb, _, _⟩ := h
  have hlen : r.buffer.length = S.length - c := by rw [hb]; simp
  have := Nat.div_le_self (8 * S.length - P) bits
  omega

theorem readChunksInts_spec (bits : Nat) (min : Int) (h0 : 0 < bits) (h64 : bits ≤ 64) (cs : List Bytes) :
    ∀ (S : Bytes) (r : RBuf) (acc : List Int),
      r.Rep S (8 * S.length / bits * bits) →
      acc = (List.range (8 * S.length / bits)).map
              (fun i => wrapI64 ((Spec.field (leVal S) bits i : Nat) + min)) →
      readChunksInts bits min cs r acc =
        .ok ((List.range (8 * (S ++ cs.flatten).length / bits)).map
              (fun i => wrapI64 ((Spec.field (leVal (S ++ cs.flatten)) bits i : Nat) + min))) := by
  induction cs with
  | nil => intro S r acc _ hacc; simp [readChunksInts, hacc]
  | cons c cs ih =>
    intro S r acc hrep hacc
    obtain ⟨r1, happ, hrep1⟩ := RBuf.append_spec r S c _ hrep
    obtain ⟨r2, hun, hrep2⟩ := unpackIntsLoop_spec bits min (S ++ c) h0 h64
      (r1.buffer.length * 8 + 1) r1 _ [] hrep1 (rep_fuel r1 _ _ bits hrep1)
    -- the new cursor is again the greedy one
    have hk : 8 * S.length / bits + (8 * (S ++ c).length - 8 * S.length / bits * bits) / bits
        = 8 * (S ++ c).length / bits := by
      have hle : 8 * S.length / bits * bits ≤ 8 * (S ++ c).length := by
        have := Nat.div_mul_le_self (8 * S.length) bits
        simp; omega
      have : 8 * (S ++ c).length = (8 * (S ++ c).length - 8 * S.length / bits * bits) + 8 * S.length / bits * bits := by
        omega
      conv => rhs; rw [this, Nat.add_mul_div_right _ _ h0]
      omega
    have hcur : 8 * S.length / bits * bits + (8 * (S ++ c).length - 8 * S.length / bits * bits) / bits * bits
        = 8 * (S ++ c).length / bits * bits := by
      rw [← Nat.add_mul, hk]
    rw [hcur] at hrep2
    rw [readChunksInts, happ]
    simp only []
    rw [hun]
    simp only []
    have hS : S ++ (c :: cs).flatten = (S ++ c) ++ cs.flatten := by simp
    rw [hS]
    apply ih (S ++ c) r2 _ hrep2
    rw [← hk, List.range_add, List.map_append, List.map_map, hacc, List.reverse_nil, List.nil_append]
    congr 1
    · apply List.map_congr_left
      intro i hi
      have hi' : i < 8 * S.length / bits := by simpa using hi
      have : (i + 1) * bits ≤ 8 * S.length := by
        have := Nat.div_mul_le_self (8 * S.length) bits
        have : (i + 1) * bits ≤ 8 * S.length / bits * bits := Nat.mul_le_mul_right _ hi'
        omega
      rw [field_append_stable S c bits i this]
    · apply List.map_congr_left
      intro i _
      simp only [Function.comp, fieldAt_eq_field]

theorem readChunksFixed_spec (bits : Nat) (h0 : 0 < bits) (h64 : bits ≤ 64) (cs : List Bytes) :
    ∀ (S : Bytes) (r : RBuf) (acc : List Nat),
      r.Rep S (8 * S.length / bits * bits) →
      acc = (List.range (8 * S.length / bits)).map (fun i => Spec.field (leVal S) bits i) →
      readChunksFixed bits cs r acc =
        .ok ((List.range (8 * (S ++ cs.flatten).length / bits)).map
              (fun i => Spec.field (leVal (S ++ cs.flatten)) bits i)) := by
  induction cs with
  | nil => intro S r acc _ hacc; simp [readChunksFixed, hacc]
  | cons c cs ih =>
    intro S r acc hrep hacc
    obtain ⟨r1, happ, hrep1⟩ := RBuf.append_spec r S c _ hrep
    obtain ⟨r2, hun, hrep2⟩ := unpackFixedLoop_spec bits (S ++ c) h0 h64
      (r1.buffer.length * 8 + 1) r1 _ [] hrep1 (rep_fuel r1 _ _ bits hrep1)
    have hk : 8 * S.length / bits + (8 * (S ++ c).length - 8 * S.length / bits * bits) / bits
        = 8 * (S ++ c).length / bits := by
      have hle : 8 * S.length / bits * bits ≤ 8 * (S ++ c).length := by
        have := Nat.div_mul_le_self (8 * S.length) bits
        simp; omega
      have : 8 * (S ++ c).length = (8 * (S ++ c).length - 8 * S.length / bits * bits) + 8 * S.length / bits * bits := by
        omega
      conv => rhs; rw [this, Nat.add_mul_div_right _ _ h0]
      omega
    have hcur : 8 * S.length / bits * bits + (8 * (S ++ c).length - 8 * S.length / bits * bits) / bits * bits
        = 8 * (S ++ c).length / bits * bits := by
      rw [← Nat.add_mul, hk]
    rw [hcur] at hrep2
    rw [readChunksFixed, happ]
    simp only []
    rw [hun]
    simp only []
    have hS : S ++ (c :: cs).flatten = (S ++ c) ++ cs.flatten := by simp
    rw [hS]
    apply ih (S ++ c) r2 _ hrep2
    rw [← hk, List.range_add, List.map_append, List.map_map, hacc, List.reverse_nil, List.nil_append]
    congr 1
    · apply List.map_congr_left
      intro i hi
      have hi' : i < 8 * S.length / bits := by simpa using hi
      have : (i + 1) * bits ≤ 8 * S.length := by
        have := Nat.div_mul_le_self (8 * S.length) bits
        have : (i + 1) * bits ≤ 8 * S.length / bits * bits := Nat.mul_le_mul_right _ hi'
        omega
      rw [field_append_stable S c bits i this]
    · apply List.map_congr_left
      intro i _
      simp only [Function.comp, fieldAt_eq_field]

/-- **Read side of C12.**  For every width 1…64 and every way a byte stream is cut into chunks
    (empty chunks and chunks that split a value included), appending the chunks one by one and
    unpacking greedily after each never panics and yields, in order, exactly the complete
    `bits`-wide fields of the whole stream (plus `min`). -/
theorem bsRead_refines_ints (bits : Nat) (min : Int) (h0 : 0 < bits) (h64 : bits ≤ 64) (cs : List Bytes) :
    readChunksInts bits min cs RBuf.new [] =
      .ok ((List.range (8 * cs.flatten.length / bits)).map
            (fun i => wrapI64 ((Spec.field (leVal cs.flatten) bits i : Nat) + min))) := by
  have := readChunksInts_spec bits min h0 h64 cs [] RBuf.new [] (by simpa using RBuf.rep_new) (by simp)
  simpa using this

theorem bsRead_refines_fixed (bits : Nat) (h0 : 0 < bits) (h64 : bits ≤ 64) (cs : List Bytes) :
    readChunksFixed bits cs RBuf.new [] =
      .ok ((List.range (8 * cs.flatten.length / bits)).map
            (fun i => Spec.field (leVal cs.flatten) bits i)) := by
  have := readChunksFixed_spec bits h0 h64 cs [] RBuf.new [] (by simpa using RBuf.rep_new) (by simp)
  simpa using this

end E57.C12

namespace E57.C12
open E57

/-! ## (4) round trips: encode with any packet cuts, decode with any chunking -/

theorem take_map_range {α} (f : Nat → α) (n m : Nat) (h : n ≤ m) :
    ((List.range m).map f).take n = (List.range n).map f := by
  rw [← List.map_take, List.take_range, Nat.min_eq_left h]

theorem map_range_getElem {α} (l : List α) (f : Nat → α) (h : ∀ i (hi : i < l.length), f i = l[i]) :
    (List.range l.length).map f = l := by
  apply List.ext_getElem
  · simp
  · intro i h1 h2
    simp only [List.getElem_map, List.getElem_range]
    exact h i h2

/-- generic core: a stream packed from `w`-bit fields, emitted through any history whose fields are
    `us`, and re-read through any chunking, gives `us` back (followed at most by padding artefacts) -/
theorem roundtrip_core (w : Nat) (h0 : 0 < w) (h64 : w ≤ 64) (us : List Nat) (hus : ∀ u ∈ us, u < 2 ^ w)
    (ops : List Op) (hv : ∀ o ∈ ops, o.Valid) (hf : fieldsOf ops = us.map (fun u => (u, w))) :
    ∃ wb em, run ops WBuf.new [] = .ok (wb, em) ∧
      ∀ cs : List Bytes, cs.flatten = em ++ wb.getAllBytes.1 →
        (∃ out, readChunksFixed w cs RBuf.new [] = .ok out ∧ out.take us.length = us) ∧
        (∀ min : Int, ∃ out, readChunksInts w min cs RBuf.new [] = .ok out ∧
            out.take us.length = us.map (fun u => wrapI64 ((u : Nat) + min))) := by
  obtain ⟨wb, em, hrun, hbytes⟩ := bsWrite_refines ops hv
  refine ⟨wb, em, hrun, ?_⟩
  intro cs hcs
  rw [hbytes, hf] at hcs
  -- facts about the emitted stream
  have hN := Spec.pack_width w us
  have hlt := Spec.pack_lt (us.map (fun u => (u, w)))
  have hlen : cs.flatten.length = (us.length * w + 7) / 8 := by
    rw [hcs, Spec.streamBytes, toLE_length, hN]
  have hval : leVal cs.flatten = (Spec.pack (us.map (fun u => (u, w)))).1 := by
    rw [hcs, Spec.streamBytes, leVal_toLE]
    apply Nat.mod_eq_of_lt
    have hp : 2 ^ (Spec.pack (us.map (fun u => (u, w)))).2
        ≤ 2 ^ (8 * (((Spec.pack (us.map (fun u => (u, w)))).2 + 7) / 8)) :=
      Nat.pow_le_pow_right (by omega) (by omega)
    omega
  have hcount : us.length ≤ 8 * cs.flatten.length / w := by
    rw [Nat.le_div_iff_mul_le h0, hlen]; omega
  have hfield : ∀ i (hi : i < us.length), Spec.field (leVal cs.flatten) w i = us[i] := by
    intro i hi
    rw [hval, Spec.field_pack w us i hi]
    exact Nat.mod_eq_of_lt (hus _ (List.getElem_mem hi))
  constructor
  · refine ⟨_, bsRead_refines_fixed w h0 h64 cs, ?_⟩
    rw [take_map_range _ _ _ hcount]
    exact map_range_getElem us _ hfield
  · intro min
    refine ⟨_, bsRead_refines_ints w min h0 h64 cs, ?_⟩
    rw [take_map_range _ _ _ hcount]
    have := map_range_getElem (us.map (fun u => wrapI64 ((u : Nat) + min)))
      (fun i => wrapI64 ((Spec.field (leVal cs.flatten) w i : Nat) + min))
      (by intro i hi
          have hi' : i < us.length := by simpa using hi
          simp only [List.getElem_map]
          rw [hfield i hi'])
    simpa using this

/-- writer operations for integer values: `serialize_integer` per value, a packet drain after the
    positions flagged in `cuts` -/
def encInts (min max : Int) : List Int → List Bool → List Op
  | [], _ => []
  | v :: vs, cuts =>
    .bits (toLE (i64ToU64 (v - min)) 8) (integerBits min max)
      :: ((if cuts.headD false then [Op.drainFull] else []) ++ encInts min max vs cuts.tail)

theorem serializeInteger_eq (v min max : Int) (w : WBuf) :
    serializeInteger v min max w = w.addBits (toLE (i64ToU64 (v - min)) 8) (integerBits min max) := rfl

theorem i64ToU64_of_nonneg (d : Int) (h0 : 0 ≤ d) (h1 : d < 18446744073709551616) :
    i64ToU64 d = d.toNat := by
  unfold i64ToU64
  rw [Int.emod_eq_of_lt h0 h1]

theorem encInts_fields (min max : Int) (hmin : inI64 min = true) (hmax : inI64 max = true)
    (vs : List Int) (hvs : ∀ v ∈ vs, min ≤ v ∧ v ≤ max) (cuts : List Bool) :
    fieldsOf (encInts min max vs cuts) = (vs.map (fun v => (v - min).toNat)).map (fun u => (u, integerBits min max))
    ∧ ∀ o ∈ encInts min max vs cuts, o.Valid := by
  rw [inI64_iff] at hmin hmax
  induction vs generalizing cuts with
  | nil => simp [encInts, fieldsOf]
  | cons v vs ih =>
    have hv := hvs v (by simp)
    have hvs' : ∀ v ∈ vs, min ≤ v ∧ v ≤ max := fun x hx => hvs x (by simp [hx])
    obtain ⟨ihf, ihv⟩ := ih hvs' cuts.tail
    have hd0 : 0 ≤ v - min := by omega
    have hd1 : v - min < 18446744073709551616 := by omega
    have hle : leVal (toLE (i64ToU64 (v - min)) 8) = (v - min).toNat := by
      rw [leVal_toLE, i64ToU64_of_nonneg _ hd0 hd1]
      apply Nat.mod_eq_of_lt
      have : (2 : Nat) ^ (8 * 8) = 18446744073709551616 := by decide
      omega
    constructor
    · simp only [encInts, fieldsOf, List.map_cons, List.flatten_cons, Op.fields, List.map_append,
        List.flatten_append, List.singleton_append]
      rw [hle]
      congr 1
      have : ((if cuts.headD false = true then [Op.drainFull] else []).map Op.fields).flatten = [] := by
        split <;> simp [Op.fields]
      rw [this, List.nil_append]
      exact ihf
    · intro o ho
      simp only [encInts, List.mem_cons, List.mem_append] at ho
      rcases ho with rfl | ho | ho
      · refine ⟨?_, ?_⟩
        · rw [hle]
          have hleast := (integerBits_least min max (by omega)).1
          have : (v - min).toNat ≤ (max - min).toNat := by omega
          omega
        · rw [toLE_length]
          have := integerBits_le_64 min max (by omega) (by rw [inI64_iff]; omega) (by rw [inI64_iff]; omega)
          omega
      · split at ho
        · simp at ho; subst ho; trivial
        · simp at ho
      · exact ihv o ho

/-- **Integer / scaled-integer round trip (C12).**  For every declared range `min < max` within
    `i64` (so every width 1…64, negative minima and the full range included), every sequence of
    in-range values, every choice of packet cuts on the write side and every chunking on the read
    side: nothing panics and the decoder returns the encoded values, in order, first. -/
theorem int_roundtrip (min max : Int) (hmin : inI64 min = true) (hmax : inI64 max = true) (hlt : min < max)
    (vs : List Int) (hvs : ∀ v ∈ vs, min ≤ v ∧ v ≤ max) (cuts : List Bool) :
    ∃ wb em, run (encInts min max vs cuts) WBuf.new [] = .ok (wb, em) ∧
      ∀ cs : List Bytes, cs.flatten = em ++ wb.getAllBytes.1 →
        ∃ out, readChunksInts (integerBits min max) min cs RBuf.new [] = .ok out ∧
          out.take vs.length = vs := by
  have hw0 : 0 < integerBits min max := by
    have := (integerBits_eq_zero_iff min max (by omega)).1
    by_cases h : integerBits min max = 0
    · have := this h; omega
    · omega
  have hw64 := integerBits_le_64 min max (by omega) hmin hmax
  obtain ⟨hf, hv⟩ := encInts_fields min max hmin hmax vs hvs cuts
  have hus : ∀ u ∈ vs.map (fun v => (v - min).toNat), u < 2 ^ integerBits min max := by
    intro u hu
    obtain ⟨v, hvm, rfl⟩ := List.mem_map.1 hu
    have hleast := (integerBits_least min max (by omega)).1
    have := hvs v hvm
    have : (v - min).toNat ≤ (max - min).toNat := by omega
    omega
  obtain ⟨wb, em, hrun, hall⟩ := roundtrip_core (integerBits min max) hw0 hw64 _ hus _ hv hf
  refine ⟨wb, em, hrun, fun cs hcs => ?_⟩
  obtain ⟨out, hout, htake⟩ := (hall cs hcs).2 min
  refine ⟨out, hout, ?_⟩
  rw [List.length_map] at htake
  rw [htake, List.map_map]
  rw [inI64_iff] at hmin hmax
  have : ∀ v ∈ vs, ((fun u : Nat => wrapI64 ((u : Nat) + min)) ∘ fun v : Int => (v - min).toNat) v = v := by
    intro v hvm
    have := hvs v hvm
    simp only [Function.comp]
    have e : (((v - min).toNat : Nat) : Int) + min = v := by omega
    rw [e]
    exact wrapI64_id v (by rw [inI64_iff]; omega)
  rw [List.map_congr_left this]
  simp

/-- writer operations for float bit patterns (`to_le_bytes` + `add_bytes`) -/
def encFloats (nbytes : Nat) : List Nat → List Bool → List Op
  | [], _ => []
  | b :: bs, cuts =>
    .bytes (toLE b nbytes)
      :: ((if cuts.headD false then [Op.drainFull] else []) ++ encFloats nbytes bs cuts.tail)

theorem encFloats_fields (nbytes : Nat) (bs : List Nat) (hbs : ∀ b ∈ bs, b < 2 ^ (8 * nbytes)) (cuts : List Bool) :
    fieldsOf (encFloats nbytes bs cuts) = bs.map (fun u => (u, 8 * nbytes))
    ∧ ∀ o ∈ encFloats nbytes bs cuts, o.Valid := by
  induction bs generalizing cuts with
  | nil => simp [encFloats, fieldsOf]
  | cons b bs ih =>
    have hb := hbs b (by simp)
    obtain ⟨ihf, ihv⟩ := ih (fun x hx => hbs x (by simp [hx])) cuts.tail
    constructor
    · simp only [encFloats, fieldsOf, List.map_cons, List.flatten_cons, Op.fields, List.map_append,
        List.flatten_append, List.singleton_append]
      rw [leVal_toLE, Nat.mod_eq_of_lt hb, toLE_length]
      congr 1
      have : ((if cuts.headD false = true then [Op.drainFull] else []).map Op.fields).flatten = [] := by
        split <;> simp [Op.fields]
      rw [this, List.nil_append]
      exact ihf
    · intro o ho
      simp only [encFloats, List.mem_cons, List.mem_append] at ho
      rcases ho with rfl | ho | ho
      · trivial
      · split at ho
        · simp at ho; subst ho; trivial
        · simp at ho
      · exact ihv o ho

/-- **Float round trip (C12).**  `f32` (4 bytes) and `f64` (8 bytes) values are stored as their
    little-endian bit patterns; any packet cuts, any chunking: the bit patterns come back exactly
    (NaN payloads, signed zeros, infinities and subnormals are just bit patterns). -/
theorem float_roundtrip (nbytes : Nat) (hn : nbytes = 4 ∨ nbytes = 8)
    (bs : List Nat) (hbs : ∀ b ∈ bs, b < 2 ^ (8 * nbytes)) (cuts : List Bool) :
    ∃ wb em, run (encFloats nbytes bs cuts) WBuf.new [] = .ok (wb, em) ∧
      ∀ cs : List Bytes, cs.flatten = em ++ wb.getAllBytes.1 →
        ∃ out, readChunksFixed (8 * nbytes) cs RBuf.new [] = .ok out ∧ out.take bs.length = bs := by
  obtain ⟨hf, hv⟩ := encFloats_fields nbytes bs hbs cuts
  obtain ⟨wb, em, hrun, hall⟩ :=
    roundtrip_core (8 * nbytes) (by omega) (by omega) bs hbs _ hv hf
  exact ⟨wb, em, hrun, fun cs hcs => (hall cs hcs).1⟩

/-! ## non-vacuity: concrete instances of the hypotheses, evaluated by the kernel -/

/-- width 11 (range 0..2047), three values, a packet cut after the first value; the emitted
    bytes `05 | f8 3f 00 01` are read back in chunks that split values -/
example :
    (match run (encInts 0 2047 [5, 2047, 1024] [true, false, false]) WBuf.new [] with
      | .ok (w, em) => em ++ w.getAllBytes.1
      | _ => []) = [5, 248, 63, 0, 1] ∧
    readChunksInts 11 0 [[5, 248], [], [63, 0], [1]] RBuf.new [] = .ok [5, 2047, 1024] := by
  decide

/-- negative minimum, width 4 -/
example : readChunksInts (integerBits (-5) 3) (-5) [[0x80]] RBuf.new [] = .ok [-5, 3] := by decide

/-- the hypotheses of `int_roundtrip` are satisfiable at the extremes -/
example : inI64 i64Min = true ∧ inI64 i64Max = true ∧ i64Min < i64Max ∧
    (∀ v ∈ [i64Min, 0, i64Max], i64Min ≤ v ∧ v ≤ i64Max) := by decide

end E57.C12
