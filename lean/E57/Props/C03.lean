/-
C03 — the reader decodes any legal layout.

Property theorems (proved in `E57/Proofs/LayoutRead.lean`, re-exported into `E57`):

 * `C03_reader_decodes_any_layout`  for every record type list, point list and packet list that is
   `Legal` (every byte stream cut into data packets in ANY way — empty chunks, values straddling
   packets, unequal cuts per attribute — with index and ignored packets anywhere, total packet
   length ≤ 64 KiB) and every file context `FileCtx` (the section of the specification encoder
   `Spec.encodeSection` lies at any 4-aligned logical offset `s` of any paged file with valid page
   checksums; the section may straddle page boundaries anywhere), the reader model's
   `QR.new` + raw iterator return exactly the encoded points, in order, then `done`.
 * `C03_kth_item`     the k-th call returns point k; call number `points.length` returns `done`.
 * `C03_roundtrip`    the same with the file context constructed (no file hypotheses left).
 * `fileCtx_exists`   the hypotheses are satisfiable for every section and offset (non-vacuity);
   two concrete `Legal` instances are checked by `decide` in the proof file.
 * byte-level lemmas: `readPacketHeader_data/index/ignored`, `readCvHeader_section`, `QR_new_at`,
   `advance_data/index/ignored/step`, `queue_inv`.

What is NOT covered by these theorems (and stays differential, engine `layout`): the XML side of a
layout (lexical variants, element order, omitted optional attributes) — parsing XML text is
roxmltree's job and outside the model; blobs in other places (C06); images.
-/
import E57.Proofs.LayoutRead
import E57.Proofs.MetaRoundTrip
