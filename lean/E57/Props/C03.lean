/- C03 — the specification encoder and, later, theorems relating the reader model to it -/
import E57.Spec.Encoder
import E57.Model.Reader
