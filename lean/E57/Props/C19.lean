/-
C19 — copying a file through the library is lossless; writing is deterministic.

`E57/Proofs/Session.lean` (namespace `E57.Session`), built on C01 (`RoundTrip`), C06 (`BlobRoundTrip`), C04
(`MetaRoundTrip`) and the session invariant of C15 (`Interrupted`):

 * `sess_inv`   over ALL sessions of writer calls (`Sess` = `Interrupt.Reach` annotated with the ghost list of stored
   items): every finished blob and point cloud occupies a window of the logical stream that is still present,
   ≥ 48, below the cursor and disjoint from the others; `reach_sess`: every reachable session can be annotated.
 * `stored_windows_survive`   through the top-level finalize all windows survive and the device is the paged image.
 * `open_finalized`   `Reader.open` on the finished file succeeds, reports the true header, the root fields, every
   point cloud's metadata (`PointCloud.stored`), all images and extensions.
 * `session_roundtrip`   …and every stored blob reads back its bytes and every stored cloud its points, in order,
   from any healthy reader state (after any other reads).
 * `copy_idempotent`, `session_reads`   two finished sessions storing the same items read back identically, item by
   item — whatever the call order, offsets or abandoned sub-writers; `copy_deterministic`: equal states before
   finalize give equal bytes (immediate in a functional model).
 * `Reuse.reuse_after_finalize_statement_false` (SessionExample.lean): a point-cloud writer used again after its
   finalize does not read back — the theorem tracks a cloud until its finalize only.
Hypotheses: sizes < 2^64, XML ≤ 10 MiB (the reader's limit), the external parser returns the tree of C04's
obligation C, float text invertible on the values used.
-/
import E57.Proofs.Session
import E57.Proofs.Closed
