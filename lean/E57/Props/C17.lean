/-
C17 — Read operations are independent of what was read before.

Proved in E57/Proofs/History.lean on the reader model (E57/Model/Reader.lean, Simple.lean, Pages.lean):
every library read operation begins with a physical seek and, given the page-cache invariant, its
answer is a function of the file bytes only.  The model is tied to the crate by the `reader`
correspondence suite, whose oracle also replays every operation on a fresh reader.
-/
import E57.Proofs.History
namespace E57.C17
open E57

/-- **History independence.**  For any reader state satisfying the cache invariant (in particular
    the state right after opening), ANY history `h` of read operations — XML extraction, blob
    extraction, raw or simple iteration of any cloud under any options for any number of steps,
    succeeded or failed, fully or partly consumed — and any next operation `q`: the answer of `q`
    after `h` equals the answer of `q` on the fresh reader. -/
theorem history_independent (r0 : PR) (hinv : r0.CacheInv) (h : List ROp) (q : ROp) :
    (runOp q (runOps h r0)).2 = (runOp q r0).2 := C17_history_independent r0 hinv h q

/-- the same stated for an opened `E57Reader`: after any history the answer equals both the answer
    right after opening and the answer on the pristine page reader over the same file -/
theorem opened_reader_history_independent (file : Bytes) (xo : XmlOracle) (fp : FloatParse) (rd : Reader)
    (h : Reader.open file xo fp = some rd) (hist : List ROp) (q : ROp) :
    (runOp q (runOps hist rd.pr)).2 = (runOp q rd.pr).2 ∧
    ∀ r0, PR.new ⟨file, 48⟩ rd.header.pageSize = .ok r0 →
      (runOp q (runOps hist rd.pr)).2 = (runOp q r0).2 := C17_open file xo fp rd h hist q

/-- answers after any two histories agree -/
theorem any_two_histories (r0 : PR) (hinv : r0.CacheInv) (h1 h2 : List ROp) (q : ROp) :
    (runOp q (runOps h1 r0)).2 = (runOp q (runOps h2 r0)).2 := C17_any_two_histories r0 hinv h1 h2 q

/-- one `read` of the page layer depends on the cache only through the cache invariant:
    equivalent readers (same file, same cursor, possibly different caches) give the same bytes or
    both fail -/
theorem page_read_cache_independent (r1 r2 : PR) (h : r1.Equiv r2) (n : Nat) :
    (∃ a1 a2 bs, r1.read n = .ok (a1, bs) ∧ r2.read n = .ok (a2, bs) ∧ a1.Equiv a2) ∨
    (∃ e, r1.read n = .err e ∧ r2.read n = .err e ∧ r1.readFailState.Equiv r2.readFailState) :=
  pr_read_equiv h n

end E57.C17
