/-
C13 — Normalised colour and intensity lie in [0,1], are monotone, never NaN.

The arithmetic theorems are proved in E57/Proofs/Normalise.lean for EVERY float carrier `F`
satisfying the IEEE-754 facts bundled in `IEEELike F` (monotone rounding that fixes representable
numbers, correctly rounded `*`, `-`, `/` with no spurious overflow, gradual underflow, a monotone
f64→f32 cast; a consistency witness on exact rationals is given there).  They are hypotheses of
the theorems, not axioms.  The executable model instantiates the same definitions
(`RangeG.fromMinMax`, `RangeG.normalize`) at the native `Float`, and the `reader` correspondence
suite compares its results bit for bit with the crate.  This file adds the facts about which
range is used and about disabled normalisation, and restates the main results.
-/
import E57.Proofs.Normalise
import E57.Proofs.SoftFloat
namespace E57.C13
open E57 FloatOps IEEELike

variable {F : Type} [FloatOps F] [IEEELike F]

/-- **[0,1], never NaN or infinite**: for any bounds whatsoever (finite, reversed, equal, NaN,
    infinite) and any finite stored value, the delivered f32 is a number in the unit interval -/
theorem unit_interval (min max : F) {v : F} {vv : ℚ} (hv : val v = some vv) :
    ∃ q : ℚ, val32 F ((RangeG.fromMinMax min max).normalize v) = some q ∧ 0 ≤ q ∧ q ≤ 1 :=
  C13_total min max hv

/-- **monotone** in the stored value -/
theorem monotone {min max v v' : F} {vv vv' : ℚ} (hnd : NonDegenerate min max)
    (hv : val v = some vv) (hv' : val v' = some vv') (hle : vv ≤ vv') :
    ∃ q q' : ℚ, val32 F ((RangeG.fromMinMax min max).normalize v) = some q ∧
      val32 F ((RangeG.fromMinMax min max).normalize v') = some q' ∧ q ≤ q' :=
  C13_monotone_bits hnd hv hv' hle

/-- **0 at the minimum, 1 at the maximum**, for all finite `min < max` -/
theorem endpoints {min max : F} {vmin vmax : ℚ} (hmin : val min = some vmin) (hmax : val max = some vmax)
    (hlt : vmin < vmax) :
    val32 F ((RangeG.fromMinMax min max).normalize min) = some 0 ∧
    val32 F ((RangeG.fromMinMax min max).normalize max) = some 1 :=
  C13_endpoints_all_bits hmin hmax hlt

/-- **degenerate range yields 0** (equal or reversed finite bounds) -/
theorem degenerate {min max : F} {vmin vmax : ℚ} (hmin : val min = some vmin) (hmax : val max = some vmax)
    (hdeg : ¬ vmin < vmax) (v : F) : (RangeG.fromMinMax min max).normalize v = 0 :=
  C13_degenerate hmin hmax hdeg v

/-- … and so does a NaN or infinite bound -/
theorem degenerate_nonfinite {min max : F} (h : val min = none ∨ val max = none) (v : F) :
    (RangeG.fromMinMax min max).normalize v = 0 := C13_degenerate_nonfinite h v

/-- **the value is the clamped ratio** up to the roundings of the three operations; with exact
    arithmetic it is exactly `clamp((v − min)/(max − min), 0, 1)` -/
theorem formula_exact (hid : rnd F = id) {min max v : F} {vmin vmax vv : ℚ}
    (hmin : val min = some vmin) (hmax : val max = some vmax) (hv : val v = some vv) (hlt : vmin < vmax) :
    val ((RangeG.fromMinMax min max).normalizeF v) = some (qclamp ((vv - vmin) / (vmax - vmin)) 0 1) := by
  have hnd := C13_nondegenerate_of_lt hmin hmax hlt
  have := C13_formula_exact hid hnd hmin hmax hv
  rw [this.1, this.2]

/-! ### which range is used; disabled normalisation (facts about the model's own definitions) -/

/-- the limits are used whenever both are given as numbers (double, single or integer, also of two different
    kinds): the range is built from exactly their real values -/
theorem range_from_limits (a b : Value) (fa fb : Float) (p : Prototype) (n : RecordName)
    (ha : limitValue a ((p.find? (fun r => r.name == n)).map (·.dt)) = some fa)
    (hb : limitValue b ((p.find? (fun r => r.name == n)).map (·.dt)) = some fb) :
    rangeFor (some (some a, some b)) p n = some (Range.fromMinMax fa fb) := by
  simp [rangeFor, Range.fromLimits, ha, hb]

theorem range_from_limits_double (a b : UInt64) (p : Prototype) (n : RecordName) :
    rangeFor (some (some (.double a), some (.double b))) p n
      = some (Range.fromMinMax (Float.ofBits a) (Float.ofBits b)) :=
  range_from_limits _ _ _ _ p n rfl rfl

/-- limits of two different kinds are used as well -/
theorem range_mixed_limits (i : Int) (b : UInt64) (p : Prototype) (n : RecordName) :
    rangeFor (some (some (.integer i), some (.double b))) p n
      = some (Range.fromMinMax (i64ToFloat i) (Float.ofBits b)) :=
  range_from_limits _ _ _ _ p n rfl rfl

/-- **scaled-integer limits** are raw values of the attribute's data type: they count with its scale and offset -/
theorem range_scaled_limits (a b mn mx : Int) (scale offset : UInt64) (n : RecordName) (p : Prototype) (r : Record)
    (hfind : p.find? (fun r => r.name == n) = some r) (hdt : r.dt = .scaled mn mx scale offset) :
    rangeFor (some (some (.scaled a), some (.scaled b))) p n
      = some (Range.fromMinMax (i64ToFloat a * Float.ofBits scale + Float.ofBits offset)
          (i64ToFloat b * Float.ofBits scale + Float.ofBits offset)) := by
  apply range_from_limits <;> simp [hfind, hdt, limitValue]

/-- without limits, or when one of them is missing, the range of the attribute's data type is used; no attribute,
    no range -/
theorem range_falls_back_to_type (p : Prototype) (n : RecordName) :
    (rangeFor none p n).isSome = (p.find? (fun r => r.name == n)).isSome := by
  simp [rangeFor]

theorem range_one_limit_missing (a : Value) (p : Prototype) (n : RecordName) :
    rangeFor (some (some a, none)) p n = rangeFor none p n ∧
    rangeFor (some (none, some a)) p n = rangeFor none p n := by
  constructor <;> simp [rangeFor, Range.fromLimits]

/-- with normalisation disabled the stored value is delivered unchanged as a 32-bit float -/
theorem disabled_is_cast (v : UInt64) (r : Option Range) :
    normalizeValue false v r = (Float.ofBits v).toFloat32.toBits := by
  simp [normalizeValue]

/-- with normalisation enabled and no range the result is 0 -/
theorem enabled_without_range (v : UInt64) : normalizeValue true v none = 0 := by
  simp [normalizeValue]

end E57.C13
