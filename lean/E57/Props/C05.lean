/-
C05 — Simple reader equals the documented view of the raw data.

Main theorems (E57/Proofs/SimpleView.lean, on E57/Model/Simple.lean; `Float` operations are kept
uninterpreted, so every statement holds for any interpretation of the arithmetic):
 * `postProcess_eq_map`   four passes over a batch = per-point composition `perPoint` (the pose only if there is one)
 * `simple_next_spec`     exact five-way description of one `next`
 * `simple_eq_map_raw`    same queue/reader/records: if every raw item is a value and every view of the
                          points made available succeeds, both iterators yield `records` items, the k-th
                          simple point is `fullView` of the k-th raw point, then `done` forever
 * `simple_eq_map_raw_statement_false`  the unconditional version is FALSE for the model (and the crate): the
                          simple iterator also views points beyond `recordCount` that a packet makes available,
                          so a bad invalid-state value past the end makes it fail where the raw iterator is fine
 * `simple_count`         never more than `records` values
 * `simple_fails_only_where`, `viewPoint_none_iff`   an error means the refill failed (then the raw iterator
                          fails too) or a stored invalid-state value is outside {0,1,2} / {0,1}
 * `locality_transform/_s2c/_c2s/_i2c/_nc/_ni`   which fields each option switch can influence
                          (`locality_transform_cartesian`: `transform` changes nothing but VALID Cartesian coordinates)
 * `no_pose_no_change` (`_next`, `_items`, `_fullView`)   the pose is applied only if the option is on AND the point
                          cloud has a pose: without a pose the switch `transform` has no effect at all (the identity
                          rotation and zero translation are not neutral for floats: −0.0, 0·∞)
-/
import E57.Proofs.SimpleView
