/-
C14 — Bounds and default limits written by the writer are exact.

Proved in E57/Proofs/WriterProps.lean (Part A) on the writer model (E57/Model/Writer.lean):
the bounds pushed for the XML are, field by field, the fold of `update_min`/`update_max` over the
`to_f64` (resp. `to_i64`) values of all occurrences of the corresponding record in all ACCEPTED
points, and such a fold returns an exact minimum/maximum for any strict order on the values in
play.  `Float` comparison is opaque to the kernel, so the order facts about `fltLt` on non-NaN
values (irreflexive, transitive) are a HYPOTHESIS of the float theorems (`StrictOn S fltLt`), not
an axiom; for the integer index bounds everything is proved outright.  The correspondence suite
`writer` compares the XML numbers byte for byte and its oracle recomputes the bounds independently.

NaN (crate repair "NaN is not a bound"): `update_min`/`update_max` return at once for a value that
cannot be compared with itself.  The float bounds are therefore the folds over the values that are
NOT NaN (`nonNaN vs = vs.filter (fun v => !fltIsNaN v)`), wherever NaNs occur in the sequence of
points, the first point included; the theorems below no longer need the POINTS to be free of NaN
(`S` is fixed to `NotNaN v := fltIsNaN v = false`, only the order facts stay a hypothesis).
`nan_never_a_bound` and `bounds_order_independent_of_nan` need no hypothesis at all.  Before the
repair a NaN in the first point stayed as bound for good (`old_first_nan_poisons_min/max`).
-/
import E57.Proofs.WriterProps
namespace E57.C14
open E57

/-- **Exact bounds after any sequence of accepted points.**  After `PcW.new` and any list of
    `add_point` calls that all succeed, the writer's metadata satisfies `BoundsExact`: each of the
    twelve float bounds is `foldMin/foldMax fltLt` of the record's NON-NaN values (`nonNaN`) over all
    points — NaN coordinates may occur anywhere —, each of the six index bounds the integer fold, and each bounds structure is present exactly when the
    prototype contains its attribute group; the record count is the number of points. -/
theorem bounds_are_exact (pw : PW) (exts : List (String × String)) (guid : String) (proto : Prototype)
    (hpw : pw.Inv) (pw0 : PW) (w0 : PcW) (hnew : PcW.new pw exts guid proto = .ok (pw0, w0))
    (pts : List (List Value)) (pw1 : PW) (w1 : PcW) (hadd : addPoints pts (pw0, w0) = .ok (pw1, w1)) :
    BoundsExact proto pts w1.pc ∧ w1.pointCount = pts.length ∧ w1.prototype = proto :=
  bounds_exact pw exts guid proto hpw pw0 w0 hnew pts pw1 w1 hadd

/-- the fold is a minimum: it is one of the values and no value is smaller — for ANY strict order
    (instantiated with IEEE `<` on non-NaN doubles for the float bounds) -/
theorem fold_min_is_minimum {α : Type} {S : α → Prop} {lt : α → α → Bool} (h : StrictOn S lt)
    (vs : List α) (hS : ∀ v ∈ vs, S v) (hne : vs ≠ []) :
    ∃ m, foldMin lt vs = some m ∧ m ∈ vs ∧ ∀ v ∈ vs, lt v m = false := foldMin_spec h vs hS hne

theorem fold_max_is_maximum {α : Type} {S : α → Prop} {lt : α → α → Bool} (h : StrictOn S lt)
    (vs : List α) (hS : ∀ v ∈ vs, S v) (hne : vs ≠ []) :
    ∃ m, foldMax lt vs = some m ∧ m ∈ vs ∧ ∀ v ∈ vs, lt m v = false := foldMax_spec h vs hS hne

/-- the float bounds kept by the writer: the fold of the repaired `update_min` over ANY doubles is
    the generic fold over those that are not NaN … -/
theorem float_fold_skips_nan (vs : List UInt64) :
    foldMinF vs = foldMin fltLt (nonNaN vs) ∧ foldMaxF vs = foldMax fltLt (nonNaN vs) :=
  ⟨foldMinF_eq vs, foldMaxF_eq vs⟩

/-- … hence an exact minimum / maximum of the non-NaN values, whatever NaNs stand between them
    (hypothesis: IEEE `<` is a strict order on the non-NaN doubles; nothing is assumed of `vs`) -/
theorem float_min_is_minimum (h : StrictOn NotNaN fltLt) (vs : List UInt64) (hne : nonNaN vs ≠ []) :
    ∃ m, foldMinF vs = some m ∧ m ∈ vs ∧ fltIsNaN m = false ∧
      ∀ v ∈ vs, fltIsNaN v = false → fltLt v m = false := foldMinF_spec h vs hne

theorem float_max_is_maximum (h : StrictOn NotNaN fltLt) (vs : List UInt64) (hne : nonNaN vs ≠ []) :
    ∃ m, foldMaxF vs = some m ∧ m ∈ vs ∧ fltIsNaN m = false ∧
      ∀ v ∈ vs, fltIsNaN v = false → fltLt m v = false := foldMaxF_spec h vs hne

/-- nothing is stored exactly when every value is a NaN -/
theorem float_bound_absent_iff_all_nan (vs : List UInt64) :
    (foldMinF vs = none ↔ ∀ v ∈ vs, fltIsNaN v = true) ∧ (foldMaxF vs = none ↔ ∀ v ∈ vs, fltIsNaN v = true) :=
  ⟨foldMinF_eq_none vs, foldMaxF_eq_none vs⟩

/-- **NaN is never a bound.**  After `new` and any sequence of accepted `add_point` calls — NaN
    coordinates anywhere, the first point included — none of the twelve float bounds
    (`PointCloud.floatBounds`: x/y/z min/max, range min/max, elevation min/max, azimuth start/end)
    is a NaN.  No hypothesis on the order. -/
theorem nan_never_a_bound (pw : PW) (exts : List (String × String)) (guid : String) (proto : Prototype)
    (hpw : pw.Inv) (pw0 : PW) (w0 : PcW) (hnew : PcW.new pw exts guid proto = .ok (pw0, w0))
    (pts : List (List Value)) (pw1 : PW) (w1 : PcW) (hadd : addPoints pts (pw0, w0) = .ok (pw1, w1)) :
    ∀ o ∈ w1.pc.floatBounds, ∀ b, o = some b → fltIsNaN b = false :=
  E57.nan_never_a_bound pw exts guid proto hpw pw0 w0 hnew pts pw1 w1 hadd

/-- **The bounds do not depend on where a NaN stands**: inserting a NaN anywhere into the sequence
    of values of a record (the front included) changes neither fold. -/
theorem bounds_order_independent_of_nan (l₁ l₂ : List UInt64) (nan : UInt64) (h : fltIsNaN nan = true) :
    foldMinF (l₁ ++ nan :: l₂) = foldMinF (l₁ ++ l₂) ∧ foldMaxF (l₁ ++ nan :: l₂) = foldMaxF (l₁ ++ l₂) :=
  E57.bounds_order_independent_of_nan l₁ l₂ nan h

/-- the same on the writer: the accepted sequence with a point whose X is NaN inserted anywhere and
    the sequence without it end with the same `xMin` and `xMax` -/
theorem nan_point_moves_no_x_bound (pw : PW) (exts : List (String × String)) (guid : String)
    (proto : Prototype) (hpw : pw.Inv) (pw0 : PW) (w0 : PcW)
    (hnew : PcW.new pw exts guid proto = .ok (pw0, w0))
    (pts₁ pts₂ : List (List Value)) (pt : List Value) (pw1 pw1' : PW) (w1 w1' : PcW)
    (hadd : addPoints (pts₁ ++ pt :: pts₂) (pw0, w0) = .ok (pw1, w1))
    (hadd' : addPoints (pts₁ ++ pts₂) (pw0, w0) = .ok (pw1', w1'))
    (hnan : ∀ v ∈ colVals Value.toF64 .cartesianX proto pt, fltIsNaN v = true) :
    w1.pc.xMin = w1'.pc.xMin ∧ w1.pc.xMax = w1'.pc.xMax :=
  E57.nan_point_moves_no_x_bound pw exts guid proto hpw pw0 w0 hnew pts₁ pts₂ pt pw1 pw1' w1 w1' hadd hadd' hnan

/-- OLD behaviour, as documentation (generic `update_min`/`update_max` that take the first value
    unconditionally): a first value that compares false with everything, as a NaN does, stayed for good -/
theorem old_first_nan_poisons_min {α : Type} (lt : α → α → Bool) (a : α) (h : ∀ x, lt x a = false)
    (vs : List α) : foldMin lt (a :: vs) = some a := foldMin_poisoned lt a h vs

theorem old_first_nan_poisons_max {α : Type} (lt : α → α → Bool) (a : α) (h : ∀ x, lt a x = false)
    (vs : List α) : foldMax lt (a :: vs) = some a := foldMax_poisoned lt a h vs

/-- integer (row / column / return index) bounds are the exact minimum and maximum -/
theorem index_min_exact (vs : List Int) (hne : vs ≠ []) (m : Int) :
    foldMin ltI vs = some m ↔ m ∈ vs ∧ ∀ v ∈ vs, m ≤ v := foldMin_int vs hne m

theorem index_max_exact (vs : List Int) (hne : vs ≠ []) (m : Int) :
    foldMax ltI vs = some m ↔ m ∈ vs ∧ ∀ v ∈ vs, v ≤ m := foldMax_int vs hne m

/-- a rejected point moves no bound: `add_point` returns an error without a new state -/
theorem rejected_point_changes_nothing (w : PcW) (pw : PW) (vs : List Value)
    (h : vs.length ≠ w.prototype.length ∨ checkValues w.prototype vs = false) :
    stepKeep (pw, w) vs = (pw, w) := addPoint_err_no_state w pw vs h

end E57.C14
