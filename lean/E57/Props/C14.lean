/-
C14 — Bounds and default limits written by the writer are exact.

Proved in E57/Proofs/WriterProps.lean (Part A) on the writer model (E57/Model/Writer.lean):
the bounds pushed for the XML are, field by field, the fold of `update_min`/`update_max` over the
`to_f64` (resp. `to_i64`) values of all occurrences of the corresponding record in all ACCEPTED
points, and such a fold returns an exact minimum/maximum for any strict order on the values in
play.  `Float` comparison is opaque to the kernel, so the order facts about `fltLt` on non-NaN
values (irreflexive, transitive) are a HYPOTHESIS of the float theorems (`StrictOn S fltLt`), not
an axiom; for the integer index bounds everything is proved outright.  The correspondence suite
`writer` compares the XML numbers byte for byte and its oracle recomputes the bounds independently.
-/
import E57.Proofs.WriterProps
namespace E57.C14
open E57

/-- **Exact bounds after any sequence of accepted points.**  After `PcW.new` and any list of
    `add_point` calls that all succeed, the writer's metadata satisfies `BoundsExact`: each of the
    twelve float bounds is `foldMin/foldMax fltLt` of the record's values over all points, each of
    the six index bounds the integer fold, and each bounds structure is present exactly when the
    prototype contains its attribute group; the record count is the number of points. -/
theorem bounds_are_exact (pw : PW) (exts : List (String × String)) (guid : String) (proto : Prototype)
    (hpw : pw.Inv) (pw0 : PW) (w0 : PcW) (hnew : PcW.new pw exts guid proto = .ok (pw0, w0))
    (pts : List (List Value)) (pw1 : PW) (w1 : PcW) (hadd : addPoints pts (pw0, w0) = .ok (pw1, w1)) :
    BoundsExact proto pts w1.pc ∧ w1.pointCount = pts.length ∧ w1.prototype = proto :=
  bounds_exact pw exts guid proto hpw pw0 w0 hnew pts pw1 w1 hadd

/-- the fold is a minimum: it is one of the values and no value is smaller — for ANY strict order
    (instantiated with IEEE `<` on non-NaN doubles for the float bounds) -/
theorem fold_min_is_minimum {α : Type} {S : α → Prop} {lt : α → α → Bool} (h : StrictOn S lt)
    (vs : List α) (hS : ∀ v ∈ vs, S v) (hne : vs ≠ []) :
    ∃ m, foldMin lt vs = some m ∧ m ∈ vs ∧ ∀ v ∈ vs, lt v m = false := foldMin_spec h vs hS hne

theorem fold_max_is_maximum {α : Type} {S : α → Prop} {lt : α → α → Bool} (h : StrictOn S lt)
    (vs : List α) (hS : ∀ v ∈ vs, S v) (hne : vs ≠ []) :
    ∃ m, foldMax lt vs = some m ∧ m ∈ vs ∧ ∀ v ∈ vs, lt m v = false := foldMax_spec h vs hS hne

/-- integer (row / column / return index) bounds are the exact minimum and maximum -/
theorem index_min_exact (vs : List Int) (hne : vs ≠ []) (m : Int) :
    foldMin ltI vs = some m ↔ m ∈ vs ∧ ∀ v ∈ vs, m ≤ v := foldMin_int vs hne m

theorem index_max_exact (vs : List Int) (hne : vs ≠ []) (m : Int) :
    foldMax ltI vs = some m ↔ m ∈ vs ∧ ∀ v ∈ vs, v ≤ m := foldMax_int vs hne m

/-- a rejected point moves no bound: `add_point` returns an error without a new state -/
theorem rejected_point_changes_nothing (w : PcW) (pw : PW) (vs : List Value)
    (h : vs.length ≠ w.prototype.length ∨ checkValues w.prototype vs = false) :
    stepKeep (pw, w) vs = (pw, w) := addPoint_err_no_state w pw vs h

end E57.C14
