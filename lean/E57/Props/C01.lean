/-
C01 — raw points survive write → read.

Writer half (proved in `E57/Proofs/LayoutWrite.lean`):

 * `writer_layout`        whenever `PcW.new`, the `add_point`s and `finalize` return `ok` on a
   well-formed page writer whose cursor is 4-aligned, the finalized section is laid out as
   `SectionLayout` says: 32-byte header (section length = 32 + Σ packet lengths, data offset =
   physical offset right behind the header, also when the header straddles a page boundary),
   followed by exactly the packets the SPECIFICATION encoder `Spec.encodeSection` emits for the
   added points (value − minimum or float bits, LSB first, contiguous across points/bytes/packets),
   bytes before the section untouched, cursor behind it, `LegalPackets`.
 * `writer_layout_legal`  the same without assuming success of `add_point`/`finalize`: for every
   valid prototype and all fitting points the calls do succeed (`session_ok`).
 * `stream_refines`, `packet_bytes`, `new_dataOffset`, `finalize_lay`, `encodeSection_cv`.
 * `empty_section_deviates` / `no_points_no_packets`: a section without any data packet stores the
   data offset `l2p (s+32)` where the specification encoder stores 0 — a deviation without effect
   on reading (there is nothing to read), kept visible.

Reader half: `E57/Props/C03.lean` (`C03_reader_decodes_any_layout`).
Composition (`E57/Proofs/RoundTrip.lean`, namespace `E57.RoundTrip`):

 * `C01_section_roundtrip`  valid prototype, fitting points, aligned well-formed page writer ⇒ the three
   writer calls succeed and every healthy reader over every complete file that still contains the
   section gets back exactly the points, in order, then `done`.
 * `C01_file_roundtrip`, `C01_closed_file`  the same for any later writer state / after the top-level
   finalize (`close_keeps_window`, `ew_finalize_abs`, `close_cursor`).
 * `C01_no_room_statement_false` / `QR_new_empty_fails`  the one extra hypothesis (a packet-less section
   must not be the very last bytes of the file) is necessary.
-/
import E57.Proofs.LayoutWrite
import E57.Proofs.LayoutRead
import E57.Proofs.RoundTrip
