/-
C18 — Unknown extension content never alters standard content.

Proved in E57/Proofs/Foreign.lean on the tree-level reader model (E57/Model/Xml.lean, MetaRead.lean):
 * `C18_foreign_invisible`      for documents whose roots are related by any number of insertions of
       foreign-namespace elements (whole subtree foreign, any local names, ANY position among the children of
       any element — in front of, behind or in the middle of a leaf's text included — except directly
       inside a `prototype`), comments, processing instructions and foreign attributes:
       root metadata, all point clouds and all images read identically — for every float-parse table
 * `textOf_insert_nontext`, `textOf_split_text`   the reason: `xml::text_of` concatenates ALL text pieces of
       a leaf (the crate used roxmltree's `text()`, first child only, before the repair)
 * `C18_foreign_invisible_ext`  … and the extension list, when the namespace declarations agree
 * `Reader_open_foreign`, `points_and_blobs_unchanged`   the opened reader is equal, hence points and blobs
 * `recordNameOf_foreign`, `prototype_insert_foreign_record`   extension records inside a prototype are
       reported as Unknown{prefix, local name} whatever their local name and leave the other records unchanged
 * witnesses: `textOf_not_shadowed_by_leading_element` (a foreign element in front of, or in the middle of,
       a leaf's text changes nothing; replaces `textOf_shadowed_by_leading_element`, which documented the old
       `text()` and is false now), `nonforeign_shadows` (a non-foreign look-alike does shadow);
       foreign TEXT cannot be inserted: text has no namespace
The XML text → tree step is roxmltree's (external); the `foreign` suite performs the insertions on real files.
-/
import E57.Proofs.Foreign
