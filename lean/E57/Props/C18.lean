/- C18 — tree-level invariance under foreign insertions (theorem to be added) -/
import E57.Model.MetaRead
