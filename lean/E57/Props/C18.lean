/-
C18 — Unknown extension content never alters standard content.

Proved in E57/Proofs/Foreign.lean on the tree-level reader model (E57/Model/Xml.lean, MetaRead.lean):
 * `C18_foreign_invisible`      for documents whose roots are related by any number of insertions of
       foreign-namespace elements (whole subtree foreign, any local names, any position except directly
       inside a `prototype` and never directly in front of a leaf's text) and foreign attributes:
       root metadata, all point clouds and all images read identically — for every float-parse table
 * `C18_foreign_invisible_ext`  … and the extension list, when the namespace declarations agree
 * `Reader_open_foreign`, `points_and_blobs_unchanged`   the opened reader is equal, hence points and blobs
 * `recordNameOf_foreign`, `prototype_insert_foreign_record`   extension records inside a prototype are
       reported as Unknown{prefix, local name} whatever their local name and leave the other records unchanged
 * delimiting witnesses: `textOf_shadowed_by_leading_element` (an element inserted in front of a leaf's
       text hides the text — roxmltree's `text()`), `nonforeign_shadows` (a non-foreign look-alike does shadow)
The XML text → tree step is roxmltree's (external); the `foreign` suite performs the insertions on real files.
-/
import E57.Proofs.Foreign
