/- C08 — property theorems (being extended); the reader model these will be about: -/
import E57.Model.Simple
