/-
C08 — Reading untrusted bytes never panics.

Main theorems (E57/Proofs/ReaderTotal.lean): in the model every Rust panic site of the bit buffers
(slice bounds, usize underflow, `ilog2` of a non-positive range) is the outcome `.panic`;
 * `RBuf.extract_no_panic`, `unpackInts_wf`, `unpackFixed_wf`  bit buffers never reach a panic site for any bytes
 * `parseStream_no_panic`, `advance_no_panic`, `advance_wf`   one `advance` is a function of the page-layer I/O only
 * `Reader.open_rangeOk`   every prototype the XML reader accepts has min <= max within i64 (so `ilog2` is safe)
 * `reader_total`          for ANY bytes, XML oracle and float parser: after opening and any number of `next`
                           calls the invariants hold, the file is unchanged, held bytes <= file size
Panic sites outside the modelled core (roxmltree, float parsing, `Vec` allocation failure) are exercised by the
mutation suite (harness, catch_unwind, overflow-checked build), not proved.
-/
import E57.Proofs.ReaderTotal
