/-
C09 — Reading untrusted bytes uses bounded time and memory per call.

Main theorems (E57/Proofs/ReaderTotal.lean):
 * `raw_count`, (C05) `simple_count`   an iterator yields at most `recordCount` values
 * `advance_progress`, `refillCalls_le`, `refill_fuel_irrelevant`, `refill_terminates_with_progress`
       every successful `advance` consumes >= 4 bytes; one `next` performs at most (logSize-offset)/4 + 2 advances
 * `advance_bytes_consumed`, `advance_held`, `advance_queue_growth`, `advance_allZeroWidth`
       bytes held <= bytes consumed <= file size; queue growth per call <= 8 x bytes held (+1 per call when all
       records have zero width: no unbounded fill)
 * `advance_queue_growth_linear`, `reader_constants_unqueued`
       the values one `advance` adds to ALL queues together <= 8 x (bytes held before + bytes consumed by the call)
       (<= number of records for an all-constant cloud); records of zero bit size are never queued, so there is
       no (zero-width records) x (values) term
 * `extractXml_too_long`, `Reader.open_spec`   XML <= 10 MiB, one 1024-byte page buffer
 * `blobRead_spec`, `blobRead_exact_or_error`   a blob extraction consumes <= 16 + length bytes and returns exactly
       `length` bytes or an error
Wall-clock time and the real allocator are measured by the harness, not proved.
-/
import E57.Proofs.ReaderTotal
import E57.Proofs.SimpleView
