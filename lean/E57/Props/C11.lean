/-
C11 — Page layer: file payload always equals the logical stream written.

The theorems are proved in E57/Proofs/PagesWrite.lean (writer ⊑ logical stream, by invariant and
abstraction function, for all operation histories) and E57/Proofs/PagesRead.lean (reading a paged
image returns the logical stream for all histories of seeks/reads/aligns).  This file states the
property-level results; the model they are about (E57/Model/Pages.lean) is tied to
src/paged_writer.rs and src/paged_reader.rs by the `pages` correspondence suite on every run.
-/
import E57.Proofs.PagesWrite
import E57.Proofs.PagesRead
namespace E57.C11
open E57

/-- **Writer side.**  For every history over {write(b), physical_seek(p), flush, align, size} — failing
    seeks included — the concrete `PagedWriter` over an ideal device never fails, keeps its invariant,
    represents exactly the abstract logical stream obtained by running the same history on the
    specification, and after a flush the device bytes are exactly the paged image of that stream:
    every 1020-byte payload followed by its big-endian CRC-32C. -/
theorem writer_refines_logical_stream (ops : List WOp) :
    ∃ w, runConcrete ops w0 = .ok w ∧ w.Inv ∧ w.abs = runSpec ops Spec.LogStream.init ∧
      (w.flush).dev.data = Spec.image (runSpec ops Spec.LogStream.init).data :=
  pw_refines ops

/-- physical positions translate to logical ones by skipping 4 checksum bytes per 1020 payload bytes -/
theorem position_translates (w : PW) (h : w.Inv) : w.physicalPosition = Spec.l2p (w.abs).cur :=
  pw_position w h

/-- reported physical size = 1024 bytes per 1020 logical bytes, and the call leaves a flushed image -/
theorem size_translates (w : PW) (h : w.Inv) :
    w.physicalSize.2 = 1024 * ((w.abs).data.length / 1020) ∧
    (w.physicalSize.1).dev.data = Spec.image (w.abs).data :=
  ⟨(pw_size w h).2.2.1, (pw_size w h).2.2.2⟩

/-- a seek is accepted exactly when it is not beyond the flushed end and not inside checksum bytes;
    a rejected seek changes nothing but flushes -/
theorem seek_verdict (w : PW) (p : Nat) (h : w.Inv) :
    (w.physicalSeek p).2 = (decide (p ≤ 1024 * ((w.abs).data.length / 1020)) && decide (p % 1024 < 1020)) ∧
    (w.physicalSeek p).1.abs = (w.abs).seek p :=
  ⟨(pw_seek w p h).2.1, (pw_seek w p h).2.2.1⟩

/-- the logical stream is always zero-filled to a whole number of pages and the cursor is inside it -/
theorem stream_wellformed (w : PW) (h : w.Inv) :
    (w.abs).data.length % 1020 = 0 ∧ (w.abs).cur ≤ (w.abs).data.length := abs_wf w h

/-- **Reader side.**  On a device holding the paged image of a logical stream `d`, in every state
    reachable from opening it by any sequence of physical seeks, reads, exact reads and alignments,
    one `read(n)` returns the corresponding slice of `d` (short at page ends, empty at the end) and
    never fails. -/
theorem reader_returns_logical_stream (d : Bytes) (r : PR) (n : Nat)
    (hd : d.length % 1020 = 0) (hinv : r.CacheInv) (hps : r.pageSize = 1024)
    (hdata : r.dev.data = Spec.image d) :
    ∃ r' bs, r.read n = .ok (r', bs) ∧ r'.offset = r.offset + bs.length ∧
      (r.offset < d.length → bs = (d.drop r.offset).take (min n (1020 - r.offset % 1020))) ∧
      (d.length ≤ r.offset → bs = [] ∧ r' = r) := by
  obtain ⟨r', bs, h1, h2, _, _, h5, h6⟩ := pr_reads_stream_read d r n hd hinv hps hdata
  exact ⟨r', bs, h1, h2, h5, h6⟩

/-- `read_exact(n)` inside the stream returns exactly the next `n` logical bytes, across page ends -/
theorem reader_read_exact (d : Bytes) (r : PR) (n : Nat)
    (hd : d.length % 1020 = 0) (hinv : r.CacheInv) (hps : r.pageSize = 1024)
    (hdata : r.dev.data = Spec.image d) (hin : r.offset + n ≤ d.length) :
    ∃ r', r.readExact n = (r', some ((d.drop r.offset).take n)) ∧ r'.offset = r.offset + n := by
  obtain ⟨r', h1, h2, _, _⟩ := (pr_reads_stream_exact_partial d r n hd hinv hps hdata).1 hin
  exact ⟨r', h1, h2⟩

/-- seeks translate physical to logical offsets -/
theorem reader_seek_translates (r : PR) (p : Nat) (r' : PR) (o : Nat) (hps : r.pageSize = 1024)
    (h : r.seekPhysical p = .ok (r', o)) : o = Spec.p2l p :=
  ((pr_seek_translate r p).2 r' o h).2.2 hps

end E57.C11
