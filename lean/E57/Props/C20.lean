/-
C20 — bundled tools preserve data end to end.  The logic of the tools is modelled in E57/Model/Tools.lean and
E57/Model/Pages.lean (`validateCrc`) and compared with the real binaries by the tools suite.

`E57/Proofs/ToolsProps.lean` (namespace `E57.ToolsP`):
 * e57-check-crc: `validateCrc_iff` — `validate_crc` succeeds with page size ps iff the header is long enough, ps is
   an acceptable page size, the length is a positive multiple of ps and EVERY page's stored big-endian checksum is the
   CRC-32C of its payload (predicates written with drop/take/crc32c/toBE32 only, no reader); the fuel of the loop is
   shown sufficient; `checkFiles_iff` (the tool's exit status); `validateCrc_none_iff`, `validateCrc_detects(_burst)`,
   `validateCrc_altered_iff` (C07: validation fails exactly when an altered page no longer matches its checksum);
   `validateCrc_every_alteration_statement_false` ("every alteration is rejected" is false: the 33-bit burst witness);
   `validateCrc_finalized` (every file the writer finishes passes).
 * e57-from-xyz: `fromXyzLine_spec`, `fromXyzLine_skip_iff`, `fromXyzLine_abort_iff`; `fromXyz_accepted`,
   `xyz_points_stored` (by C01: the points the tool adds are the points the raw iterator returns, in order).
 * colours: `parseUnsigned_255_roundtrip`, `colourToU8_parses_back`; with `E57/Proofs/SoftFloat.lean`:
   `SF.colour_roundTrip` (every 8-bit colour survives normalise → as f32 → ·255 → as u8, decided in the kernel for
   the soft-float model that suite `sfloat` ties to the hardware).
 * e57-to-xyz: `toXyzPoint_eq`; under `IEEEFacts` (12 facts about the native `Float`, opaque to the kernel:
   1·v = v, v+0 = v except −0, f32→f64→f32 identity, …) `IEEEFacts.coords`, `toXyzPoint_roundtrip`,
   `xyzRoundTrip_spec`: finite coordinates come back numerically unchanged and in order;
   `xyz_coords_bits_statement_false`: −0.0 comes back as +0.0 (the identity pose is applied as 1·x+0·y+0·z+0),
   numerically equal; `xyz_coords_bits_partial` for all other finite values.
-/
import E57.Model.Tools
import E57.Proofs.SoftFloat
import E57.Proofs.ToolsProps
