/- C20 — property theorems (to be added); model: -/
import E57.Model.Tools
