/-
C20 — bundled tools.  The logic of the tools is modelled in E57/Model/Tools.lean and compared with the
real binaries by the tools suite.  Proved (E57/Proofs/SoftFloat.lean, namespace E57.SF), for the
soft-float model of binary64/binary32 that suite `sfloat` ties to the hardware:

 * `colour_roundTrip : c < 256 → colourRoundTrip c = c` — every 8-bit colour survives
   normalise(0..255) → `as f32` → `* 255f32` → `as u8`; the whole table is decided in the kernel;
 * `colour_normalised`, `toU8B_spec` (the saturating cast), `val64_ofInt_small`.
-/
import E57.Model.Tools
import E57.Proofs.SoftFloat
