/-
C20 — bundled tools preserve data end to end.  The logic of the tools is modelled in E57/Model/Tools.lean and
E57/Model/Pages.lean (`validateCrc`) and compared with the real binaries by the tools suite.

`E57/Proofs/ToolsProps.lean` (namespace `E57.ToolsP`):
 * e57-check-crc: `validateCrc_iff` — `validate_crc` succeeds with page size ps iff the header is long enough, ps is
   an acceptable page size, the length is a positive multiple of ps and EVERY page's stored big-endian checksum is the
   CRC-32C of its payload (predicates written with drop/take/crc32c/toBE32 only, no reader); the fuel of the loop is
   shown sufficient; `checkFiles_iff` (the tool's exit status); `validateCrc_none_iff`, `validateCrc_detects(_burst)`,
   `validateCrc_altered_iff` (C07: validation fails exactly when an altered page no longer matches its checksum);
   `validateCrc_every_alteration_statement_false` ("every alteration is rejected" is false: the 33-bit burst witness);
   `validateCrc_finalized` (every file the writer finishes passes).
 * e57-from-xyz: `fromXyzLine_spec`, `fromXyzLine_skip_iff`, `fromXyzLine_abort_iff`; `fromXyz_accepted`,
   `xyz_points_stored` (by C01: the points the tool adds are the points the raw iterator returns, in order).
 * colours: `parseUnsigned_255_roundtrip`, `colourToU8_parses_back`; with `E57/Proofs/SoftFloat.lean`:
   `SF.colour_roundTrip` (every 8-bit colour survives normalise → as f32 → ·255 → as u8, decided in the kernel for
   the soft-float model that suite `sfloat` ties to the hardware).
 * e57-to-xyz (the tool's point cloud has no pose, and the simple iterator applies a pose only if there is one):
   `toXyzPoint_eq` (each printed coordinate is the stored `f32` widened and narrowed, no arithmetic); under
   `IEEEFacts` (TWO facts about the native `Float`, opaque to the kernel: f64 → bits → f64 and f32→f64→f32 are the
   identity on every non-NaN pattern) `IEEEFacts.coords`, `xyz_coords_bits`, `toXyzPoint_roundtrip`,
   `xyzRoundTrip_spec`: every coordinate that is not a NaN (−0.0, ±∞ included) comes back BIT-identical and in order;
   `xyz_coords_bits_partial` (corollary, kept); `xyz_coords_nan` (under `NaNFacts`: NaN comes back as a NaN).
   Before the repair: `identity_pose_not_neutral` (under the former twelve facts, `IdentityPoseFacts`: the identity
   pose `1·x+0·y+0·z+0` turns −0.0 into +0.0; this was `xyz_coords_bits_statement_false`).
-/
import E57.Model.Tools
import E57.Proofs.SoftFloat
import E57.Proofs.ToolsProps
