/-
C16 — device faults surface as errors; short I/O changes nothing.

`E57/Model/DevIO.lean` models the page layer ONE LEVEL BELOW `E57/Model/Pages.lean`: a device whose every call
(write, read, seek, stream_position, flush) consumes one behaviour of a schedule chosen by the environment —
complete, short (n bytes), interrupted, failed — and on top of it std's `write_all` / `read_exact` loops, the
`read_current_page` loop, the paged writer with its failure latch and the paged reader, issuing device calls in the
order of the Rust code.  Suite `devio` runs the REAL `PagedWriter` / `PagedReader` over a device following the same
schedule and compares per operation ok/err/value, the device bytes and how much of the schedule was consumed.

Theorems (`E57/Proofs/DevIO.lean`, namespace `E57.DIO`):
 * `short_io_changes_nothing`, `benign_complete`   under any schedule of complete and short (≥ 1 byte) transfers every
   writer operation succeeds with the ideal result, the abstraction of the state is the ideal `PW` state and the
   device bytes are identical to the unchunked run (= `Spec.image` of the logical stream).
 * `short_reads_change_nothing`   the same for the reader: identical values, identical abstract state.
 * `step_post` / `rstep_post`   the shape of EVERY operation result under any schedule without 0-byte transfers:
   ok (ideal result, no failure consumed, latch untouched) or an error (a non-benign behaviour was consumed; the
   latch is set) — never a panic (`no_panic`, `rstep_no_panic`: all loops are total).
 * `fault_surfaces`, `latch_absorbing`, `runOps_latched`   a device failure makes the call in progress return an error
   and sets the latch; with the latch set every later call returns the latch error and touches neither state nor device.
 * `run_clean`, `finalize_ok_complete_partial`   for ANY schedule (without 0-byte transfers): if every call of a run
   ending in flush reports success then no failure was consumed and the device holds `Spec.image` of the ideal run's
   stream — "whenever finalize reports success the device holds the complete file".
 * `finalize_ok_complete_statement_false`   the same claim for schedules with a 0-byte `read` is FALSE (a `read` that
   answers Ok(0) although data follows is taken as end of file by `read_current_page`); such a device violates the
   `Read` contract, the hypothesis `Sane` excludes exactly that.
 * `writeAll_interrupted`, `ctl_interrupted`, `readLoop_interrupted`   which `Interrupted` results the code survives:
   inside `write_all`'s device writes and inside `read_exact`; at a seek / flush / page re-read it fails the call and
   latches the writer (never silently).
 * `read_err_state`, `read_fail_equiv`   a failing read leaves cursor and data unchanged and the cache empty, so the
   reader continues as a fresh one (history independence, C17).
 * non-vacuity: `exFaultCheck_true`, `exSoftCheck_true`, `exRCheck_true`, `exRFaultCheck_true` (kernel-evaluated).
Not modelled: `Drop` (one more flush, errors ignored), `io::copy`, a failing write that transferred part of its buffer.
-/
import E57.Model.DevIO
import E57.Proofs.DevIO
