/-
C06 — Blobs and image payloads round-trip byte-exactly (write side proved; read side: C11 + blobRead).

`blob_patch` (E57/Proofs/WriterProps.lean): on any well-formed page writer, `Blob::write` leaves
the logical stream = old stream with header(16 + len padded to 4) ++ data written at the old
cursor and aligned, and returns the descriptor (old physical position, len) — for every length
and every position relative to page boundaries.  `blobRead_exact_or_error`-style facts and the
file-level round trip are exercised by the writer/reader suites.

The composed theorems live in `E57/Proofs/BlobRoundTrip.lean` (namespace `E57.BlobRT`):
`blob_roundtrip` (write anywhere, read back from every healthy reader over every complete file that
still contains the window), `run_window_stable` / `blob_roundtrip_file` / `two_blobs` (later writes
outside the window change nothing; each descriptor leads to its own data), `blobRead_exact_or_error`
and `blobRead_returns_stream` (never fewer, more or other bytes, for ANY descriptor on ANY content),
`blob_roundtrip_unbounded_statement_false` (the 2^64 size bound is necessary),
`blobRead_overlong_accepted` (observation: the reader's length check is lax by 32 bytes).
-/
import E57.Proofs.WriterProps
import E57.Proofs.History
import E57.Proofs.BlobRoundTrip
import E57.Proofs.Walk
namespace E57.C06
open E57

theorem blob_write_effect (pw : PW) (data : Bytes) (hpw : pw.Inv) (pw' : PW) (b : BlobRef)
    (h : blobWrite pw data = .ok (pw', b)) :
    pw'.abs = (pw.abs.write (blobHeaderBytes ((16 + data.length + 3) / 4 * 4) ++ data)).align ∧
      b = ⟨pw.physicalPosition, data.length⟩ := blob_patch pw data hpw pw' b h

theorem blob_write_total (pw : PW) (data : Bytes) (hpw : pw.Inv) :
    ∃ pw' b, blobWrite pw data = .ok (pw', b) ∧ pw'.Inv ∧ b.offset = pw.physicalPosition ∧
      b.length = data.length := blobWrite_total pw data hpw

end E57.C06
