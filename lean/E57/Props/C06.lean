/-
C06 — Blobs and image payloads round-trip byte-exactly (write side proved; read side: C11 + blobRead).

`blob_patch` (E57/Proofs/WriterProps.lean): on any well-formed page writer, `Blob::write` leaves
the logical stream = old stream with header(16 + len padded to 4) ++ data written at the old
cursor and aligned, and returns the descriptor (old physical position, len) — for every length
and every position relative to page boundaries.  `blobRead_exact_or_error`-style facts and the
file-level round trip are exercised by the writer/reader suites; the composed theorem is future work.
-/
import E57.Proofs.WriterProps
import E57.Proofs.History
namespace E57.C06
open E57

theorem blob_write_effect (pw : PW) (data : Bytes) (hpw : pw.Inv) (pw' : PW) (b : BlobRef)
    (h : blobWrite pw data = .ok (pw', b)) :
    pw'.abs = (pw.abs.write (blobHeaderBytes ((16 + data.length + 3) / 4 * 4) ++ data)).align ∧
      b = ⟨pw.physicalPosition, data.length⟩ := blob_patch pw data hpw pw' b h

theorem blob_write_total (pw : PW) (data : Bytes) (hpw : pw.Inv) :
    ∃ pw' b, blobWrite pw data = .ok (pw', b) ∧ pw'.Inv ∧ b.offset = pw.physicalPosition ∧
      b.length = data.length := blobWrite_total pw data hpw

end E57.C06
