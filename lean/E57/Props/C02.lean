/-
C02 — every finalized file is a well-formed E57 file for an independent decoder.

The independent implementation is `E57/Spec/Decoder.lean` (`decodeFile`, written from the format, not from the
crate); suite `spec` runs it on files of the REAL writer.  Proved about the WRITER MODEL's output, in terms of the
decoder's own checks (`E57/Proofs/WellFormed.lean`, namespace `E57.WF`):

 * `finalized_pages_valid`   size is a whole number of pages, every page checksum valid; the decoder's
   `depageChecked` succeeds and yields exactly the logical stream (`depage_image`).
 * `finalized_header_true`, `finalized_header_decoded`   the header states the true file length, the XML offset
   (= `l2p` of where the XML starts), the XML length and page size 1024; every header read of the decoder passes.
 * `offsets_outside_checksums`   `l2p n % 1024 < 1020`, `toLogical (l2p n) = n`, `physOk` characterised.
 * `walk_pkts`, `section_consistent`   for a point-cloud section of the writer: section length = 32 + Σ packet
   lengths, packets ≤ 64 KiB and 4-aligned, data offset on the first packet; the decoder's packet walk ends exactly
   at the section end.
 * `collected_streams`, `decodeStream_recordStream`, `decode_section_points`   the decoder returns exactly the
   points added (float bit patterns, integers), in order.
 * `blob_section_decoded`   blob sections: id 0, length (16+len+3)/4*4, the bytes.
 * `decodeFile_ok`, `C02_decodeFile`, `C02_closed_file`   `Spec.decodeFile` succeeds on the closed file and returns
   the points and blob bytes — with the XML walk (`walkNode` over the externally parsed document) as hypothesis.
 * necessary hypotheses, with witnesses: `finalized_header_statement_false` (cursor ≥ 48),
   `xml_offset_statement_false` (non-empty XML; only a caller's transformer can produce an empty document).
-/
import E57.Spec.Decoder
import E57.Proofs.WellFormed
import E57.Proofs.XmlRoundTrip
import E57.Proofs.Closed
import E57.Proofs.Walk
