/- C02 — the independent decoder (specification) and, later, theorems relating the writer model to it -/
import E57.Spec.Decoder
import E57.Model.Writer
