import E57.Drv.Bits
import E57.Drv.Pages
import E57.Drv.Writer
import E57.Drv.Reader
import E57.Drv.Spec
import E57.Drv.Enc
import E57.Drv.Tools
import E57.Drv.SFloat
import E57.Drv.DevIO
import E57.Drv.Xml
open E57 E57.Drv

def dispatch (engine : String) (toks : List String) : String :=
  match engine with
  | "bits" => bitsLine toks
  | "pages" => pagesLine toks
  | "writer" => writerLine toks
  | "device" => writerLine toks
  | "reader" => readerLine toks
  | "layout" => readerLine toks
  | "foreign" => readerLine toks
  | "mutants" => readerLine toks
  | "spec" => specLine toks
  | "enc" => encLine toks
  | "tools" => toolsLine toks
  | "copy" => writerLine toks
  | "sfloat" => sfloatLine toks
  | "devio" => devioLine toks
  | "xml" => xmlToks toks
  | _ => "BADENGINE"

partial def loop (engine : String) (h : IO.FS.Stream) (out : IO.FS.Stream) : IO Unit := do
  let line ← h.getLine
  if line.isEmpty then return ()
  let toks := (line.trimAscii.toString.splitOn " ").filter (· ≠ "")
  if toks.isEmpty then loop engine h out else
  out.putStrLn (dispatch engine toks)
  loop engine h out

def main (args : List String) : IO UInt32 := do
  match args with
  | [engine] =>
    loop engine (← IO.getStdin) (← IO.getStdout)
    return 0
  | _ =>
    IO.eprintln "usage: e57model <engine> < cases > answers"
    return 2
