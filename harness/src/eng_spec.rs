//! Engine "spec": files written by the real writer are judged by the independent Lean decoder
//! (E57/Spec/Decoder.lean); the expectation (leaves of the E57 data tree by the standard's element
//! names, points, blob bytes) is computed here from the writer program.  (C02)
use crate::eng_reader::{dump_xml, ref_extract_xml};
use crate::eng_writer::*;
use crate::scene::*;
use crate::util::*;
use crate::wprog::*;
use std::io::Write;
use std::process::{Command, Stdio};

const NS: &str = "http://www.astm.org/COMMIT/E57/2010-e57-v1.0";

struct Exp {
    leaves: Vec<String>,
    clouds: Vec<String>,
    blobs: Vec<String>,
}

fn leaf(out: &mut Vec<String>, path: &str, ty: &str, value: String) {
    out.push(format!("{}:{}={}", hexs(path), ty, value));
}
fn s_leaf(out: &mut Vec<String>, path: &str, v: &Option<String>) {
    if let Some(s) = v {
        leaf(out, path, "String", hexs(s));
    }
}
fn f_leaf(out: &mut Vec<String>, path: &str, v: &Option<u64>) {
    if let Some(b) = v {
        leaf(out, path, "Float", canon(*b).to_string());
    }
}
/// floats travel through decimal text: NaN payloads are not preserved
fn canon(b: u64) -> u64 {
    if f64::from_bits(b).is_nan() {
        f64::NAN.to_bits()
    } else {
        b
    }
}
fn canon32(b: u32) -> u32 {
    if f32::from_bits(b).is_nan() {
        f32::NAN.to_bits()
    } else {
        b
    }
}
fn dt_leaves(out: &mut Vec<String>, path: &str, d: &Option<Dt>) {
    if let Some(d) = d {
        leaf(out, &format!("{path}/dateTimeValue"), "Float", canon(d.0).to_string());
        leaf(out, &format!("{path}/isAtomicClockReferenced"), "Integer", if d.1 { "1".into() } else { "0".into() });
    }
}
fn tr_leaves(out: &mut Vec<String>, path: &str, t: &Option<Tr>) {
    if let Some(t) = t {
        for (i, n) in ["w", "x", "y", "z"].iter().enumerate() {
            leaf(out, &format!("{path}/rotation/{n}"), "Float", canon(t[i]).to_string());
        }
        for (i, n) in ["x", "y", "z"].iter().enumerate() {
            leaf(out, &format!("{path}/translation/{n}"), "Float", canon(t[4 + i]).to_string());
        }
    }
}
fn val_leaf(out: &mut Vec<String>, path: &str, v: &Option<Val>) {
    match v {
        Some(Val::I(i)) => leaf(out, path, "Integer", i.to_string()),
        Some(Val::S(i)) => leaf(out, path, "ScaledInteger", i.to_string()),
        Some(Val::F(b)) => leaf(out, path, "Float32", canon32(*b).to_string()),
        Some(Val::D(b)) => leaf(out, path, "Float", canon(*b).to_string()),
        None => {}
    }
}
fn rec_text(r: &Rec) -> String {
    let o64 = |x: &Option<u64>| x.map(|b| canon(b).to_string()).unwrap_or("~".into());
    let o32 = |x: &Option<u32>| x.map(|b| canon32(b).to_string()).unwrap_or("~".into());
    match &r.dt {
        DT::F32(a, b) => format!("F32:{}:{}", o32(a), o32(b)),
        DT::F64(a, b) => format!("F64:{}:{}", o64(a), o64(b)),
        DT::I(a, b) => format!("I:{a}:{b}"),
        DT::S(a, b, c, d) => format!("S:{a}:{b}:{}:{}", canon(*c), canon(*d)),
    }
}
fn qname(r: &Rec, exts: &[(String, String)]) -> String {
    match &r.name {
        RName::Std(n) => n.clone(),
        RName::Ext(ns, n) => {
            let url = exts.iter().find(|e| &e.0 == ns).map(|e| e.1.clone()).unwrap_or_default();
            if url == NS {
                n.clone()
            } else {
                format!("{{{url}}}{n}")
            }
        }
    }
}
fn point_tok(vs: &[Val]) -> String {
    vs.iter()
        .map(|v| match v {
            Val::I(i) => format!("i{i}"),
            Val::S(i) => format!("s{i}"),
            Val::F(b) => format!("f{b}"),
            Val::D(b) => format!("d{b}"),
        })
        .collect::<Vec<_>>()
        .join(",")
}

fn rep_leaves(out: &mut Vec<String>, blobs: &mut Vec<String>, path: &str, fmt: char, data: &[u8], mask: &Option<Vec<u8>>, w: u32, h: u32) {
    let tag = if fmt == 'J' { "jpegImage" } else { "pngImage" };
    leaf(out, &format!("{path}/{tag}"), "Blob", data.len().to_string());
    blobs.push(format!("{}={}:{}", hexs(&format!("{path}/{tag}")), data.len(), fnv_bytes(data)));
    if let Some(m) = mask {
        leaf(out, &format!("{path}/imageMask"), "Blob", m.len().to_string());
        blobs.push(format!("{}={}:{}", hexs(&format!("{path}/imageMask")), m.len(), fnv_bytes(m)));
    }
    leaf(out, &format!("{path}/imageWidth"), "Integer", w.to_string());
    leaf(out, &format!("{path}/imageHeight"), "Integer", h.to_string());
}

/// the E57 data tree the standard prescribes for this scene
fn expectation(sc: &Scene, lib_version: &str) -> Exp {
    let mut l: Vec<String> = vec![];
    let mut clouds: Vec<String> = vec![];
    let mut blobs: Vec<String> = vec![];
    let r = "/e57Root";
    leaf(&mut l, &format!("{r}/formatName"), "String", hexs("ASTM E57 3D Imaging Data File"));
    leaf(&mut l, &format!("{r}/guid"), "String", hexs(&sc.guid));
    leaf(&mut l, &format!("{r}/versionMajor"), "Integer", "1".into());
    leaf(&mut l, &format!("{r}/versionMinor"), "Integer", "0".into());
    s_leaf(&mut l, &format!("{r}/coordinateMetadata"), &sc.cm);
    leaf(&mut l, &format!("{r}/e57LibraryVersion"), "String", hexs(lib_version));
    dt_leaves(&mut l, &format!("{r}/creationDateTime"), &sc.creation);
    for (k, c) in sc.clouds.iter().enumerate() {
        let p = format!("{r}/data3D[{k}]/vectorChild");
        s_leaf(&mut l, &format!("{p}/guid"), &c.guid);
        if let Some(og) = &c.og {
            for (j, g) in og.iter().enumerate() {
                leaf(&mut l, &format!("{p}/originalGuids[{j}]/vectorChild"), "String", hexs(g));
            }
        }
        for (j, n) in ["name", "description", "sensorVendor", "sensorModel", "sensorSerialNumber", "sensorHardwareVersion", "sensorSoftwareVersion", "sensorFirmwareVersion"].iter().enumerate() {
            s_leaf(&mut l, &format!("{p}/{n}"), &c.strs[j]);
        }
        tr_leaves(&mut l, &format!("{p}/pose"), &c.tr);
        dt_leaves(&mut l, &format!("{p}/acquisitionStart"), &c.acq[0]);
        dt_leaves(&mut l, &format!("{p}/acquisitionEnd"), &c.acq[1]);
        for (j, n) in ["temperature", "relativeHumidity", "atmosphericPressure"].iter().enumerate() {
            f_leaf(&mut l, &format!("{p}/{n}"), &c.flt[j]);
        }
        if let Some(b) = &c.cart {
            for (j, n) in ["xMinimum", "xMaximum", "yMinimum", "yMaximum", "zMinimum", "zMaximum"].iter().enumerate() {
                f_leaf(&mut l, &format!("{p}/cartesianBounds/{n}"), &b[j]);
            }
        }
        if let Some(b) = &c.sph {
            for (j, n) in ["rangeMinimum", "rangeMaximum", "elevationMinimum", "elevationMaximum", "azimuthStart", "azimuthEnd"].iter().enumerate() {
                f_leaf(&mut l, &format!("{p}/sphericalBounds/{n}"), &b[j]);
            }
        }
        if let Some(b) = &c.idx {
            for (j, n) in ["rowMinimum", "rowMaximum", "columnMinimum", "columnMaximum", "returnMinimum", "returnMaximum"].iter().enumerate() {
                if let Some(v) = b[j] {
                    leaf(&mut l, &format!("{p}/indexBounds/{n}"), "Integer", v.to_string());
                }
            }
        }
        if let Some((a, b)) = &c.il {
            val_leaf(&mut l, &format!("{p}/intensityLimits/intensityMinimum"), a);
            val_leaf(&mut l, &format!("{p}/intensityLimits/intensityMaximum"), b);
        }
        if let Some(cl) = &c.cl {
            for (j, n) in ["colorRedMinimum", "colorRedMaximum", "colorGreenMinimum", "colorGreenMaximum", "colorBlueMinimum", "colorBlueMaximum"].iter().enumerate() {
                val_leaf(&mut l, &format!("{p}/colorLimits/{n}"), &cl[j]);
            }
        }
        leaf(&mut l, &format!("{p}/points"), "CompressedVector", c.points.len().to_string());
        for rec in &c.proto {
            leaf(&mut l, &format!("{p}/points/prototype/{}", qname(rec, &sc.exts)), "Record", rec_text(rec));
        }
        clouds.push(format!("{}={}", hexs(&format!("{p}/points")), c.points.iter().map(|pt| point_tok(pt)).collect::<Vec<_>>().join(";")));
    }
    for (k, im) in sc.images.iter().enumerate() {
        let p = format!("{r}/images2D[{k}]/vectorChild");
        s_leaf(&mut l, &format!("{p}/guid"), &im.guid);
        for (j, n) in ["name", "description", "associatedData3DGuid", "sensorVendor", "sensorModel", "sensorSerialNumber"].iter().enumerate() {
            s_leaf(&mut l, &format!("{p}/{n}"), &im.strs[j]);
        }
        tr_leaves(&mut l, &format!("{p}/pose"), &im.tr);
        dt_leaves(&mut l, &format!("{p}/acquisitionDateTime"), &im.acq);
        if let Some((fmt, data, w, h, mask)) = &im.vis {
            rep_leaves(&mut l, &mut blobs, &format!("{p}/visualReferenceRepresentation"), *fmt, data, mask, *w, *h);
        }
        match &im.proj {
            Some(SProj::Pin { fmt, data, w, h, f, mask }) => {
                let q = format!("{p}/pinholeRepresentation");
                rep_leaves(&mut l, &mut blobs, &q, *fmt, data, mask, *w, *h);
                for (j, n) in ["focalLength", "pixelWidth", "pixelHeight", "principalPointX", "principalPointY"].iter().enumerate() {
                    leaf(&mut l, &format!("{q}/{n}"), "Float", canon(f[j]).to_string());
                }
            }
            Some(SProj::Sph { fmt, data, w, h, f, mask }) => {
                let q = format!("{p}/sphericalRepresentation");
                rep_leaves(&mut l, &mut blobs, &q, *fmt, data, mask, *w, *h);
                for (j, n) in ["pixelWidth", "pixelHeight"].iter().enumerate() {
                    leaf(&mut l, &format!("{q}/{n}"), "Float", canon(f[j]).to_string());
                }
            }
            Some(SProj::Cyl { fmt, data, w, h, f, mask }) => {
                let q = format!("{p}/cylindricalRepresentation");
                rep_leaves(&mut l, &mut blobs, &q, *fmt, data, mask, *w, *h);
                for (j, n) in ["radius", "principalPointY", "pixelWidth", "pixelHeight"].iter().enumerate() {
                    leaf(&mut l, &format!("{q}/{n}"), "Float", canon(f[j]).to_string());
                }
            }
            None => {}
        }
    }
    for (off, _len, bytes) in &sc.blobs {
        blobs.push(format!("{}={}:{}", hexs(&format!("direct@{off}")), bytes.len(), fnv_bytes(bytes)));
    }
    l.sort();
    blobs.sort();
    Exp { leaves: l, clouds, blobs }
}

fn expected_line(e: &Exp) -> String {
    format!("VALID | L {} | C {} | B {}", e.leaves.join(" "), e.clouds.join(" "), e.blobs.join(" "))
}

pub fn case_line(file: &[u8], direct: &[(u64, u64)]) -> String {
    let xml = ref_extract_xml(file);
    let (tree, fp) = match &xml {
        Some(x) => dump_xml(x),
        None => (vec!["TFAIL".to_string()], vec!["FP".to_string(), "0".to_string()]),
    };
    let xref = match &xml {
        Some(x) => hex(x),
        None => "XFAIL".into(),
    };
    format!("sd {} {} {} {} | {}", hex(file), xref, tree.join(" "), fp.join(" "), direct.iter().map(|(o, l)| format!("{o}:{l}")).collect::<Vec<_>>().join(" "))
}

/// run case lines through the compiled Lean model (path in E57MODEL)
pub fn run_model(engine: &str, lines: &[String]) -> Option<Vec<String>> {
    let exe = std::env::var("E57MODEL").ok()?;
    let mut child = Command::new("sh")
        .arg("-c")
        .arg(format!("ulimit -s unlimited 2>/dev/null; exec {exe} {engine}"))
        .stdin(Stdio::piped())
        .stdout(Stdio::piped())
        .spawn()
        .ok()?;
    let mut stdin = child.stdin.take()?;
    let data = lines.join("\n") + "\n";
    let t = std::thread::spawn(move || {
        let _ = stdin.write_all(data.as_bytes());
    });
    let out = child.wait_with_output().ok()?;
    let _ = t.join();
    Some(String::from_utf8_lossy(&out.stdout).lines().map(|s| s.to_string()).collect())
}

fn classify(exp: &str, got: &str) -> (String, String) {
    if let Some(r) = got.strip_prefix("INVALID ") {
        let reason = unhex(r).map(|b| String::from_utf8_lossy(&b).to_string()).unwrap_or_default();
        let class = if reason.contains("section length") && reason.contains("data bytes padded") {
            "spec/blob-section-length".to_string()
        } else if reason.contains("checksum") {
            "spec/page-checksum".to_string()
        } else if reason.contains("header file length") {
            "spec/header-length".to_string()
        } else if reason.contains("data offset") {
            "spec/data-offset".to_string()
        } else if reason.contains("packet") {
            "spec/packets".to_string()
        } else if reason.contains("byte stream") {
            "spec/byte-streams".to_string()
        } else if reason.contains("XML") {
            "spec/xml-section".to_string()
        } else {
            "spec/invalid".to_string()
        };
        return (class, format!("the independent decoder rejects the file: {reason}"));
    }
    let e: Vec<&str> = exp.split(" | ").collect();
    let g: Vec<&str> = got.split(" | ").collect();
    for (i, name) in [(1usize, "leaf"), (2, "points"), (3, "blob")] {
        let a = e.get(i).copied().unwrap_or("");
        let b = g.get(i).copied().unwrap_or("");
        if a != b {
            let sa: Vec<&str> = a.split(' ').collect();
            let sb: Vec<&str> = b.split(' ').collect();
            let missing: Vec<&&str> = sa.iter().filter(|x| !sb.contains(x)).collect();
            let extra: Vec<&&str> = sb.iter().filter(|x| !sa.contains(x)).collect();
            let show = |t: &str| -> String {
                let (p, rest) = t.split_once(|c| c == ':' || c == '=').unwrap_or((t, ""));
                format!("{}:{}", unhex(p).map(|b| String::from_utf8_lossy(&b).to_string()).unwrap_or(p.to_string()), &rest[..rest.len().min(80)])
            };
            let first = missing.first().map(|t| show(t)).unwrap_or_default();
            let firstx = extra.first().map(|t| show(t)).unwrap_or_default();
            let tail = first.split(':').next().unwrap_or("").rsplit('/').next().unwrap_or("").to_string();
            return (format!("spec/{name}/{tail}"), format!("expected {first} ; decoder found {firstx}"));
        }
    }
    ("spec/other".into(), "outputs differ".into())
}

pub fn exec(line: &str) -> String {
    // the "implementation" side of this engine is the expectation, which needs the program;
    // replay re-derives it from the stored expectation appended after ` ## `
    match line.split_once(" ## ") {
        Some((_, exp)) => exp.to_string(),
        None => "NOEXPECTATION".into(),
    }
}

pub fn generate(sink: &mut Sink, seed: u64, thorough: bool) {
    let mut rng = Rng::new(seed ^ 0x59EC);
    let lv = library_version();
    let mut lines: Vec<String> = vec![];
    let mut exps: Vec<String> = vec![];
    let mut emit = |sink: &mut Sink, prog: &Program, tag: &str, lines: &mut Vec<String>, exps: &mut Vec<String>| {
        let dev = crate::dev::SimDev::new(vec![]);
        let run = execute(prog, &dev);
        if run.panicked || run.results.last().map(|s| s != "ok").unwrap_or(true) || !matches!(prog.stmts.last(), Some(Stmt::Fin)) {
            return;
        }
        let sc = expected_scene(prog, &run.results);
        let exp = expectation(&sc, &lv);
        let direct: Vec<(u64, u64)> = sc.blobs.iter().map(|b| (b.0, b.1)).collect();
        lines.push(case_line(&run.file, &direct));
        exps.push(expected_line(&exp));
        sink.stat(tag);
        sink.stat_n("file_bytes_total", run.file.len() as u64);
    };
    let n = if thorough { 1500 } else { 220 };
    for i in 0..n {
        let prog = {
            let mut g = Gen { rng: &mut rng, exts: vec![], n: 0 };
            g.program(if i % 30 == 0 { 1200 } else { 25 })
        };
        emit(sink, &prog, "random_program", &mut lines, &mut exps);
    }
    // residue sweep (every header, packet and the XML start on, before and after a page boundary)
    let step = if thorough { 1 } else { 4 };
    let mut r = (seed % step) as usize;
    while r < 1020 {
        let prog = {
            let mut g = Gen { rng: &mut rng, exts: vec![], n: 0 };
            let proto = vec![
                Rec { name: RName::Std("cartesianX".into()), dt: DT::F64(None, None) },
                Rec { name: RName::Std("cartesianY".into()), dt: DT::F32(None, None) },
                Rec { name: RName::Std("cartesianZ".into()), dt: DT::S(-5000, 5000, 0.001f64.to_bits(), 0f64.to_bits()) },
                Rec { name: RName::Std("intensity".into()), dt: DT::I(0, 1 + (r as i64) * 3) },
            ];
            let body: Vec<PcStmt> = (0..(1 + r % 4)).map(|_| PcStmt::P(g.point(&proto))).collect();
            Program { guid: "sweep".into(), stmts: vec![Stmt::Blob(Data::Gen(r, r % 250)), Stmt::Pc { guid: "pc".into(), proto, body, end: true }, Stmt::Blob(Data::Gen(r % 5, 3)), Stmt::Fin] }
        };
        emit(sink, &prog, "residue_sweep", &mut lines, &mut exps);
        r += step as usize;
    }
    // the END of the XML section (= the end of the file's content) on, just before and just behind a page boundary:
    // the coordinate metadata string is lengthened until the XML ends where wanted
    for base in 0..(if thorough { 6 } else { 2 }) {
        let mk = |pad: usize| Program {
            guid: "xml-end".into(),
            stmts: vec![Stmt::Blob(Data::Gen(300 + 77 * base, base)), Stmt::Cm(Some("m".repeat(pad))), Stmt::Fin],
        };
        let probe = execute(&mk(0), &crate::dev::SimDev::new(vec![]));
        if probe.panicked || probe.file.len() < 48 {
            continue;
        }
        let off = u64::from_le_bytes(probe.file[24..32].try_into().unwrap()) as usize;
        let len = u64::from_le_bytes(probe.file[32..40].try_into().unwrap()) as usize;
        let end = off - 4 * (off / 1024) + len; // logical end of the XML
        for d in [0usize, 1, 2, 3, 4, 1016, 1017, 1018, 1019] {
            let pad = (1020 - end % 1020 + d) % 1020;
            emit(sink, &mk(pad), "xml_end_on_page_boundary", &mut lines, &mut exps);
        }
    }
    let model = run_model("spec", &lines);
    for (k, (line, exp)) in lines.iter().zip(exps.iter()).enumerate() {
        sink.oracle_evals += 1;
        if let Some(m) = &model {
            let got = m.get(k).cloned().unwrap_or_default();
            if &got != exp {
                let (sig, detail) = classify(exp, &got);
                sink.fail("C02", &sig, &format!("{line} ## {exp}"), &detail);
            }
        }
        sink.case(format!("{line} ## {exp}"), exp.clone(), true);
    }
    if model.is_none() {
        sink.fail("C02", "spec/model-unavailable", "", "E57MODEL is not set or the model could not be run");
    }
}
