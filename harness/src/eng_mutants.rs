//! Engine "mutants": structure-aware mutation of valid files with page checksums re-sealed, plus
//! unsealed damage, truncation and extension.  Every reading entry point runs under catch_unwind in
//! an overflow-checked build (C08), with a counting allocator and a per-case deadline (C09); the
//! Lean reader model must agree on every returned value / error (correspondence).
use crate::dev::{ref_crc32c, ref_pages};
use crate::eng_reader;
use crate::eng_writer::*;
use crate::util::*;
use crate::wprog::*;
use std::alloc::{GlobalAlloc, Layout, System};
use std::sync::atomic::{AtomicUsize, Ordering};

pub struct Counting;
static CUR: AtomicUsize = AtomicUsize::new(0);
static PEAK: AtomicUsize = AtomicUsize::new(0);

unsafe impl GlobalAlloc for Counting {
    unsafe fn alloc(&self, l: Layout) -> *mut u8 {
        if l.size() > (1usize << 34) {
            // a request of more than 16 GiB would abort the process (or succeed as untouched virtual memory):
            // report the case in progress as the failing input instead
            crate::report_huge_alloc(l.size());
        }
        let p = System.alloc(l);
        if !p.is_null() {
            let c = CUR.fetch_add(l.size(), Ordering::Relaxed) + l.size();
            PEAK.fetch_max(c, Ordering::Relaxed);
        }
        p
    }
    unsafe fn dealloc(&self, p: *mut u8, l: Layout) {
        CUR.fetch_sub(l.size(), Ordering::Relaxed);
        System.dealloc(p, l)
    }
    unsafe fn realloc(&self, p: *mut u8, l: Layout, n: usize) -> *mut u8 {
        if n > (1usize << 34) {
            crate::report_huge_alloc(n);
        }
        let q = System.realloc(p, l, n);
        if !q.is_null() {
            if n >= l.size() {
                let c = CUR.fetch_add(n - l.size(), Ordering::Relaxed) + (n - l.size());
                PEAK.fetch_max(c, Ordering::Relaxed);
            } else {
                CUR.fetch_sub(l.size() - n, Ordering::Relaxed);
            }
        }
        q
    }
}
pub fn reset_peak() {
    PEAK.store(CUR.load(Ordering::Relaxed), Ordering::Relaxed);
}
pub fn peak_above_current() -> usize {
    PEAK.load(Ordering::Relaxed).saturating_sub(CUR.load(Ordering::Relaxed))
}

fn depage(file: &[u8]) -> Vec<u8> {
    let mut l = Vec::with_capacity(file.len());
    for p in file.chunks(1024) {
        l.extend_from_slice(&p[..p.len().min(1020)]);
    }
    l
}
fn repage(logical: &[u8]) -> Vec<u8> {
    let mut l = logical.to_vec();
    let n = (l.len() + 1019) / 1020 * 1020;
    l.resize(n, 0);
    ref_pages(&l)
}
fn l2p(l: usize) -> u64 {
    (l + 4 * (l / 1020)) as u64
}
fn p2l(p: u64) -> usize {
    (p - 4 * (p / 1024)) as usize
}

const U64S: [u64; 16] = [0, 1, 4, 47, 48, 1019, 1020, 1023, 1024, 1025, 65535, 65536, 1 << 32, (1 << 63) - 1, 1 << 63, u64::MAX];
const NUMS: [&str; 20] = ["0", "1", "-1", "NaN", "inf", "-inf", "1e400", "-1e400", "9223372036854775807", "-9223372036854775808", "18446744073709551615", "18446744073709551616", "", "abc", "1.5", "+7", "4294967296", "0x10", "1e-320", " 3"];
const TYPES: [&str; 8] = ["Integer", "Float", "ScaledInteger", "String", "Blob", "Structure", "Vector", "CompressedVector"];

/// rebuild a file whose XML is the last thing in the logical stream with a new XML text
fn with_xml(file: &[u8], xml: &[u8]) -> Option<Vec<u8>> {
    let off = u64::from_le_bytes(file[24..32].try_into().ok()?);
    let mut l = depage(file);
    let lo = p2l(off);
    if lo > l.len() {
        return None;
    }
    l.truncate(lo);
    l.extend_from_slice(xml);
    let pages = (l.len() + 1019) / 1020;
    l[16..24].copy_from_slice(&((pages * 1024) as u64).to_le_bytes());
    l[32..40].copy_from_slice(&(xml.len() as u64).to_le_bytes());
    Some(repage(&l))
}

/// prototype-shape mutations: the children of a <prototype> removed (empty prototype with a record
/// count > 0), all records turned into zero-width integers, or many constant records added
fn mutate_prototype(rng: &mut Rng, xml: &str) -> Option<String> {
    let starts: Vec<usize> = xml.match_indices("<prototype").map(|m| m.0).collect();
    if starts.is_empty() {
        return None;
    }
    let s = *rng.pick(&starts);
    let body = s + xml[s..].find('>')? + 1;
    let e = body + xml[body..].find("</prototype>")?;
    let inner = &xml[body..e];
    let new_inner = match rng.below(4) {
        0 => String::from("\n"),
        1 => " ".repeat(inner.len()), // same length: offsets stay valid
        2 => {
            // every record a constant integer
            let mut out = String::from("\n");
            for l in inner.lines() {
                if let (Some(a), Some(b)) = (l.find('<'), l.find(|c| c == ' ' || c == '>')) {
                    if b > a + 1 && !l[a + 1..].starts_with('/') {
                        let name = &l[a + 1..b];
                        out.push_str(&format!("<{name} type=\"Integer\" minimum=\"5\" maximum=\"5\">5</{name}>\n"));
                    }
                }
            }
            out
        }
        _ => {
            // keep the records, add many constant ones
            let mut out = inner.to_string();
            for k in 0..(20 + rng.below(200)) {
                out.push_str(&format!("<zz{k} type=\"Integer\" minimum=\"9\" maximum=\"9\">9</zz{k}>\n"));
            }
            out
        }
    };
    Some(format!("{}{}{}", &xml[..body], new_inner, &xml[e..]))
}

fn mutate_xml(rng: &mut Rng, xml: &str) -> String {
    let b = xml.as_bytes();
    if rng.chance(1, 10) {
        if let Some(x) = mutate_prototype(rng, xml) {
            return x;
        }
    }
    match rng.below(9) {
        0 | 1 | 2 => {
            // replace the value of a random attribute or element text that looks numeric
            let mut spots: Vec<(usize, usize)> = vec![];
            let mut i = 0;
            while i < b.len() {
                if b[i] == b'"' || b[i] == b'>' {
                    let s = i + 1;
                    let mut e = s;
                    while e < b.len() && (b[e].is_ascii_digit() || b"+-.eE".contains(&b[e]) || b[e].is_ascii_alphabetic()) && e - s < 40 {
                        e += 1;
                    }
                    if e > s && e < b.len() && (b[e] == b'"' || b[e] == b'<') && b[s..e].iter().any(|c| c.is_ascii_digit()) {
                        spots.push((s, e));
                    }
                }
                i += 1;
            }
            if spots.is_empty() {
                return xml.to_string();
            }
            let (s, e) = *rng.pick(&spots);
            format!("{}{}{}", &xml[..s], *rng.pick(&NUMS), &xml[e..])
        }
        3 => {
            // change a type attribute — or remove it, or rename it (an element without a `type` attribute)
            let spots: Vec<usize> = xml.match_indices("type=\"").map(|m| m.0 + 6).collect();
            if spots.is_empty() {
                return xml.to_string();
            }
            let s = *rng.pick(&spots);
            let e = s + xml[s..].find('"').unwrap_or(0);
            match rng.below(4) {
                0 if s >= 7 && e + 1 <= xml.len() => format!("{}{}", &xml[..s - 7], &xml[e + 1..]),
                1 if s >= 6 => format!("{}kind=\"{}", &xml[..s - 6], &xml[s..]),
                _ => format!("{}{}{}", &xml[..s], *rng.pick(&TYPES), &xml[e..]),
            }
        }
        4 => {
            // delete one line (an element or a tag)
            let lines: Vec<&str> = xml.split_inclusive('\n').collect();
            if lines.len() < 3 {
                return xml.to_string();
            }
            let k = rng.below(lines.len() as u64) as usize;
            lines.iter().enumerate().filter(|(i, _)| *i != k).map(|(_, l)| *l).collect()
        }
        5 => {
            // duplicate one line
            let lines: Vec<&str> = xml.split_inclusive('\n').collect();
            let k = rng.below(lines.len() as u64) as usize;
            let mut out = String::new();
            for (i, l) in lines.iter().enumerate() {
                out.push_str(l);
                if i == k {
                    out.push_str(l);
                }
            }
            out
        }
        6 => {
            // truncate
            let mut k = rng.below(xml.len() as u64 + 1) as usize;
            while !xml.is_char_boundary(k) {
                k -= 1;
            }
            xml[..k].to_string()
        }
        7 => {
            // rename a tag occurrence
            let names = ["guid", "points", "prototype", "data3D", "vectorChild", "cartesianX", "colorRed", "pose", "e57Root", "imageWidth", "pngImage"];
            let n = *rng.pick(&names);
            xml.replacen(n, *rng.pick(&["gu1d", "intensity", "cartesianY", "points", "x"]), 1)
        }
        _ => {
            // swap minimum and maximum, or drop an attribute
            if rng.chance(1, 2) {
                xml.replacen("minimum=", "maximum=", 1)
            } else {
                let spots: Vec<usize> = xml.match_indices(" minimum=\"").map(|m| m.0).chain(xml.match_indices(" maximum=\"").map(|m| m.0)).chain(xml.match_indices(" recordCount=\"").map(|m| m.0)).collect();
                if spots.is_empty() {
                    return xml.to_string();
                }
                let s = *rng.pick(&spots);
                let q1 = s + xml[s..].find('"').unwrap_or(0) + 1;
                let e = q1 + xml[q1..].find('"').unwrap_or(0) + 1;
                format!("{}{}", &xml[..s], &xml[e..])
            }
        }
    }
}

/// offsets (logical) of compressed vector sections and blob sections, found through the XML
fn section_offsets(xml: &str) -> Vec<usize> {
    xml.match_indices("fileOffset=\"").filter_map(|m| {
        let s = m.0 + 12;
        let e = s + xml[s..].find('"')?;
        xml[s..e].parse::<u64>().ok().map(p2l)
    }).collect()
}

pub fn mutate(rng: &mut Rng, file: &[u8]) -> (Vec<u8>, &'static str) {
    let xml_bytes = extract_xml(file);
    let xml = String::from_utf8_lossy(&xml_bytes).to_string();
    let mut l = depage(file);
    if rng.chance(1, 40) && l.len() >= 48 {
        // header fields that lie CONSISTENTLY: a huge XML length together with an equally huge file length
        let xl: u64 = *rng.pick(&[1u64 << 30, 3u64 << 29, (1u64 << 31) + 4]);
        l[32..40].copy_from_slice(&xl.to_le_bytes());
        l[16..24].copy_from_slice(&(xl * 4).to_le_bytes());
        return (repage(&l), "header-lengths-consistent-huge");
    }
    if rng.chance(1, 12) {
        // a blob whose two length fields lie CONSISTENTLY: the descriptor in the XML and the section length in the
        // blob's own header are both huge and agree, the file is tiny
        if let Some(m) = xml.find(" type=\"Blob\" fileOffset=\"") {
            let s = m + " type=\"Blob\" fileOffset=\"".len();
            if let Some(e) = xml[s..].find('"') {
                if let Ok(off) = xml[s..s + e].parse::<u64>() {
                    let after = s + e;
                    if let Some(lp) = xml[after..].find("length=\"") {
                        let ls = after + lp + 8;
                        if let Some(le) = xml[ls..].find('"') {
                            // from "a gigabyte" to "does not fit a machine word / an isize" (allocation requests of such
                            // sizes fail in different ways: refused, aborted, capacity overflow)
                            let huge: u64 = *rng.pick(&[1u64 << 30, (1u64 << 30) + 12, 3u64 << 29, 1u64 << 40, 1u64 << 62, 1u64 << 63, (1u64 << 63) + 4, u64::MAX - 40, u64::MAX - 19]);
                            let new_xml = format!("{}{}{}", &xml[..ls], huge, &xml[ls + le..]);
                            let lo = p2l(off);
                            if lo + 16 <= l.len() {
                                let sl = (16u64.saturating_add(huge).saturating_add(3)) / 4 * 4;
                                l[lo + 8..lo + 16].copy_from_slice(&sl.to_le_bytes());
                                if let Some(f) = with_xml(&repage(&l), new_xml.as_bytes()) {
                                    return (f, "blob-lengths-consistent-huge");
                                }
                            }
                        }
                    }
                }
            }
        }
    }
    match rng.below(12) {
        0 => {
            // header field
            let field = *rng.pick(&[8usize, 12, 16, 24, 32, 40]);
            let v = match rng.below(4) {
                0 => *rng.pick(&U64S),
                1 => file.len() as u64 + rng.below(3) - 1,
                2 => rng.below(file.len() as u64 + 8),
                _ => rng.next(),
            };
            if field < 16 {
                l[field..field + 4].copy_from_slice(&(v as u32).to_le_bytes());
            } else {
                l[field..field + 8].copy_from_slice(&v.to_le_bytes());
            }
            (repage(&l), "header")
        }
        1 | 2 | 3 | 4 => match with_xml(file, mutate_xml(rng, &xml).as_bytes()) {
            Some(f) => (f, "xml"),
            None => (file.to_vec(), "none"),
        },
        5 | 6 => {
            // a field of a section header (first 32 bytes at a section start)
            let offs = section_offsets(&xml);
            if offs.is_empty() {
                return (file.to_vec(), "none");
            }
            let s = *rng.pick(&offs);
            let f = *rng.pick(&[0usize, 1, 8, 16, 24]);
            if s + f + 8 > l.len() {
                return (file.to_vec(), "none");
            }
            if f < 8 {
                l[s + f] = *rng.pick(&[0u8, 1, 2, 3, 255]);
            } else {
                let v = match rng.below(3) {
                    0 => *rng.pick(&U64S),
                    1 => rng.below(file.len() as u64 + 8),
                    _ => u64::MAX - rng.below(64),
                };
                l[s + f..s + f + 8].copy_from_slice(&v.to_le_bytes());
            }
            (repage(&l), "section-header")
        }
        7 | 8 => {
            // packet header / stream sizes / payload: bytes shortly after a section header
            let offs = section_offsets(&xml);
            if offs.is_empty() {
                return (file.to_vec(), "none");
            }
            let s = *rng.pick(&offs) + 32 + rng.below(40) as usize;
            if s + 2 > l.len() {
                return (file.to_vec(), "none");
            }
            if rng.chance(1, 4) {
                // a whole non-data packet header written over the first packet of the section: an index packet
                // (16 bytes, reserved bytes zero) or an ignored packet (4 bytes) with an extreme length field
                let s0 = *rng.pick(&offs) + 32;
                if s0 + 16 <= l.len() {
                    let len = *rng.pick(&[0xFFFFu16, 0xFFFB, 15, 19, 3, 0, 0x7FFF]);
                    if rng.chance(2, 3) {
                        l[s0..s0 + 16].copy_from_slice(&[0u8; 16]);
                        l[s0 + 2..s0 + 4].copy_from_slice(&len.to_le_bytes());
                    } else {
                        l[s0] = 2;
                        l[s0 + 1] = 0;
                        l[s0 + 2..s0 + 4].copy_from_slice(&len.to_le_bytes());
                    }
                    return (repage(&l), "packet");
                }
            }
            match rng.below(3) {
                0 => l[s] = *rng.pick(&[0u8, 1, 2, 3, 255]),
                1 => {
                    let v = *rng.pick(&[0u16, 3, 4, 7, 15, 16, 65535, 65531]);
                    l[s..s + 2].copy_from_slice(&v.to_le_bytes());
                }
                _ => l[s] ^= 1 << rng.below(8),
            }
            (repage(&l), "packet")
        }
        9 => {
            // unsealed damage
            let mut f = file.to_vec();
            for _ in 0..(1 + rng.below(4)) {
                let k = rng.below(f.len() as u64) as usize;
                f[k] ^= 1 << rng.below(8);
            }
            (f, "unsealed")
        }
        10 => {
            let cut = match rng.below(3) {
                0 => rng.below(file.len() as u64 + 1) as usize,
                1 => (rng.below(file.len() as u64 / 1024 + 1) * 1024) as usize,
                _ => rng.below(60) as usize,
            };
            (file[..cut.min(file.len())].to_vec(), "truncated")
        }
        _ => {
            let mut f = file.to_vec();
            let n = match rng.below(3) { 0 => 1024, 1 => rng.below(3000) as usize, _ => 2048 };
            f.extend(rng.bytes(n));
            (f, "extended")
        }
    }
}

pub fn exec(line: &str) -> String {
    eng_reader::exec(line)
}


/// amplification family (C09): `k` records of zero bit size next to one dense 1-bit stream of `nbytes` bytes
/// in a single data packet — before the fix "constant records are not queued" one `next()` allocated
/// k x 8·nbytes x 16 bytes
pub fn amplification_file(k: usize, nbytes: usize) -> Vec<u8> {
    let npts = nbytes * 8;
    let mut recs = String::new();
    for i in 0..k {
        recs.push_str(&format!("<x:c{i} type=\"Integer\" minimum=\"7\" maximum=\"7\">7</x:c{i}>\n"));
    }
    let xml = format!(
        "<?xml version=\"1.0\" encoding=\"UTF-8\"?>\n<e57Root type=\"Structure\" xmlns:x=\"urn:x\" xmlns=\"http://www.astm.org/COMMIT/E57/2010-e57-v1.0\">\n<formatName type=\"String\"><![CDATA[ASTM E57 3D Imaging Data File]]></formatName>\n<guid type=\"String\"><![CDATA[amp]]></guid>\n<versionMajor type=\"Integer\">1</versionMajor>\n<versionMinor type=\"Integer\">0</versionMinor>\n<data3D type=\"Vector\" allowHeterogeneousChildren=\"1\">\n<vectorChild type=\"Structure\">\n<guid type=\"String\"><![CDATA[pc]]></guid>\n<points type=\"CompressedVector\" fileOffset=\"48\" recordCount=\"{npts}\">\n<prototype type=\"Structure\">\n<cartesianX type=\"Integer\" minimum=\"0\" maximum=\"0\">0</cartesianX>\n<cartesianY type=\"Integer\" minimum=\"0\" maximum=\"0\">0</cartesianY>\n<cartesianZ type=\"Integer\" minimum=\"0\" maximum=\"0\">0</cartesianZ>\n<intensity type=\"Integer\" minimum=\"0\" maximum=\"1\">0</intensity>\n{recs}</prototype>\n</points>\n</vectorChild>\n</data3D>\n<images2D type=\"Vector\" allowHeterogeneousChildren=\"1\">\n</images2D>\n</e57Root>\n"
    )
    .into_bytes();
    let nstreams = k + 4;
    let mut pkt: Vec<u8> = vec![1, 0];
    let plen = 6 + 2 * nstreams + nbytes;
    let pad = (4 - plen % 4) % 4;
    pkt.extend_from_slice(&((plen + pad - 1) as u16).to_le_bytes());
    pkt.extend_from_slice(&(nstreams as u16).to_le_bytes());
    for i in 0..nstreams {
        pkt.extend_from_slice(&(if i == 3 { nbytes as u16 } else { 0 }).to_le_bytes());
    }
    pkt.extend(std::iter::repeat(0xAAu8).take(nbytes));
    pkt.extend(std::iter::repeat(0u8).take(pad));
    let l2p = |n: usize| n + 4 * (n / 1020);
    let mut logical: Vec<u8> = vec![0; 48];
    logical.push(1);
    logical.extend_from_slice(&[0; 7]);
    logical.extend_from_slice(&((32 + pkt.len()) as u64).to_le_bytes());
    logical.extend_from_slice(&(l2p(48 + 32) as u64).to_le_bytes());
    logical.extend_from_slice(&0u64.to_le_bytes());
    logical.extend_from_slice(&pkt);
    let xml_start = logical.len();
    logical.extend_from_slice(&xml);
    let pages = (logical.len() + 1019) / 1020;
    logical.resize(pages * 1020, 0);
    logical[0..8].copy_from_slice(b"ASTM-E57");
    logical[8..12].copy_from_slice(&1u32.to_le_bytes());
    logical[12..16].copy_from_slice(&0u32.to_le_bytes());
    logical[16..24].copy_from_slice(&((pages * 1024) as u64).to_le_bytes());
    logical[24..32].copy_from_slice(&(l2p(xml_start) as u64).to_le_bytes());
    logical[32..40].copy_from_slice(&(xml.len() as u64).to_le_bytes());
    logical[40..48].copy_from_slice(&1024u64.to_le_bytes());
    ref_pages(&logical)
}

/// stale-stream family (C09, time): `k` data packets that each carry `nbytes` bytes for a record of zero bit size
/// (never consumed) and nothing for the 1-bit record the iterator is waiting for, then one packet that completes
/// 8 points.  One `next()` walks through all packets; bytes that are kept and copied again with every packet make
/// that call quadratic in the file size.
pub fn stale_stream_file(k: usize, nbytes: usize) -> Vec<u8> {
    let xml = "<?xml version=\"1.0\" encoding=\"UTF-8\"?>\n<e57Root type=\"Structure\" xmlns=\"http://www.astm.org/COMMIT/E57/2010-e57-v1.0\">\n<formatName type=\"String\"><![CDATA[ASTM E57 3D Imaging Data File]]></formatName>\n<guid type=\"String\"><![CDATA[stale]]></guid>\n<versionMajor type=\"Integer\">1</versionMajor>\n<versionMinor type=\"Integer\">0</versionMinor>\n<data3D type=\"Vector\" allowHeterogeneousChildren=\"1\">\n<vectorChild type=\"Structure\">\n<guid type=\"String\"><![CDATA[pc]]></guid>\n<points type=\"CompressedVector\" fileOffset=\"48\" recordCount=\"8\">\n<prototype type=\"Structure\">\n<cartesianX type=\"Integer\" minimum=\"0\" maximum=\"0\">0</cartesianX>\n<cartesianY type=\"Integer\" minimum=\"0\" maximum=\"0\">0</cartesianY>\n<cartesianZ type=\"Integer\" minimum=\"0\" maximum=\"0\">0</cartesianZ>\n<intensity type=\"Integer\" minimum=\"0\" maximum=\"1\">0</intensity>\n</prototype>\n</points>\n</vectorChild>\n</data3D>\n<images2D type=\"Vector\" allowHeterogeneousChildren=\"1\">\n</images2D>\n</e57Root>\n".as_bytes().to_vec();
    let packet = |sizes: [usize; 4]| -> Vec<u8> {
        let total: usize = sizes.iter().sum();
        let mut pkt: Vec<u8> = vec![1, 0];
        let plen = 6 + 2 * 4 + total;
        let pad = (4 - plen % 4) % 4;
        pkt.extend_from_slice(&((plen + pad - 1) as u16).to_le_bytes());
        pkt.extend_from_slice(&4u16.to_le_bytes());
        for s in sizes {
            pkt.extend_from_slice(&(s as u16).to_le_bytes());
        }
        pkt.extend(std::iter::repeat(0x55u8).take(total));
        pkt.extend(std::iter::repeat(0u8).take(pad));
        pkt
    };
    let mut pkts: Vec<u8> = vec![];
    for _ in 0..k {
        pkts.extend(packet([nbytes, 0, 0, 0]));
    }
    pkts.extend(packet([0, 0, 0, 1]));
    let l2p = |n: usize| n + 4 * (n / 1020);
    let mut logical: Vec<u8> = vec![0; 48];
    logical.push(1);
    logical.extend_from_slice(&[0; 7]);
    logical.extend_from_slice(&((32 + pkts.len()) as u64).to_le_bytes());
    logical.extend_from_slice(&(l2p(48 + 32) as u64).to_le_bytes());
    logical.extend_from_slice(&0u64.to_le_bytes());
    logical.extend_from_slice(&pkts);
    let xml_start = logical.len();
    logical.extend_from_slice(&xml);
    let pages = (logical.len() + 1019) / 1020;
    logical.resize(pages * 1020, 0);
    logical[0..8].copy_from_slice(b"ASTM-E57");
    logical[8..12].copy_from_slice(&1u32.to_le_bytes());
    logical[12..16].copy_from_slice(&0u32.to_le_bytes());
    logical[16..24].copy_from_slice(&((pages * 1024) as u64).to_le_bytes());
    logical[24..32].copy_from_slice(&(l2p(xml_start) as u64).to_le_bytes());
    logical[32..40].copy_from_slice(&(xml.len() as u64).to_le_bytes());
    logical[40..48].copy_from_slice(&1024u64.to_le_bytes());
    ref_pages(&logical)
}

fn work_now() -> u64 {
    e57::verif::WORK.load(std::sync::atomic::Ordering::Relaxed)
}

pub fn generate(sink: &mut Sink, seed: u64, thorough: bool) {
    let mut rng = Rng::new(seed ^ 0x3A7A);
    // sources
    let mut sources: Vec<Vec<u8>> = vec![];
    let nsrc = if thorough { 120 } else { 30 };
    let mut tries = 0;
    while sources.len() < nsrc && tries < nsrc * 4 {
        tries += 1;
        let prog = {
            let mut g = Gen { rng: &mut rng, exts: vec![], n: 0 };
            g.program(15)
        };
        let dev = crate::dev::SimDev::new(vec![]);
        let run = execute(&prog, &dev);
        if !run.panicked && run.results.last().map(|s| s == "ok").unwrap_or(false) && run.file.len() <= 16384 {
            sources.push(run.file);
        }
    }
    for (_, b) in eng_reader::bundled_files(17000) {
        sources.push(b);
    }
    let n = if thorough { 20000 } else { 1500 };
    // amplification family: many constant records next to one dense bit stream (see `amplification_file`)
    let amps: Vec<(usize, usize)> = if thorough { vec![(1000, 4000), (120, 20000), (300, 8000), (2000, 6000)] } else { vec![(1000, 4000)] };
    let stales: Vec<(usize, usize)> = if thorough { vec![(400, 500), (1500, 100), (200, 3000)] } else { vec![(400, 500)] };
    for i in 0..n + amps.len() + stales.len() {
        let (mut file, mut kind) = if i >= n + amps.len() {
            let (k, nb) = stales[i - n - amps.len()];
            (stale_stream_file(k, nb), "stale-stream")
        } else if i >= n {
            let (k, nb) = amps[i - n];
            (amplification_file(k, nb), "amplification")
        } else {
            let src = rng.pick(&sources).clone();
            mutate(&mut rng, &src)
        };
        if i < n && rng.chance(1, 5) && file.len() >= 48 {
            // a second mutation on top
            let (f2, k2) = mutate(&mut rng, &file);
            if f2.len() >= 48 || k2 == "truncated" {
                file = f2;
                kind = k2;
            }
        }
        // (amplification files: one raw and one simple read of a few points — the whole packet is decoded by the
        // first step, which is what is measured; more operations only cost model time)
        let ops = if i >= n { vec!["META".to_string(), "RAW".into(), "0".into(), "3".into(), "SIMPLE".into(), "0".into(), "59".into(), "2".into()] } else { eng_reader::ops_for(&mut rng, &file, false) };
        let line = eng_reader::case_line(&file, &ops);
        let o: Vec<&str> = ops.iter().map(|s| s.as_str()).collect();
        crate::watchdog_begin(&line);
        reset_peak();
        let t0 = std::time::Instant::now();
        let w0 = work_now();
        let out = eng_reader::run_ops(&file, &o);
        let work = work_now() - w0;
        let dt = t0.elapsed();
        let peak = peak_above_current();
        crate::watchdog_end();
        sink.oracle_evals += 1;
        if out.contains("PANIC") {
            let which = out.split(" | ").find(|p| p.contains("PANIC")).unwrap_or("").split(' ').next().unwrap_or("").to_string();
            sink.fail("C08", &format!("reader/panic/{kind}/{which}"), &line, &format!("a read entry point panicked on a mutated file ({kind}): {}", &out[..out.len().min(160)]));
        }
        // C09: memory and time bounded by a fixed multiple of the input size plus a constant
        let mem_bound = 48 * 1024 * 1024 + 4096 * file.len();
        if peak > mem_bound {
            sink.fail("C09", &format!("reader/memory/{kind}"), &line, &format!("peak allocation {peak} bytes for a {} byte input", file.len()));
        }
        // work (bytes moved, values delivered; counted by the crate under cfg(e57_verif)).  A packet of 64 KiB can
        // hold half a million 1-bit points and every point delivers one value per record, so the constant factor of
        // the linear bound is large; it only catches gross excess.  Super-linear growth is judged by scaling (below).
        let nops = o.iter().filter(|t| matches!(**t, "META" | "RAW" | "SIMPLE" | "BLOB" | "XML" | "CRC")).count() as u64 + 2;
        let work_bound = nops * (4096 * file.len() as u64 + 8 * 1024 * 1024);
        sink.stat_max("work_per_input_byte_max_x100", work * 100 / (file.len() as u64).max(1));
        if work > work_bound {
            sink.fail("C09", &format!("reader/work/{kind}"), &line, &format!("{work} bytes moved / values delivered for a {} byte input and {} operations (bound {work_bound})", file.len(), nops - 2));
        }
        // scaling: the same family at half the size must cost about half — a call whose work grows with the SQUARE
        // of the input size is not bounded by a fixed multiple of it
        if kind == "stale-stream" || kind == "amplification" {
            let half = if kind == "stale-stream" {
                let (k, nb) = stales[i - n - amps.len()];
                stale_stream_file(k / 2, nb)
            } else {
                let (k, nb) = amps[i - n];
                amplification_file(k, nb / 2)
            };
            let w1 = work_now();
            let _ = eng_reader::run_ops(&half, &o);
            let work_half = (work_now() - w1).max(1);
            sink.oracle_evals += 1;
            sink.stat_max(&format!("scaling_x100_{kind}"), work * 100 / work_half);
            if work > 3 * work_half {
                sink.fail("C09", &format!("reader/work-superlinear/{kind}"), &line, &format!("{work} bytes moved / values delivered for a {} byte input, {work_half} for the same construction at half the size ({} bytes): more than 3 times as much — the work of one call grows faster than the input", file.len(), half.len()));
            }
        }
        if dt.as_secs_f64() > 5.0 {
            sink.fail("C09", &format!("reader/time/{kind}"), &line, &format!("{:.1} s for a {} byte input", dt.as_secs_f64(), file.len()));
        }
        sink.stat_max("peak_alloc_max", peak as u64);
        sink.stat_max("case_millis_max", dt.as_millis() as u64);
        sink.stat(&format!("mutation_{kind}"));
        sink.stat(if out.starts_with("OPEN |") { "opens" } else { "rejected_at_open" });
        // the simple/raw oracles (count bound etc.) on files that still open
        if out.starts_with("OPEN |") && i % 4 == 0 {
            eng_reader::oracle(sink, &line);
        }
        sink.case(line, out.clone(), kind != "none" && out.starts_with("OPEN |"));
    }
}
