//! Engine "xml": XML text -> tree.  The crate hands every XML section to `roxmltree::Document::parse` and then
//! only queries the tree; the Lean side has its own verified parser (`E57/Spec/XmlParse.lean`).  This engine
//! compares the two on (a) the XML of files written by the real writer, (b) the lexical variants the layout
//! engine's specification encoder writes, (c) hand-written fine print, (d) text-level mutations of all of these
//! (mostly malformed).  Answer per case: the canonical token dump of the tree (`TREE …`) or `TFAIL`.
//! Oracle (C02/C04): the XML of every successfully finalized file is accepted by the parser used by readers.
use crate::eng_reader::dump_xml;
use crate::eng_writer::*;
use crate::util::*;
use crate::wprog::*;

pub fn answer(xml: &[u8]) -> String {
    dump_xml(xml).0.join(" ")
}

pub fn exec(line: &str) -> String {
    let t: Vec<&str> = line.split(' ').collect();
    if t.len() != 2 || t[0] != "xml" {
        return "BADCASE".into();
    }
    match unhex(t[1]) {
        Some(b) => answer(&b),
        None => "BADCASE".into(),
    }
}

/// documents exercising XML fine print (well-formed and not)
fn fine_print() -> Vec<&'static str> {
    vec![
        "<a/>",
        "<a></a>",
        "<?xml version=\"1.0\"?><a/>",
        "<?xml version='1.0' encoding='UTF-8' standalone='yes'?>\n<a/>\n",
        " <a/>",
        "<!-- c --><a/><!-- d -->",
        "<?pi x?><a/><?pi?>",
        "<a/><b/>",
        "<a/>x",
        "x<a/>",
        "",
        "<a>",
        "</a>",
        "<a></b>",
        "<a><b></a></b>",
        "<!DOCTYPE a><a/>",
        "<!DOCTYPE a [<!ENTITY e \"v\">]><a>&e;</a>",
        "<a b=\"1\" b=\"2\"/>",
        "<a b='1' c=\"2\"/>",
        "<a b = '1'  c\n=\t\"2\" />",
        "<a b=1/>",
        "<a b/>",
        "<a b=\"<\"/>",
        "<a b=\"&lt;&gt;&amp;&quot;&apos;\"/>",
        "<a b=\"x&#9;y&#10;z&#13;w\"/>",
        "<a b=\"x\ty\nz\rw\r\nv\"/>",
        "<a b=\"&#x41;&#65;\"/>",
        "<a b=\"&#0;\"/>",
        "<a b=\"&#xFFFE;\"/>",
        "<a b=\"&#x110000;\"/>",
        "<a b=\"&unknown;\"/>",
        "<a b=\"&amp\"/>",
        "<a>&lt;&gt;&amp;&quot;&apos;</a>",
        "<a>&#x41;&#65;&#13;&#10;</a>",
        "<a>x\r\ny\rz\n</a>",
        "<a>&unknown;</a>",
        "<a>&#xD800;</a>",
        "<a>]]></a>",
        "<a>a]]>b</a>",
        "<a><![CDATA[x]]></a>",
        "<a><![CDATA[]]></a>",
        "<a>p<![CDATA[x]]>q</a>",
        "<a><![CDATA[x]]><![CDATA[y]]></a>",
        "<a><![CDATA[a]]]]><![CDATA[>b]]></a>",
        "<a><![CDATA[<&>\r\n\r]]></a>",
        "<a><![CDATA[x]]</a>",
        "<a> </a>",
        "<a>\n<b/>\n</a>",
        "<a><b/> <c/></a>",
        "<a>x<!-- c -->y</a>",
        "<a>x<?p?>y</a>",
        "<a><!-- c -->y</a>",
        "<a><!-- -- --></a>",
        "<a><!-- c ---></a>",
        "<a><?xml version=\"1.0\"?></a>",
        "<a xmlns=\"u\"/>",
        "<a xmlns=\"\"/>",
        "<a xmlns=\"u\"><b xmlns=\"\"/></a>",
        "<a xmlns=\"u\"><b xmlns=\"v\"><c/></b><d/></a>",
        "<p:a xmlns:p=\"u\"/>",
        "<p:a/>",
        "<a p:b=\"1\"/>",
        "<a xmlns:p=\"u\" p:b=\"1\" b=\"2\"/>",
        "<a xmlns:p=\"u\" xmlns:q=\"u\" p:b=\"1\" q:b=\"2\"/>",
        "<a xmlns:p=\"u\" xmlns:q=\"u\"><q:b/><p:c/></a>",
        "<a xmlns:p=\"u\"><b xmlns:p=\"v\"><p:c/></b><p:d/></a>",
        "<a xmlns:p=\"u\" xmlns:p=\"v\"/>",
        "<a xmlns:p=\"\"/>",
        "<a xml:lang=\"en\"/>",
        "<xml:a/>",
        "<a xmlns:xml=\"http://www.w3.org/XML/1998/namespace\"/>",
        "<a xmlns:xml=\"u\"/>",
        "<a xmlns:p=\"http://www.w3.org/XML/1998/namespace\"/>",
        "<a xmlns:xmlns=\"u\"/>",
        "<a xmlns:p=\"http://www.w3.org/2000/xmlns/\"/>",
        "<a xmlns=\"http://www.w3.org/XML/1998/namespace\"/>",
        "<a xmlns=\"u\" xmlns:p=\"u\"><b/><p:b/></a>",
        "<a xmlns:p=\"u\" xmlns=\"u\"><b/><p:b/></a>",
        "<a xmlns=\"a&amp;b\" xmlns:p=\"x&#9;y z\"><p:b/></a>",
        "<a xmlns:p=\"x\ty\"><p:b/></a>",
        "<a:b:c xmlns:a=\"u\"/>",
        "<:a/>",
        "<a:/>",
        "<1a/>",
        "<a-b.c_d/>",
        "<-a/>",
        "<a\u{e9}/>",
        "<\u{e9}a/>",
        "<a >x</a >",
        "<a></a\n>",
        "< a/>",
        "<a / >",
        "<a><b></b><b/></a>",
        "<a>\u{1F600}\u{FFFD}</a>",
        "<a>\u{FFFE}</a>",
        "<a>\u{0001}</a>",
        "<a>\u{0085}\u{2028}</a>",
        "\u{FEFF}<a/>",
        "<a b=\"'\" c='\"'/>",
        "<a b=\">\"/>",
        "<a>></a>",
        "<a b=\"1\"c=\"2\"/>",
        "<e57Root type=\"Structure\" xmlns=\"http://www.astm.org/COMMIT/E57/2010-e57-v1.0\"><guid type=\"String\"><![CDATA[g]]></guid></e57Root>",
        "<e57:e57Root type=\"Structure\" xmlns:e57=\"http://www.astm.org/COMMIT/E57/2010-e57-v1.0\"><e57:guid type=\"String\">g</e57:guid></e57:e57Root>",
    ]
}

/// one text-level mutation; the result may or may not be well-formed
fn mutate_text(rng: &mut Rng, s: &str) -> (String, &'static str) {
    let chars: Vec<char> = s.chars().collect();
    if chars.is_empty() {
        return ("<".into(), "m_empty");
    }
    let pos = rng.below(chars.len() as u64) as usize;
    let ins: &[&str] = &[
        "<", ">", "&", "\"", "'", "&amp;", "&lt;", "&#65;", "&#x0;", "&#13;", "&bogus;", "]]>", "<![CDATA[", "<!--", "-->", "<?", "?>", "\r", "\r\n", "\t", " ", "/",
        "=", ":", "<!-- c -->", "<?pi data?>", "<x/>", "<q:x/>", " xmlns:q=\"urn:q\"", " xmlns=\"urn:d\"", " type=\"String\"", " a=\"1\" a=\"2\"", "<!DOCTYPE x>", "\u{FFFE}", "\u{1}", "\u{e9}",
        "</x>", "<x>", "--",
    ];
    let mut out: Vec<char> = chars.clone();
    let kind = match rng.below(8) {
        0 => {
            out.remove(pos);
            "m_delete_char"
        }
        1 | 2 | 3 => {
            let t = *rng.pick(ins);
            for (k, c) in t.chars().enumerate() {
                out.insert(pos + k, c);
            }
            "m_insert_token"
        }
        4 => {
            let end = (pos + 1 + rng.below(12) as usize).min(out.len());
            out.drain(pos..end);
            "m_delete_span"
        }
        5 => {
            out.truncate(pos);
            "m_truncate"
        }
        6 => {
            let end = (pos + 1 + rng.below(20) as usize).min(out.len());
            let span: Vec<char> = out[pos..end].to_vec();
            for (k, c) in span.iter().enumerate() {
                out.insert(end + k, *c);
            }
            "m_duplicate_span"
        }
        _ => {
            let q = rng.below(chars.len() as u64) as usize;
            out.swap(pos, q);
            "m_swap_chars"
        }
    };
    (out.into_iter().collect(), kind)
}

pub fn generate(sink: &mut Sink, seed: u64, thorough: bool) {
    let mut rng = Rng::new(seed ^ 0x3C3E);
    let mut emit = |sink: &mut Sink, xml: &[u8], tag: &str| -> bool {
        let a = answer(xml);
        let ok = a.starts_with("TREE");
        sink.stat(tag);
        sink.stat(if ok { "accepted" } else { "rejected" });
        sink.stat_max("xml_bytes_max", xml.len() as u64);
        if ok {
            sink.stat_n("tree_tokens_total", a.split(' ').count() as u64);
        }
        let nontrivial = ok && (xml.len() > 200 || xml.windows(2).any(|w| w == b"&#" || w == b"<!" || w == b"ns"));
        sink.case(format!("xml {}", hex(xml)), a, nontrivial);
        ok
    };
    let mut pool: Vec<String> = vec![];
    // (c) fine print
    for d in fine_print() {
        emit(sink, d.as_bytes(), "fine_print");
        pool.push(d.to_string());
    }
    // (a) XML of the real writer's files
    let n = if thorough { 600 } else { 90 };
    let mut got = 0;
    let mut tries = 0;
    while got < n && tries < 6 * n {
        tries += 1;
        let prog = {
            let mut g = Gen { rng: &mut rng, exts: vec![], n: 0 };
            g.program(6)
        };
        let dev = crate::dev::SimDev::new(vec![]);
        let run = execute(&prog, &dev);
        if run.panicked || run.results.last().map(|s| s != "ok").unwrap_or(true) {
            continue;
        }
        let plain_finalize = prog.stmts.iter().rev().find_map(|s| match s {
            Stmt::Fin => Some(true),
            Stmt::FinX(_) => Some(false),
            _ => None,
        });
        let xml = extract_xml(&run.file);
        if xml.is_empty() || xml.len() > 60_000 {
            continue;
        }
        got += 1;
        sink.oracle_evals += 1;
        let ok = emit(sink, &xml, "writer_xml");
        if !ok && plain_finalize == Some(true) {
            let line = prog.case_line(&library_version());
            sink.fail("C02", "xml/writer-output-rejected", &line, "the XML section of a successfully finalized file is rejected by the XML parser");
            sink.fail("C04", "xml/writer-output-rejected", &line, "the XML section of a successfully finalized file is rejected by the XML parser");
        }
        if let Ok(s) = String::from_utf8(xml) {
            pool.push(s);
        }
    }
    // (b) lexical variants written by the layout engine's XML writer
    let nv = if thorough { 400 } else { 60 };
    for x in crate::eng_layout::variant_xmls(&mut rng, nv) {
        if x.len() > 60_000 {
            continue;
        }
        emit(sink, x.as_bytes(), "variant_xml");
        pool.push(x);
    }
    // (d) mutations
    let nm = if thorough { 12_000 } else { 1_500 };
    for _ in 0..nm {
        let base = rng.pick(&pool).clone();
        if base.len() > 20_000 {
            continue;
        }
        let (mut m, kind) = mutate_text(&mut rng, &base);
        if rng.chance(1, 5) {
            m = mutate_text(&mut rng, &m).0;
        }
        emit(sink, m.as_bytes(), kind);
    }
    // invalid UTF-8 is not a document
    emit(sink, &[0x3c, 0x61, 0x2f, 0x3e, 0xff], "invalid_utf8");
    emit(sink, &[0x3c, 0x61, 0x3e, 0xc3, 0x28, 0x3c, 0x2f, 0x61, 0x3e], "invalid_utf8");
}
