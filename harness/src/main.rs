//! Correspondence harness for the Lean model of cry-inc/e57.
//!   e57harness gen  <engine> <seed> <quick|thorough> <out-dir>
//!   e57harness exec <engine> <case-file>          (one implementation answer per case line)
mod util;
mod dev;
mod eng_bits;
mod eng_pages;
mod wprog;
mod scene;
mod eng_writer;
mod eng_reader;
mod eng_spec;
mod eng_layout;
mod eng_foreign;
mod eng_device;
mod eng_copy;
mod eng_mutants;
mod eng_sfloat;
mod eng_devio;
mod eng_floattext;
mod eng_xml;

#[global_allocator]
static ALLOC: eng_mutants::Counting = eng_mutants::Counting;

use std::sync::Mutex;
static WATCH: Mutex<Option<(std::time::Instant, String)>> = Mutex::new(None);
static WATCH_OUT: Mutex<String> = Mutex::new(String::new());

pub fn watchdog_begin(case: &str) {
    *WATCH.lock().unwrap() = Some((std::time::Instant::now(), case.to_string()));
}
pub fn watchdog_end() {
    *WATCH.lock().unwrap() = None;
}
/// called by the counting allocator for an absurd request: the case in progress (if any) is the failing input
pub fn report_huge_alloc(size: usize) {
    static ONCE: std::sync::atomic::AtomicBool = std::sync::atomic::AtomicBool::new(false);
    if ONCE.swap(true, std::sync::atomic::Ordering::SeqCst) {
        return;
    }
    if let Ok(g) = WATCH.try_lock() {
        if let Some((_, case)) = g.as_ref() {
            if let Ok(path) = WATCH_OUT.try_lock() {
                let p = path.replace(".hang.case", ".alloc.case");
                let _ = std::fs::write(&p, format!("{size}\n{case}"));
                println!("ALLOCATION of {size} bytes requested: {p}");
                std::process::exit(87);
            }
        }
    }
    ONCE.store(false, std::sync::atomic::Ordering::SeqCst);
}

fn start_watchdog(out_dir: &str, engine: &str) {
    *WATCH_OUT.lock().unwrap() = format!("{out_dir}/{engine}.hang.case");
    std::thread::spawn(|| loop {
        std::thread::sleep(std::time::Duration::from_millis(500));
        let g = WATCH.lock().unwrap();
        if let Some((t, case)) = g.as_ref() {
            if t.elapsed().as_secs() >= 30 {
                let path = WATCH_OUT.lock().unwrap().clone();
                let _ = std::fs::write(&path, case);
                println!("WATCHDOG case exceeded 30 s: {path}");
                std::process::exit(86);
            }
        }
    });
}

use util::Sink;

fn exec_line(engine: &str, line: &str) -> String {
    match engine {
        "bits" => eng_bits::exec(line),
        "pages" => eng_pages::exec(line),
        "writer" => eng_writer::exec(line),
        "reader" => eng_reader::exec(line),
        "spec" => eng_spec::exec(line),
        "layout" => eng_layout::exec(line),
        "foreign" => eng_foreign::exec(line),
        "device" => eng_device::exec(line),
        "copy" | "tools" => eng_copy::exec(line),
        "mutants" => eng_mutants::exec(line),
        "sfloat" => eng_sfloat::exec(line),
        "devio" => eng_devio::exec(line),
        "floattext" => eng_floattext::exec(line),
        "xml" => eng_xml::exec(line),
        "devdbg" => eng_device::debug_read_fault(line),
        _ => "BADENGINE".into(),
    }
}

fn main() {
    if std::env::var("E57H_VERBOSE").is_err() {
        std::panic::set_hook(Box::new(|_| {}));
    }
    let args: Vec<String> = std::env::args().collect();
    if args.len() < 3 {
        eprintln!("usage: e57harness gen|exec <engine> ...");
        std::process::exit(2);
    }
    let engine = args[2].as_str();
    match args[1].as_str() {
        "gen" => {
            let seed: u64 = args[3].parse().expect("seed");
            let thorough = args[4] == "thorough";
            let out = &args[5];
            let mut sink = Sink::new(engine);
            std::fs::create_dir_all(out).ok();
            start_watchdog(out, engine);
            match engine {
                "bits" => eng_bits::generate(&mut sink, seed, thorough),
                "pages" => eng_pages::generate(&mut sink, seed, thorough),
                "writer" => eng_writer::generate(&mut sink, seed, thorough),
                "reader" => eng_reader::generate(&mut sink, seed, thorough),
                "spec" => eng_spec::generate(&mut sink, seed, thorough),
                "layout" => eng_layout::generate(&mut sink, seed, thorough),
                "foreign" => eng_foreign::generate(&mut sink, seed, thorough),
                "device" => eng_device::generate(&mut sink, seed, thorough),
                "copy" => eng_copy::generate(&mut sink, seed, thorough),
                "tools" => eng_copy::generate_tools(&mut sink, seed, thorough),
                "mutants" => eng_mutants::generate(&mut sink, seed, thorough),
                "sfloat" => eng_sfloat::generate(&mut sink, seed, thorough),
                "devio" => eng_devio::generate(&mut sink, seed, thorough),
                "floattext" => eng_floattext::generate(&mut sink, seed, thorough),
                "xml" => eng_xml::generate(&mut sink, seed, thorough),
                _ => {
                    eprintln!("unknown engine {engine}");
                    std::process::exit(2);
                }
            }
            sink.write(out).expect("write outputs");
            println!(
                "engine={} cases={} distinct_nontrivial={} oracle_failures={}",
                engine,
                sink.cases.len(),
                sink.nontrivial.len(),
                sink.failures.len()
            );
        }
        "exec" => {
            let text = std::fs::read_to_string(&args[3]).expect("case file");
            for line in text.lines() {
                if line.trim().is_empty() {
                    continue;
                }
                println!("{}", exec_line(engine, line));
            }
        }
        _ => std::process::exit(2),
    }
}
