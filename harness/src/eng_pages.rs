//! Engine "pages": PagedWriter / PagedReader histories and CRC  (C11, C07 parts)
use crate::dev::*;
use crate::util::*;
use e57::verif::{PagedReader, PagedWriter};
use std::io::{Read, Write};

pub fn dev_tok(d: &SimDev) -> String {
    let data = d.data();
    let mut h: u64 = 0xcbf29ce484222325;
    for b in &data {
        h ^= *b as u64;
        h = h.wrapping_mul(0x100000001b3);
    }
    format!("{}:{}", data.len(), h)
}

pub fn parse_data(tok: &str) -> Option<Vec<u8>> {
    if let Some(h) = tok.strip_prefix("w:") {
        unhex(h)
    } else if let Some(r) = tok.strip_prefix('g') {
        let (n, s) = r.split_once(':')?;
        Some(gen_data(n.parse().ok()?, s.parse().ok()?))
    } else {
        None
    }
}

#[cfg(not(feature = "hwcrc"))]
pub fn impl_crc(data: &[u8]) -> u32 {
    e57::verif::Crc32::new().calculate(data)
}
#[cfg(feature = "hwcrc")]
pub fn impl_crc(data: &[u8]) -> u32 {
    crc32c::crc32c(data)
}

/// reference logical stream for the writer oracle
struct RefStream {
    data: Vec<u8>, // logical bytes, zero filled, length multiple of 1020 = pages on device (after flush)
    cur: usize,
    dev_pages: usize, // pages materialised on the device
}

impl RefStream {
    fn new() -> Self {
        RefStream { data: vec![], cur: 0, dev_pages: 0 }
    }
    fn ensure(&mut self, len: usize) {
        let pages = (len + 1019) / 1020;
        if self.data.len() < pages * 1020 {
            self.data.resize(pages * 1020, 0);
        }
    }
    fn write(&mut self, b: &[u8]) {
        if b.is_empty() {
            return;
        }
        self.ensure(self.cur + b.len());
        self.data[self.cur..self.cur + b.len()].copy_from_slice(b);
        self.cur += b.len();
        // full pages are written through immediately
        let full = self.cur / 1020;
        if full > self.dev_pages {
            self.dev_pages = full;
        }
    }
    fn flush(&mut self) {
        let need = (self.cur + 1019) / 1020;
        if need > self.dev_pages {
            self.dev_pages = need;
        }
        self.ensure(self.dev_pages * 1020);
    }
    fn pos(&self) -> u64 {
        (self.cur + 4 * (self.cur / 1020)) as u64
    }
    fn size(&self) -> u64 {
        (self.dev_pages * 1024) as u64
    }
    fn image(&self) -> Vec<u8> {
        ref_pages(&self.data[..self.dev_pages * 1020])
    }
}

/// run a writer history on the real code; returns output tokens and, when `oracle` is given,
/// checks the property against the reference stream after every step
fn run_pw(ops: &[&str], mut oracle: Option<(&mut Sink, &str)>) -> String {
    let dev = SimDev::new(vec![]);
    let mut w = match PagedWriter::new(dev.clone()) {
        Ok(w) => w,
        Err(_) => return "NEWERR".into(),
    };
    let mut rs = RefStream::new();
    let mut out: Vec<String> = vec![];
    let mut fail = |o: &mut Option<(&mut Sink, &str)>, sig: &str, msg: String| {
        if let Some((sink, line)) = o.as_mut() {
            sink.fail("C11", sig, line, &msg);
        }
    };
    for (k, op) in ops.iter().enumerate() {
        let mut flush_point = false;
        let r = guarded(|| -> String {
            if *op == "f" {
                match w.flush() {
                    Ok(()) => format!(".@{}", dev_tok(&dev)),
                    Err(_) => "err".into(),
                }
            } else if *op == "a" {
                match w.align() {
                    Ok(()) => format!(".@{}", dev_tok(&dev)),
                    Err(_) => "err".into(),
                }
            } else if *op == "p" {
                match w.physical_position() {
                    Ok(p) => p.to_string(),
                    Err(_) => "err".into(),
                }
            } else if *op == "z" {
                match w.physical_size() {
                    Ok(p) => format!("{}@{}", p, dev_tok(&dev)),
                    Err(_) => "err".into(),
                }
            } else if *op == "D" {
                hex(&dev.data())
            } else if let Some(p) = op.strip_prefix('s') {
                match w.physical_seek(p.parse().unwrap()) {
                    Ok(()) => format!(".@{}", dev_tok(&dev)),
                    Err(_) => format!("err@{}", dev_tok(&dev)),
                }
            } else {
                let d = parse_data(op).unwrap();
                match w.write_all(&d) {
                    Ok(()) => format!(".@{}", dev_tok(&dev)),
                    Err(_) => "err".into(),
                }
            }
        });
        let tok = match r {
            Ok(t) => t,
            Err(_) => {
                out.push("PANIC".into());
                fail(&mut oracle, "pages/writer-panic", format!("step {k} ({op}) panicked"));
                break;
            }
        };
        // ---- oracle on the reference stream
        if oracle.is_some() {
            if *op == "f" {
                rs.flush();
                flush_point = true;
                if !tok.starts_with('.') {
                    fail(&mut oracle, "pages/flush-err", format!("step {k}: flush failed"));
                }
            } else if *op == "a" {
                let m = rs.cur % 4;
                if m != 0 {
                    rs.write(&vec![0u8; 4 - m]);
                }
            } else if *op == "p" {
                if tok != rs.pos().to_string() {
                    fail(&mut oracle, "pages/position", format!("step {k}: physical_position={tok} expected {}", rs.pos()));
                }
            } else if *op == "z" {
                rs.flush();
                flush_point = true;
                let got = tok.split('@').next().unwrap_or("");
                if got != rs.size().to_string() {
                    fail(&mut oracle, "pages/size", format!("step {k}: physical_size={got} expected {}", rs.size()));
                }
            } else if *op == "D" {
            } else if let Some(p) = op.strip_prefix('s') {
                let p: u64 = p.parse().unwrap();
                rs.flush();
                flush_point = true;
                let valid = p <= rs.size() && p % 1024 < 1020;
                let ok = tok.starts_with('.');
                if valid != ok {
                    fail(&mut oracle, "pages/seek-verdict", format!("step {k}: seek({p}) ok={ok} expected {valid}"));
                }
                if ok && valid {
                    rs.cur = (p - 4 * (p / 1024)) as usize;
                    rs.ensure(rs.cur);
                }
            } else {
                let d = parse_data(op).unwrap();
                rs.write(&d);
            }
            // position must always translate
            if let Ok(Ok(p)) = guarded(|| w.physical_position()) {
                if p != rs.pos() {
                    fail(&mut oracle, "pages/position-after", format!("after step {k} ({op}): physical_position={p} expected {}", rs.pos()));
                }
            }
            if flush_point {
                let img = rs.image();
                if dev.data() != img {
                    let d = dev.data();
                    let first = d.iter().zip(img.iter()).position(|(a, b)| a != b).unwrap_or(d.len().min(img.len()));
                    fail(&mut oracle, "pages/image", format!("after step {k} ({op}): device ({} bytes) differs from the paged image of the logical stream ({} bytes) at byte {first}", d.len(), img.len()));
                }
            }
        }
        out.push(tok);
    }
    // drop = flush; final image check
    drop(w);
    if oracle.is_some() {
        rs.flush();
        if dev.data() != rs.image() {
            fail(&mut oracle, "pages/image-after-drop", "device differs from the paged image after drop".into());
        }
    }
    out.join(" ")
}

fn run_pr(ps: u64, device: Vec<u8>, ops: &[&str]) -> String {
    let dev = SimDev::new(device);
    let mut r = match PagedReader::new(dev, ps) {
        Ok(r) => r,
        Err(_) => return "err".into(),
    };
    let mut out: Vec<String> = vec!["ok".into()];
    for op in ops {
        let t = guarded(|| {
            if *op == "a" {
                match r.align() {
                    Ok(()) => ".".to_string(),
                    Err(_) => "err".into(),
                }
            } else if let Some(p) = op.strip_prefix('s') {
                match r.seek_physical(p.parse().unwrap()) {
                    Ok(o) => o.to_string(),
                    Err(_) => "err".into(),
                }
            } else if let Some(n) = op.strip_prefix('r') {
                let mut buf = vec![0u8; n.parse().unwrap()];
                match r.read(&mut buf) {
                    Ok(k) => hex(&buf[..k]),
                    Err(_) => "err".into(),
                }
            } else if let Some(n) = op.strip_prefix('x') {
                let mut buf = vec![0u8; n.parse().unwrap()];
                match r.read_exact(&mut buf) {
                    Ok(()) => hex(&buf),
                    Err(_) => "err".into(),
                }
            } else {
                "BADCASE".into()
            }
        });
        match t {
            Ok(t) => out.push(t),
            Err(_) => {
                out.push("PANIC".into());
                break;
            }
        }
    }
    out.join(" ")
}

pub fn exec(line: &str) -> String {
    let t: Vec<&str> = line.split_whitespace().collect();
    match t[0] {
        "pw" => run_pw(&t[1..], None),
        "pwne" => match PagedWriter::new(SimDev::new(unhex(t[1]).unwrap())) {
            Ok(_) => "ok".into(),
            Err(_) => "err".into(),
        },
        "pr" => run_pr(t[1].parse().unwrap(), unhex(t[2]).unwrap(), &t[3..]),
        "crc" => impl_crc(&unhex(t[1]).unwrap()).to_string(),
        "dm" => run_dm(&t),
        _ => "BADCASE".into(),
    }
}

pub fn dm_logical(pages: usize, seed: usize) -> Vec<u8> {
    let mut d = gen_data(pages * 1020, seed);
    d[40..48].copy_from_slice(&1024u64.to_le_bytes());
    d
}

/// four bytes `t` such that crc32c(prefix ++ t) == target (reverse table walk; always exists)
fn forge_tail(prefix: &[u8], target: u32) -> Option<[u8; 4]> {
    // forward state after the prefix (before the final inversion)
    let mut table = [0u32; 256];
    for i in 0..256u32 {
        let mut c = i;
        for _ in 0..8 {
            c = if c & 1 == 1 { (c >> 1) ^ 0x82F6_3B78 } else { c >> 1 };
        }
        table[i as usize] = c;
    }
    let mut state: u32 = !0;
    for b in prefix {
        state = table[((state ^ *b as u32) & 0xff) as usize] ^ (state >> 8);
    }
    // wanted final state
    let mut want = !target;
    // walk backwards: find the table indices whose top bytes match
    let mut idx = [0usize; 4];
    for k in (0..4).rev() {
        let top = (want >> 24) as u8;
        let i = (0..256).find(|i| (table[*i] >> 24) as u8 == top)?;
        idx[k] = i;
        want = (want ^ table[i]) << 8;
    }
    // now run forward choosing bytes that hit those indices
    let mut out = [0u8; 4];
    let mut st = state;
    for k in 0..4 {
        out[k] = (idx[k] as u32 ^ (st & 0xff)) as u8;
        st = table[idx[k]] ^ (st >> 8);
    }
    let mut check = prefix.to_vec();
    check.extend_from_slice(&out);
    if ref_crc32c(&check) == target {
        Some(out)
    } else {
        None
    }
}

/// parse `pos:xx,pos:xx` alterations
pub fn parse_alter(spec: &str) -> Vec<(usize, u8)> {
    if spec == "-" {
        return vec![];
    }
    spec.split(',').map(|it| {
        let (p, m) = it.split_once(':').unwrap();
        (p.parse().unwrap(), u8::from_str_radix(m, 16).unwrap())
    }).collect()
}

pub fn dm_device(t: &[&str]) -> (Vec<u8>, Vec<u8>) {
    let pages: usize = t[1].parse().unwrap();
    let seed: usize = t[2].parse().unwrap();
    let orig = ref_pages(&dm_logical(pages, seed));
    let mut dev = orig.clone();
    for (p, m) in parse_alter(t[3]) {
        dev[p] ^= m;
    }
    (orig, dev)
}

fn run_dm(t: &[&str]) -> String {
    let (_, dev) = dm_device(t);
    let v = match guarded(|| e57::E57Reader::validate_crc(SimDev::new(dev.clone()))) {
        Ok(Ok(ps)) => format!("V{ps}"),
        Ok(Err(_)) => "Verr".into(),
        Err(_) => "VPANIC".into(),
    };
    format!("{} {}", v, run_pr(1024, dev, &t[4..]))
}

/// C07 oracle on one damage case: no data from a corrupt page; small alterations are detected;
/// validate_crc fails exactly when some page is invalid
fn oracle_dm(sink: &mut Sink, line: &str) {
    let t: Vec<&str> = line.split_whitespace().collect();
    let (orig, dev) = dm_device(&t);
    sink.oracle_evals += 1;
    let alter = parse_alter(t[3]);
    let npages = dev.len() / 1024;
    let valid: Vec<bool> = (0..npages).map(|p| ref_crc32c(&dev[p * 1024..p * 1024 + 1020]).to_be_bytes() == dev[p * 1024 + 1020..p * 1024 + 1024]).collect();
    let altered: Vec<bool> = (0..npages).map(|p| dev[p * 1024..(p + 1) * 1024] != orig[p * 1024..(p + 1) * 1024]).collect();
    // classify the alteration of each page: flipped bits, burst span in the CRC's bit order (LSB first)
    for p in 0..npages {
        if !altered[p] {
            continue;
        }
        let mut bits: Vec<usize> = vec![];
        for i in 0..1024 {
            let x = dev[p * 1024 + i] ^ orig[p * 1024 + i];
            for b in 0..8 {
                if (x >> b) & 1 == 1 {
                    bits.push(i * 8 + b);
                }
            }
        }
        let span = bits.last().unwrap() - bits[0] + 1;
        let straddles = bits[0] < 1020 * 8 && *bits.last().unwrap() >= 1020 * 8;
        let small = bits.len() <= 3 || (span <= 32 && !straddles);
        if valid[p] {
            if small {
                sink.fail("C07", "crc/small-alteration-undetected", line, &format!("page {p}: {} flipped bits (burst span {span}) leave the checksum valid", bits.len()));
            } else if span <= 32 && straddles {
                sink.fail("C07", "crc/burst-straddling-undetected", line, &format!("page {p}: a {span}-bit burst straddling payload end and the big-endian checksum leaves the page valid"));
            }
        }
    }
    let out = run_dm(&t);
    let toks: Vec<&str> = out.split(' ').collect();
    let any_invalid = valid.iter().any(|v| !v);
    if toks[0] == "VPANIC" {
        sink.fail("C08", "reader/panic/validate_crc", line, "validate_crc panicked");
    } else if (toks[0] == "Verr") != any_invalid {
        sink.fail("C07", "crc/validate-verdict", line, &format!("validate_crc = {} but pages valid = {:?}", toks[0], valid));
    }
    if toks.get(1) != Some(&"ok") {
        return;
    }
    // replay the ops, tracking the logical cursor; every byte handed out must come from a valid page
    let logical: Vec<u8> = dev.chunks(1024).flat_map(|p| p[..1020].to_vec()).collect();
    let mut cur: Option<usize> = Some(0);
    for (k, op) in t[4..].iter().enumerate() {
        let got = toks.get(k + 2).copied().unwrap_or("<missing>");
        if got == "PANIC" {
            sink.fail("C08", "reader/panic/page-read", line, &format!("step {k} panicked"));
            return;
        }
        if *op == "a" {
            if let Some(c) = cur {
                if got == "." && c % 4 != 0 {
                    cur = Some(c + 4 - c % 4);
                }
            }
        } else if let Some(p) = op.strip_prefix('s') {
            let p: usize = p.parse().unwrap();
            if got != "err" {
                if p % 1024 >= 1020 {
                    cur = None;
                } else {
                    cur = Some(p - 4 * (p / 1024));
                }
            }
        } else if op.starts_with('r') || op.starts_with('x') {
            if got == "err" {
                if op.starts_with('x') {
                    // the cursor may have advanced over valid pages before the failure
                    cur = None;
                }
                // a read must only fail on an invalid page (or beyond the end for read_exact)
                if let (Some(c), true) = (cur, op.starts_with('r')) {
                    if c / 1020 < npages && valid[c / 1020] {
                        sink.fail("C07", "pages/read-fails-on-valid-page", line, &format!("step {k}: read at logical {c} failed although page {} is valid", c / 1020));
                    }
                }
                continue;
            }
            let bytes = unhex(got).unwrap_or_default();
            if let Some(c) = cur {
                let first = c / 1020;
                let last = if bytes.is_empty() { first } else { (c + bytes.len() - 1) / 1020 };
                for pg in first..=last.min(npages.saturating_sub(1)) {
                    if !bytes.is_empty() && !valid[pg] {
                        sink.fail("C07", "pages/data-from-corrupt-page", line, &format!("step {k}: {} bytes returned from page {pg} whose checksum does not match", bytes.len()));
                    }
                }
                if c + bytes.len() <= logical.len() && bytes[..] != logical[c..c + bytes.len()] {
                    sink.fail("C07", "pages/wrong-bytes", line, &format!("step {k}: returned bytes differ from the page payload"));
                }
                cur = Some(c + bytes.len());
            }
        }
    }
}

pub fn oracle(sink: &mut Sink, line: &str) {
    let t: Vec<&str> = line.split_whitespace().collect();
    match t[0] {
        "pw" => {
            sink.oracle_evals += 1;
            run_pw(&t[1..], Some((sink, line)));
        }
        "pr" => oracle_pr(sink, line),
        "dm" => oracle_dm(sink, line),
        "crc" => {
            sink.oracle_evals += 1;
            let d = unhex(t[1]).unwrap();
            if impl_crc(&d) != ref_crc32c(&d) {
                sink.fail("C07", "crc/value", line, "checksum differs from bitwise CRC-32C");
            }
        }
        _ => {}
    }
}

/// reader oracle: only for devices that are the paged image of a logical stream (tagged by the
/// generator with a leading `L` op-free marker in the stats, here recomputed by checking CRCs)
fn oracle_pr(sink: &mut Sink, line: &str) {
    let t: Vec<&str> = line.split_whitespace().collect();
    let ps: u64 = t[1].parse().unwrap();
    let device = unhex(t[2]).unwrap();
    if ps != 1024 || device.is_empty() || device.len() % 1024 != 0 {
        return;
    }
    // all pages valid?
    let mut logical: Vec<u8> = vec![];
    for p in device.chunks(1024) {
        if ref_crc32c(&p[..1020]).to_be_bytes() != p[1020..] {
            return; // damaged device: judged by the C07 oracle
        }
        logical.extend_from_slice(&p[..1020]);
    }
    sink.oracle_evals += 1;
    let out = run_pr(ps, device.clone(), &t[3..]);
    let toks: Vec<&str> = out.split(' ').collect();
    if toks[0] != "ok" {
        sink.fail("C11", "pages/reader-open", line, "valid paged file rejected");
        return;
    }
    let mut cur: usize = 0;
    for (k, op) in t[3..].iter().enumerate() {
        let got = toks.get(k + 1).copied().unwrap_or("<missing>");
        if *op == "a" {
            let m = cur % 4;
            if m != 0 {
                if cur + 4 - m > logical.len() {
                    if got != "err" {
                        sink.fail("C11", "pages/reader-align", line, &format!("step {k}: align beyond end accepted"));
                    }
                } else {
                    cur += 4 - m;
                    if got != "." {
                        sink.fail("C11", "pages/reader-align", line, &format!("step {k}: align failed"));
                    }
                }
            }
        } else if let Some(p) = op.strip_prefix('s') {
            let p: usize = p.parse().unwrap();
            if p >= device.len() {
                if got != "err" {
                    sink.fail("C11", "pages/reader-seek", line, &format!("step {k}: seek beyond end accepted"));
                }
            } else if p % 1024 >= 1020 {
                return; // seek into checksum bytes: outside the specification's domain
            } else {
                cur = p - 4 * (p / 1024);
                if got != cur.to_string() {
                    sink.fail("C11", "pages/reader-seek", line, &format!("step {k}: seek_physical({p}) = {got} expected {cur}"));
                }
            }
        } else if let Some(n) = op.strip_prefix('r') {
            let n: usize = n.parse().unwrap();
            let page_end = if cur >= logical.len() { cur } else { (cur / 1020 + 1) * 1020 };
            let e = (cur + n).min(page_end).min(logical.len().max(cur));
            let expect = if cur >= logical.len() { "-".to_string() } else { hex(&logical[cur..e]) };
            if got != expect {
                sink.fail("C11", "pages/reader-read", line, &format!("step {k}: read({n}) at logical {cur}: got {} expected {}", &got[..got.len().min(40)], &expect[..expect.len().min(40)]));
            }
            if cur < logical.len() {
                cur = e;
            }
        } else if let Some(n) = op.strip_prefix('x') {
            let n: usize = n.parse().unwrap();
            if cur + n <= logical.len() {
                let expect = hex(&logical[cur..cur + n]);
                if got != expect {
                    sink.fail("C11", "pages/reader-read-exact", line, &format!("step {k}: read_exact({n}) at logical {cur} wrong"));
                }
                cur += n;
            } else {
                if got != "err" {
                    sink.fail("C11", "pages/reader-read-exact", line, &format!("step {k}: read_exact({n}) beyond end did not fail"));
                }
                cur = logical.len().max(cur);
            }
        }
    }
}

const WRITES: [usize; 9] = [0, 1, 3, 4, 1019, 1020, 1021, 2040, 2041];

fn alphabet(size: u64, seedn: &mut usize) -> Vec<String> {
    let mut a: Vec<String> = vec![];
    for n in WRITES {
        *seedn += 1;
        a.push(format!("g{}:{}", n, *seedn % 250));
    }
    for p in [0u64, 2, 1019, 1020, 1023, 1024, 1025, size, size + 1] {
        a.push(format!("s{p}"));
    }
    for o in ["f", "a", "p", "z"] {
        a.push(o.to_string());
    }
    a
}

/// physical size the device will have after a flush, by the reference model
fn ref_size_after(ops: &[String]) -> u64 {
    let mut rs = RefStream::new();
    for op in ops {
        if op == "f" || op == "z" {
            rs.flush();
        } else if op == "a" {
            let m = rs.cur % 4;
            if m != 0 {
                rs.write(&vec![0u8; 4 - m]);
            }
        } else if op == "p" || op == "D" {
        } else if let Some(p) = op.strip_prefix('s') {
            let p: u64 = p.parse().unwrap();
            rs.flush();
            if p <= rs.size() && p % 1024 < 1020 {
                rs.cur = (p - 4 * (p / 1024)) as usize;
                rs.ensure(rs.cur);
            }
        } else if let Some(d) = parse_data(op) {
            rs.write(&d);
        }
    }
    rs.flush();
    rs.size()
}

fn enumerate(prefix: &mut Vec<String>, depth: usize, seedn: &mut usize, sink: &mut Sink) {
    if depth == 0 {
        let mut ops = prefix.clone();
        ops.push("D".into());
        let line = format!("pw {}", ops.join(" "));
        let out = exec(&line);
        oracle(sink, &line);
        let crosses = ops.iter().any(|o| o.starts_with('g') && !o.starts_with("g0:") && !o.starts_with("g1:") && !o.starts_with("g3:") && !o.starts_with("g4:"));
        let seeks = ops.iter().any(|o| o.starts_with('s'));
        sink.case(line, out, crosses && seeks);
        return;
    }
    let size = ref_size_after(prefix);
    for a in alphabet(size, seedn) {
        prefix.push(a);
        enumerate(prefix, depth - 1, seedn, sink);
        prefix.pop();
    }
}

pub fn generate(sink: &mut Sink, seed: u64, thorough: bool) {
    let mut rng = Rng::new(seed ^ 0x9A6E5);
    let mut seedn = 0usize;
    // 1. exhaustive writer histories
    let depth = if thorough { 4 } else { 3 };
    for d in 1..=depth {
        enumerate(&mut vec![], d, &mut seedn, sink);
    }
    sink.stat_n("writer_exhaustive_depth", depth as u64);
    // 2. random long writer histories
    for _ in 0..(if thorough { 3000 } else { 400 }) {
        let len = 4 + rng.below(36) as usize;
        let mut ops: Vec<String> = vec![];
        for _ in 0..len {
            let size = ref_size_after(&ops);
            match rng.below(10) {
                0..=4 => {
                    let n = match rng.below(6) {
                        0 => *rng.pick(&WRITES),
                        1 => rng.below(8) as usize,
                        2 => 1015 + rng.below(12) as usize,
                        3 => rng.below(3000) as usize,
                        _ => rng.below(200) as usize,
                    };
                    ops.push(format!("g{}:{}", n, rng.below(250)));
                }
                5 | 6 => {
                    let p = match rng.below(5) {
                        0 => size,
                        1 => size + 1 + rng.below(5),
                        2 => rng.below(size + 1) / 1024 * 1024 + 1018 + rng.below(8),
                        _ => rng.below(size + 1),
                    };
                    ops.push(format!("s{p}"));
                }
                7 => ops.push("f".into()),
                8 => ops.push((*rng.pick(&["a", "p", "z"])).to_string()),
                _ => ops.push("a".into()),
            }
        }
        ops.push("D".into());
        let line = format!("pw {}", ops.join(" "));
        let out = exec(&line);
        oracle(sink, &line);
        sink.stat(&format!("writer_random_len_{}", len / 10 * 10));
        sink.case(line, out, true);
    }
    // non-empty device
    for h in ["00", "-"] {
        let line = format!("pwne {h}");
        let out = exec(&line);
        sink.case(line, out, false);
    }

    // 3. reader histories over valid paged images (and a few degenerate devices)
    let nread = if thorough { 3000 } else { 500 };
    for i in 0..nread {
        let pages = 1 + rng.below(3) as usize;
        let logical = gen_data(pages * 1020, rng.below(250) as usize);
        let device = ref_pages(&logical);
        let size = device.len() as u64;
        let mut ops: Vec<String> = vec![];
        let len = 1 + rng.below(if i % 4 == 0 { 4 } else { 14 });
        for _ in 0..len {
            match rng.below(8) {
                0 | 1 => {
                    let p = match rng.below(6) {
                        0 => *rng.pick(&[0u64, 2, 1019, 1020, 1023, 1024, 1025]),
                        1 => size,
                        2 => size - 1 - rng.below(6),
                        3 => rng.below(size) / 1024 * 1024 + 1010 + rng.below(10),
                        _ => rng.below(size),
                    };
                    ops.push(format!("s{p}"));
                }
                2 | 3 | 4 => {
                    let n = match rng.below(5) {
                        0 => *rng.pick(&[0usize, 1, 3, 4, 1019, 1020, 1021, 2040]),
                        1 => rng.below(3000) as usize,
                        _ => rng.below(64) as usize,
                    };
                    ops.push(format!("r{n}"));
                }
                5 | 6 => {
                    let n = match rng.below(5) {
                        0 => *rng.pick(&[0usize, 1, 4, 1019, 1020, 1021, 2040, 3060, 3061]),
                        1 => rng.below(3200) as usize,
                        _ => rng.below(64) as usize,
                    };
                    ops.push(format!("x{n}"));
                }
                _ => ops.push("a".into()),
            }
        }
        let line = format!("pr 1024 {} {}", hex(&device), ops.join(" "));
        let out = exec(&line);
        oracle(sink, &line);
        sink.stat(&format!("reader_pages_{pages}"));
        sink.case(line, out, true);
    }
    // degenerate devices / page sizes
    for (ps, n) in [(1024u64, 0usize), (1024, 1000), (1024, 1025), (4, 1024), (5, 10), (8, 16), (1048576, 1024), (1048577, 1024), (0, 1024), (2048, 2048)] {
        let device = gen_data(n, 3);
        let line = format!("pr {ps} {} s0 r8 x4", hex(&device));
        let out = exec(&line);
        sink.case(line, out, false);
    }
    // 3b. damage: altered pages under read histories (C07)
    let mut dm_case = |sink: &mut Sink, rng: &mut Rng, pages: usize, seed: usize, alter: Vec<(usize, u8)>, tag: &str| {
        let spec = if alter.is_empty() { "-".to_string() } else { alter.iter().map(|(p, m)| format!("{p}:{m:02x}")).collect::<Vec<_>>().join(",") };
        let mut ops: Vec<String> = vec![];
        // visit every page once, then random ops, revisit after failures
        for pg in 0..pages {
            ops.push(format!("s{}", pg * 1024 + rng.below(1020) as usize));
            ops.push(format!("r{}", 1 + rng.below(40)));
        }
        for _ in 0..rng.below(8) {
            match rng.below(5) {
                0 | 1 => ops.push(format!("s{}", rng.below((pages * 1024) as u64))),
                2 => ops.push(format!("x{}", rng.below(2200))),
                3 => ops.push("a".into()),
                _ => ops.push(format!("r{}", rng.below(1500))),
            }
        }
        let line = format!("dm {pages} {seed} {spec} {}", ops.join(" "));
        let out = exec(&line);
        oracle(sink, &line);
        sink.stat(tag);
        sink.case(line, out, !alter.is_empty());
    };
    // exhaustive single-bit flips of one page (every bit of payload and checksum)
    {
        let pages = 2usize;
        let seed = rng.below(250) as usize;
        let stride = if thorough { 1 } else { 5 };
        let mut bit = (seed % stride) as usize;
        while bit < 8192 {
            dm_case(sink, &mut rng, pages, seed, vec![(1024 + bit / 8, 1u8 << (bit % 8))], "dm_single_bit");
            bit += stride;
        }
    }
    let ndm = if thorough { 6000 } else { 700 };
    for i in 0..ndm {
        let pages = 1 + rng.below(3) as usize;
        let seed = rng.below(250) as usize;
        let pg = rng.below(pages as u64) as usize;
        let mut alter: Vec<(usize, u8)> = vec![];
        let tag;
        match i % 7 {
            0 => {
                tag = "dm_two_bits";
                let a = rng.below(8192) as usize;
                let mut b = rng.below(8192) as usize;
                if b == a {
                    b = (a + 1) % 8192;
                }
                for x in [a, b] {
                    alter.push((pg * 1024 + x / 8, 1u8 << (x % 8)));
                }
            }
            1 => {
                tag = "dm_three_bits";
                let mut xs: Vec<usize> = vec![];
                while xs.len() < 3 {
                    let x = rng.below(8192) as usize;
                    if !xs.contains(&x) {
                        xs.push(x);
                    }
                }
                for x in xs {
                    alter.push((pg * 1024 + x / 8, 1u8 << (x % 8)));
                }
            }
            2 | 3 => {
                // burst of <= 32 bits in LSB-first order, anywhere (payload, checksum, straddling)
                tag = "dm_burst";
                let len = 2 + rng.below(31) as usize;
                let start = match rng.below(4) {
                    0 => 8160 - rng.below(40) as usize,            // around the payload end
                    1 => 8160 + rng.below(32 - len.min(31) as u64 + 1) as usize, // inside the checksum
                    _ => rng.below((8192 - len) as u64) as usize,
                };
                let start = start.min(8192 - len);
                let pattern = rng.next() | 1 | (1u64 << (len - 1));
                for j in 0..len {
                    if (pattern >> j) & 1 == 1 {
                        let x = start + j;
                        alter.push((pg * 1024 + x / 8, 1u8 << (x % 8)));
                    }
                }
            }
            4 => {
                tag = "dm_overwrite";
                let n = 1 + rng.below(64) as usize;
                let at = rng.below((1024 - n) as u64) as usize;
                for j in 0..n {
                    let m = rng.next() as u8;
                    if m != 0 {
                        alter.push((pg * 1024 + at + j, m));
                    }
                }
            }
            5 => {
                tag = "dm_two_pages";
                for q in 0..pages {
                    alter.push((q * 1024 + rng.below(1024) as usize, 1u8 << rng.below(8)));
                }
            }
            _ => {
                tag = "dm_unaltered";
            }
        }
        // merge duplicate positions
        let mut merged: std::collections::BTreeMap<usize, u8> = Default::default();
        for (p, m) in alter {
            *merged.entry(p).or_insert(0) ^= m;
        }
        let alter: Vec<(usize, u8)> = merged.into_iter().filter(|(_, m)| *m != 0).collect();
        dm_case(sink, &mut rng, pages, seed, alter, tag);
    }
    // checksum look-alikes: the stored checksum replaced by other encodings of the page's CRC-32C
    // (byte-reversed = little-endian, bit-inverted, CRC without the final inversion, +1, rotated,
    // zero, all ones) and a forged payload tail whose CRC equals the stored bytes read little-endian —
    // all must be rejected: only the big-endian CRC-32C of the payload makes a page valid
    for k in 0..(if thorough { 60 } else { 12 }) {
        let pages = 1 + (k % 3) as usize;
        let seed = rng.below(250) as usize;
        let pg = rng.below(pages as u64) as usize;
        let orig = ref_pages(&dm_logical(pages, seed));
        let page = &orig[pg * 1024..(pg + 1) * 1024];
        let crc = ref_crc32c(&page[..1020]);
        let variants: Vec<[u8; 4]> = vec![crc.to_le_bytes(), (!crc).to_be_bytes(), (!crc).to_le_bytes(), crc.wrapping_add(1).to_be_bytes(), crc.rotate_left(8).to_be_bytes(), [0; 4], [0xff; 4], crc.swap_bytes().rotate_left(16).to_be_bytes()];
        for v in variants {
            let alter: Vec<(usize, u8)> = (0..4).map(|j| (pg * 1024 + 1020 + j, page[1020 + j] ^ v[j])).filter(|(_, m)| *m != 0).collect();
            if !alter.is_empty() {
                dm_case(sink, &mut rng, pages, seed, alter, "dm_checksum_lookalike");
            }
        }
        // forged tail: find 4 payload bytes (the last ones) such that the CRC of the payload equals the
        // stored checksum bytes read as little-endian; CRC-32C is linear, so solve by brute force over
        // the 2^32 tails is too slow — use the algebra: try the 4-byte tail that makes crc == target
        // through the standard reverse-CRC table walk
        let target = u32::from_le_bytes([page[1020], page[1021], page[1022], page[1023]]);
        if let Some(tail) = forge_tail(&page[..1016], target) {
            let alter: Vec<(usize, u8)> = (0..4).map(|j| (pg * 1024 + 1016 + j, page[1016 + j] ^ tail[j])).filter(|(_, m)| *m != 0).collect();
            if !alter.is_empty() {
                dm_case(sink, &mut rng, pages, seed, alter, "dm_forged_tail_le");
            }
        }
    }
    // the straddling-burst witness of the big-endian checksum (format-level finding), on an
    // all-zero-tail page: payload tail 00 c0 2e 8d 5e and first checksum byte differ within 32 bits
    for pg in 0..2usize {
        let b = pg * 1024;
        dm_case(sink, &mut rng, 2, 7, vec![(b + 1016, 0xc0), (b + 1017, 0x2e), (b + 1018, 0x8d), (b + 1019, 0x5e), (b + 1020, 0x37)], "dm_straddling_witness");
    }
    // 4. CRC values
    for i in 0..(if thorough { 2000 } else { 300 }) {
        let n = match i % 4 {
            0 => rng.below(16) as usize,
            1 => 1020,
            _ => rng.below(1100) as usize,
        };
        let d = if i % 7 == 0 { vec![(i % 256) as u8; n] } else { rng.bytes(n) };
        let line = format!("crc {}", hex(&d));
        let out = exec(&line);
        oracle(sink, &line);
        sink.case(line, out, n > 0);
    }
    let line = format!("crc {}", hexs("123456789"));
    let out = exec(&line);
    if out != "3808858755" {
        sink.fail("C07", "crc/check-value", &line, "CRC-32C check value of \"123456789\" is not 0xE3069283");
    }
    sink.case(line, out, true);
}
