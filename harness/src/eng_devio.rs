//! Engine "devio": the device-level model of the page layer (Lean, E57/Model/DevIO.lean: a device
//! whose every call may transfer fewer bytes, be interrupted or fail, and the paged writer / reader
//! with their retry loops and the failure latch on top of it) against the real `PagedWriter` and
//! `PagedReader` driven over a device that follows the same per-call schedule.  Compared per operation:
//! ok/err (and the value), then the device bytes and how much of the schedule was consumed — i.e. the
//! real code issues the same number of device calls in the same order as the model (C16).
use crate::dev::*;
use crate::util::*;
use crate::eng_pages::dev_tok;
use crate::wprog::fnv_bytes;
use e57::verif::{PagedReader, PagedWriter};
use std::io::{Read, Write};

fn parse_sched(toks: &[&str]) -> Vec<Beh> {
    toks.iter()
        .map(|t| match *t {
            "F" => Beh::Full,
            "X" => Beh::Fail,
            "I" => Beh::Interrupted,
            s => Beh::Short(s[1..].parse().unwrap_or(1)),
        })
        .collect()
}

fn data_of(tok: &str) -> Vec<u8> {
    // g<n>:<seed>
    let (n, s) = tok[1..].split_once(':').unwrap_or(("0", "0"));
    gen_data(n.parse().unwrap_or(0), s.parse().unwrap_or(0))
}

pub fn exec(line: &str) -> String {
    let t: Vec<&str> = line.split(' ').collect();
    let ns: usize = t[1].parse().unwrap_or(0);
    let sched = parse_sched(&t[2..2 + ns]);
    let ops = &t[3 + ns..];
    match t[0] {
        "dw" => {
            let dev = SimDev::new(vec![]);
            dev.set_sched(sched);
            let mut out: Vec<String> = vec![];
            let r = guarded(|| PagedWriter::new(dev.clone()));
            let mut w = match r {
                Ok(Ok(w)) => {
                    out.push("ok:0".into());
                    w
                }
                Ok(Err(_)) => return format!("err | {} {}", dev_tok(&dev), dev.sched_left()),
                Err(_) => return "panic".into(),
            };
            for op in ops {
                let r = guarded(|| -> String {
                    let unit = |r: bool| if r { "ok:0".to_string() } else { "err".to_string() };
                    if *op == "f" {
                        unit(w.flush().is_ok())
                    } else if *op == "a" {
                        unit(w.align().is_ok())
                    } else if *op == "p" {
                        w.physical_position().map(|p| format!("ok:{p}")).unwrap_or("err".into())
                    } else if *op == "z" {
                        w.physical_size().map(|p| format!("ok:{p}")).unwrap_or("err".into())
                    } else if let Some(p) = op.strip_prefix('s') {
                        unit(w.physical_seek(p.parse().unwrap_or(0)).is_ok())
                    } else {
                        unit(w.write_all(&data_of(op)).is_ok())
                    }
                });
                out.push(r.unwrap_or("panic".into()));
            }
            // the writer is forgotten, not dropped: Drop would flush once more (not part of the op list)
            std::mem::forget(w);
            format!("{} | {} {}", out.join(" "), dev_tok(&dev), dev.sched_left())
        }
        "dr" => {
            // reader over a valid two-to-four page file
            let pages: usize = ops[0].parse().unwrap_or(2);
            let seed: usize = ops[1].parse().unwrap_or(0);
            let file = ref_pages(&gen_data(pages * 1020, seed));
            let dev = SimDev::new(file);
            dev.set_sched(sched);
            let mut out: Vec<String> = vec![];
            let mut r = match guarded(|| PagedReader::new(dev.clone(), 1024)) {
                Ok(Ok(r)) => {
                    out.push("ok".into());
                    r
                }
                Ok(Err(_)) => return format!("err | {}", dev.sched_left()),
                Err(_) => return "panic".into(),
            };
            for op in &ops[2..] {
                let res = guarded(|| -> String {
                    if let Some(p) = op.strip_prefix('s') {
                        match r.seek_physical(p.parse().unwrap_or(0)) {
                            Ok(_) => "ok".into(),
                            Err(_) => "err".into(),
                        }
                    } else if *op == "a" {
                        if r.align().is_ok() { "ok".into() } else { "err".into() }
                    } else if let Some(n) = op.strip_prefix('x') {
                        let mut b = vec![0u8; n.parse().unwrap_or(0)];
                        match r.read_exact(&mut b) {
                            Ok(()) => format!("ok:{}", fnv_bytes(&b)),
                            Err(_) => "err".into(),
                        }
                    } else {
                        let n: usize = op[1..].parse().unwrap_or(0);
                        let mut b = vec![0u8; n];
                        match r.read(&mut b) {
                            Ok(k) => format!("ok:{k}:{}", fnv_bytes(&b[..k])),
                            Err(_) => "err".into(),
                        }
                    }
                });
                out.push(res.unwrap_or("panic".into()));
            }
            format!("{} | {}", out.join(" "), dev.sched_left())
        }
        _ => "BADCASE".into(),
    }
}

fn gen_sched(rng: &mut Rng, n: usize, faults: bool) -> Vec<String> {
    (0..n)
        .map(|_| match rng.below(if faults { 14 } else { 10 }) {
            0 | 1 | 2 | 3 | 4 => "F".to_string(),
            5 => "S1".to_string(),
            6 | 7 => format!("S{}", 1 + rng.below(1100)),
            8 => format!("S{}", 1 + rng.below(20)),
            9 => "I".to_string(),
            10 => "X".to_string(),
            11 => "I".to_string(),
            _ => "F".to_string(),
        })
        .collect()
}

pub fn generate(sink: &mut Sink, seed: u64, thorough: bool) {
    let mut rng = Rng::new(seed ^ 0xD0D0);
    // writer: random op lists under random schedules; a third without faults (short/interrupted only),
    // a third with one hard fault at a random call, a third mixed
    let n = if thorough { 12000 } else { 1500 };
    for i in 0..n {
        let nops = 1 + rng.below(10) as usize;
        let mut ops: Vec<String> = vec![];
        for _ in 0..nops {
            ops.push(match rng.below(10) {
                0 | 1 | 2 | 3 => format!("g{}:{}", match rng.below(5) { 0 => 0, 1 => 1 + rng.below(8), 2 => 1016 + rng.below(8), 3 => rng.below(3000), _ => rng.below(200) }, rng.below(250)),
                4 => "f".into(),
                5 => format!("s{}", match rng.below(3) { 0 => 0, 1 => rng.below(4096), _ => 48 }),
                6 => "z".into(),
                7 => "a".into(),
                _ => "p".into(),
            });
        }
        let sched: Vec<String> = match i % 3 {
            0 => gen_sched(&mut rng, 40, false).into_iter().filter(|s| s != "I").collect(),
            1 => {
                let k = rng.below(30) as usize;
                let mut s: Vec<String> = vec!["F".to_string(); k];
                s.push(if rng.chance(1, 3) { "I".to_string() } else { "X".to_string() });
                s
            }
            _ => gen_sched(&mut rng, 30, true),
        };
        let line = format!("dw {} {} | {}", sched.len(), sched.join(" "), ops.join(" "));
        let out = exec(&line);
        sink.oracle_evals += 1;
        // implementation-only oracle (C16): no panic; if every call reported success the device holds the
        // same bytes as the run on an ideal device
        if out.contains("panic") {
            sink.fail("C16", "devio/panic", &line, "a page-writer call panicked under a device schedule");
        } else if !out.split(" | ").next().unwrap_or("").split(' ').any(|r| r == "err") {
            let ideal = exec(&format!("dw 0 | {}", ops.join(" ")));
            let dev_of = |s: &str| s.split(" | ").nth(1).and_then(|x| x.split(' ').next()).unwrap_or("").to_string();
            if dev_of(&out) != dev_of(&ideal) {
                sink.fail("C16", "devio/ok-but-different-file", &line, "every call reported success, yet the device differs from the run on an ideal device");
            }
        }
        sink.stat(["sched_benign", "sched_one_fault", "sched_mixed"][(i % 3) as usize]);
        sink.case(line, out, true);
    }
    // reader
    let n = if thorough { 6000 } else { 800 };
    for i in 0..n {
        let pages = 2 + rng.below(3) as usize;
        let mut ops: Vec<String> = vec![pages.to_string(), rng.below(250).to_string()];
        for _ in 0..(1 + rng.below(8)) {
            ops.push(match rng.below(6) {
                0 | 1 => format!("s{}", rng.below((pages * 1024 + 10) as u64)),
                2 => "a".into(),
                3 => format!("x{}", rng.below(2500)),
                _ => format!("r{}", rng.below(1500)),
            });
        }
        let sched = gen_sched(&mut rng, 25, i % 2 == 1);
        let line = format!("dr {} {} | {}", sched.len(), sched.join(" "), ops.join(" "));
        let out = exec(&line);
        sink.oracle_evals += 1;
        if out.contains("panic") {
            sink.fail("C16", "devio/reader-panic", &line, "a page-reader call panicked under a device schedule");
        } else {
            // values returned under any schedule equal the values of the unchunked run, or the call failed
            let ideal = exec(&format!("dr 0 | {}", ops.join(" ")));
            let a: Vec<&str> = out.split(" | ").next().unwrap_or("").split(' ').collect();
            let b: Vec<&str> = ideal.split(" | ").next().unwrap_or("").split(' ').collect();
            // once a call failed the cursor may differ; compare up to the first error
            for (x, y) in a.iter().zip(b.iter()) {
                if *x == "err" {
                    break;
                }
                // a plain `read` may legitimately return fewer bytes under short reads: compare only full-length reads
                if x != y && !(x.starts_with("ok:") && y.starts_with("ok:") && x.matches(':').count() == 2) {
                    sink.fail("C16", "devio/reader-different-value", &line, &format!("{x} under the schedule, {y} on an ideal device"));
                    break;
                }
            }
        }
        sink.stat("reader_case");
        sink.case(line, out, true);
    }
}
