//! Scenes: what a file is supposed to contain.  Computed (a) from a writer program and its per-call
//! results by reference rules written here, and (b) by reading a file with the real reader.
use crate::wprog::*;
use e57::*;

pub fn feq(a: u64, b: u64) -> bool {
    a == b || (f64::from_bits(a).is_nan() && f64::from_bits(b).is_nan())
}
pub fn ofeq(a: &Option<u64>, b: &Option<u64>) -> bool {
    match (a, b) {
        (Some(a), Some(b)) => feq(*a, *b),
        (None, None) => true,
        _ => false,
    }
}
pub fn veq(a: &Val, b: &Val) -> bool {
    match (a, b) {
        (Val::D(a), Val::D(b)) => feq(*a, *b),
        (Val::F(a), Val::F(b)) => a == b || (f32::from_bits(*a).is_nan() && f32::from_bits(*b).is_nan()),
        _ => a == b,
    }
}
pub fn oveq(a: &Option<Val>, b: &Option<Val>) -> bool {
    match (a, b) {
        (Some(a), Some(b)) => veq(a, b),
        (None, None) => true,
        _ => false,
    }
}
fn dteq(a: &Option<Dt>, b: &Option<Dt>) -> bool {
    match (a, b) {
        (Some(a), Some(b)) => feq(a.0, b.0) && a.1 == b.1,
        (None, None) => true,
        _ => false,
    }
}
fn treq(a: &Option<Tr>, b: &Option<Tr>) -> bool {
    match (a, b) {
        (Some(a), Some(b)) => a.iter().zip(b.iter()).all(|(x, y)| feq(*x, *y)),
        (None, None) => true,
        _ => false,
    }
}
fn dtype_eq(a: &DT, b: &DT) -> bool {
    match (a, b) {
        (DT::F32(a1, a2), DT::F32(b1, b2)) => {
            let e = |x: &Option<u32>, y: &Option<u32>| match (x, y) {
                (Some(x), Some(y)) => x == y || (f32::from_bits(*x).is_nan() && f32::from_bits(*y).is_nan()),
                (None, None) => true,
                _ => false,
            };
            e(a1, b1) && e(a2, b2)
        }
        (DT::F64(a1, a2), DT::F64(b1, b2)) => ofeq(a1, b1) && ofeq(a2, b2),
        (DT::I(a1, a2), DT::I(b1, b2)) => a1 == b1 && a2 == b2,
        (DT::S(a1, a2, a3, a4), DT::S(b1, b2, b3, b4)) => a1 == b1 && a2 == b2 && feq(*a3, *b3) && feq(*a4, *b4),
        _ => false,
    }
}

#[derive(Clone, Debug, Default)]
pub struct SCloud {
    pub guid: Option<String>,
    pub proto: Vec<Rec>,
    pub points: Vec<Vec<Val>>,
    pub strs: [Option<String>; 8], // NAME DESC VENDOR MODEL SERIAL HW SW FW
    pub og: Option<Vec<String>>,
    pub tr: Option<Tr>,
    pub acq: [Option<Dt>; 2],
    pub flt: [Option<u64>; 3], // TEMP HUM PRES
    pub cart: Option<[Option<u64>; 6]>, // xmin xmax ymin ymax zmin zmax
    pub sph: Option<[Option<u64>; 6]>,  // rmin rmax emin emax astart aend
    pub idx: Option<[Option<i64>; 6]>,  // rowmin rowmax colmin colmax retmin retmax
    pub il: Option<(Option<Val>, Option<Val>)>,
    pub cl: Option<[Option<Val>; 6]>,
    pub raw_error: Option<String>, // reading the points failed
}

#[derive(Clone, Debug)]
pub enum SProj {
    Pin { fmt: char, data: Vec<u8>, w: u32, h: u32, f: [u64; 5], mask: Option<Vec<u8>> },
    Sph { fmt: char, data: Vec<u8>, w: u32, h: u32, f: [u64; 2], mask: Option<Vec<u8>> },
    Cyl { fmt: char, data: Vec<u8>, w: u32, h: u32, f: [u64; 4], mask: Option<Vec<u8>> },
}

#[derive(Clone, Debug, Default)]
pub struct SImage {
    pub guid: Option<String>,
    pub vis: Option<(char, Vec<u8>, u32, u32, Option<Vec<u8>>)>,
    pub proj: Option<SProj>,
    pub tr: Option<Tr>,
    pub strs: [Option<String>; 6], // NAME DESC PCG VENDOR MODEL SERIAL
    pub acq: Option<Dt>,
}

#[derive(Clone, Debug, Default)]
pub struct Scene {
    pub guid: String,
    pub cm: Option<String>,
    pub creation: Option<Dt>,
    pub exts: Vec<(String, String)>,
    pub clouds: Vec<SCloud>,
    pub images: Vec<SImage>,
    pub blobs: Vec<(u64, u64, Vec<u8>)>, // direct blobs: descriptor returned by the writer + bytes
    pub xml: Option<String>,
}

/// every string of the scene can be carried by XML 1.0 (otherwise the writer has to refuse)
pub fn scene_storable(sc: &Scene) -> bool {
    let ok = |s: &str| crate::eng_writer::storable(s);
    let mut all: Vec<&str> = vec![&sc.guid];
    all.extend(sc.cm.as_deref());
    for e in &sc.exts {
        all.push(&e.1);
    }
    for c in &sc.clouds {
        all.extend(c.guid.as_deref());
        all.extend(c.strs.iter().flatten().map(|s| s.as_str()));
        all.extend(c.og.iter().flatten().map(|s| s.as_str()));
    }
    for i in &sc.images {
        all.extend(i.guid.as_deref());
        all.extend(i.strs.iter().flatten().map(|s| s.as_str()));
    }
    all.iter().all(|s| ok(s))
}

pub const PC_STR: [&str; 8] = ["NAME", "DESC", "VENDOR", "MODEL", "SERIAL", "HW", "SW", "FW"];
pub const IMG_STR: [&str; 6] = ["NAME", "DESC", "PCG", "VENDOR", "MODEL", "SERIAL"];

// ---------------------------------------------------------------- reference rules (independent of the crate)

fn has(p: &[Rec], n: &str) -> bool {
    p.iter().any(|r| r.name.is(n))
}
fn get<'a>(p: &'a [Rec], n: &str) -> Option<&'a Rec> {
    p.iter().find(|r| r.name.is(n))
}
fn is_int(d: &DT) -> bool {
    matches!(d, DT::I(..))
}

pub fn ref_valid_name(s: &str) -> bool {
    // the documented character set, and the name must be usable as an XML name: no digit or dash in front
    !s.is_empty()
        && !s.to_lowercase().starts_with("xml")
        && s.chars().all(|c| c.is_ascii_alphanumeric() || c == '_' || c == '-')
        && s.chars().next().map(|c| c.is_ascii_alphabetic() || c == '_').unwrap_or(false)
}

/// the documented prototype rules (README / docs of add_pointcloud), written from the documentation
pub fn ref_prototype_ok(p: &[Rec], exts: &[(String, String)]) -> bool {
    for r in p {
        if let RName::Ext(ns, n) = &r.name {
            if !ref_valid_name(ns) || !ref_valid_name(n) || !exts.iter().any(|e| &e.0 == ns) {
                return false;
            }
        }
    }
    let count = |ns: [&str; 3]| ns.iter().filter(|n| has(p, n)).count();
    let c = count(["cartesianX", "cartesianY", "cartesianZ"]);
    let s = count(["sphericalRange", "sphericalAzimuth", "sphericalElevation"]);
    let col = count(["colorRed", "colorGreen", "colorBlue"]);
    if !(c == 0 || c == 3) || !(s == 0 || s == 3) || !(col == 0 || col == 3) || (c == 0 && s == 0) {
        return false;
    }
    if let Some(r) = get(p, "cartesianInvalidState") {
        if c == 0 || r.dt != DT::I(0, 2) {
            return false;
        }
    }
    if let Some(r) = get(p, "sphericalInvalidState") {
        if s == 0 || r.dt != DT::I(0, 2) {
            return false;
        }
    }
    for n in ["sphericalAzimuth", "sphericalElevation"] {
        if let Some(r) = get(p, n) {
            if is_int(&r.dt) {
                return false;
            }
        }
    }
    if let Some(r) = get(p, "isColorInvalid") {
        if col == 0 || r.dt != DT::I(0, 1) {
            return false;
        }
    }
    let rc = get(p, "returnCount");
    let ri = get(p, "returnIndex");
    if rc.is_some() != ri.is_some() {
        return false;
    }
    if let Some(r) = rc {
        if !is_int(&r.dt) {
            return false;
        }
    }
    // every record called rowIndex / columnIndex / returnIndex holds an integer
    if p.iter().any(|r| (r.name.is("rowIndex") || r.name.is("columnIndex") || r.name.is("returnIndex")) && !is_int(&r.dt)) {
        return false;
    }
    if let Some(r) = get(p, "isIntensityInvalid") {
        if !has(p, "intensity") || r.dt != DT::I(0, 1) {
            return false;
        }
    }
    if let Some(r) = get(p, "isTimeStampInvalid") {
        if !has(p, "timeStamp") || r.dt != DT::I(0, 1) {
            return false;
        }
    }
    // an integer range whose maximum lies below its minimum describes no value at all
    if p.iter().any(|r| matches!(&r.dt, DT::I(a, b) | DT::S(a, b, ..) if a > b)) {
        return false;
    }
    true
}

pub fn ref_point_ok(p: &[Rec], vs: &[Val]) -> bool {
    p.len() == vs.len() && p.iter().zip(vs.iter()).all(|(r, v)| r.dt.accepts(v))
}

// the minimum / maximum of the values as REAL numbers: a NaN is not a value of the attribute
fn fmin(cur: &mut Option<u64>, v: f64) {
    if v.is_nan() {
        return;
    }
    match cur {
        Some(c) => {
            if f64::from_bits(*c) > v {
                *cur = Some(v.to_bits())
            }
        }
        None => *cur = Some(v.to_bits()),
    }
}
fn fmax(cur: &mut Option<u64>, v: f64) {
    if v.is_nan() {
        return;
    }
    match cur {
        Some(c) => {
            if f64::from_bits(*c) < v {
                *cur = Some(v.to_bits())
            }
        }
        None => *cur = Some(v.to_bits()),
    }
}

fn limits_of(d: &DT) -> (Option<Val>, Option<Val>) {
    match d {
        DT::F32(a, b) => (a.map(Val::F), b.map(Val::F)),
        DT::F64(a, b) => (a.map(Val::D), b.map(Val::D)),
        DT::I(a, b) => (Some(Val::I(*a)), Some(Val::I(*b))),
        DT::S(a, b, ..) => (Some(Val::S(*a)), Some(Val::S(*b))),
    }
}

/// expected content of the final file, from the program text and the per-statement results
pub fn expected_scene(prog: &Program, results: &[String]) -> Scene {
    let mut sc = Scene { guid: prog.guid.clone(), ..Default::default() };
    let mut k = 0usize; // index into results
    let ok = |k: usize| results.get(k).map(|s| s.starts_with("ok")).unwrap_or(false);
    for s in &prog.stmts {
        match s {
            Stmt::Ext(ns, url) => {
                if ok(k) {
                    sc.exts.push((ns.clone(), url.clone()));
                }
                k += 1;
            }
            Stmt::Cm(v) => {
                sc.cm = v.clone();
                k += 1;
            }
            Stmt::Cr(v) => {
                sc.creation = *v;
                k += 1;
            }
            Stmt::Blob(d) => {
                if let Some(r) = results.get(k) {
                    let p: Vec<&str> = r.split(':').collect();
                    if p.len() == 3 && p[0] == "ok" {
                        sc.blobs.push((p[1].parse().unwrap_or(0), p[2].parse().unwrap_or(0), d.bytes()));
                    }
                }
                k += 1;
            }
            Stmt::Fin | Stmt::FinX(_) => k += 1,
            Stmt::Pc { guid, proto, body, end } => {
                let opened = ok(k);
                k += 1;
                let mut c = SCloud { guid: Some(guid.clone()), proto: proto.clone(), ..Default::default() };
                if has(proto, "cartesianX") {
                    c.cart = Some(Default::default());
                }
                if has(proto, "sphericalAzimuth") {
                    c.sph = Some(Default::default());
                }
                if has(proto, "returnIndex") || has(proto, "columnIndex") || has(proto, "rowIndex") {
                    c.idx = Some(Default::default());
                }
                if has(proto, "colorRed") {
                    if let (Some(r), Some(g), Some(b)) = (get(proto, "colorRed"), get(proto, "colorGreen"), get(proto, "colorBlue")) {
                        let (a1, a2) = limits_of(&r.dt);
                        let (b1, b2) = limits_of(&g.dt);
                        let (c1, c2) = limits_of(&b.dt);
                        c.cl = Some([a1, a2, b1, b2, c1, c2]);
                    }
                }
                if let Some(r) = get(proto, "intensity") {
                    c.il = Some(limits_of(&r.dt));
                }
                let mut done: Option<SCloud> = None; // the cloud as it was at the first successful finalize
                for b in body {
                    if matches!(b, PcStmt::Fin) {
                        if opened && done.is_none() && ok(k) {
                            done = Some(c.clone());
                        }
                        k += 1;
                        continue;
                    }
                    if opened && done.is_none() {
                        match b {
                            PcStmt::P(vs) => {
                                if ok(k) {
                                    for (r, v) in proto.iter().zip(vs.iter()) {
                                        let f = r.dt.to_f64(v);
                                        let upd = |arr: &mut Option<[Option<u64>; 6]>, i: usize| {
                                            if let (Some(a), Some(f)) = (arr.as_mut(), f) {
                                                fmin(&mut a[i], f);
                                                fmax(&mut a[i + 1], f);
                                            }
                                        };
                                        if r.name.is("cartesianX") {
                                            upd(&mut c.cart, 0)
                                        }
                                        if r.name.is("cartesianY") {
                                            upd(&mut c.cart, 2)
                                        }
                                        if r.name.is("cartesianZ") {
                                            upd(&mut c.cart, 4)
                                        }
                                        if r.name.is("sphericalRange") {
                                            upd(&mut c.sph, 0)
                                        }
                                        if r.name.is("sphericalElevation") {
                                            upd(&mut c.sph, 2)
                                        }
                                        if r.name.is("sphericalAzimuth") {
                                            upd(&mut c.sph, 4)
                                        }
                                        if let (Val::I(i), Some(a)) = (v, c.idx.as_mut()) {
                                            let mut u = |j: usize| {
                                                a[j] = Some(a[j].map_or(*i, |m: i64| m.min(*i)));
                                                a[j + 1] = Some(a[j + 1].map_or(*i, |m: i64| m.max(*i)));
                                            };
                                            if r.name.is("rowIndex") {
                                                u(0)
                                            }
                                            if r.name.is("columnIndex") {
                                                u(2)
                                            }
                                            if r.name.is("returnIndex") {
                                                u(4)
                                            }
                                        }
                                    }
                                    c.points.push(vs.clone());
                                }
                            }
                            PcStmt::Str(kw, v) => {
                                let i = PC_STR.iter().position(|x| x == kw).unwrap();
                                c.strs[i] = v.clone();
                            }
                            PcStmt::Og(v) => c.og = v.clone(),
                            PcStmt::Tr(v) => c.tr = *v,
                            PcStmt::Time(kw, v) => c.acq[if *kw == "AS" { 0 } else { 1 }] = *v,
                            PcStmt::Flt(kw, v) => c.flt[["TEMP", "HUM", "PRES"].iter().position(|x| x == kw).unwrap()] = *v,
                            PcStmt::Il(v) => c.il = v.clone(),
                            PcStmt::Fin => {}
                            PcStmt::Cl(v) => c.cl = v.clone(),
                        }
                    }
                    k += 1;
                }
                let finalized_inside = done.is_some();
                if let Some(d) = done {
                    // finalized inside the body: later statements met a finalized writer
                    c = d;
                }
                if opened && (finalized_inside || (*end && ok(k))) {
                    // incomplete limits are not stored
                    if let Some((a, b)) = &c.il {
                        if a.is_none() || b.is_none() {
                            c.il = None;
                        }
                    }
                    if let Some(l) = &c.cl {
                        if l.iter().any(|x| x.is_none()) {
                            c.cl = None;
                        }
                    }
                    sc.clouds.push(c);
                }
                k += 1;
            }
            Stmt::Img { guid, body, end } => {
                k += 1;
                let mut im = SImage { guid: Some(guid.clone()), ..Default::default() };
                for b in body {
                    let good = ok(k);
                    match b {
                        ImgStmt::Str(kw, v) => {
                            let i = IMG_STR.iter().position(|x| x == kw).unwrap();
                            im.strs[i] = Some(v.clone());
                        }
                        ImgStmt::Tr(x) => im.tr = Some(*x),
                        ImgStmt::Acq(d) => im.acq = Some(*d),
                        ImgStmt::Vis { fmt, data, w, h, mask } => {
                            if good {
                                im.vis = Some((*fmt, data.bytes(), *w, *h, mask.as_ref().map(|m| m.bytes())));
                            }
                        }
                        ImgStmt::Pin { fmt, data, w, h, f, mask } => {
                            if good {
                                im.proj = Some(SProj::Pin { fmt: *fmt, data: data.bytes(), w: *w, h: *h, f: *f, mask: mask.as_ref().map(|m| m.bytes()) });
                            }
                        }
                        ImgStmt::Sph { fmt, data, w, h, f, mask } => {
                            if good {
                                im.proj = Some(SProj::Sph { fmt: *fmt, data: data.bytes(), w: *w, h: *h, f: *f, mask: mask.as_ref().map(|m| m.bytes()) });
                            }
                        }
                        ImgStmt::Cyl { fmt, data, w, h, f, mask } => {
                            if good {
                                im.proj = Some(SProj::Cyl { fmt: *fmt, data: data.bytes(), w: *w, h: *h, f: *f, mask: mask.as_ref().map(|m| m.bytes()) });
                            }
                        }
                    }
                    k += 1;
                }
                if *end && ok(k) {
                    sc.images.push(im);
                }
                k += 1;
            }
        }
    }
    sc
}

// ---------------------------------------------------------------- reading a file with the real reader

fn tr_of(t: &Transform) -> Tr {
    [t.rotation.w.to_bits(), t.rotation.x.to_bits(), t.rotation.y.to_bits(), t.rotation.z.to_bits(), t.translation.x.to_bits(), t.translation.y.to_bits(), t.translation.z.to_bits()]
}
fn dt_of(d: &DateTime) -> Dt {
    (d.gps_time.to_bits(), d.atomic_reference)
}
fn fb(o: Option<f64>) -> Option<u64> {
    o.map(|x| x.to_bits())
}

pub fn cloud_of(pc: &PointCloud) -> SCloud {
    SCloud {
        guid: pc.guid.clone(),
        proto: pc.prototype.iter().map(Rec::from_record).collect(),
        points: vec![],
        strs: [pc.name.clone(), pc.description.clone(), pc.sensor_vendor.clone(), pc.sensor_model.clone(), pc.sensor_serial.clone(), pc.sensor_hw_version.clone(), pc.sensor_sw_version.clone(), pc.sensor_fw_version.clone()],
        og: pc.original_guids.clone(),
        tr: pc.transform.as_ref().map(tr_of),
        acq: [pc.acquisition_start.as_ref().map(dt_of), pc.acquisition_end.as_ref().map(dt_of)],
        flt: [fb(pc.temperature), fb(pc.humidity), fb(pc.atmospheric_pressure)],
        cart: pc.cartesian_bounds.as_ref().map(|b| [fb(b.x_min), fb(b.x_max), fb(b.y_min), fb(b.y_max), fb(b.z_min), fb(b.z_max)]),
        sph: pc.spherical_bounds.as_ref().map(|b| [fb(b.range_min), fb(b.range_max), fb(b.elevation_min), fb(b.elevation_max), fb(b.azimuth_start), fb(b.azimuth_end)]),
        idx: pc.index_bounds.as_ref().map(|b| [b.row_min, b.row_max, b.column_min, b.column_max, b.return_min, b.return_max]),
        il: pc.intensity_limits.as_ref().map(|l| (l.intensity_min.as_ref().map(Val::from_rv), l.intensity_max.as_ref().map(Val::from_rv))),
        cl: pc.color_limits.as_ref().map(|l| {
            let g = |x: &Option<RecordValue>| x.as_ref().map(Val::from_rv);
            [g(&l.red_min), g(&l.red_max), g(&l.green_min), g(&l.green_max), g(&l.blue_min), g(&l.blue_max)]
        }),
        raw_error: None,
    }
}

fn read_blob<T: std::io::Read + std::io::Seek>(r: &mut E57Reader<T>, b: &Blob) -> std::result::Result<Vec<u8>, String> {
    let mut out = vec![];
    match r.blob(b, &mut out) {
        Ok(n) => {
            if n as usize != out.len() {
                Err(format!("blob(): returned count {n} but wrote {} bytes", out.len()))
            } else if n != b.length {
                Err(format!("blob(): returned {n} bytes for a descriptor of length {}", b.length))
            } else {
                Ok(out)
            }
        }
        Err(e) => Err(format!("blob(): {e}")),
    }
}

fn fmt_of(f: &ImageFormat) -> char {
    match f {
        ImageFormat::Png => 'P',
        ImageFormat::Jpeg => 'J',
    }
}

/// read everything the reader reports (max `max_points` points per cloud)
pub fn read_scene(file: &[u8], max_points: usize) -> std::result::Result<Scene, String> {
    let mut r = E57Reader::new(std::io::Cursor::new(file.to_vec())).map_err(|e| format!("open: {e}"))?;
    let mut sc = Scene { guid: r.guid().to_string(), cm: r.coordinate_metadata().map(|s| s.to_string()), creation: r.creation().as_ref().map(dt_of), ..Default::default() };
    sc.xml = Some(r.xml().to_string());
    sc.exts = r.extensions().iter().map(|e| (e.namespace.clone(), e.url.clone())).collect();
    for pc in r.pointclouds() {
        let mut c = cloud_of(&pc);
        match r.pointcloud_raw(&pc) {
            Err(e) => c.raw_error = Some(format!("pointcloud_raw: {e}")),
            Ok(it) => {
                for (n, p) in it.enumerate() {
                    if n >= max_points {
                        c.raw_error = Some("more points than expected".into());
                        break;
                    }
                    match p {
                        Ok(vs) => c.points.push(vs.iter().map(Val::from_rv).collect()),
                        Err(e) => {
                            c.raw_error = Some(format!("raw next: {e}"));
                            break;
                        }
                    }
                }
            }
        }
        sc.clouds.push(c);
    }
    for img in r.images() {
        let mut im = SImage {
            guid: img.guid.clone(),
            tr: img.transform.as_ref().map(tr_of),
            strs: [img.name.clone(), img.description.clone(), img.pointcloud_guid.clone(), img.sensor_vendor.clone(), img.sensor_model.clone(), img.sensor_serial.clone()],
            acq: img.acquisition.as_ref().map(dt_of),
            ..Default::default()
        };
        if let Some(v) = &img.visual_reference {
            let data = read_blob(&mut r, &v.blob.data)?;
            let mask = match &v.mask {
                Some(m) => Some(read_blob(&mut r, m)?),
                None => None,
            };
            im.vis = Some((fmt_of(&v.blob.format), data, v.properties.width, v.properties.height, mask));
        }
        if let Some(p) = &img.projection {
            let (blob, mask) = match p {
                Projection::Pinhole(x) => (&x.blob, &x.mask),
                Projection::Spherical(x) => (&x.blob, &x.mask),
                Projection::Cylindrical(x) => (&x.blob, &x.mask),
            };
            let data = read_blob(&mut r, &blob.data)?;
            let mask = match mask {
                Some(m) => Some(read_blob(&mut r, m)?),
                None => None,
            };
            let fmt = fmt_of(&blob.format);
            im.proj = Some(match p {
                Projection::Pinhole(x) => SProj::Pin { fmt, data, w: x.properties.width, h: x.properties.height, f: [x.properties.focal_length.to_bits(), x.properties.pixel_width.to_bits(), x.properties.pixel_height.to_bits(), x.properties.principal_x.to_bits(), x.properties.principal_y.to_bits()], mask },
                Projection::Spherical(x) => SProj::Sph { fmt, data, w: x.properties.width, h: x.properties.height, f: [x.properties.pixel_width.to_bits(), x.properties.pixel_height.to_bits()], mask },
                Projection::Cylindrical(x) => SProj::Cyl { fmt, data, w: x.properties.width, h: x.properties.height, f: [x.properties.radius.to_bits(), x.properties.principal_y.to_bits(), x.properties.pixel_width.to_bits(), x.properties.pixel_height.to_bits()], mask },
            });
        }
        sc.images.push(im);
    }
    Ok(sc)
}

/// one difference: (property, signature class, detail)
pub type Diff = (&'static str, String, String);

fn opt_f_arr_eq(a: &Option<[Option<u64>; 6]>, b: &Option<[Option<u64>; 6]>) -> bool {
    match (a, b) {
        (Some(a), Some(b)) => a.iter().zip(b.iter()).all(|(x, y)| ofeq(x, y)),
        (None, None) => true,
        _ => false,
    }
}

fn proj_eq(a: &SProj, b: &SProj) -> std::result::Result<(), String> {
    let fe = |x: &[u64], y: &[u64]| x.iter().zip(y.iter()).all(|(p, q)| feq(*p, *q));
    match (a, b) {
        (SProj::Pin { fmt: f1, data: d1, w: w1, h: h1, f: p1, mask: m1 }, SProj::Pin { fmt: f2, data: d2, w: w2, h: h2, f: p2, mask: m2 }) => {
            if f1 != f2 || w1 != w2 || h1 != h2 || !fe(p1, p2) {
                return Err("pinhole properties".into());
            }
            if d1 != d2 || m1 != m2 {
                return Err("BLOB".into());
            }
            Ok(())
        }
        (SProj::Sph { fmt: f1, data: d1, w: w1, h: h1, f: p1, mask: m1 }, SProj::Sph { fmt: f2, data: d2, w: w2, h: h2, f: p2, mask: m2 }) => {
            if f1 != f2 || w1 != w2 || h1 != h2 || !fe(p1, p2) {
                return Err("spherical properties".into());
            }
            if d1 != d2 || m1 != m2 {
                return Err("BLOB".into());
            }
            Ok(())
        }
        (SProj::Cyl { fmt: f1, data: d1, w: w1, h: h1, f: p1, mask: m1 }, SProj::Cyl { fmt: f2, data: d2, w: w2, h: h2, f: p2, mask: m2 }) => {
            if f1 != f2 || w1 != w2 || h1 != h2 || !fe(p1, p2) {
                return Err("cylindrical properties".into());
            }
            if d1 != d2 || m1 != m2 {
                return Err("BLOB".into());
            }
            Ok(())
        }
        _ => Err("representation kind".into()),
    }
}

/// compare what was expected with what the reader reports; every difference is classified by the
/// property it violates
pub fn compare(exp: &Scene, got: &Scene) -> Vec<Diff> {
    let mut d: Vec<Diff> = vec![];
    if exp.guid != got.guid {
        d.push(("C04", "meta/root/guid".into(), format!("guid {:?} read back as {:?}", exp.guid, got.guid)));
    }
    if exp.cm != got.cm {
        d.push(("C04", "meta/root/coordinateMetadata".into(), format!("{:?} read back as {:?}", exp.cm, got.cm)));
    }
    if !dteq(&exp.creation, &got.creation) {
        d.push(("C04", "meta/root/creation".into(), format!("{:?} read back as {:?}", exp.creation, got.creation)));
    }
    if exp.exts != got.exts {
        d.push(("C04", "meta/root/extensions".into(), format!("{:?} read back as {:?}", exp.exts, got.exts)));
    }
    if exp.clouds.len() != got.clouds.len() {
        d.push(("C01", "clouds/count".into(), format!("{} point clouds finalized, reader lists {}", exp.clouds.len(), got.clouds.len())));
    }
    // (since the fix "extension records changed their namespace when two extensions shared one URL"
    // no two registered prefixes share a URL, so names are compared literally)
    let name_eq = |a: &RName, b: &RName| a == b;
    for (i, (e, g)) in exp.clouds.iter().zip(got.clouds.iter()).enumerate() {
        if e.proto.len() != g.proto.len() || e.proto.iter().zip(g.proto.iter()).any(|(a, b)| !name_eq(&a.name, &b.name) || !dtype_eq(&a.dt, &b.dt)) {
            let which = e.proto.iter().zip(g.proto.iter()).find(|(a, b)| !name_eq(&a.name, &b.name) || !dtype_eq(&a.dt, &b.dt));
            let class = match which {
                Some((a, b)) if !name_eq(&a.name, &b.name) => {
                    if matches!(a.name, RName::Ext(..)) {
                        "prototype/extension-name"
                    } else {
                        "prototype/name"
                    }
                }
                Some(_) => "prototype/type",
                None => "prototype/length",
            };
            d.push(("C01", class.into(), format!("cloud {i}: prototype {:?} read back as {:?}", which.map(|x| x.0.tok()), which.map(|x| x.1.tok()))));
            // names and data types with their minimum/maximum/scale/offset are metadata as well (C04)
            d.push(("C04", class.into(), format!("cloud {i}: prototype {:?} read back as {:?}", which.map(|x| x.0.tok()), which.map(|x| x.1.tok()))));
        }
        if let Some(err) = &g.raw_error {
            d.push(("C01", "points/read-error".into(), format!("cloud {i}: {err}")));
        } else if e.points.len() != g.points.len() {
            d.push(("C01", "points/count".into(), format!("cloud {i}: {} points added, {} read", e.points.len(), g.points.len())));
        } else {
            for (n, (a, b)) in e.points.iter().zip(g.points.iter()).enumerate() {
                if a.len() != b.len() || a.iter().zip(b.iter()).any(|(x, y)| x != y) {
                    d.push(("C01", "points/value".into(), format!("cloud {i} point {n}: added {:?} read {:?}", a.iter().map(|v| v.tok()).collect::<Vec<_>>(), b.iter().map(|v| v.tok()).collect::<Vec<_>>())));
                    break;
                }
            }
        }
        if e.guid != g.guid {
            d.push(("C04", "meta/pc/guid".into(), format!("cloud {i}: {:?} vs {:?}", e.guid, g.guid)));
        }
        for (j, kw) in PC_STR.iter().enumerate() {
            if e.strs[j] != g.strs[j] {
                d.push(("C04", format!("meta/pc/{kw}"), format!("cloud {i}: {:?} read back as {:?}", e.strs[j], g.strs[j])));
            }
        }
        if e.og != g.og {
            d.push(("C04", "meta/pc/originalGuids".into(), format!("cloud {i}: {:?} vs {:?}", e.og, g.og)));
        }
        if !treq(&e.tr, &g.tr) {
            d.push(("C04", "meta/pc/pose".into(), format!("cloud {i}: {:?} vs {:?}", e.tr, g.tr)));
        }
        for j in 0..2 {
            if !dteq(&e.acq[j], &g.acq[j]) {
                d.push(("C04", "meta/pc/acquisition".into(), format!("cloud {i}: {:?} vs {:?}", e.acq[j], g.acq[j])));
            }
        }
        for j in 0..3 {
            if !ofeq(&e.flt[j], &g.flt[j]) {
                d.push(("C04", "meta/pc/environment".into(), format!("cloud {i}: {:?} vs {:?}", e.flt[j], g.flt[j])));
            }
        }
        if !opt_f_arr_eq(&e.cart, &g.cart) {
            d.push(("C14", "bounds/cartesian".into(), format!("cloud {i}: expected {:?} stored {:?}", e.cart.map(|a| a.map(|x| x.map(f64::from_bits))), g.cart.map(|a| a.map(|x| x.map(f64::from_bits))))));
        }
        if !opt_f_arr_eq(&e.sph, &g.sph) {
            d.push(("C14", "bounds/spherical".into(), format!("cloud {i}: expected {:?} stored {:?}", e.sph.map(|a| a.map(|x| x.map(f64::from_bits))), g.sph.map(|a| a.map(|x| x.map(f64::from_bits))))));
        }
        if e.idx != g.idx {
            d.push(("C14", "bounds/index".into(), format!("cloud {i}: expected {:?} stored {:?}", e.idx, g.idx)));
        }
        let il_eq = match (&e.il, &g.il) {
            (Some(a), Some(b)) => oveq(&a.0, &b.0) && oveq(&a.1, &b.1),
            (None, None) => true,
            _ => false,
        };
        if !il_eq {
            d.push(("C14", "limits/intensity".into(), format!("cloud {i}: expected {:?} stored {:?}", e.il, g.il)));
            d.push(("C04", "limits/intensity".into(), format!("cloud {i}: expected {:?} stored {:?}", e.il, g.il)));
        }
        let cl_eq = match (&e.cl, &g.cl) {
            (Some(a), Some(b)) => a.iter().zip(b.iter()).all(|(x, y)| oveq(x, y)),
            (None, None) => true,
            _ => false,
        };
        if !cl_eq {
            d.push(("C14", "limits/colour".into(), format!("cloud {i}: expected {:?} stored {:?}", e.cl, g.cl)));
            d.push(("C04", "limits/colour".into(), format!("cloud {i}: expected {:?} stored {:?}", e.cl, g.cl)));
        }
    }
    if exp.images.len() != got.images.len() {
        d.push(("C04", "images/count".into(), format!("{} images finalized, reader lists {}", exp.images.len(), got.images.len())));
    }
    for (i, (e, g)) in exp.images.iter().zip(got.images.iter()).enumerate() {
        if e.guid != g.guid {
            d.push(("C04", "meta/img/guid".into(), format!("image {i}: {:?} vs {:?}", e.guid, g.guid)));
        }
        for (j, kw) in IMG_STR.iter().enumerate() {
            if e.strs[j] != g.strs[j] {
                d.push(("C04", format!("meta/img/{kw}"), format!("image {i}: {:?} read back as {:?}", e.strs[j], g.strs[j])));
            }
        }
        if !treq(&e.tr, &g.tr) {
            d.push(("C04", "meta/img/pose".into(), format!("image {i}")));
        }
        if !dteq(&e.acq, &g.acq) {
            d.push(("C04", "meta/img/acquisition".into(), format!("image {i}")));
        }
        match (&e.vis, &g.vis) {
            (Some(a), Some(b)) => {
                if a.0 != b.0 || a.2 != b.2 || a.3 != b.3 {
                    d.push(("C04", "meta/img/visualReference".into(), format!("image {i}: properties differ")));
                }
                if a.1 != b.1 || a.4 != b.4 {
                    d.push(("C06", "blob/image-bytes".into(), format!("image {i}: visual reference data or mask differ")));
                }
            }
            (None, None) => {}
            _ => d.push(("C04", "meta/img/visualReference".into(), format!("image {i}: presence differs"))),
        }
        match (&e.proj, &g.proj) {
            (Some(a), Some(b)) => {
                if let Err(what) = proj_eq(a, b) {
                    if what == "BLOB" {
                        d.push(("C06", "blob/image-bytes".into(), format!("image {i}: projection data or mask differ")));
                    } else {
                        d.push(("C04", "meta/img/projection".into(), format!("image {i}: {what} differ")));
                    }
                }
            }
            (None, None) => {}
            _ => d.push(("C04", "meta/img/projection".into(), format!("image {i}: presence differs"))),
        }
    }
    d
}
