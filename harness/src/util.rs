//! Shared helpers: PRNG, hex, JSON escaping, case sink, panic capture.
use std::collections::BTreeMap;
use std::fmt::Write as _;
use std::io::Write as _;

#[derive(Clone)]
pub struct Rng(pub u64);

impl Rng {
    pub fn new(seed: u64) -> Self {
        Rng(seed.wrapping_mul(0x9E37_79B9_7F4A_7C15) ^ 0xD1B5_4A32_D192_ED03)
    }
    pub fn next(&mut self) -> u64 {
        self.0 = self.0.wrapping_add(0x9E37_79B9_7F4A_7C15);
        let mut z = self.0;
        z = (z ^ (z >> 30)).wrapping_mul(0xBF58_476D_1CE4_E5B9);
        z = (z ^ (z >> 27)).wrapping_mul(0x94D0_49BB_1331_11EB);
        z ^ (z >> 31)
    }
    pub fn below(&mut self, n: u64) -> u64 {
        if n == 0 {
            0
        } else {
            self.next() % n
        }
    }
    pub fn range(&mut self, lo: i64, hi: i64) -> i64 {
        // inclusive
        let span = (hi as i128 - lo as i128 + 1) as u128;
        let r = ((self.next() as u128) << 64 | self.next() as u128) % span;
        (lo as i128 + r as i128) as i64
    }
    pub fn chance(&mut self, num: u64, den: u64) -> bool {
        self.below(den) < num
    }
    pub fn pick<'a, T>(&mut self, xs: &'a [T]) -> &'a T {
        &xs[self.below(xs.len() as u64) as usize]
    }
    pub fn bytes(&mut self, n: usize) -> Vec<u8> {
        (0..n).map(|_| self.next() as u8).collect()
    }
    pub fn fork(&mut self) -> Rng {
        Rng::new(self.next())
    }
}

pub fn hex(b: &[u8]) -> String {
    if b.is_empty() {
        return "-".to_string();
    }
    let mut s = String::with_capacity(b.len() * 2);
    for x in b {
        let _ = write!(s, "{:02x}", x);
    }
    s
}

pub fn unhex(s: &str) -> Option<Vec<u8>> {
    if s == "-" {
        return Some(vec![]);
    }
    if s.len() % 2 != 0 {
        return None;
    }
    let b = s.as_bytes();
    let mut out = Vec::with_capacity(s.len() / 2);
    for i in (0..b.len()).step_by(2) {
        let h = (b[i] as char).to_digit(16)?;
        let l = (b[i + 1] as char).to_digit(16)?;
        out.push((h * 16 + l) as u8);
    }
    Some(out)
}

pub fn hexs(s: &str) -> String {
    hex(s.as_bytes())
}

pub fn json_str(s: &str) -> String {
    let mut o = String::from("\"");
    for c in s.chars() {
        match c {
            '"' => o.push_str("\\\""),
            '\\' => o.push_str("\\\\"),
            '\n' => o.push_str("\\n"),
            '\r' => o.push_str("\\r"),
            '\t' => o.push_str("\\t"),
            c if (c as u32) < 0x20 => {
                let _ = write!(o, "\\u{:04x}", c as u32);
            }
            c => o.push(c),
        }
    }
    o.push('"');
    o
}

/// FNV-1a, for counting distinct cases
pub fn fnv(s: &str) -> u64 {
    let mut h: u64 = 0xcbf29ce484222325;
    for b in s.as_bytes() {
        h ^= *b as u64;
        h = h.wrapping_mul(0x100000001b3);
    }
    h
}

/// Run a closure, mapping a panic to Err(message)
pub fn guarded<T>(f: impl FnOnce() -> T) -> Result<T, String> {
    match std::panic::catch_unwind(std::panic::AssertUnwindSafe(f)) {
        Ok(v) => Ok(v),
        Err(e) => {
            let msg = if let Some(s) = e.downcast_ref::<&str>() {
                s.to_string()
            } else if let Some(s) = e.downcast_ref::<String>() {
                s.clone()
            } else {
                "panic".to_string()
            };
            Err(msg)
        }
    }
}

/// An oracle failure: the property itself failed on the real code for this case.
pub struct Failure {
    pub property: String,
    pub signature: String, // structural class, matched against known_findings.json
    pub case_line: String, // the case (replayable through `--replay`)
    pub detail: String,
}

/// Collects cases (for the model), implementation answers, oracle failures and statistics.
pub struct Sink {
    pub engine: String,
    pub cases: Vec<String>,
    pub impls: Vec<String>,
    pub failures: Vec<Failure>,
    pub stats: BTreeMap<String, u64>,
    pub distinct: std::collections::HashSet<u64>,
    pub nontrivial: std::collections::HashSet<u64>,
    pub samples: Vec<String>,
    pub oracle_evals: u64,
}

impl Sink {
    pub fn new(engine: &str) -> Self {
        Sink {
            engine: engine.to_string(),
            cases: vec![],
            impls: vec![],
            failures: vec![],
            stats: BTreeMap::new(),
            distinct: Default::default(),
            nontrivial: Default::default(),
            samples: vec![],
            oracle_evals: 0,
        }
    }
    /// record one correspondence case; `nontrivial` per the engine's rule
    pub fn case(&mut self, case: String, imp: String, nontrivial: bool) {
        let h = fnv(&case);
        self.distinct.insert(h);
        if nontrivial {
            self.nontrivial.insert(h);
            if self.samples.len() < 4 && case.len() < 600 {
                self.samples.push(case.clone());
            }
        }
        self.cases.push(case);
        self.impls.push(imp);
    }
    pub fn stat(&mut self, key: &str) {
        *self.stats.entry(key.to_string()).or_insert(0) += 1;
    }
    pub fn stat_n(&mut self, key: &str, n: u64) {
        *self.stats.entry(key.to_string()).or_insert(0) += n;
    }
    pub fn stat_max(&mut self, key: &str, n: u64) {
        let e = self.stats.entry(key.to_string()).or_insert(0);
        if n > *e {
            *e = n;
        }
    }
    pub fn fail(&mut self, property: &str, signature: &str, case_line: &str, detail: &str) {
        self.failures.push(Failure {
            property: property.to_string(),
            signature: signature.to_string(),
            case_line: case_line.to_string(),
            detail: detail.to_string(),
        });
    }
    pub fn write(&self, out_dir: &str) -> std::io::Result<()> {
        std::fs::create_dir_all(out_dir)?;
        let base = format!("{}/{}", out_dir, self.engine);
        let mut f = std::io::BufWriter::new(std::fs::File::create(format!("{base}.cases"))?);
        for c in &self.cases {
            writeln!(f, "{c}")?;
        }
        f.flush()?;
        let mut f = std::io::BufWriter::new(std::fs::File::create(format!("{base}.impl"))?);
        for c in &self.impls {
            writeln!(f, "{c}")?;
        }
        f.flush()?;
        let mut j = String::from("{\n");
        let _ = write!(j, "  \"engine\": {},\n", json_str(&self.engine));
        let _ = write!(j, "  \"cases\": {},\n", self.cases.len());
        let _ = write!(j, "  \"distinct\": {},\n", self.distinct.len());
        let _ = write!(j, "  \"distinct_nontrivial\": {},\n", self.nontrivial.len());
        let _ = write!(j, "  \"oracle_evaluations\": {},\n", self.oracle_evals);
        j.push_str("  \"samples\": [");
        for (i, s) in self.samples.iter().enumerate() {
            if i > 0 {
                j.push_str(", ");
            }
            j.push_str(&json_str(s));
        }
        j.push_str("],\n  \"stats\": {");
        for (i, (k, v)) in self.stats.iter().enumerate() {
            if i > 0 {
                j.push_str(", ");
            }
            let _ = write!(j, "{}: {}", json_str(k), v);
        }
        j.push_str("},\n  \"failures\": [");
        for (i, fl) in self.failures.iter().enumerate() {
            if i > 0 {
                j.push_str(", ");
            }
            let _ = write!(
                j,
                "\n    {{\"property\": {}, \"signature\": {}, \"case\": {}, \"detail\": {}}}",
                json_str(&fl.property),
                json_str(&fl.signature),
                json_str(&fl.case_line),
                json_str(&fl.detail)
            );
        }
        j.push_str("]\n}\n");
        std::fs::write(format!("{base}.report.json"), j)?;
        Ok(())
    }
}
