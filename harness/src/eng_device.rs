//! Engine "device": short transfers, injected device faults (C16) and crash images (C15).
//! Correspondence: the real writer over a device with random short reads/writes must produce the
//! file the Lean model (ideal device) produces.  Oracles: fault propagation, finalize-ok ⇒ complete
//! file, reader results independent of chunking, crash images accepted only if complete.
use crate::dev::*;
use crate::eng_reader;
use crate::eng_writer::*;
use crate::scene::*;
use crate::util::*;
use crate::wprog::*;
use e57::E57Reader;

pub fn exec(line: &str) -> String {
    if let Some(pos) = line.find(" ## crash_after_write=") {
        return debug_crash(&line[..pos], &line[pos..]);
    }
    crate::eng_writer::exec(line)
}

/// replay of a crash case: the digests of the crash image and of the complete files of the session
fn debug_crash(prog_line: &str, suffix: &str) -> String {
    let Some((_, prog)) = parse_case_line(prog_line) else { return "BADCASE".into() };
    let num = |key: &str| -> usize { suffix.split(key).nth(1).and_then(|r| r.split(' ').next()).and_then(|x| x.parse().ok()).unwrap_or(0) };
    let (i, c) = (num("crash_after_write="), num("cut="));
    let dev = SimDev::new(vec![]);
    dev.set_record(true);
    let run = execute(&prog, &dev);
    let writes: Vec<(u64, Vec<u8>)> = dev.log().into_iter().filter_map(|e| if let Ev::Write(o, b) = e { Some((o, b)) } else { None }).collect();
    let mut img: Vec<u8> = vec![];
    let mut out = vec![format!("writes={} results={:?}", writes.len(), run.results)];
    for (k, (off, b)) in writes.iter().enumerate() {
        let n = if k < i { b.len() } else if k == i { c.min(b.len()) } else { 0 };
        let off = *off as usize;
        if n > 0 {
            if img.len() < off + n {
                img.resize(off + n, 0);
            }
            img[off..off + n].copy_from_slice(&b[..n]);
        }
        out.push(format!("w{k}@{off}+{}", b.len()));
    }
    out.push(format!("IMAGE {:?}", reader_digest(SimDev::new(img.clone()), 1000)));
    out.push(format!("FINAL {:?}", reader_digest(SimDev::new(run.file.clone()), 1000)));
    let mut ri = 0usize;
    for (si, st) in prog.stmts.iter().enumerate() {
        if matches!(st, Stmt::Fin | Stmt::FinX(_)) && run.results.get(ri).map(|r| r == "ok").unwrap_or(false) {
            let p = Program { guid: prog.guid.clone(), stmts: prog.stmts[..=si].to_vec() };
            let f = execute(&p, &SimDev::new(vec![])).file;
            out.push(format!("COMPLETE@{si} {:?}", reader_digest(SimDev::new(f), 1000)));
        }
        ri += stmt_tokens(st);
    }
    out.join("\n")
}

/// statement index that was executing when the device fault fired: re-run and watch `faulted`
fn run_with_fault(prog: &Program, at: u64, interrupted: bool) -> (Run, Option<usize>, SimDev) {
    // execute statement by statement is not possible through `execute`; instead run whole programs
    // truncated after each statement and find the first truncation whose run faulted.
    let dev = SimDev::new(vec![]);
    dev.set_fault(Some(at));
    dev.set_fault_interrupted(interrupted);
    let run = execute(prog, &dev);
    (run, None, dev)
}

/// number of result tokens statement `i` produces
fn stmt_tokens(s: &Stmt) -> usize {
    match s {
        Stmt::Pc { body, .. } => body.len() + 2,
        Stmt::Img { body, .. } => body.len() + 2,
        _ => 1,
    }
}

fn reader_digest(dev: SimDev, maxp: usize) -> std::result::Result<String, String> {
    let mut r = E57Reader::new(dev).map_err(|e| format!("open: {e}"))?;
    let mut out = vec![format!("guid={}", r.guid()), format!("xml={}", fnv_bytes(r.xml().as_bytes()))];
    for pc in r.pointclouds() {
        out.push(eng_reader::pc_tok(&pc));
        match r.pointcloud_raw(&pc) {
            Err(_) => out.push("points=rawerr".into()),
            Ok(it) => {
                let mut h: u64 = 0xcbf29ce484222325;
                let mut n = 0;
                let mut status = "ok";
                for p in it.take(maxp) {
                    match p {
                        Ok(vs) => {
                            for v in vs {
                                for b in Val::from_rv(&v).tok().bytes() {
                                    h ^= b as u64;
                                    h = h.wrapping_mul(0x100000001b3);
                                }
                            }
                            n += 1;
                        }
                        Err(_) => {
                            status = "err";
                            break;
                        }
                    }
                }
                out.push(format!("points={n}:{h}:{status}"));
            }
        }
    }
    for img in r.images() {
        out.push(eng_reader::img_tok(&img));
    }
    Ok(out.join(" "))
}

/// `reader_digest` plus every blob (image payloads, masks and the given descriptors), read forwards and
/// then once more backwards on the SAME reader: after a read that fails (e.g. on a torn page) a later
/// read must still return the true bytes or an error
fn reader_digest_blobs(dev: SimDev, maxp: usize, blobs: &[(u64, u64)]) -> std::result::Result<String, String> {
    let head = reader_digest(SimDev::new(dev.data()), maxp)?;
    let mut r = E57Reader::new(SimDev::new(dev.data())).map_err(|e| format!("open: {e}"))?;
    let mut all: Vec<e57::Blob> = vec![];
    for img in r.images() {
        if let Some(v) = &img.visual_reference {
            all.push(v.blob.data.clone());
            all.extend(v.mask.clone());
        }
        if let Some(p) = &img.projection {
            let (b, m) = match p {
                e57::Projection::Pinhole(x) => (&x.blob, &x.mask),
                e57::Projection::Spherical(x) => (&x.blob, &x.mask),
                e57::Projection::Cylindrical(x) => (&x.blob, &x.mask),
            };
            all.push(b.data.clone());
            all.extend(m.clone());
        }
    }
    for (o, l) in blobs {
        all.push(e57::Blob::new(*o, *l));
    }
    let mut out = vec![head];
    let order: Vec<usize> = (0..all.len()).chain((0..all.len()).rev()).collect();
    for k in order {
        let mut buf = vec![];
        match r.blob(&all[k], &mut buf) {
            Ok(n) => out.push(format!("blob={n}:{}", fnv_bytes(&buf))),
            Err(_) => out.push("blob=err".into()),
        }
    }
    Ok(out.join(" "))
}

/// an accepted image may answer a data read with an error, everything else must equal the complete file
fn same_or_error(full: &str, got: &str) -> bool {
    let a: Vec<&str> = full.split(' ').collect();
    let b: Vec<&str> = got.split(' ').collect();
    a.len() == b.len()
        && a.iter().zip(b.iter()).all(|(x, y)| x == y || (x.starts_with("points=") && (*y == "points=rawerr" || y.ends_with(":err"))) || (x.starts_with("blob=") && *y == "blob=err"))
}

pub fn generate(sink: &mut Sink, seed: u64, thorough: bool) {
    let mut rng = Rng::new(seed ^ 0xDE71CE);
    let lv = library_version();
    // ---------------------------------------------------------------- 1. chunking (C16)
    let nchunk = if thorough { 600 } else { 80 };
    for i in 0..nchunk {
        let prog = {
            let mut g = Gen { rng: &mut rng, exts: vec![], n: 0 };
            g.program(if i % 20 == 0 { 1500 } else { 25 })
        };
        let ideal_dev = SimDev::new(vec![]);
        let ideal = execute(&prog, &ideal_dev);
        let dev = SimDev::new(vec![]);
        dev.set_chunk(Some(rng.fork()));
        let run = execute(&prog, &dev);
        let line = prog.case_line(&lv);
        sink.oracle_evals += 1;
        if run.results != ideal.results || run.file != ideal.file {
            sink.fail("C16", "device/chunking-changes-file", &line, &format!("short transfers changed the outcome: results equal={}, file equal={} ({} vs {} bytes)", run.results == ideal.results, run.file == ideal.file, run.file.len(), ideal.file.len()));
        }
        // reader over a chunking device
        if ideal.results.last().map(|s| s == "ok").unwrap_or(false) && matches!(prog.stmts.last(), Some(Stmt::Fin)) {
            let a = guarded(|| reader_digest(SimDev::new(ideal.file.clone()), 100000));
            let cd = SimDev::new(ideal.file.clone());
            cd.set_chunk(Some(rng.fork()));
            let b = guarded(|| reader_digest(cd, 100000));
            match (a, b) {
                (Ok(a), Ok(b)) => {
                    if a != b {
                        sink.fail("C16", "device/chunking-changes-read", &line, "short reads changed what the reader returns");
                    }
                }
                _ => sink.fail("C08", "reader/panic-on-chunked-device", &line, "reader panicked"),
            }
        }
        sink.stat("chunked_program");
        sink.case(line, run_line(&run), run.file.len() > 1024);
    }
    // ---------------------------------------------------------------- 2. faults (C16)
    let nfault = if thorough { 120 } else { 25 };
    for fi in 0..nfault {
        let prog = {
            let mut g = Gen { rng: &mut rng, exts: vec![], n: 0 };
            let mut p = g.program(8);
            // every fourth program writes an image (half of them carry masks: two blobs per call)
            if fi % 4 == 0 {
                let im = g.image();
                let at = p.stmts.len() - 1;
                p.stmts.insert(at, im);
            }
            p
        };
        let ideal_dev = SimDev::new(vec![]);
        let ideal = execute(&prog, &ideal_dev);
        let total_ops = ideal_dev.ops();
        let line = prog.case_line(&lv);
        if ideal.panicked {
            continue;
        }
        // results per statement on the ideal device, to know how many device ops each statement uses:
        // run truncated programs
        let mut ops_after: Vec<u64> = vec![]; // device ops consumed after statement i (cumulative)
        {
            let mut acc: Vec<Stmt> = vec![];
            for s in &prog.stmts {
                acc.push(s.clone());
                let d = SimDev::new(vec![]);
                let p = Program { guid: prog.guid.clone(), stmts: acc.clone() };
                // the final drop flush adds operations; measure before drop by recording ops at the
                // time the last statement returns: approximate by running without the drop effect
                let _ = execute(&p, &d);
                ops_after.push(d.ops());
            }
        }
        let stride = if thorough || total_ops < 200 { 1 } else { (total_ops / 150).max(1) };
        let mut k = rng.below(stride);
        while k < total_ops {
          // every position with a hard error; every third one also with a transient `Interrupted`
          // error (std's write_all / read_exact / io::copy retry those: the call may then succeed,
          // but whatever succeeds must still be stored completely)
          for interrupted in [false, true] {
            if interrupted && k % 3 != 0 {
                continue;
            }
            sink.oracle_evals += 1;
            let (run, _, dev) = run_with_fault(&prog, k, interrupted);
            let line = if interrupted { format!("{line} ## kind=interrupted") } else { line.clone() };
            if run.panicked || run.results.iter().any(|r| r == "panic") {
                sink.fail("C16", "device/fault-panics", &format!("{line} ## fault_at={k}"), &format!("device fault at operation {k} made a library call panic"));
            } else if dev.faulted() {
                // some call must have reported the error (the drop of the writer may swallow it only
                // if every statement had already completed)
                let any_err_new = run.results.iter().zip(ideal.results.iter()).any(|(a, b)| (a == "err" || a == "NEWERR") && a != b);
                let all_done = run.results.len() == ideal.results.len();
                // the fault may have fired inside the final drop-flush (after all statements)
                let during_drop = all_done && !any_err_new && run.results == ideal.results;
                if !any_err_new && !during_drop && !interrupted {
                    sink.fail("C16", "device/fault-swallowed", &format!("{line} ## fault_at={k}"), &format!("device fault at operation {k}: no library call returned an error ({:?})", run.results));
                }
                // the call IN PROGRESS when the device failed must be the one that reports it (up to the fault
                // both runs issue the same device operations, so the ideal run tells which call that was)
                if !interrupted && k >= ideal.ops_new {
                    if let Some(j) = ideal.ops_after.iter().position(|&n| n > k) {
                        if let Some(r) = run.results.get(j) {
                            if r != "err" && r != "panic" {
                                sink.fail("C16", "device/fault-not-reported-by-call-in-progress", &format!("{line} ## fault_at={k}"), &format!("the device failed at operation {k}, during call {j} of the program, which returned {r:?}; the error surfaced later or not at all ({:?})", run.results));
                            }
                        }
                    }
                }
                // finalize ok => complete file
                let fin_ok = matches!(prog.stmts.last(), Some(Stmt::Fin)) && run.results.len() == ideal.results.len() && run.results.last().map(|s| s == "ok").unwrap_or(false) && ideal.results.last().map(|s| s == "ok").unwrap_or(false);
                if fin_ok && !during_drop {
                    // the device must hold a complete file with everything the successful calls wrote
                    let diffs = roundtrip_diffs(&prog, &run);
                    if let Some((_, sig, detail)) = diffs.first() {
                        sink.fail("C16", &format!("device/finalize-ok-but-incomplete/{}", sig.split('/').next().unwrap_or("")), &format!("{line} ## fault_at={k}"), &format!("finalize reported success after a device fault at operation {k} but the file does not hold what the successful calls wrote: {detail}"));
                    }
                }
                if during_drop && fin_ok && run.file != ideal.file {
                    // a failing write at drop rewrites identical bytes, so the file must be complete
                    sink.fail("C16", "device/drop-fault-changes-file", &format!("{line} ## fault_at={k}"), "a fault during the final drop changed the file");
                }
            }
          }
            k += stride;
        }
        // reader faults: every device op of a read session
        if ideal.results.last().map(|s| s == "ok").unwrap_or(false) && matches!(prog.stmts.last(), Some(Stmt::Fin)) {
            let probe = SimDev::new(ideal.file.clone());
            let base = guarded(|| reader_digest(probe.clone(), 100000));
            let rops = probe.ops();
            if let Ok(Ok(base)) = base {
                let stride = if thorough || rops < 150 { 1 } else { (rops / 100).max(1) };
                let mut k = rng.below(stride);
                while k < rops {
                    sink.oracle_evals += 1;
                    let d = SimDev::new(ideal.file.clone());
                    d.set_fault(Some(k));
                    match guarded(|| reader_digest(d.clone(), 100000)) {
                        Err(_) => sink.fail("C16", "device/read-fault-panics", &format!("{line} ## read_fault_at={k}"), "reader panicked on a device fault"),
                        Ok(Ok(dg)) => {
                            // the session continued after the fault: everything reported must be the
                            // fault-free answer or an error marker
                            let a: Vec<&str> = base.split(' ').collect();
                            let b: Vec<&str> = dg.split(' ').collect();
                            // an error may end an iteration early; everything else must be identical
                            let okk = a.len() == b.len() && a.iter().zip(b.iter()).all(|(x, y)| x == y || (x.starts_with("points=") && (*y == "points=rawerr" || y.ends_with(":err"))));
                            if !okk {
                                sink.fail("C16", "device/read-fault-wrong-data", &format!("{line} ## read_fault_at={k}"), "after a device read fault the reader returned data that differs from the fault-free answer");
                            }
                        }
                        Ok(Err(_)) => {}
                    }
                    k += stride;
                }
            }
        }
        sink.stat("fault_program");
        sink.stat_n("fault_positions", total_ops);
    }
    // ---------------------------------------------------------------- 2b. fault walks (C17, C16)
    // One reader, a walk of blob reads and point-cloud iterations in random order with repeats, ONE transient
    // device fault somewhere: the operation in progress may fail, every LATER operation must answer exactly as on
    // a fresh reader (the device is healthy again).  Many sections end exactly on a page boundary.
    let nwalk = if thorough { 120 } else { 16 };
    for w in 0..nwalk {
        let nb = 4 + rng.below(5) as usize;
        let mut pos = 48usize; // logical position of the next section
        let mut stmts: Vec<Stmt> = vec![];
        for k in 0..nb {
            let len = if rng.chance(1, 2) {
                // the section (16 bytes header + data, 4-aligned) ends exactly at the end of a page payload
                let room = 1020 - (pos + 16) % 1020;
                room + 1020 * rng.below(2) as usize
            } else {
                500 + rng.below(1500) as usize
            };
            pos += (16 + len + 3) / 4 * 4;
            stmts.push(Stmt::Blob(Data::Gen(len, 13 * k + w)));
        }
        if rng.chance(1, 2) {
            let mut g = Gen { rng: &mut rng, exts: vec![], n: 0 };
            let c = g.cloud(300);
            let at = rng.below(stmts.len() as u64 + 1) as usize;
            stmts.insert(at, c);
        }
        stmts.push(Stmt::Fin);
        let prog = Program { guid: "fault-walk".into(), stmts };
        let ideal = execute(&prog, &SimDev::new(vec![]));
        if ideal.panicked || ideal.results.last().map(|s| s != "ok").unwrap_or(true) {
            continue;
        }
        let descr: Vec<(u64, u64)> = ideal.results.iter().filter_map(|r| {
            let p: Vec<&str> = r.split(':').collect();
            if p.len() == 3 && p[0] == "ok" { Some((p[1].parse().ok()?, p[2].parse().ok()?)) } else { None }
        }).collect();
        if descr.is_empty() {
            continue;
        }
        // the walk: indices into descr; usize::MAX = iterate the first point cloud; neighbours follow each other often
        let mut walk: Vec<usize> = vec![];
        let mut cur = rng.below(descr.len() as u64) as usize;
        for _ in 0..(10 + rng.below(8)) {
            walk.push(if rng.chance(1, 8) { usize::MAX } else { cur });
            cur = match rng.below(4) {
                0 | 1 => (cur + 1) % descr.len(),
                2 => rng.below(descr.len() as u64) as usize,
                _ => cur,
            };
        }
        let run_walk = |dev: SimDev, fault: Option<u64>| -> Option<(Vec<String>, u64)> {
            let mut r = E57Reader::new(dev.clone()).ok()?;
            let before = dev.ops();
            dev.set_fault(fault.map(|k| before + k));
            let mut out = vec![];
            for &i in &walk {
                if i == usize::MAX {
                    let pcs = r.pointclouds();
                    match pcs.first() {
                        None => out.push("nopc".to_string()),
                        Some(pc) => match r.pointcloud_raw(pc) {
                            Err(_) => out.push("err".to_string()),
                            Ok(it) => {
                                let mut h = 0xcbf29ce484222325u64;
                                let mut st = "ok";
                                for p in it.take(400) {
                                    match p {
                                        Ok(vs) => {
                                            for v in vs {
                                                for b in Val::from_rv(&v).tok().bytes() {
                                                    h = (h ^ b as u64).wrapping_mul(0x100000001b3);
                                                }
                                            }
                                        }
                                        Err(_) => {
                                            st = "err";
                                            break;
                                        }
                                    }
                                }
                                out.push(if st == "ok" { format!("pc:{h}") } else { "err".to_string() });
                            }
                        },
                    }
                } else {
                    let mut buf = vec![];
                    match r.blob(&e57::Blob::new(descr[i].0, descr[i].1), &mut buf) {
                        Ok(n) => out.push(format!("{n}:{}", fnv_bytes(&buf))),
                        Err(_) => out.push("err".to_string()),
                    }
                }
            }
            Some((out, dev.ops() - before))
        };
        let Ok(Some((base, nops))) = guarded(|| run_walk(SimDev::new(ideal.file.clone()), None)) else { continue };
        let line = prog.case_line(&lv);
        let stride = if thorough { 1 } else { (nops / 60).max(1) };
        let mut k = rng.below(stride);
        while k < nops {
            sink.oracle_evals += 1;
            let wtxt: Vec<String> = walk.iter().map(|i| if *i == usize::MAX { "pc".to_string() } else { i.to_string() }).collect();
            let replay = format!("{line} ## fault_walk={} fault_at_op={k}", wtxt.join(","));
            match guarded(|| run_walk(SimDev::new(ideal.file.clone()), Some(k))) {
                Err(_) => sink.fail("C16", "device/read-fault-panics", &replay, "reader panicked on a device fault"),
                Ok(None) => {}
                Ok(Some((got, _))) => {
                    // the first difference must be an error (the operation hit by the fault); behind it nothing may differ
                    let first = (0..base.len()).find(|&j| got.get(j) != base.get(j));
                    if let Some(j) = first {
                        if got[j] != "err" {
                            sink.fail("C16", "device/read-fault-wrong-data", &replay, &format!("operation {j} of the walk was hit by the device fault and returned data that differs from the fault-free answer instead of an error"));
                        } else if let Some(j2) = (j + 1..base.len()).find(|&j2| got[j2] != base[j2]) {
                            let d = format!("operation {j} of the walk failed on a transient device fault; the later operation {j2} ({}) then answered {} where a fresh reader answers {}", wtxt[j2], &got[j2], &base[j2]);
                            sink.fail("C17", "history/after-device-fault", &replay, &d);
                            sink.fail("C16", "device/read-fault-poisons-later-reads", &replay, &d);
                        }
                    }
                }
            }
            k += stride;
        }
        sink.stat("fault_walk");
    }
    // ---------------------------------------------------------------- 3. crash images (C15)
    let ncrash = if thorough { 150 } else { 25 };
    let cuts: [usize; 18] = [0, 1, 8, 16, 24, 25, 31, 32, 33, 39, 40, 47, 48, 49, 512, 1019, 1020, 1023];
    // besides random programs: tiny files whose XML ends on the page where the last blob starts (the page
    // the reader has cached after opening), so that reads after a failed read of the torn first page
    // are served from that very page
    let mut tiny: Vec<Program> = vec![];
    for (a, b) in [(1100usize, 8usize), (1000, 1), (1150, 40), (980, 16), (1200, 3)] {
        tiny.push(Program { guid: "tiny".into(), stmts: vec![Stmt::Blob(Data::Gen(a, 5)), Stmt::Blob(Data::Gen(b, 9)), Stmt::Fin] });
    }
    // sessions that finalize twice: the second XML has the same length as the first and differs in bytes that span
    // page boundaries — an accepted crash image must equal the device state at the end of ONE of the finalize calls
    for n in [0usize, 7, 300, 1500, 2500] {
        let proto = vec![Rec { name: RName::Std("cartesianX".into()), dt: DT::F32(None, None) }, Rec { name: RName::Std("cartesianY".into()), dt: DT::F32(None, None) }, Rec { name: RName::Std("cartesianZ".into()), dt: DT::F32(None, None) }];
        let body = vec![PcStmt::P(vec![Val::F(1f32.to_bits()), Val::F(2f32.to_bits()), Val::F(3f32.to_bits())])];
        tiny.push(Program { guid: "twice".into(), stmts: vec![Stmt::Pc { guid: "pc".into(), proto, body, end: true }, Stmt::Cm(Some("A".repeat(n))), Stmt::Fin, Stmt::Cm(Some("B".repeat(n))), Stmt::Fin] });
    }
    for k in 0..ncrash + tiny.len() {
        let prog = if k < tiny.len() {
            tiny[k].clone()
        } else {
            let mut g = Gen { rng: &mut rng, exts: vec![], n: 0 };
            g.program(6)
        };
        let dev = SimDev::new(vec![]);
        dev.set_record(true);
        let run = execute(&prog, &dev);
        if run.panicked || !matches!(prog.stmts.last(), Some(Stmt::Fin)) || run.results.last().map(|s| s != "ok").unwrap_or(true) {
            continue;
        }
        let line = prog.case_line(&lv);
        let writes: Vec<(u64, Vec<u8>)> = dev.log().into_iter().filter_map(|e| if let Ev::Write(o, b) = e { Some((o, b)) } else { None }).collect();
        let pblobs: Vec<(u64, u64)> = expected_scene(&prog, &run.results).blobs.iter().map(|b| (b.0, b.1)).collect();
        // the complete files of this session: the device at the end of every successful top-level finalize
        // (obtained by running the program up to that statement)
        let mut completes: Vec<String> = vec![];
        // … and the blob descriptors that had been handed out when that finalize ran (a descriptor of a later blob
        // means nothing in the earlier complete file)
        let mut complete_blobs: Vec<Vec<(u64, u64)>> = vec![];
        {
            let mut ri = 0usize; // index into results
            for (si, st) in prog.stmts.iter().enumerate() {
                let ntok = stmt_tokens(st);
                if matches!(st, Stmt::Fin | Stmt::FinX(_)) && run.results.get(ri).map(|r| r == "ok").unwrap_or(false) {
                    let file = if si + 1 == prog.stmts.len() {
                        run.file.clone()
                    } else {
                        let p = Program { guid: prog.guid.clone(), stmts: prog.stmts[..=si].to_vec() };
                        execute(&p, &SimDev::new(vec![])).file
                    };
                    let known: Vec<(u64, u64)> = {
                        let p = Program { guid: prog.guid.clone(), stmts: prog.stmts[..=si].to_vec() };
                        let n = expected_scene(&p, &run.results).blobs.len();
                        pblobs.iter().take(n).cloned().collect()
                    };
                    if let Ok(Ok(f)) = guarded(|| reader_digest_blobs(SimDev::new(file.clone()), 100000, &known)) {
                        completes.push(f);
                        complete_blobs.push(known);
                    }
                }
                ri += ntok;
            }
        }
        if completes.is_empty() {
            continue;
        }
        let full = completes.last().unwrap().clone();
        // the write that makes the header real: the first write of page 0 whose XML length field is set
        // (later writes of page 0 — the drop of the writer flushes again — carry identical bytes)
        let last_header = writes.iter().position(|(o, b)| *o == 0 && b.len() >= 40 && b[32..40].iter().any(|x| *x != 0)).unwrap_or(0);
        let mut image: Vec<u8> = vec![];
        let apply = |img: &mut Vec<u8>, off: u64, b: &[u8]| {
            let off = off as usize;
            if img.len() < off + b.len() {
                img.resize(off + b.len(), 0);
            }
            img[off..off + b.len()].copy_from_slice(b);
        };
        let wstride = if thorough || writes.len() < 60 { 1 } else { writes.len() / 40 };
        for (i, (off, bytes)) in writes.iter().enumerate() {
            let near_end = i + 3 >= writes.len() || i == last_header;
            if i % wstride == 0 || near_end {
                for c in cuts.iter().filter(|c| **c <= bytes.len()) {
                    sink.oracle_evals += 1;
                    let mut img = image.clone();
                    apply(&mut img, *off, &bytes[..*c]);
                    let res = guarded(|| reader_digest_blobs(SimDev::new(img.clone()), 100000, &pblobs));
                    let replay = format!("{line} ## crash_after_write={i} cut={c}");
                    match res {
                        Err(_) => sink.fail("C08", "reader/panic-on-crash-image", &replay, "reader panicked on a crash image"),
                        Ok(Err(_)) => {} // rejected: always fine
                        Ok(Ok(dg)) => {
                            // accepted: must be complete
                            let before_final = i < last_header;
                            if before_final {
                                sink.fail("C15", "crash/accepted-before-finalize", &replay, &format!("an image from before the end of the top-level finalize (write {i} of {}, {c} bytes of it) is accepted by the reader", writes.len()));
                            } else {
                                let same = completes.iter().zip(complete_blobs.iter()).any(|(f, known)| {
                                    if known.len() == pblobs.len() {
                                        same_or_error(f, &dg)
                                    } else {
                                        // compare with an earlier complete file through the descriptors it knows
                                        match guarded(|| reader_digest_blobs(SimDev::new(img.clone()), 100000, known)) {
                                            Ok(Ok(dk)) => same_or_error(f, &dk),
                                            _ => false,
                                        }
                                    }
                                });
                                let _ = &full;
                                if !same {
                                    let a: Vec<&str> = full.split(' ').collect();
                                    let b: Vec<&str> = dg.split(' ').collect();
                                    let d = a.iter().zip(b.iter()).find(|(x, y)| x != y).map(|(x, y)| format!("{x} vs {y}")).unwrap_or_else(|| format!("{} vs {} tokens", a.len(), b.len()));
                                    sink.fail("C15", "crash/accepted-image-differs", &replay, &format!("an accepted crash image reports content that differs from the complete file: {d}"));
                                }
                            }
                        }
                    }
                }
            }
            apply(&mut image, *off, bytes);
        }
        sink.stat("crash_program");
        sink.stat_n("crash_writes", writes.len() as u64);
    }
    // ---------------------------------------------------------------- 3b. a device that already holds an older complete file
    // (a reused buffer, a file opened without truncation): either the writer refuses it and leaves it alone, or every
    // image of the new session from before the end of its finalize is rejected — the OLD file must never be
    // presented as the result of the new session
    for _ in 0..(if thorough { 30 } else { 6 }) {
        let mk = |rng: &mut Rng| {
            let mut g = Gen { rng, exts: vec![], n: 0 };
            g.program(5)
        };
        let old_prog = mk(&mut rng);
        let old = execute(&old_prog, &SimDev::new(vec![]));
        if old.panicked || old.results.last().map(|s| s != "ok").unwrap_or(true) || !matches!(old_prog.stmts.last(), Some(Stmt::Fin)) {
            continue;
        }
        let prog = mk(&mut rng);
        let dev = SimDev::new(old.file.clone());
        dev.set_record(true);
        let run = execute(&prog, &dev);
        let line = format!("{} ## on_device_holding={}", prog.case_line(&lv), hex(&old.file[..old.file.len().min(2048)]));
        sink.oracle_evals += 1;
        sink.stat("preloaded_device_session");
        if run.results.first().map(|r| r == "NEWERR").unwrap_or(false) {
            if run.file != old.file {
                sink.fail("C15", "crash/refused-session-changed-device", &line, "E57Writer::new refused a device that already holds a file, but changed it");
            }
            continue;
        }
        if run.panicked {
            continue;
        }
        let fin_ok = matches!(prog.stmts.last(), Some(Stmt::Fin)) && run.results.last().map(|s| s == "ok").unwrap_or(false);
        let full = if fin_ok { guarded(|| reader_digest(SimDev::new(run.file.clone()), 1000)).ok().and_then(|r| r.ok()) } else { None };
        let writes: Vec<(u64, Vec<u8>)> = dev.log().into_iter().filter_map(|e| if let Ev::Write(o, b) = e { Some((o, b)) } else { None }).collect();
        let mut image = old.file.clone();
        for (i, (off, bytes)) in writes.iter().enumerate().chain(std::iter::once((writes.len(), &(0u64, vec![])))) {
            for c in cuts.iter().filter(|c| **c <= bytes.len()) {
                let mut img = image.clone();
                let o = *off as usize;
                if img.len() < o + c {
                    img.resize(o + c, 0);
                }
                img[o..o + c].copy_from_slice(&bytes[..*c]);
                if let Ok(Ok(dg)) = guarded(|| reader_digest(SimDev::new(img.clone()), 1000)) {
                    if full.as_deref() != Some(dg.as_str()) {
                        sink.fail("C15", "crash/older-file-presented", &format!("{line} ## crash_after_write={i} cut={c}"), &format!("the writer accepted a device that already held a complete file; when writing stops after {i} device writes (+{c} bytes) the reader accepts the image and reports content that is not the completed file's (the older file shows through)"));
                        break;
                    }
                }
            }
            let o = *off as usize;
            if image.len() < o + bytes.len() {
                image.resize(o + bytes.len(), 0);
            }
            image[o..o + bytes.len()].copy_from_slice(bytes);
        }
    }
    // ---------------------------------------------------------------- 4. abandoned sessions (C15)
    // a program that never reaches a successful top-level finalize (the writer is dropped instead)
    // must not leave anything on the device that the reader accepts, at any moment
    let nabort = if thorough { 200 } else { 40 };
    for _ in 0..nabort {
        let mut prog = {
            let mut g = Gen { rng: &mut rng, exts: vec![], n: 0 };
            g.program(6)
        };
        prog.stmts.retain(|s| !matches!(s, Stmt::Fin | Stmt::FinX(_))); // no finalize at all
        if !prog.stmts.is_empty() && rng.chance(1, 2) {
            let keep = 1 + rng.below(prog.stmts.len() as u64) as usize;
            prog.stmts.truncate(keep);
        }
        if rng.chance(1, 2) {
            match prog.stmts.last_mut() {
                Some(Stmt::Pc { end, .. }) | Some(Stmt::Img { end, .. }) => *end = false,
                _ => {}
            }
        }
        let dev = SimDev::new(vec![]);
        dev.set_record(true);
        let run = execute(&prog, &dev);
        if run.panicked {
            continue;
        }
        let line = prog.case_line(&lv);
        let writes: Vec<(u64, Vec<u8>)> = dev.log().into_iter().filter_map(|e| if let Ev::Write(o, b) = e { Some((o, b)) } else { None }).collect();
        let mut image: Vec<u8> = vec![];
        let stride = if thorough || writes.len() < 40 { 1 } else { writes.len() / 30 };
        for (i, (off, bytes)) in writes.iter().enumerate() {
            let off = *off as usize;
            if image.len() < off + bytes.len() {
                image.resize(off + bytes.len(), 0);
            }
            image[off..off + bytes.len()].copy_from_slice(bytes);
            if i % stride == 0 || i + 3 >= writes.len() {
                sink.oracle_evals += 1;
                let img = image.clone();
                if let Ok(Ok(_)) = guarded(|| reader_digest(SimDev::new(img.clone()), 1000)) {
                    sink.fail("C15", "crash/abandoned-session-accepted", &format!("{line} ## abandoned, device after write {i} of {}", writes.len()), "the writer was dropped without a successful finalize, yet the device content is accepted as a complete file");
                    break;
                }
            }
        }
        sink.oracle_evals += 1;
        let fin = run.file.clone();
        if let Ok(Ok(_)) = guarded(|| reader_digest(SimDev::new(fin.clone()), 1000)) {
            sink.fail("C15", "crash/abandoned-session-accepted", &format!("{line} ## abandoned, final device content"), "the writer was dropped without a successful finalize, yet the device content is accepted as a complete file");
        }
        sink.stat("abandoned_program");
    }
}

/// debugging aid: `e57harness exec devdbg <file with one case line>`
pub fn debug_read_fault(line: &str) -> String {
    let (case, tail) = line.split_once(" ## ").unwrap_or((line, ""));
    let k: u64 = tail.trim().trim_start_matches("read_fault_at=").parse().unwrap_or(0);
    let Some((_, prog)) = parse_case_line(case) else { return "BADCASE".into() };
    let dev = SimDev::new(vec![]);
    let run = execute(&prog, &dev);
    let base = reader_digest(SimDev::new(run.file.clone()), 100000).unwrap_or_default();
    let d = SimDev::new(run.file.clone());
    d.set_fault(Some(k));
    let dg = reader_digest(d, 100000).unwrap_or_else(|e| format!("ERR {e}"));
    let a: Vec<&str> = base.split(' ').collect();
    let b: Vec<&str> = dg.split(' ').collect();
    let mut out = format!("tokens {} vs {}\n", a.len(), b.len());
    for (x, y) in a.iter().zip(b.iter()) {
        if x != y {
            out.push_str(&format!("  base: {}\n  got:  {}\n", &x[..x.len().min(150)], &y[..y.len().min(150)]));
        }
    }
    out
}
