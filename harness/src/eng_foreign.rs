//! Engine "foreign": well-formed elements/attributes of a foreign namespace inserted into the XML
//! of written files (through the caller's XML transformer) must not change anything the reader
//! reports about the standard content (C18); reader model = reader code on the same files.
use crate::dev::SimDev;
use crate::eng_reader;
use crate::eng_writer::*;
use crate::scene::*;
use crate::util::*;
use crate::wprog::*;

const STD_LOCALS: [&str; 36] = [
    "guid", "name", "description", "data3D", "images2D", "vectorChild", "points", "pose", "translation", "rotation",
    "cartesianBounds", "xMinimum", "sphericalBounds", "indexBounds", "intensityLimits", "intensityMinimum", "colorLimits",
    "colorRedMaximum", "dateTimeValue", "isAtomicClockReferenced", "e57Root", "formatName", "versionMajor", "temperature",
    "originalGuids", "pngImage", "jpegImage", "imageMask", "imageWidth", "pinholeRepresentation", "visualReferenceRepresentation",
    "creationDateTime", "coordinateMetadata", "acquisitionStart", "sensorVendor", "x",
];

fn foreign_element(rng: &mut Rng) -> String {
    let local = if rng.chance(3, 4) { (*rng.pick(&STD_LOCALS)).to_string() } else { format!("custom{}", rng.below(100)) };
    match rng.below(6) {
        0 => format!("<fx:{local} type=\"String\"><![CDATA[foreign]]></fx:{local}>\n"),
        1 => format!("<fx:{local} type=\"Integer\">42</fx:{local}>\n"),
        2 => format!("<fx:{local} type=\"Float\">1.5</fx:{local}>\n"),
        3 => format!("<fx:{local} type=\"Structure\">\n<fx:guid type=\"String\"><![CDATA[evil]]></fx:guid>\n<fx:x type=\"Float\">9</fx:x>\n</fx:{local}>\n"),
        4 => "<fx:data3D type=\"Vector\" allowHeterogeneousChildren=\"1\">\n<fx:vectorChild type=\"Structure\">\n<fx:guid type=\"String\"><![CDATA[evil]]></fx:guid>\n<fx:points type=\"CompressedVector\" fileOffset=\"48\" recordCount=\"7\">\n<fx:prototype type=\"Structure\">\n</fx:prototype>\n</fx:points>\n</fx:vectorChild>\n</fx:data3D>\n".to_string(),
        _ => format!("<fx:{local} type=\"Blob\" fileOffset=\"48\" length=\"3\"/>\n"),
    }
}

/// a foreign element with the given local name, of the kind the reader expects under that name
fn foreign_like(local: &str, ty: &str) -> String {
    match ty {
        "Blob" => format!("<fx:{local} type=\"Blob\" fileOffset=\"48\" length=\"3\"/>\n"),
        "Integer" => format!("<fx:{local} type=\"Integer\">42</fx:{local}>\n"),
        "Float" => format!("<fx:{local} type=\"Float\">1.5</fx:{local}>\n"),
        "ScaledInteger" => format!("<fx:{local} type=\"ScaledInteger\" minimum=\"0\" maximum=\"9\" scale=\"2\">3</fx:{local}>\n"),
        "String" => format!("<fx:{local} type=\"String\"><![CDATA[foreign]]></fx:{local}>\n"),
        "Vector" => format!("<fx:{local} type=\"Vector\" allowHeterogeneousChildren=\"1\">\n<fx:vectorChild type=\"String\"><![CDATA[evil]]></fx:vectorChild>\n</fx:{local}>\n"),
        _ => format!("<fx:{local} type=\"Structure\">\n<fx:guid type=\"String\"><![CDATA[evil]]></fx:guid>\n<fx:x type=\"Float\">9</fx:x>\n<fx:jpegImage type=\"Blob\" fileOffset=\"48\" length=\"3\"/>\n<fx:imageWidth type=\"Integer\">7</fx:imageWidth>\n</fx:{local}>\n"),
    }
}

/// optional children of the standard structures with the type the reader expects
const OPTIONAL_CHILDREN: [(&str, &str); 30] = [
    ("imageMask", "Blob"), ("jpegImage", "Blob"), ("pngImage", "Blob"), ("pose", "Structure"), ("name", "String"), ("description", "String"),
    ("cartesianBounds", "Structure"), ("sphericalBounds", "Structure"), ("indexBounds", "Structure"), ("intensityLimits", "Structure"),
    ("colorLimits", "Structure"), ("acquisitionStart", "Structure"), ("acquisitionEnd", "Structure"), ("acquisitionDateTime", "Structure"),
    ("sensorVendor", "String"), ("sensorModel", "String"), ("sensorSerialNumber", "String"), ("temperature", "Float"),
    ("relativeHumidity", "Float"), ("atmosphericPressure", "Float"), ("originalGuids", "Vector"), ("associatedData3DGuid", "String"),
    ("coordinateMetadata", "String"), ("creationDateTime", "Structure"), ("pinholeRepresentation", "Structure"),
    ("sphericalRepresentation", "Structure"), ("cylindricalRepresentation", "Structure"), ("visualReferenceRepresentation", "Structure"),
    ("rotation", "Structure"), ("translation", "Structure"),
];

/// "shadow" insertions: (position, text) — a foreign twin directly BEFORE a standard element (same parent, same
/// local name, same type), or a foreign optional child as FIRST child of a structure
fn shadow_insertion(rng: &mut Rng, xml: &str, prefer_rep: bool) -> Option<(usize, String, &'static str)> {
    let mut twins: Vec<(usize, String, String)> = vec![]; // line start, tag, type
    let mut first_child: Vec<(usize, String)> = vec![]; // position after an opening Structure line, parent tag
    let mut pos = 0usize;
    let mut in_proto = false;
    let mut line_no = 0;
    for line in xml.split_inclusive('\n') {
        if line.starts_with("</prototype>") {
            in_proto = false;
        }
        if line_no >= 2 && !in_proto && line.starts_with('<') && !line.starts_with("</") {
            let tag: String = line[1..].chars().take_while(|c| c.is_ascii_alphanumeric()).collect();
            let ty = line.split("type=\"").nth(1).and_then(|r| r.split('"').next()).unwrap_or("").to_string();
            if !tag.is_empty() && !line[1..].starts_with("fx:") {
                twins.push((pos, tag.clone(), ty.clone()));
                if ty == "Structure" && !line.contains("</") && tag != "prototype" {
                    first_child.push((pos + line.len(), tag));
                }
            }
        }
        if line.starts_with("<prototype") {
            in_proto = true;
        }
        pos += line.len();
        line_no += 1;
    }
    if prefer_rep {
        // an image representation gets a foreign blob child (mask or image data) in front of its own
        let reps: Vec<&(usize, String)> = first_child.iter().filter(|f| f.1.ends_with("Representation")).collect();
        if !reps.is_empty() {
            let f = *rng.pick(&reps);
            let (l, ty) = *rng.pick(&[("imageMask", "Blob"), ("jpegImage", "Blob"), ("pngImage", "Blob"), ("imageMask", "Blob")]);
            return Some((f.0, foreign_like(l, ty), "element-optional-child"));
        }
    }
    if rng.chance(1, 2) && !twins.is_empty() {
        // prefer the rarer kinds (Blob, Structure) over the many String/Float leaves
        let rare: Vec<&(usize, String, String)> = twins.iter().filter(|t| t.2 == "Blob" || t.2 == "Structure" || t.2 == "Vector").collect();
        let t = if !rare.is_empty() && rng.chance(1, 2) { *rng.pick(&rare) } else { rng.pick(&twins) };
        Some((t.0, foreign_like(&t.1, &t.2), "element-twin"))
    } else if !first_child.is_empty() {
        // an image representation gets a foreign mask / blob, a cloud foreign bounds, …
        let reps: Vec<&(usize, String)> = first_child.iter().filter(|f| f.1.ends_with("Representation")).collect();
        let f = if !reps.is_empty() && rng.chance(1, 2) { *rng.pick(&reps) } else { rng.pick(&first_child) };
        // what the reader looks up under this parent
        let (l, ty) = if f.1.ends_with("Representation") {
            *rng.pick(&[("imageMask", "Blob"), ("jpegImage", "Blob"), ("pngImage", "Blob"), ("imageMask", "Blob")])
        } else if f.1 == "pose" {
            *rng.pick(&[("rotation", "Structure"), ("translation", "Structure")])
        } else {
            *rng.pick(&OPTIONAL_CHILDREN)
        };
        Some((f.0, foreign_like(l, ty), "element-optional-child"))
    } else {
        None
    }
}

/// byte offsets of line starts where an element may be inserted as a sibling: inside the root,
/// outside every prototype

/// (all insertion points, those directly inside a Vector container: data3D, images2D, originalGuids)
fn insertion_points2(xml: &str) -> (Vec<usize>, Vec<usize>) {
    let mut pts = vec![];
    let mut vec_pts = vec![];
    let mut prev_vec = false;
    let mut pos = 0usize;
    let mut in_proto = false;
    let mut line_no = 0;
    for line in xml.split_inclusive('\n') {
        if line.starts_with("</prototype>") {
            in_proto = false;
            // before </prototype> would be inside the prototype
            pos += line.len();
            line_no += 1;
            continue;
        }
        if line_no >= 2 && !in_proto && line.starts_with('<') {
            pts.push(pos);
            if prev_vec || line.starts_with("</originalGuids>") || line.starts_with("</data3D>") || line.starts_with("</images2D>") {
                vec_pts.push(pos);
            }
        }
        prev_vec = line.contains("type=\"Vector\"") || (line.starts_with("<vectorChild type=\"String\"") && !in_proto);
        if line.starts_with("<prototype") {
            in_proto = true;
        }
        pos += line.len();
        line_no += 1;
    }
    (pts, vec_pts)
}

/// byte offsets right after an element's tag name where a foreign attribute can be inserted
fn attribute_points(xml: &str) -> Vec<usize> {
    let mut pts = vec![];
    let mut pos = 0usize;
    let mut in_proto = false;
    let mut line_no = 0;
    for line in xml.split_inclusive('\n') {
        if line.starts_with("</prototype>") {
            in_proto = false;
        }
        if line_no >= 1 && !in_proto && line.starts_with('<') && !line.starts_with("</") && !line.starts_with("<?") {
            if let Some(k) = line.find(|c| c == ' ' || c == '>' || c == '/') {
                pts.push(pos + k);
            }
        }
        if line.starts_with("<prototype") {
            in_proto = true;
        }
        pos += line.len();
        line_no += 1;
    }
    pts
}

/// offset of the `>` (or of the `/` of `/>`) that closes the start tag containing offset `p`, quotes respected
fn start_tag_end(xml: &str, p: usize) -> Option<usize> {
    let b = xml.as_bytes();
    let mut q: Option<u8> = None;
    let mut i = p;
    while i < b.len() {
        match (q, b[i]) {
            (Some(c), x) if x == c => q = None,
            (Some(_), _) => {}
            (None, b'"') | (None, b'\'') => q = Some(b[i]),
            (None, b'>') => return Some(if i > p && b[i - 1] == b'/' { i - 1 } else { i }),
            _ => {}
        }
        i += 1;
    }
    None
}

pub fn exec(line: &str) -> String {
    eng_reader::exec(line)
}

fn same_scene(a: &Scene, b: &Scene) -> Vec<Diff> {
    // symmetric use of the comparison: `a` plays the role of the expectation
    compare(a, b)
}

pub fn generate(sink: &mut Sink, seed: u64, thorough: bool) {
    let mut rng = Rng::new(seed ^ 0xF0E1);
    // counts the plain attribute insertions: placement (front or end of the start tag) and the blob elements
    // are taken in turn from it, so that no random draw is added and every other case keeps its stream
    let mut attr_turn = 0usize;
    let mut vec_turn = 0usize;
    let n = if thorough { 1500 } else { 220 };
    let mut made = 0;
    let mut tries = 0;
    while made < n && tries < 6 * n {
        tries += 1;
        let mut prog = {
            let mut g = Gen { rng: &mut rng, exts: vec![], n: 0 };
            g.program(12)
        };
        // double-precision float limits are rare in random programs: every sixth program is a small cloud with
        // float intensity and colour and explicit limits
        if rng.chance(1, 6) {
            let f = |x: f64| Val::D(x.to_bits());
            let proto = vec![
                Rec { name: RName::Std("cartesianX".into()), dt: DT::F32(None, None) },
                Rec { name: RName::Std("cartesianY".into()), dt: DT::F32(None, None) },
                Rec { name: RName::Std("cartesianZ".into()), dt: DT::F32(None, None) },
                Rec { name: RName::Std("intensity".into()), dt: DT::F64(None, None) },
                Rec { name: RName::Std("colorRed".into()), dt: DT::F64(None, None) },
                Rec { name: RName::Std("colorGreen".into()), dt: DT::F64(None, None) },
                Rec { name: RName::Std("colorBlue".into()), dt: DT::F64(None, None) },
            ];
            let mut body = vec![
                PcStmt::Il(Some((Some(f(0.1)), Some(f(0.7))))),
                PcStmt::Cl(Some([Some(f(0.0)), Some(f(0.5)), Some(f(0.25)), Some(f(1.0)), Some(f(-1.0)), Some(f(3.0))])),
            ];
            for k in 0..3 {
                let x = k as f64 * 0.3;
                body.push(PcStmt::P(vec![Val::F(1f32.to_bits()), Val::F(2f32.to_bits()), Val::F(3f32.to_bits()), f(x), f(x), f(x + 0.1), f(x - 0.5)]));
            }
            prog = Program { guid: "limits".into(), stmts: vec![Stmt::Pc { guid: "pc".into(), proto, body, end: true }, Stmt::Fin] };
        }
        // images are rare in random programs: every third program gets one more
        if rng.chance(1, 3) {
            let im = {
                let mut g = Gen { rng: &mut rng, exts: vec![], n: 1000 };
                g.image()
            };
            let at = prog.stmts.len() - 1;
            prog.stmts.insert(at, im);
        }
        // the optional originalGuids vector is rare in random programs: make it common here
        for st in prog.stmts.iter_mut() {
            if let Stmt::Pc { body, .. } = st {
                if rng.chance(1, 2) {
                    let gs: Vec<String> = (0..rng.below(3)).map(|k| format!("orig-{k}")).collect();
                    body.insert(0, PcStmt::Og(Some(gs)));
                }
            }
        }
        // the foreign namespace: mostly an unrelated URI, sometimes one that merely LOOKS like the
        // E57 namespace (extends it, is a prefix of it, differs in case or by a trailing slash)
        let fx_url = match rng.below(8) {
            0 => "http://www.astm.org/COMMIT/E57/2010-e57-v1.0/extensions/acme",
            1 => "http://www.astm.org/COMMIT/E57/2010-e57-v1.0/",
            2 => "http://www.astm.org/COMMIT/E57/2010-e57-v1",
            3 => "HTTP://WWW.ASTM.ORG/COMMIT/E57/2010-E57-V1.0",
            4 => "http://www.astm.org/COMMIT/E57/2010-e57-v1.0#x",
            _ => "urn:example:foreign",
        };
        prog.stmts.insert(0, Stmt::Ext("fx".into(), fx_url.into()));
        // half of the clouds get an extension record of the foreign namespace whose local name is often a
        // standard record name (used by the "record with a locally declared default namespace" insertion)
        for st in prog.stmts.iter_mut() {
            if let Stmt::Pc { proto, body, .. } = st {
                if rng.chance(1, 2) && !proto.is_empty() {
                    let local = *rng.pick(&["intensity", "colorRed", "rowIndex", "timeStamp", "cartesianX", "custom7", "isColorInvalid"]);
                    proto.push(Rec { name: RName::Ext("fx".into(), local.into()), dt: DT::I(0, 255) });
                    let mut k = 0i64;
                    for b in body.iter_mut() {
                        if let PcStmt::P(vs) = b {
                            vs.push(Val::I(k % 256));
                            k += 7;
                        }
                    }
                }
            }
        }
        // baseline
        let dev = SimDev::new(vec![]);
        let base = execute(&prog, &dev);
        if base.panicked || base.results.last().map(|s| s != "ok").unwrap_or(true) {
            continue;
        }
        let xml = String::from_utf8(extract_xml(&base.file)).unwrap_or_default();
        let maxp = 200;
        let Ok(Ok(scene_a)) = guarded(|| read_scene(&base.file, maxp)) else { continue };
        // a record of the foreign namespace re-declared without prefix: `<fx:name …>` becomes
        // `<name xmlns="urn:local-default" …>` — still a foreign-namespace record, never a standard one
        let fx_lines: Vec<&str> = xml.lines().filter(|l| l.starts_with("<fx:") && l.contains("</fx:")).collect();
        if !fx_lines.is_empty() && rng.chance(1, 3) {
            let l = *rng.pick(&fx_lines);
            if xml.matches(l).count() == 1 {
                let name_end = l.find(' ').unwrap_or(l.len());
                let local = &l[4..name_end];
                let rest = &l[name_end..];
                let close = format!("</fx:{local}>");
                let new_line = format!("<{local} xmlns=\"urn:local-default\"{}", rest.replace(&close, &format!("</{local}>")));
                let n_stmts = prog.stmts.len();
                prog.stmts[n_stmts - 1] = Stmt::FinX(format!("sub:{}:{}", hexs(l), hexs(&new_line)));
                let dev2 = SimDev::new(vec![]);
                let run = execute(&prog, &dev2);
                made += 1;
                sink.oracle_evals += 1;
                sink.stat("insert_record-local-default-ns");
                let replay = {
                    let lv = library_version();
                    prog.case_line(&lv)
                };
                if run.panicked || run.results.last().map(|s| s != "ok").unwrap_or(true) {
                    sink.fail("C18", "foreign/write-failed", &replay, "finalize with the transformer failed");
                    continue;
                }
                match guarded(|| read_scene(&run.file, maxp)) {
                    Err(p) => sink.fail("C18", "foreign/panic-on-foreign-content", &replay, &format!("panic: {p}")),
                    Ok(Err(e)) => sink.fail("C18", "foreign/record-ns-breaks-open", &replay, &format!("re-declaring fx:{local} with a local default namespace makes the file unreadable: {e}")),
                    Ok(Ok(scene_b)) => {
                        // expected: the same scene, that one record reported without prefix
                        let mut exp = scene_a.clone();
                        let mut hit = false;
                        for c in exp.clouds.iter_mut() {
                            for r in c.proto.iter_mut() {
                                if !hit && r.name == RName::Ext("fx".into(), local.to_string()) && l.contains(&format!("<fx:{local} ")) {
                                    // only the cloud whose prototype line was rewritten; prototypes are listed in order,
                                    // so rewrite the first one whose line text matches
                                    hit = true;
                                    r.name = RName::Ext(String::new(), local.to_string());
                                }
                            }
                        }
                        let diffs = same_scene(&exp, &scene_b);
                        // (if several clouds carry the same record, the rewritten one may not be the first: accept
                        // exactly one renamed record anywhere)
                        let renamed_ok = diffs.is_empty() || {
                            let total_a: usize = scene_a.clouds.iter().map(|c| c.proto.iter().filter(|r| r.name == RName::Ext("fx".into(), local.to_string())).count()).sum();
                            let total_b: usize = scene_b.clouds.iter().map(|c| c.proto.iter().filter(|r| r.name == RName::Ext("fx".into(), local.to_string())).count()).sum();
                            let unp_b: usize = scene_b.clouds.iter().map(|c| c.proto.iter().filter(|r| r.name == RName::Ext(String::new(), local.to_string())).count()).sum();
                            total_b + 1 == total_a && unp_b == 1 && diffs.iter().all(|(_, sig, _)| sig.starts_with("prototype/"))
                        };
                        if !renamed_ok {
                            let (_, sig, detail) = &diffs[0];
                            sink.fail("C18", &format!("foreign/record-local-ns-changes/{sig}"), &replay, &format!("re-declaring fx:{local} with a local default namespace changes the content: {detail}"));
                        }
                    }
                }
                let ops = eng_reader::ops_for(&mut rng, &run.file, false);
                let line = eng_reader::case_line(&run.file, &ops);
                let o: Vec<&str> = ops.iter().map(|s| s.as_str()).collect();
                let out = eng_reader::run_ops(&run.file, &o);
                sink.case(line, out, true);
                continue;
            }
        }
        // choose an insertion
        let (pos, text, kind) = if rng.chance(1, 4) {
            let pts = attribute_points(&xml);
            if pts.is_empty() {
                continue;
            }
            // a foreign attribute with the local name of a standard one and a value that would mean something
            let (a, v) = *rng.pick(&[
                ("type", "Bogus"), ("type", "String"), ("type", "Integer"), ("type", "Float"), ("type", "Structure"), ("fileOffset", "0"),
                ("fileOffset", "99999999"), ("length", "0"), ("length", "99999999"), ("recordCount", "0"), ("recordCount", "99999999"),
                ("minimum", "0"), ("maximum", "99999999"), ("minimum", "7"), ("maximum", "-7"), ("precision", "single"), ("precision", "double"),
                ("precision", "single"), ("scale", "2"), ("offset", "100"), ("allowHeterogeneousChildren", "0"), ("custom", "x"),
            ]);
            // half of the time on an element of type Float (limits, bounds, pose, …) when there is one
            let float_pts: Vec<usize> = pts.iter().copied().filter(|&p| xml[p..].split('\n').next().map(|l| l.contains("type=\"Float\"")).unwrap_or(false)).collect();
            // limit elements (their precision attribute decides the kind of value reported) get it most often
            let limit_pts: Vec<usize> = float_pts.iter().copied().filter(|&p| {
                let start = xml[..p].rfind('\n').map(|i| i + 1).unwrap_or(0);
                xml[start..p].starts_with("<intensityM") || xml[start..p].starts_with("<color")
            }).collect();
            if !limit_pts.is_empty() {
                sink.stat("xml_with_float_limits");
            }
            if !limit_pts.is_empty() && rng.chance(1, 2) {
                sink.stat("insert_attribute_precision_on_limit");
                (*rng.pick(&limit_pts), format!(" fx:precision=\"{}\"", *rng.pick(&["single", "double"])), "attribute")
            } else {
                let at = if !float_pts.is_empty() && rng.chance(1, 2) { *rng.pick(&float_pts) } else { *rng.pick(&pts) };
                let (mut at, mut a, mut v) = (at, a, v);
                attr_turn += 1;
                // blob elements (image payloads, masks): their fileOffset / length attributes decide which bytes are
                // returned, so every second attribute case of a document with images goes there
                let blob_pts: Vec<usize> = pts.iter().copied().filter(|&p| xml[p..].split('\n').next().map(|l| l.contains("type=\"Blob\"")).unwrap_or(false)).collect();
                if !blob_pts.is_empty() && attr_turn % 2 == 0 {
                    let k = attr_turn / 2;
                    at = blob_pts[k % blob_pts.len()];
                    let (a2, v2) = [("fileOffset", "0"), ("length", "0"), ("fileOffset", "99999999"), ("length", "1")][(k / 2) % 4];
                    a = a2;
                    v = v2;
                    sink.stat("insert_attribute_on_blob_element");
                }
                // behind the element's own attributes instead of in front of them, every other time
                if (attr_turn / 2) % 2 == 1 {
                    if let Some(e) = start_tag_end(&xml, at) {
                        at = e;
                        sink.stat("insert_attribute_at_end_of_tag");
                    }
                }
                (at, format!(" fx:{a}=\"{v}\""), "attribute")
            }
        } else if rng.chance(1, 6) {
            // a foreign element INSIDE a leaf element, in front of its text (mixed content)
            let mut spots: Vec<usize> = vec![];
            let mut pos = 0usize;
            let mut in_proto = false;
            for (ln, line) in xml.split_inclusive('\n').enumerate() {
                if line.starts_with("</prototype>") {
                    in_proto = false;
                }
                if ln >= 2 && !in_proto && line.starts_with('<') && !line.starts_with("</") && line.contains("</") && !line.starts_with("<fx:") {
                    if let Some(k) = line.find('>') {
                        spots.push(pos + k + 1);
                        // … and in the middle of a plain (not CDATA) text
                        if let Some(e) = line.rfind("</") {
                            let txt = &line[k + 1..e];
                            if txt.len() >= 2 && txt.is_ascii() && !txt.starts_with('<') {
                                spots.push(pos + k + 1 + txt.len() / 2);
                            }
                        }
                    }
                }
                if line.starts_with("<prototype") {
                    in_proto = true;
                }
                pos += line.len();
            }
            if spots.is_empty() {
                continue;
            }
            (*rng.pick(&spots), (*rng.pick(&["<fx:note/>", "<fx:guid type=\"String\">evil</fx:guid>", "<!-- c -->", "<?pi x?>"])).to_string(), "element-inside-leaf")
        } else if xml.contains("Representation type=") && rng.chance(1, 3) {
            match shadow_insertion(&mut rng, &xml, true) {
                Some(x) => x,
                None => continue,
            }
        } else if rng.chance(1, 2) {
            match shadow_insertion(&mut rng, &xml, false) {
                Some(x) => x,
                None => continue,
            }
        } else {
            let (pts, vec_pts) = insertion_points2(&xml);
            if pts.is_empty() {
                continue;
            }
            if !vec_pts.is_empty() && rng.chance(1, 3) {
                let (mut at, mut el) = (*rng.pick(&vec_pts), foreign_element(&mut rng));
                // every second insertion into a vector of a document with original guids: a foreign String element
                // among the guids (taken in turn, no random draw added)
                vec_turn += 1;
                let guid_pts: Vec<usize> = vec_pts.iter().copied().filter(|&p| {
                    let b = &xml[..p];
                    match (b.rfind("<originalGuids"), b.rfind("</originalGuids>")) {
                        (Some(o), Some(c)) => o > c,
                        (Some(_), None) => true,
                        _ => false,
                    }
                }).collect();
                if !guid_pts.is_empty() && vec_turn % 2 == 0 {
                    let k = vec_turn / 2;
                    at = guid_pts[k % guid_pts.len()];
                    el = foreign_like(["vectorChild", "guid", "custom7"][k % 3], "String");
                    sink.stat("insert_string_among_original_guids");
                }
                (at, el, "element-in-vector")
            } else {
                (*rng.pick(&pts), foreign_element(&mut rng), "element")
            }
        };
        let n_stmts = prog.stmts.len();
        prog.stmts[n_stmts - 1] = Stmt::FinX(format!("ins:{}:{}", pos, hexs(&text)));
        let dev2 = SimDev::new(vec![]);
        let run = execute(&prog, &dev2);
        made += 1;
        sink.oracle_evals += 1;
        sink.stat(&format!("insert_{kind}"));
        // context of the insertion for the signature
        let before = &xml[..pos.min(xml.len())];
        let parent = before.rsplit('\n').find(|l| l.starts_with('<') && !l.starts_with("</") && !l.contains("</") && !l.ends_with("/>")).map(|l| l.trim_start_matches('<').split(|c| c == ' ' || c == '>').next().unwrap_or("").to_string()).unwrap_or_default();
        let local = text.trim_start().trim_start_matches("<fx:").split(|c| c == ' ' || c == '=').next().unwrap_or("").to_string();
        let replay = {
            let lv = library_version();
            prog.case_line(&lv)
        };
        if run.panicked || run.results.last().map(|s| s != "ok").unwrap_or(true) {
            sink.fail("C18", "foreign/write-failed", &replay, "finalize with the transformer failed");
            continue;
        }
        match guarded(|| read_scene(&run.file, maxp)) {
            Err(p) => {
                sink.fail("C08", "reader/panic-on-foreign-content", &replay, &format!("panic: {p}"));
                sink.fail("C18", "foreign/panic-on-foreign-content", &replay, &format!("panic: {p}"));
            }
            Ok(Err(e)) if kind == "element-inside-leaf" => sink.fail("C18", "foreign/element-inside-leaf-hides-text", &replay, &format!("a foreign element in front of the text of a leaf element makes the file unreadable: {e}")),
            Ok(Err(e)) => sink.fail("C18", &format!("foreign/{kind}-breaks-open"), &replay, &format!("inserting {} under <{parent}> makes the file unreadable: {e}", text.trim().lines().next().unwrap_or(""))),
            Ok(Ok(scene_b)) => {
                let diffs = same_scene(&scene_a, &scene_b);
                if let (Some((_, _, detail)), "element-inside-leaf") = (diffs.first(), kind) {
                    // one signature for the whole class (listed in known_findings.json)
                    sink.fail("C18", "foreign/element-inside-leaf-hides-text", &replay, &format!("a foreign element in front of the text of a leaf element changes the standard content: {detail}"));
                } else if let Some((_, sig, detail)) = diffs.first() {
                    sink.fail("C18", &format!("foreign/{kind}-changes/{sig}"), &replay, &format!("inserting fx:{local} under <{parent}> changes the standard content: {detail}"));
                    if sig.starts_with("blob/") {
                        // an image's descriptors no longer lead to that image's own data
                        sink.fail("C06", &format!("foreign/{kind}-changes/{sig}"), &replay, &format!("inserting fx:{local} under <{parent}> makes the reader return other bytes for an image: {detail}"));
                    }
                }
            }
        }
        // reader model vs reader code on the file with the foreign content
        let ops = eng_reader::ops_for(&mut rng, &run.file, false);
        let line = eng_reader::case_line(&run.file, &ops);
        let o: Vec<&str> = ops.iter().map(|s| s.as_str()).collect();
        let out = eng_reader::run_ops(&run.file, &o);
        sink.case(line, out, STD_LOCALS.contains(&local.as_str()) || kind == "attribute");
    }
}
