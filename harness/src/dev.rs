//! Simulated random-access device with the semantics of `Cursor<Vec<u8>>`, shared so that the
//! harness can inspect it while the library owns it; optional recording, fault injection and
//! short (chunked) transfers.
use crate::util::Rng;
use std::cell::RefCell;
use std::io::{Error, ErrorKind, Read, Result, Seek, SeekFrom, Write};
use std::rc::Rc;

#[derive(Clone, Debug, PartialEq)]
pub enum Ev {
    Write(u64, Vec<u8>),
    Read(u64, usize),
    Seek(u64),
    Flush,
}

#[derive(Clone, Copy, Debug, PartialEq)]
pub enum Beh {
    Full,
    Short(usize),
    Fail,
    Interrupted,
}

pub struct DevState {
    pub data: Vec<u8>,
    pub pos: u64,
    pub ops: u64,
    pub fault_at: Option<u64>,
    pub faulted: bool,
    /// the injected fault is reported as `ErrorKind::Interrupted` (std's write_all/read_exact retry those)
    pub fault_interrupted: bool,
    pub chunk: Option<Rng>,
    /// per-call behaviours chosen by the environment (engine devio): consumed one per device call;
    /// an exhausted schedule means complete transfers
    pub sched: Option<std::collections::VecDeque<Beh>>,
    /// limit of the transfer of the call in progress (from `Beh::Short`)
    pub short_now: Option<usize>,
    pub record: bool,
    pub log: Vec<Ev>,
}

#[derive(Clone)]
pub struct SimDev(pub Rc<RefCell<DevState>>);

impl SimDev {
    pub fn new(data: Vec<u8>) -> Self {
        SimDev(Rc::new(RefCell::new(DevState {
            data,
            pos: 0,
            ops: 0,
            fault_at: None,
            faulted: false,
            fault_interrupted: false,
            chunk: None,
            sched: None,
            short_now: None,
            record: false,
            log: vec![],
        })))
    }
    pub fn data(&self) -> Vec<u8> {
        self.0.borrow().data.clone()
    }
    pub fn pos(&self) -> u64 {
        self.0.borrow().pos
    }
    pub fn ops(&self) -> u64 {
        self.0.borrow().ops
    }
    pub fn set_fault(&self, at: Option<u64>) {
        let mut s = self.0.borrow_mut();
        s.fault_at = at;
        s.faulted = false;
    }
    pub fn set_fault_interrupted(&self, on: bool) {
        self.0.borrow_mut().fault_interrupted = on;
    }
    pub fn set_chunk(&self, rng: Option<Rng>) {
        self.0.borrow_mut().chunk = rng;
    }
    pub fn set_record(&self, on: bool) {
        self.0.borrow_mut().record = on;
    }
    pub fn log(&self) -> Vec<Ev> {
        self.0.borrow().log.clone()
    }
    pub fn faulted(&self) -> bool {
        self.0.borrow().faulted
    }
    pub fn set_sched(&self, sched: Vec<Beh>) {
        self.0.borrow_mut().sched = Some(sched.into_iter().collect());
    }
    pub fn sched_left(&self) -> usize {
        self.0.borrow().sched.as_ref().map(|q| q.len()).unwrap_or(0)
    }
    fn tick(s: &mut DevState) -> Result<()> {
        let n = s.ops;
        s.ops += 1;
        s.short_now = None;
        if let Some(q) = s.sched.as_mut() {
            match q.pop_front().unwrap_or(Beh::Full) {
                Beh::Full => {}
                Beh::Short(k) => s.short_now = Some(k),
                Beh::Fail => return Err(Error::new(ErrorKind::Other, "scheduled device fault")),
                Beh::Interrupted => return Err(Error::new(ErrorKind::Interrupted, "scheduled interruption")),
            }
        }
        if s.fault_at == Some(n) {
            s.faulted = true;
            let kind = if s.fault_interrupted { ErrorKind::Interrupted } else { ErrorKind::Other };
            return Err(Error::new(kind, "injected device fault"));
        }
        Ok(())
    }
}

impl Read for SimDev {
    fn read(&mut self, buf: &mut [u8]) -> Result<usize> {
        let mut s = self.0.borrow_mut();
        Self::tick(&mut s)?;
        let len = s.data.len() as u64;
        let pos = s.pos.min(len) as usize;
        let avail = s.data.len() - pos;
        let mut n = buf.len().min(avail);
        if let Some(k) = s.short_now {
            n = n.min(k);
        }
        if n > 1 {
            if let Some(r) = s.chunk.as_mut() {
                n = 1 + r.below(n as u64) as usize;
            }
        }
        buf[..n].copy_from_slice(&s.data[pos..pos + n]);
        if s.record {
            let p = s.pos;
            s.log.push(Ev::Read(p, n));
        }
        s.pos += n as u64;
        Ok(n)
    }
}

impl Write for SimDev {
    fn write(&mut self, buf: &[u8]) -> Result<usize> {
        let mut s = self.0.borrow_mut();
        Self::tick(&mut s)?;
        let mut n = buf.len();
        if let Some(k) = s.short_now {
            n = n.min(k);
        }
        if n > 1 {
            if let Some(r) = s.chunk.as_mut() {
                n = 1 + r.below(n as u64) as usize;
            }
        }
        let pos = s.pos as usize;
        if pos > s.data.len() {
            s.data.resize(pos, 0);
        }
        let end = pos + n;
        if end > s.data.len() {
            s.data.resize(end, 0);
        }
        s.data[pos..end].copy_from_slice(&buf[..n]);
        if s.record {
            s.log.push(Ev::Write(pos as u64, buf[..n].to_vec()));
        }
        s.pos = end as u64;
        Ok(n)
    }
    fn flush(&mut self) -> Result<()> {
        let mut s = self.0.borrow_mut();
        Self::tick(&mut s)?;
        if s.record {
            s.log.push(Ev::Flush);
        }
        Ok(())
    }
}

impl Seek for SimDev {
    fn seek(&mut self, pos: SeekFrom) -> Result<u64> {
        let mut s = self.0.borrow_mut();
        Self::tick(&mut s)?;
        let (base, off) = match pos {
            SeekFrom::Start(n) => {
                s.pos = n;
                if s.record {
                    s.log.push(Ev::Seek(n));
                }
                return Ok(n);
            }
            SeekFrom::End(n) => (s.data.len() as u64, n),
            SeekFrom::Current(n) => (s.pos, n),
        };
        match base.checked_add_signed(off) {
            Some(n) => {
                s.pos = n;
                if s.record {
                    s.log.push(Ev::Seek(n));
                }
                Ok(n)
            }
            None => Err(Error::new(ErrorKind::InvalidInput, "invalid seek to a negative or overflowing position")),
        }
    }
}

/// independent bitwise CRC-32C (Castagnoli, reflected, init/xorout ~0)
pub fn ref_crc32c(data: &[u8]) -> u32 {
    let mut crc: u32 = !0;
    for b in data {
        crc ^= *b as u32;
        for _ in 0..8 {
            crc = if crc & 1 == 1 { (crc >> 1) ^ 0x82F6_3B78 } else { crc >> 1 };
        }
    }
    !crc
}

/// independent reference: paged image of a logical stream (length must be a multiple of 1020)
pub fn ref_pages(logical: &[u8]) -> Vec<u8> {
    let mut out = Vec::with_capacity(logical.len() / 1020 * 1024);
    for p in logical.chunks(1020) {
        let mut page = p.to_vec();
        page.resize(1020, 0);
        out.extend_from_slice(&page);
        out.extend_from_slice(&ref_crc32c(&page).to_be_bytes());
    }
    out
}

pub fn gen_data(n: usize, seed: usize) -> Vec<u8> {
    (0..n).map(|i| ((seed + 7 * i) % 251) as u8).collect()
}
