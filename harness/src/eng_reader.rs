//! Engine "reader": read operations on files (from the real writer, bundled test data, mutants,
//! damaged files) — real reader vs Lean model; oracles for C05, C13, C17, C09 (count), C08.
use crate::eng_writer::*;
use crate::scene::*;
use crate::util::*;
use crate::wprog::*;
use e57::*;
use std::collections::BTreeMap;
use std::io::Cursor;

// ------------------------------------------------------------------ XML tree dump

fn ohex(o: Option<&str>) -> String {
    match o {
        Some(s) => hexs(s),
        None => "~".into(),
    }
}

fn dump_node(n: roxmltree::Node, out: &mut Vec<String>, strings: &mut Vec<String>) {
    if n.is_element() {
        let uri = n.tag_name().namespace();
        let pfx = n.lookup_prefix(uri.unwrap_or_default());
        out.push("E".into());
        out.push(ohex(uri));
        out.push(ohex(pfx));
        out.push(hexs(n.tag_name().name()));
        let attrs: Vec<_> = n.attributes().collect();
        out.push(attrs.len().to_string());
        for a in attrs {
            out.push(ohex(a.namespace()));
            out.push(hexs(a.name()));
            out.push(hexs(a.value()));
            strings.push(a.value().to_string());
        }
        let children: Vec<_> = n.children().collect();
        out.push(children.len().to_string());
        // the value of a leaf is ALL its text (pieces may be separated by foreign elements or comments): the float
        // table needs the concatenation as well
        let pieces: Vec<&str> = children.iter().filter(|c| c.is_text()).filter_map(|c| c.text()).collect();
        if pieces.len() > 1 {
            strings.push(pieces.concat());
        }
        for c in children {
            dump_node(c, out, strings);
        }
    } else if n.is_text() {
        out.push("T".into());
        let t = n.text().unwrap_or("");
        out.push(hexs(t));
        strings.push(t.to_string());
    } else if n.is_comment() {
        out.push("C".into());
    } else {
        out.push("P".into());
    }
}

/// (tree tokens, float parse table tokens)
pub fn dump_xml(xml: &[u8]) -> (Vec<String>, Vec<String>) {
    let mut strings: Vec<String> = vec!["0".into()];
    let tree = match std::str::from_utf8(xml).ok().and_then(|s| roxmltree::Document::parse(s).ok()) {
        None => vec!["TFAIL".to_string()],
        Some(doc) => {
            let mut out = vec!["TREE".to_string()];
            let nss: Vec<_> = doc.root_element().namespaces().collect();
            out.push(nss.len().to_string());
            for ns in nss {
                out.push(ohex(ns.name()));
                out.push(hexs(ns.uri()));
            }
            dump_node(doc.root_element(), &mut out, &mut strings);
            out
        }
    };
    let mut table: BTreeMap<String, (Option<u64>, Option<u32>)> = BTreeMap::new();
    // numbers are parsed after trimming: the table needs the trimmed texts as well
    let trimmed: Vec<String> = strings.iter().map(|s| s.trim().to_string()).filter(|t| !t.is_empty()).collect();
    for s in strings.into_iter().chain(trimmed) {
        let a = s.parse::<f64>().ok().map(|f| f.to_bits());
        let b = s.parse::<f32>().ok().map(|f| f.to_bits());
        if a.is_some() || b.is_some() {
            table.insert(s, (a, b));
        }
    }
    let mut fp = vec!["FP".to_string(), table.len().to_string()];
    for (s, (a, b)) in table {
        fp.push(hexs(&s));
        fp.push(opt_tok(&a, |x| x.to_string()));
        fp.push(opt_tok(&b, |x| x.to_string()));
    }
    (tree, fp)
}

/// reference extraction of the XML section (independent of the crate): None = cannot be extracted
pub fn ref_extract_xml(file: &[u8]) -> Option<Vec<u8>> {
    if file.len() < 48 || file.len() % 1024 != 0 {
        return None;
    }
    let off = u64::from_le_bytes(file[24..32].try_into().unwrap());
    let len = u64::from_le_bytes(file[32..40].try_into().unwrap());
    if off >= file.len() as u64 || len > 10 * 1024 * 1024 {
        return None;
    }
    let mut logical = Vec::with_capacity(file.len());
    for p in file.chunks(1024) {
        if crate::dev::ref_crc32c(&p[..1020]).to_be_bytes() != p[1020..] {
            // a damaged page: the reference only vouches for XML that lies on valid pages
            logical.extend(std::iter::repeat(0u8).take(1020));
            continue;
        }
        logical.extend_from_slice(&p[..1020]);
    }
    let lo = (off - 4 * (off / 1024)) as usize;
    let hi = lo.checked_add(len as usize)?;
    if hi > logical.len() {
        return None;
    }
    // XML touching a damaged page cannot be vouched for
    for pg in lo / 1020..=(hi.saturating_sub(1)) / 1020 {
        let p = &file[pg * 1024..(pg + 1) * 1024];
        if crate::dev::ref_crc32c(&p[..1020]).to_be_bytes() != p[1020..] {
            return None;
        }
    }
    Some(logical[lo..hi].to_vec())
}

// ------------------------------------------------------------------ canonical dumps (match lean/E57/Drv/Reader.lean)

fn otok<T>(o: &Option<T>, f: impl Fn(&T) -> String) -> String {
    match o {
        Some(v) => f(v),
        None => "~".into(),
    }
}
fn list_tok(l: Vec<String>) -> String {
    if l.is_empty() {
        "[]".into()
    } else {
        l.join(",")
    }
}
fn f64t(x: f64) -> String {
    x.to_bits().to_string()
}
fn of64(o: &Option<f64>) -> String {
    otok(o, |x| f64t(*x))
}
fn date_tok(d: &DateTime) -> String {
    format!("{}:{}", d.gps_time.to_bits(), if d.atomic_reference { 1 } else { 0 })
}
fn tr_tok(t: &Transform) -> String {
    [t.rotation.w, t.rotation.x, t.rotation.y, t.rotation.z, t.translation.x, t.translation.y, t.translation.z].iter().map(|x| f64t(*x)).collect::<Vec<_>>().join(",")
}
fn val_tok(v: &RecordValue) -> String {
    Val::from_rv(v).tok()
}
fn oval(o: &Option<RecordValue>) -> String {
    otok(o, val_tok)
}
fn ostr(o: &Option<String>) -> String {
    otok(o, |s| hexs(s))
}

pub fn pc_tok(pc: &PointCloud) -> String {
    let oint = |o: &Option<i64>| otok(o, |x| x.to_string());
    [
        "PC".to_string(),
        format!("guid={}", ostr(&pc.guid)),
        format!("off={}", pc.file_offset),
        format!("rec={}", pc.records),
        format!("proto={}", list_tok(pc.prototype.iter().map(|r| Rec::from_record(r).tok()).collect())),
        format!("og={}", otok(&pc.original_guids, |l| list_tok(l.iter().map(|g| hexs(g)).collect()))),
        format!("name={}", ostr(&pc.name)),
        format!("desc={}", ostr(&pc.description)),
        format!("vendor={}", ostr(&pc.sensor_vendor)),
        format!("model={}", ostr(&pc.sensor_model)),
        format!("serial={}", ostr(&pc.sensor_serial)),
        format!("hw={}", ostr(&pc.sensor_hw_version)),
        format!("sw={}", ostr(&pc.sensor_sw_version)),
        format!("fw={}", ostr(&pc.sensor_fw_version)),
        format!("temp={}", of64(&pc.temperature)),
        format!("hum={}", of64(&pc.humidity)),
        format!("pres={}", of64(&pc.atmospheric_pressure)),
        format!("as={}", otok(&pc.acquisition_start, date_tok)),
        format!("ae={}", otok(&pc.acquisition_end, date_tok)),
        format!("tr={}", otok(&pc.transform, tr_tok)),
        format!("cart={}", otok(&pc.cartesian_bounds, |b| list_tok([b.x_min, b.x_max, b.y_min, b.y_max, b.z_min, b.z_max].iter().map(of64).collect()))),
        format!("sph={}", otok(&pc.spherical_bounds, |b| list_tok([b.range_min, b.range_max, b.elevation_min, b.elevation_max, b.azimuth_start, b.azimuth_end].iter().map(of64).collect()))),
        format!("idx={}", otok(&pc.index_bounds, |b| list_tok([b.row_min, b.row_max, b.column_min, b.column_max, b.return_min, b.return_max].iter().map(oint).collect()))),
        format!("il={}", otok(&pc.intensity_limits, |l| list_tok(vec![oval(&l.intensity_min), oval(&l.intensity_max)]))),
        format!("cl={}", otok(&pc.color_limits, |l| list_tok([&l.red_min, &l.red_max, &l.green_min, &l.green_max, &l.blue_min, &l.blue_max].iter().map(|x| oval(x)).collect()))),
    ]
    .join(" ")
}

fn blob_tok(b: &Blob) -> String {
    format!("{}:{}", b.offset, b.length)
}
fn fmt_tok(f: &ImageFormat) -> &'static str {
    match f {
        ImageFormat::Png => "P",
        ImageFormat::Jpeg => "J",
    }
}
fn iblob_tok(b: &ImageBlob, m: &Option<Blob>) -> String {
    format!("{},{},{}", fmt_tok(&b.format), blob_tok(&b.data), otok(m, blob_tok))
}

pub fn img_tok(i: &Image) -> String {
    let proj = otok(&i.projection, |p| match p {
        Projection::Pinhole(p) => format!("PIN,{},{},{},{}", iblob_tok(&p.blob, &p.mask), p.properties.width, p.properties.height, list_tok([p.properties.focal_length, p.properties.pixel_width, p.properties.pixel_height, p.properties.principal_x, p.properties.principal_y].iter().map(|x| f64t(*x)).collect())),
        Projection::Spherical(p) => format!("SPH,{},{},{},{}", iblob_tok(&p.blob, &p.mask), p.properties.width, p.properties.height, list_tok([p.properties.pixel_width, p.properties.pixel_height].iter().map(|x| f64t(*x)).collect())),
        Projection::Cylindrical(p) => format!("CYL,{},{},{},{}", iblob_tok(&p.blob, &p.mask), p.properties.width, p.properties.height, list_tok([p.properties.radius, p.properties.principal_y, p.properties.pixel_width, p.properties.pixel_height].iter().map(|x| f64t(*x)).collect())),
    });
    [
        "IMG".to_string(),
        format!("guid={}", ostr(&i.guid)),
        format!("vis={}", otok(&i.visual_reference, |v| format!("{},{},{}", iblob_tok(&v.blob, &v.mask), v.properties.width, v.properties.height))),
        format!("proj={}", proj),
        format!("tr={}", otok(&i.transform, tr_tok)),
        format!("pcg={}", ostr(&i.pointcloud_guid)),
        format!("name={}", ostr(&i.name)),
        format!("desc={}", ostr(&i.description)),
        format!("acq={}", otok(&i.acquisition, date_tok)),
        format!("vendor={}", ostr(&i.sensor_vendor)),
        format!("model={}", ostr(&i.sensor_model)),
        format!("serial={}", ostr(&i.sensor_serial)),
    ]
    .join(" ")
}

fn meta_tok<T: std::io::Read + std::io::Seek>(r: &E57Reader<T>) -> String {
    let h = r.header();
    let mut v = vec![
        "META".to_string(),
        format!("guid={}", hexs(r.guid())),
        format!("format={}", hexs(r.format_name())),
        format!("lv={}", otok(&r.library_version().map(|s| s.to_string()), |s| hexs(s))),
        format!("cm={}", otok(&r.coordinate_metadata().map(|s| s.to_string()), |s| hexs(s))),
        format!("cr={}", otok(&r.creation(), date_tok)),
        format!("hdr={}:{}:{}:{}", h.phys_length, h.phys_xml_offset, h.xml_length, h.page_size),
        format!("exts={}", list_tok(r.extensions().iter().map(|e| format!("{}:{}", hexs(&e.namespace), hexs(&e.url))).collect())),
        format!("npc={}", r.pointclouds().len()),
        format!("nimg={}", r.images().len()),
    ];
    v.extend(r.pointclouds().iter().map(pc_tok));
    v.extend(r.images().iter().map(img_tok));
    v.join(" ")
}

fn c64(x: f64) -> u64 {
    if x.is_nan() {
        0x7FF8_0000_0000_0000
    } else {
        x.to_bits()
    }
}
fn c32(x: f32) -> u32 {
    if x.is_nan() {
        0x7FC0_0000
    } else {
        x.to_bits()
    }
}
fn coord_c(c: &CartesianCoordinate) -> String {
    match c {
        CartesianCoordinate::Valid { x, y, z } => format!("0:{}:{}:{}", c64(*x), c64(*y), c64(*z)),
        CartesianCoordinate::Direction { x, y, z } => format!("1:{}:{}:{}", c64(*x), c64(*y), c64(*z)),
        CartesianCoordinate::Invalid => "2".into(),
    }
}
fn coord_s(c: &SphericalCoordinate) -> String {
    match c {
        SphericalCoordinate::Valid { range, azimuth, elevation } => format!("0:{}:{}:{}", c64(*range), c64(*azimuth), c64(*elevation)),
        SphericalCoordinate::Direction { azimuth, elevation } => format!("1:0:{}:{}", c64(*azimuth), c64(*elevation)),
        SphericalCoordinate::Invalid => "2".into(),
    }
}
pub fn spoint_tok(p: &Point) -> String {
    format!(
        "{},{},{},{},{},{}",
        coord_c(&p.cartesian),
        coord_s(&p.spherical),
        otok(&p.color, |c| format!("{}:{}:{}", c32(c.red), c32(c.green), c32(c.blue))),
        otok(&p.intensity, |i| c32(*i).to_string()),
        p.row,
        p.column
    )
}

fn fnv_tok(b: &[u8]) -> String {
    format!("{}:{}", b.len(), fnv_bytes(b))
}

fn apply_opts<T: std::io::Read + std::io::Seek>(it: &mut PointCloudReaderSimple<T>, o: u32) {
    it.apply_pose(o & 1 != 0);
    it.spherical_to_cartesian(o & 2 != 0);
    it.cartesian_to_spherical(o & 4 != 0);
    it.intensity_to_color(o & 8 != 0);
    it.normalize_intensity(o & 16 != 0);
    it.normalize_color(o & 32 != 0);
}

/// run the operations on the real reader; `PANIC` marks an unwinding call
pub fn run_ops(file: &[u8], ops: &[&str]) -> String {
    let opened = guarded(|| E57Reader::new(Cursor::new(file.to_vec())));
    let mut out: Vec<String> = vec![];
    let crc = |file: &[u8]| match guarded(|| E57Reader::validate_crc(Cursor::new(file.to_vec()))) {
        Ok(Ok(ps)) => format!("CRC ok:{ps}"),
        Ok(Err(_)) => "CRC err".to_string(),
        Err(_) => "CRC PANIC".to_string(),
    };
    let rawxml = |file: &[u8]| match guarded(|| E57Reader::raw_xml(Cursor::new(file.to_vec()))) {
        Ok(Ok(x)) => format!("RAWXML {}", fnv_tok(&x)),
        Ok(Err(_)) => "RAWXML err".to_string(),
        Err(_) => "RAWXML PANIC".to_string(),
    };
    let mut r = match opened {
        Err(_) => return "OPENPANIC".into(),
        Ok(Err(_)) => {
            out.push("OPENERR".into());
            for o in ops {
                if *o == "CRC" {
                    out.push(crc(file));
                } else if *o == "RAWXML" {
                    out.push(rawxml(file));
                }
            }
            return out.join(" | ");
        }
        Ok(Ok(r)) => r,
    };
    out.push("OPEN".into());
    let mut i = 0;
    while i < ops.len() {
        match ops[i] {
            "META" => {
                out.push(guarded(|| meta_tok(&r)).unwrap_or_else(|_| "META PANIC".into()));
                i += 1;
            }
            "XMLH" => {
                out.push(format!("XMLH {}", fnv_tok(r.xml().as_bytes())));
                i += 1;
            }
            "CRC" => {
                out.push(crc(file));
                i += 1;
            }
            "RAWXML" => {
                out.push(rawxml(file));
                i += 1;
            }
            "RAW" => {
                let k: usize = ops[i + 1].parse().unwrap();
                let max: usize = ops[i + 2].parse().unwrap();
                i += 3;
                let pcs = r.pointclouds();
                let Some(pc) = pcs.get(k) else {
                    out.push("RAW nopc".into());
                    continue;
                };
                let res = guarded(|| {
                    let mut toks: Vec<String> = vec![];
                    let mut it = match r.pointcloud_raw(pc) {
                        Ok(it) => it,
                        Err(_) => return "RAW openerr".to_string(),
                    };
                    let mut errs = 0;
                    let mut n = 0;
                    loop {
                        if n == max {
                            toks.push("MAX".into());
                            break;
                        }
                        n += 1;
                        match it.next() {
                            None => {
                                toks.push("D".into());
                                break;
                            }
                            Some(Err(_)) => {
                                toks.push("E".into());
                                errs += 1;
                                if errs >= 3 {
                                    break;
                                }
                            }
                            Some(Ok(p)) => toks.push(list_tok(p.iter().map(val_tok).collect())),
                        }
                    }
                    format!("RAW {}", toks.join(";"))
                });
                out.push(res.unwrap_or_else(|_| "RAW PANIC".into()));
            }
            "SIMPLE" => {
                let k: usize = ops[i + 1].parse().unwrap();
                let o: u32 = ops[i + 2].parse().unwrap();
                let max: usize = ops[i + 3].parse().unwrap();
                i += 4;
                let pcs = r.pointclouds();
                let Some(pc) = pcs.get(k) else {
                    out.push("SIMPLE nopc".into());
                    continue;
                };
                let res = guarded(|| {
                    let mut toks: Vec<String> = vec![];
                    let mut it = match r.pointcloud_simple(pc) {
                        Ok(it) => it,
                        Err(_) => return "SIMPLE openerr".to_string(),
                    };
                    apply_opts(&mut it, o);
                    let mut errs = 0;
                    let mut n = 0;
                    loop {
                        if n == max {
                            toks.push("MAX".into());
                            break;
                        }
                        n += 1;
                        match it.next() {
                            None => {
                                toks.push("D".into());
                                break;
                            }
                            Some(Err(_)) => {
                                toks.push("E".into());
                                errs += 1;
                                if errs >= 3 {
                                    break;
                                }
                            }
                            Some(Ok(p)) => toks.push(spoint_tok(&p)),
                        }
                    }
                    format!("SIMPLE {}", toks.join(";"))
                });
                out.push(res.unwrap_or_else(|_| "SIMPLE PANIC".into()));
            }
            "BLOB" => {
                let off: u64 = ops[i + 1].parse().unwrap();
                let len: u64 = ops[i + 2].parse().unwrap();
                i += 3;
                let res = guarded(|| {
                    let mut buf = vec![];
                    match r.blob(&Blob::new(off, len), &mut buf) {
                        Ok(n) if n as usize == buf.len() => format!("BLOB {}", fnv_tok(&buf)),
                        Ok(n) => format!("BLOB count{n}"),
                        Err(_) => "BLOB err".into(),
                    }
                });
                out.push(res.unwrap_or_else(|_| "BLOB PANIC".into()));
            }
            _ => {
                out.push("BADCASE".into());
                break;
            }
        }
    }
    out.join(" | ")
}

/// the complete case line for a file and a list of operations
pub fn case_line(file: &[u8], ops: &[String]) -> String {
    let xml = ref_extract_xml(file);
    let (tree, fp) = match &xml {
        Some(x) => dump_xml(x),
        None => (vec!["TFAIL".to_string()], vec!["FP".to_string(), "0".to_string()]),
    };
    let xref = match &xml {
        Some(x) => hex(x),
        None => "XFAIL".into(),
    };
    format!("rd {} {} {} {} | {}", hex(file), xref, tree.join(" "), fp.join(" "), ops.join(" "))
}

pub fn split_case(line: &str) -> Option<(Vec<u8>, Vec<String>)> {
    let (head, ops) = line.split_once(" | ")?;
    let mut t = head.split_whitespace();
    t.next()?;
    let file = unhex(t.next()?)?;
    Some((file, ops.split_whitespace().map(|s| s.to_string()).collect()))
}

pub fn exec(line: &str) -> String {
    match split_case(line) {
        Some((file, ops)) => {
            let o: Vec<&str> = ops.iter().map(|s| s.as_str()).collect();
            run_ops(&file, &o)
        }
        None => "BADCASE".into(),
    }
}

// ------------------------------------------------------------------ oracles

/// C05: independent statement of the documented view of one raw point
#[derive(Clone, Debug, PartialEq)]
pub struct RefPoint {
    pub cart: (u8, f64, f64, f64),
    pub sph: (u8, f64, f64, f64),
    pub color: Option<(f32, f32, f32)>,
    pub intensity: Option<f32>,
    pub row: i64,
    pub col: i64,
}

fn ref_range(limits: Option<(Option<Val>, Option<Val>)>, proto: &[Rec], name: &str) -> Option<(f64, f64)> {
    // the limits when both are given (as real values: a scaled integer limit is a raw value of the attribute's
    // data type), else the range of the attribute's data type
    if let Some((Some(a), Some(b))) = limits {
        let dt = proto.iter().find(|r| r.name.is(name)).map(|r| r.dt.clone());
        let real = |v: Val| -> Option<f64> {
            match v {
                Val::D(x) => Some(f64::from_bits(x)),
                Val::F(x) => Some(f32::from_bits(x) as f64),
                Val::I(x) => Some(x as f64),
                Val::S(x) => match &dt {
                    Some(DT::S(_, _, s, o)) => Some(x as f64 * f64::from_bits(*s) + f64::from_bits(*o)),
                    _ => None,
                },
            }
        };
        if let (Some(a), Some(b)) = (real(a), real(b)) {
            return Some((a, b));
        }
    }
    let r = proto.iter().find(|r| r.name.is(name))?;
    Some(match &r.dt {
        DT::F32(a, b) => (a.map(f32::from_bits).unwrap_or(f32::MIN) as f64, b.map(f32::from_bits).unwrap_or(f32::MAX) as f64),
        DT::F64(a, b) => (a.map(f64::from_bits).unwrap_or(f64::MIN), b.map(f64::from_bits).unwrap_or(f64::MAX)),
        DT::I(a, b) => (*a as f64, *b as f64),
        DT::S(a, b, s, o) => (*a as f64 * f64::from_bits(*s) + f64::from_bits(*o), *b as f64 * f64::from_bits(*s) + f64::from_bits(*o)),
    })
}

/// documented normalisation: (v - min) / (max - min) clamped to [0,1]; degenerate range -> 0.
/// Returns the admissible interval for the f32 result (computed in f64 with slack for rounding).
pub fn ref_norm(v: f64, range: Option<(f64, f64)>) -> (f64, f64) {
    let Some((min, max)) = range else { return (0.0, 0.0) };
    if !(min < max) || !(min.is_finite() && max.is_finite()) {
        return (0.0, 0.0);
    }
    let c = v.max(min).min(max);
    // (c - min) / (max - min) evaluated after an exact rescaling by a power of two that keeps
    // every intermediate result in the normal range (no overflow for huge, no underflow for tiny ranges)
    let big = min.abs().max(max.abs());
    let k = if big < 2f64.powi(-500) {
        2f64.powi(600)
    } else if big > 2f64.powi(500) {
        2f64.powi(-600)
    } else {
        1.0
    };
    let (c, min, max) = (c * k, min * k, max * k);
    let t = if c >= max {
        1.0
    } else if c <= min {
        0.0
    } else {
        ((c - min) / (max - min)).max(0.0).min(1.0)
    };
    let eps = 3e-7 * t.abs() + 1e-30;
    ((t - eps).max(0.0), (t + eps).min(1.0))
}

pub struct ViewCtx {
    pub proto: Vec<Rec>,
    pub il: Option<(Option<Val>, Option<Val>)>,
    pub cl: Option<[Option<Val>; 6]>,
    pub tr: Option<Tr>,
}

fn idx(p: &[Rec], n: &str) -> Option<usize> {
    p.iter().position(|r| r.name.is(n))
}

/// None = the documented view is an error (invalid-state value outside its set)
pub fn ref_view(ctx: &ViewCtx, vs: &[Val], o: u32) -> Option<(RefPoint, Vec<((f64, f64), &'static str)>)> {
    let p = &ctx.proto;
    let f = |i: usize| p[i].dt.to_f64(&vs[i]).unwrap_or(f64::NAN);
    let int = |i: usize| match vs[i] {
        Val::I(v) => v,
        _ => 0,
    };
    let mut norm_checks: Vec<((f64, f64), &'static str)> = vec![];
    let c3 = (idx(p, "cartesianX"), idx(p, "cartesianY"), idx(p, "cartesianZ"));
    let cart = match c3 {
        (Some(a), Some(b), Some(c)) => {
            let st = idx(p, "cartesianInvalidState").map(|i| int(i)).unwrap_or(0);
            match st {
                0 => (0u8, f(a), f(b), f(c)),
                1 => (1, f(a), f(b), f(c)),
                2 => (2, 0.0, 0.0, 0.0),
                _ => return None,
            }
        }
        _ => {
            if let Some(i) = idx(p, "cartesianInvalidState") {
                let _ = int(i);
            }
            (2, 0.0, 0.0, 0.0)
        }
    };
    let s3 = (idx(p, "sphericalRange"), idx(p, "sphericalAzimuth"), idx(p, "sphericalElevation"));
    let sph = match s3 {
        (Some(a), Some(b), Some(c)) => {
            let st = idx(p, "sphericalInvalidState").map(|i| int(i)).unwrap_or(0);
            match st {
                0 => (0u8, f(a), f(b), f(c)),
                1 => (1, 0.0, f(b), f(c)),
                2 => (2, 0.0, 0.0, 0.0),
                _ => return None,
            }
        }
        _ => (2, 0.0, 0.0, 0.0),
    };
    let nc = o & 32 != 0;
    let ni = o & 16 != 0;
    let col3 = (idx(p, "colorRed"), idx(p, "colorGreen"), idx(p, "colorBlue"));
    let mut color = match col3 {
        (Some(a), Some(b), Some(c)) => {
            let st = idx(p, "isColorInvalid").map(|i| int(i)).unwrap_or(0);
            match st {
                0 => {
                    let lim = |k: usize| ctx.cl.as_ref().map(|l| (l[k].clone(), l[k + 1].clone()));
                    let mut comp = |i: usize, k: usize, name: &'static str| -> f32 {
                        if nc {
                            let iv = ref_norm(f(i), ref_range(lim(k), p, name));
                            norm_checks.push((iv, name));
                            ((iv.0 + iv.1) / 2.0) as f32
                        } else {
                            f(i) as f32
                        }
                    };
                    Some((comp(a, 0, "colorRed"), comp(b, 2, "colorGreen"), comp(c, 4, "colorBlue")))
                }
                1 => None,
                _ => return None,
            }
        }
        _ => None,
    };
    let intensity = match idx(p, "intensity") {
        Some(i) => {
            let st = idx(p, "isIntensityInvalid").map(|k| int(k)).unwrap_or(0);
            match st {
                0 => {
                    if ni {
                        let iv = ref_norm(f(i), ref_range(ctx.il.clone(), p, "intensity"));
                        norm_checks.push((iv, "intensity"));
                        Some(((iv.0 + iv.1) / 2.0) as f32)
                    } else {
                        Some(f(i) as f32)
                    }
                }
                1 => None,
                _ => return None,
            }
        }
        None => None,
    };
    let row = idx(p, "rowIndex").map(|i| int(i)).unwrap_or(-1);
    let col = idx(p, "columnIndex").map(|i| int(i)).unwrap_or(-1);
    let mut cart = cart;
    let mut sph = sph;
    // spherical -> Cartesian when no valid Cartesian value exists
    if o & 2 != 0 {
        if cart.0 != 0 && sph.0 == 0 {
            let (r, az, el) = (sph.1, sph.2, sph.3);
            cart = (0, r * el.cos() * az.cos(), r * el.cos() * az.sin(), r * el.sin());
        } else if cart.0 == 2 && sph.0 == 1 {
            let (az, el) = (sph.2, sph.3);
            cart = (1, el.cos() * az.cos(), el.cos() * az.sin(), el.sin());
        }
    }
    if o & 4 != 0 {
        if sph.0 != 0 && cart.0 == 0 {
            let (x, y, z) = (cart.1, cart.2, cart.3);
            let r = (x * x + y * y + z * z).sqrt();
            sph = (0, r, y.atan2(x), (z / r).asin());
        } else if sph.0 == 2 && cart.0 == 1 {
            let (x, y, z) = (cart.1, cart.2, cart.3);
            sph = (1, 0.0, y.atan2(x), (z / (x * x + y * y + z * z).sqrt()).asin());
        }
    }
    if o & 8 != 0 && color.is_none() {
        if let Some(i) = intensity {
            color = Some((i, i, i));
        }
    }
    // the pose is applied to valid Cartesian coordinates — a cloud without a pose has none to apply
    if let (true, 0, Some(t)) = (o & 1 != 0, cart.0, ctx.tr) {
        let g = |i: usize| f64::from_bits(t[i]);
        let (w, x, y, z) = (g(0), g(1), g(2), g(3));
        // rotation matrix of the (unit) quaternion, then translation
        let m = [
            [w * w + x * x - y * y - z * z, 2.0 * (x * y - w * z), 2.0 * (x * z + w * y)],
            [2.0 * (x * y + w * z), w * w + y * y - x * x - z * z, 2.0 * (y * z - w * x)],
            [2.0 * (x * z - w * y), 2.0 * (y * z + w * x), w * w + z * z - x * x - y * y],
        ];
        let (px, py, pz) = (cart.1, cart.2, cart.3);
        cart = (0, m[0][0] * px + m[0][1] * py + m[0][2] * pz + g(4), m[1][0] * px + m[1][1] * py + m[1][2] * pz + g(5), m[2][0] * px + m[2][1] * py + m[2][2] * pz + g(6));
    }
    Some((RefPoint { cart, sph, color, intensity, row, col }, norm_checks))
}

fn close(a: f64, b: f64) -> bool {
    if a.to_bits() == b.to_bits() || (a.is_nan() && b.is_nan()) || a == b {
        return true;
    }
    if !a.is_finite() || !b.is_finite() {
        return false;
    }
    let d = (a - b).abs();
    d <= 1e-9 * a.abs().max(b.abs()) || d < 1e-300
}
fn close32(a: f32, b: f32) -> bool {
    a.to_bits() == b.to_bits() || (a.is_nan() && b.is_nan()) || a == b || ((a - b).abs() <= 2e-6 * a.abs().max(b.abs()).max(1e-30))
}

/// `norm_col` / `norm_int`: the component is normalised; its value is judged by the C13 interval check
fn point_matches(r: &RefPoint, p: &Point, norm_col: bool, norm_int: bool) -> std::result::Result<(), String> {
    let c = match &p.cartesian {
        CartesianCoordinate::Valid { x, y, z } => (0u8, *x, *y, *z),
        CartesianCoordinate::Direction { x, y, z } => (1, *x, *y, *z),
        CartesianCoordinate::Invalid => (2, 0.0, 0.0, 0.0),
    };
    if c.0 != r.cart.0 || !close(c.1, r.cart.1) || !close(c.2, r.cart.2) || !close(c.3, r.cart.3) {
        return Err(format!("cartesian {:?} expected {:?}", c, r.cart));
    }
    let s = match &p.spherical {
        SphericalCoordinate::Valid { range, azimuth, elevation } => (0u8, *range, *azimuth, *elevation),
        SphericalCoordinate::Direction { azimuth, elevation } => (1, 0.0, *azimuth, *elevation),
        SphericalCoordinate::Invalid => (2, 0.0, 0.0, 0.0),
    };
    if s.0 != r.sph.0 || !close(s.1, r.sph.1) || !close(s.2, r.sph.2) || !close(s.3, r.sph.3) {
        return Err(format!("spherical {:?} expected {:?}", s, r.sph));
    }
    match (&p.color, &r.color) {
        (Some(a), Some(b)) => {
            if !norm_col && (!close32(a.red, b.0) || !close32(a.green, b.1) || !close32(a.blue, b.2)) {
                return Err(format!("colour {:?} expected {:?}", a, b));
            }
        }
        (None, None) => {}
        _ => return Err(format!("colour presence {:?} expected {:?}", p.color, r.color)),
    }
    match (p.intensity, r.intensity) {
        (Some(a), Some(b)) => {
            if !norm_int && !close32(a, b) {
                return Err(format!("intensity {a} expected {b}"));
            }
        }
        (None, None) => {}
        _ => return Err(format!("intensity presence {:?} expected {:?}", p.intensity, r.intensity)),
    }
    if p.row != r.row || p.column != r.col {
        return Err(format!("row/column {} {} expected {} {}", p.row, p.column, r.row, r.col));
    }
    Ok(())
}

/// C05 + C13 + C09(count) oracle on one cloud of an opened file
pub fn oracle_simple(sink: &mut Sink, line: &str, file: &[u8], k: usize, o: u32) {
    sink.oracle_evals += 1;
    let Ok(mut r) = E57Reader::new(Cursor::new(file.to_vec())) else { return };
    let pcs = r.pointclouds();
    let Some(pc) = pcs.get(k) else { return };
    let sc = cloud_of(pc);
    let ctx = ViewCtx { proto: sc.proto.clone(), il: sc.il.clone(), cl: sc.cl.clone(), tr: sc.tr };
    // raw values
    let raw: Vec<std::result::Result<Vec<Val>, ()>> = match guarded(|| match r.pointcloud_raw(pc) {
        Ok(it) => it.take(200000).map(|p| p.map(|v| v.iter().map(Val::from_rv).collect()).map_err(|_| ())).collect(),
        Err(_) => vec![Err(())],
    }) {
        Ok(v) => v,
        Err(_) => {
            sink.fail("C08", "reader/panic/raw-iterator", line, "raw iterator panicked");
            return;
        }
    };
    let raw_ok = raw.iter().all(|p| p.is_ok());
    let raw_values = raw.iter().filter(|p| p.is_ok()).count();
    if raw_values as u64 > pc.records {
        sink.fail("C09", "reader/raw-yields-more-than-records", line, &format!("{} items for recordCount {}", raw.len(), pc.records));
    }
    let simple = guarded(|| -> std::result::Result<Vec<std::result::Result<Point, ()>>, ()> {
        let mut it = r.pointcloud_simple(pc).map_err(|_| ())?;
        apply_opts(&mut it, o);
        Ok(it.take(200000).map(|p| p.map_err(|_| ())).collect())
    });
    let simple = match simple {
        Err(_) => {
            sink.fail("C08", "reader/panic/simple-iterator", line, "simple iterator panicked");
            return;
        }
        Ok(s) => s,
    };
    if !raw_ok {
        return; // the simple iterator may fail where the raw one fails
    }
    let views: Vec<Option<(RefPoint, Vec<((f64, f64), &'static str)>)>> = raw.iter().map(|p| ref_view(&ctx, p.as_ref().unwrap(), o)).collect();
    let all_valid_states = views.iter().all(|v| v.is_some());
    let simple = match simple {
        Err(()) => {
            sink.fail("C05", "simple/creation-fails-on-readable-cloud", line, "pointcloud_simple() failed although the raw iterator reads the cloud");
            return;
        }
        Ok(s) => s,
    };
    // points are the Ok items; the property drives an iterator to its first Err or None (an iterator
    // that keeps answering Err for an invalid-state value yields no point at all)
    let simple_points = simple.iter().take_while(|p| p.is_ok()).count();
    if simple_points as u64 > pc.records {
        sink.fail("C09", "reader/simple-yields-more-than-records", line, &format!("{} points for recordCount {}", simple_points, pc.records));
    }
    if simple.len() >= 200000 && simple_points < simple.len() {
        sink.stat("observation_simple_iterator_repeats_error_forever");
    }
    if all_valid_states {
        if simple.iter().any(|p| p.is_err()) {
            sink.fail("C05", "simple/fails-where-raw-succeeds", line, &format!("simple iterator yields an error (options {o}) although the raw iterator succeeds and all invalid-state values are in range"));
            return;
        }
        if simple.len() != raw.len() {
            sink.fail("C05", "simple/count", line, &format!("simple yields {} points, raw {}", simple.len(), raw.len()));
            return;
        }
        for (n, (v, s)) in views.iter().zip(simple.iter()).enumerate() {
            let (rp, checks) = v.as_ref().unwrap();
            let p = s.as_ref().unwrap();
            // C13 first: normalised components must lie inside the documented interval
            let comps: Vec<(f32, &str)> = {
                let mut c = vec![];
                if let (Some(col), true) = (&p.color, o & 32 != 0) {
                    if ctx.proto.iter().any(|r| r.name.is("colorRed")) && rp.color.is_some() && idx(&ctx.proto, "colorRed").is_some() && checks.iter().any(|c| c.1 == "colorRed") {
                        c.push((col.red, "colorRed"));
                        c.push((col.green, "colorGreen"));
                        c.push((col.blue, "colorBlue"));
                    }
                }
                if let (Some(i), true) = (p.intensity, o & 16 != 0) {
                    c.push((i, "intensity"));
                }
                c
            };
            for (val, name) in comps {
                if let Some((iv, _)) = checks.iter().find(|c| c.1 == name) {
                    let raw_v = idx(&ctx.proto, name).map(|i| ctx.proto[i].dt.to_f64(&raw[n].as_ref().unwrap()[i]).unwrap_or(f64::NAN)).unwrap_or(f64::NAN);
                    if raw_v.is_finite() {
                        let v64 = val as f64;
                        if !(v64 >= 0.0 && v64 <= 1.0) {
                            sink.fail("C13", "normalise/outside-unit-interval", line, &format!("point {n} {name}: normalised {val} for stored value {raw_v}"));
                            return;
                        }
                        if v64 < iv.0 - 1e-6 || v64 > iv.1 + 1e-6 {
                            sink.fail("C13", "normalise/value", line, &format!("point {n} {name}: normalised {val}, documented value in [{}, {}] for stored {raw_v}", iv.0, iv.1));
                            return;
                        }
                    }
                }
            }
            let norm_col = checks.iter().any(|c| c.1 == "colorRed") || (o & 8 != 0 && o & 16 != 0 && checks.iter().any(|c| c.1 == "intensity"));
            let norm_int = checks.iter().any(|c| c.1 == "intensity");
            if let Err(e) = point_matches(rp, p, norm_col, norm_int) {
                let class = if e.starts_with("colour") || e.starts_with("intensity") { "simple/colour-intensity" } else if e.starts_with("row") { "simple/row-column" } else { "simple/coordinates" };
                sink.fail("C05", class, line, &format!("point {n} (options {o}): {e}"));
                return;
            }
        }
    }
}

/// C17: every operation on a reader that already did other things = the same operation on a fresh reader
pub fn oracle_history(sink: &mut Sink, line: &str, file: &[u8], ops: &[String]) {
    sink.oracle_evals += 1;
    // split into single operations
    let mut single: Vec<Vec<String>> = vec![];
    let mut i = 0;
    while i < ops.len() {
        let n = match ops[i].as_str() {
            "RAW" => 3,
            "SIMPLE" => 4,
            "BLOB" => 3,
            _ => 1,
        };
        single.push(ops[i..(i + n).min(ops.len())].to_vec());
        i += n;
    }
    let all: Vec<&str> = ops.iter().map(|s| s.as_str()).collect();
    let combined = run_ops(file, &all);
    let parts: Vec<&str> = combined.split(" | ").collect();
    if parts[0] != "OPEN" {
        return;
    }
    for (k, op) in single.iter().enumerate() {
        let o: Vec<&str> = op.iter().map(|s| s.as_str()).collect();
        let fresh = run_ops(file, &o);
        let fresh_part = fresh.split(" | ").nth(1).unwrap_or("");
        let got = parts.get(k + 1).copied().unwrap_or("<missing>");
        if got != fresh_part {
            sink.fail("C17", "history/result-depends-on-earlier-operations", line, &format!("operation {k} ({}) after {} earlier operations: {} ; on a fresh reader: {}", op.join(" "), k, &got[..got.len().min(120)], &fresh_part[..fresh_part.len().min(120)]));
            return;
        }
    }
}

/// C09 (count): neither iterator yields more points than the declared record count — for every cloud of the file
pub fn oracle_counts(sink: &mut Sink, line: &str, file: &[u8]) {
    let Ok(Ok(mut r)) = guarded(|| E57Reader::new(Cursor::new(file.to_vec()))) else { return };
    let pcs = r.pointclouds();
    for pc in pcs.iter().take(4) {
        sink.oracle_evals += 1;
        let lim = (pc.records.min(100_000) + 50) as usize;
        // item by item, so that a panic after the surplus item does not hide the surplus
        if let Ok(Ok(mut it)) = guarded(|| r.pointcloud_raw(pc)) {
            let hint = it.size_hint().0 as u64;
            let mut n = 0u64;
            let mut ended = false;
            for _ in 0..lim {
                match guarded(|| it.next()) {
                    Ok(Some(Ok(_))) => n += 1,
                    Ok(Some(Err(_))) => {
                        ended = true;
                        break;
                    }
                    _ => {
                        ended = true;
                        break;
                    }
                }
            }
            // `Iterator::size_hint`: the lower bound is a promise (`collect()` reserves that many items up front and
            // panics with "capacity overflow" when the number is absurd)
            if ended && hint > n {
                sink.fail("C08", "reader/size-hint-lower-bound-from-record-count", line, &format!("size_hint() promises at least {hint} points (the declared record count), the iterator delivers {n}; collect() on such an iterator reserves {hint} items and panics for huge counts"));
            }
            let _ = n;
        }
        if let Ok(Ok(mut it)) = guarded(|| r.pointcloud_raw(pc)) {
            let mut n = 0u64;
            for _ in 0..lim {
                match guarded(|| it.next()) {
                    Ok(Some(Ok(_))) => n += 1,
                    Ok(Some(Err(_))) => {}
                    _ => break,
                }
            }
            if n > pc.records {
                sink.fail("C09", "reader/raw-yields-more-than-records", line, &format!("{n} items for recordCount {}", pc.records));
            }
        }
        if let Ok(Ok(mut it)) = guarded(|| r.pointcloud_simple(pc)) {
            let mut n = 0u64;
            for _ in 0..lim {
                match guarded(|| it.next()) {
                    Ok(Some(Ok(_))) => n += 1,
                    Ok(Some(Err(_))) => {}
                    _ => break,
                }
            }
            if n > pc.records {
                sink.fail("C09", "reader/simple-yields-more-than-records", line, &format!("{n} items for recordCount {}", pc.records));
            }
        }
    }
}

pub fn oracle(sink: &mut Sink, line: &str) {
    if let Some((file, ops)) = split_case(line) {
        oracle_counts(sink, line, &file);
        let mut i = 0;
        while i < ops.len() {
            if ops[i] == "SIMPLE" && i + 3 < ops.len() {
                oracle_simple(sink, line, &file, ops[i + 1].parse().unwrap_or(0), ops[i + 2].parse().unwrap_or(63));
                i += 4;
            } else {
                i += 1;
            }
        }
        oracle_history(sink, line, &file, &ops);
        let o: Vec<&str> = ops.iter().map(|s| s.as_str()).collect();
        let out = run_ops(&file, &o);
        if out.contains("PANIC") {
            sink.fail("C08", "reader/panic", line, &format!("a read operation panicked: {}", &out[..out.len().min(200)]));
        }
    }
}

/// choose read operations for a file: metadata, every cloud raw + simple under some option vectors, blobs
pub fn ops_for(rng: &mut Rng, file: &[u8], full: bool) -> Vec<String> {
    let mut ops: Vec<String> = vec!["META".into()];
    if let Ok(Ok(r)) = guarded(|| E57Reader::new(Cursor::new(file.to_vec()))) {
        let pcs = r.pointclouds();
        let mut items: Vec<Vec<String>> = vec![];
        for (k, pc) in pcs.iter().enumerate() {
            let max = pc.records.min(6000) + 3;
            items.push(vec!["RAW".into(), k.to_string(), max.to_string()]);
            let nopt = if full { 3 } else { 1 };
            for _ in 0..nopt {
                let o = match rng.below(4) {
                    0 => 59, // defaults: transform, s2c, i2c, ni, nc
                    1 => 63,
                    _ => rng.below(64),
                };
                items.push(vec!["SIMPLE".into(), k.to_string(), o.to_string(), max.to_string()]);
            }
            if rng.chance(1, 4) {
                // early termination
                items.push(vec!["RAW".into(), k.to_string(), (1 + rng.below(3)).to_string()]);
            }
        }
        for img in r.images() {
            let mut blobs: Vec<Blob> = vec![];
            if let Some(v) = &img.visual_reference {
                blobs.push(v.blob.data.clone());
                blobs.extend(v.mask.clone());
            }
            if let Some(p) = &img.projection {
                let (b, m) = match p {
                    Projection::Pinhole(x) => (&x.blob, &x.mask),
                    Projection::Spherical(x) => (&x.blob, &x.mask),
                    Projection::Cylindrical(x) => (&x.blob, &x.mask),
                };
                blobs.push(b.data.clone());
                blobs.extend(m.clone());
            }
            for b in blobs {
                items.push(vec!["BLOB".into(), b.offset.to_string(), b.length.to_string()]);
            }
        }
        items.push(vec!["XMLH".into()]);
        items.push(vec!["CRC".into()]);
        items.push(vec!["RAWXML".into()]);
        // arbitrary descriptors
        if rng.chance(1, 3) {
            items.push(vec!["BLOB".into(), rng.below(file.len() as u64 + 10).to_string(), rng.below(3000).to_string()]);
        }
        // random order
        for i in (1..items.len()).rev() {
            let j = rng.below(i as u64 + 1) as usize;
            items.swap(i, j);
        }
        for it in items {
            ops.extend(it);
        }
    } else {
        ops.push("CRC".into());
        ops.push("RAWXML".into());
    }
    ops
}

pub fn add_case(sink: &mut Sink, rng: &mut Rng, file: &[u8], tag: &str, full: bool) {
    let ops = ops_for(rng, file, full);
    add_case_ops(sink, file, &ops, tag);
}

pub fn add_case_ops(sink: &mut Sink, file: &[u8], ops: &[String], tag: &str) {
    let line = case_line(file, &ops);
    let o: Vec<&str> = ops.iter().map(|s| s.as_str()).collect();
    let out = run_ops(file, &o);
    oracle(sink, &line);
    sink.stat(tag);
    sink.stat_n("file_bytes_total", file.len() as u64);
    let nontrivial = out.starts_with("OPEN |") && out.contains("RAW ");
    sink.case(line, out, nontrivial);
}

pub fn bundled_files(max_size: u64) -> Vec<(String, Vec<u8>)> {
    let mut v = vec![];
    if let Ok(rd) = std::fs::read_dir("/repo/testdata") {
        let mut names: Vec<_> = rd.flatten().map(|e| e.path()).filter(|p| p.extension().map(|e| e == "e57").unwrap_or(false)).collect();
        names.sort();
        for p in names {
            if let Ok(md) = p.metadata() {
                if md.len() <= max_size {
                    if let Ok(b) = std::fs::read(&p) {
                        v.push((p.file_name().unwrap().to_string_lossy().to_string(), b));
                    }
                }
            }
        }
    }
    v
}



/// the operation list of `ops_for` with retries: every operation may be repeated immediately
/// (the second attempt must behave like the first one on a fresh reader)
pub fn ops_with_retries(rng: &mut Rng, file: &[u8]) -> Vec<String> {
    let ops = ops_for(rng, file, false);
    let mut out: Vec<String> = vec![];
    let mut i = 0;
    while i < ops.len() {
        let n = match ops[i].as_str() {
            "RAW" => 3,
            "SIMPLE" => 4,
            "BLOB" => 3,
            _ => 1,
        };
        let one = &ops[i..(i + n).min(ops.len())];
        out.extend(one.iter().cloned());
        if rng.chance(1, 2) {
            out.extend(one.iter().cloned());
        }
        i += n;
    }
    out
}

/// a copy of `file` with one byte altered in a page that holds no XML (so that the file still opens)
pub fn damage_data_page(rng: &mut Rng, file: &[u8]) -> Option<Vec<u8>> {
    if file.len() < 2048 || file.len() % 1024 != 0 {
        return None;
    }
    let xml_off = u64::from_le_bytes(file[24..32].try_into().ok()?) as usize;
    let first_xml_page = xml_off / 1024;
    if first_xml_page == 0 {
        return None;
    }
    let p = rng.below(first_xml_page as u64) as usize;
    let pos = if p == 0 { 48 + rng.below(1024 - 48) as usize } else { p * 1024 + rng.below(1024) as usize };
    let mut f = file.to_vec();
    f[pos] ^= 1 << rng.below(8);
    Some(f)
}

/// data types whose declared range is extreme (wider than f64::MAX, degenerate, tiny, 64 bit wide)
fn stress_dt(rng: &mut Rng) -> DT {
    let d = |x: f64| Some(x.to_bits());
    let f = |x: f32| Some(x.to_bits());
    match rng.below(14) {
        0 => DT::F64(None, None),
        1 => DT::F64(d(-1e308), d(1e308)),
        2 => DT::F64(d(f64::MIN), d(f64::MAX)),
        3 => DT::F64(d(0.0), d(5e-324)),
        4 => DT::F64(d(1e300), d(1.0000001e300)),
        5 => DT::F64(d(-3.5), d(-3.5)),
        6 => DT::F32(None, None),
        7 => DT::F32(f(f32::MIN), f(f32::MAX)),
        8 => DT::F32(f(0.0), f(1.0e-45)),
        9 => DT::I(i64::MIN, i64::MAX),
        10 => DT::S(i64::MIN, i64::MAX, 1e290f64.to_bits(), 0f64.to_bits()),
        11 => DT::S(-1000, 1000, 1e-300f64.to_bits(), 1e300f64.to_bits()),
        12 => {
            let v = rng.range(-5, 5);
            DT::I(v, v)
        }
        _ => DT::I(0, 255),
    }
}

fn stress_val(rng: &mut Rng, dt: &DT) -> Val {
    match dt {
        DT::F64(a, b) => {
            let mut c = vec![f64::MAX, f64::MIN, 1e300, -1e300, 1e292, -1e292, 0.0, 1.0, 5e-324, -3.5];
            for x in [a, b].into_iter().flatten() {
                c.push(f64::from_bits(*x));
            }
            if let (Some(a), Some(b)) = (a, b) {
                c.push(f64::from_bits(*a) / 2.0 + f64::from_bits(*b) / 2.0);
            }
            Val::D(rng.pick(&c).to_bits())
        }
        DT::F32(a, b) => {
            let mut c = vec![f32::MAX, f32::MIN, 0.0, 1.0, 1.0e-45, 3.0e38, -3.0e38];
            for x in [a, b].into_iter().flatten() {
                c.push(f32::from_bits(*x));
            }
            Val::F(rng.pick(&c).to_bits())
        }
        DT::I(a, b) => Val::I(*rng.pick(&[*a, *b, a / 2 + b / 2, a.saturating_add(1).min(*b), b.saturating_sub(1).max(*a)])),
        DT::S(a, b, ..) => Val::S(*rng.pick(&[*a, *b, a / 2 + b / 2, a.saturating_add(1).min(*b), b.saturating_sub(1).max(*a)])),
    }
}

/// a program whose intensity and colour attributes sit at the extremes of what normalisation has to cope with
pub fn norm_stress_program(rng: &mut Rng) -> Program {
    let st = |n: &str, dt: DT| Rec { name: RName::Std(n.into()), dt };
    let mut proto = vec![];
    for n in ["cartesianX", "cartesianY", "cartesianZ"] {
        proto.push(st(n, DT::F32(None, None)));
    }
    let with_i = rng.chance(3, 4);
    if with_i {
        proto.push(st("intensity", stress_dt(rng)));
    }
    if !with_i || rng.chance(1, 2) {
        let same = rng.chance(1, 2);
        let dt = stress_dt(rng);
        for n in ["colorRed", "colorGreen", "colorBlue"] {
            let d = if same { dt.clone() } else { stress_dt(rng) };
            proto.push(st(n, d));
        }
    }
    let mut body = vec![];
    // optionally override the limits with values of the attribute's type (narrower, wider or reversed)
    if rng.chance(1, 2) {
        if let Some(r) = proto.iter().find(|r| r.name.is("intensity")) {
            let (a, b) = (stress_val(rng, &r.dt), stress_val(rng, &r.dt));
            body.push(PcStmt::Il(Some((Some(a), Some(b)))));
        }
    }
    if rng.chance(1, 2) && proto.iter().any(|r| r.name.is("colorRed")) {
        let mut l: [Option<Val>; 6] = Default::default();
        for (k, n) in ["colorRed", "colorRed", "colorGreen", "colorGreen", "colorBlue", "colorBlue"].iter().enumerate() {
            let r = proto.iter().find(|r| r.name.is(n)).unwrap();
            l[k] = Some(stress_val(rng, &r.dt));
        }
        body.push(PcStmt::Cl(Some(l)));
    }
    for _ in 0..1 + rng.below(10) {
        let p: Vec<Val> = proto.iter().map(|r| if r.name.is("cartesianX") || r.name.is("cartesianY") || r.name.is("cartesianZ") { Val::F(1.5f32.to_bits()) } else { stress_val(rng, &r.dt) }).collect();
        body.push(PcStmt::P(p));
    }
    Program { guid: "norm-stress".into(), stmts: vec![Stmt::Pc { guid: "pc-stress".into(), proto, body, end: true }, Stmt::Fin] }
}

pub fn generate(sink: &mut Sink, seed: u64, thorough: bool) {
    let mut rng = Rng::new(seed ^ 0x4EAD);
    // 1. files written by the real writer from random programs
    let n = if thorough { 1200 } else { 160 };
    let mut made = 0;
    let mut tries = 0;
    while made < n && tries < n * 4 {
        tries += 1;
        let prog = {
            let mut g = Gen { rng: &mut rng, exts: vec![], n: 0 };
            g.program(if tries % 20 == 0 { 1500 } else { 30 })
        };
        let dev = crate::dev::SimDev::new(vec![]);
        let run = execute(&prog, &dev);
        if run.panicked || run.results.last().map(|s| s != "ok").unwrap_or(true) {
            continue;
        }
        made += 1;
        add_case(sink, &mut rng, &run.file, "written_file", thorough);
        // the same file with a damaged data page, every operation possibly retried (C17, C07)
        for _ in 0..2 {
            if let Some(f) = damage_data_page(&mut rng, &run.file) {
                let ops = ops_with_retries(&mut rng, &f);
                add_case_ops(sink, &f, &ops, "damaged_file_with_retries");
            }
        }
    }
    // 1a. page walks over damaged files (C17, C07): a file of many blobs of about one page each, one page
    //     damaged; blob reads in random order with repeats — after a read that fails on the damaged
    //     page every later read must behave as on a fresh reader, whatever page it needs next
    for _ in 0..(if thorough { 300 } else { 40 }) {
        let nb = 5 + rng.below(6) as usize;
        let mut stmts: Vec<Stmt> = (0..nb).map(|k| Stmt::Blob(Data::Gen(900 + rng.below(300) as usize, 17 * k + 3))).collect();
        stmts.push(Stmt::Fin);
        let prog = Program { guid: "walk".into(), stmts };
        let dev = crate::dev::SimDev::new(vec![]);
        let run = execute(&prog, &dev);
        if run.panicked || run.results.last().map(|s| s != "ok").unwrap_or(true) {
            continue;
        }
        let descr: Vec<(String, String)> = run.results.iter().filter_map(|r| {
            let p: Vec<&str> = r.split(':').collect();
            if p.len() == 3 && p[0] == "ok" { Some((p[1].to_string(), p[2].to_string())) } else { None }
        }).collect();
        let Some(f) = damage_data_page(&mut rng, &run.file) else { continue };
        let mut ops: Vec<String> = vec!["META".into()];
        for _ in 0..(8 + rng.below(10)) {
            let (o, l) = rng.pick(&descr).clone();
            ops.extend(["BLOB".to_string(), o, l]);
        }
        add_case_ops(sink, &f, &ops, "damaged_blob_walk");
    }
    // 1b. normalisation stress: attribute ranges and values at the extremes (C13)
    for _ in 0..(if thorough { 400 } else { 60 }) {
        let prog = norm_stress_program(&mut rng);
        let dev = crate::dev::SimDev::new(vec![]);
        let run = execute(&prog, &dev);
        if run.panicked || run.results.last().map(|s| s != "ok").unwrap_or(true) {
            continue;
        }
        add_case(sink, &mut rng, &run.file, "norm_stress_file", true);
    }
    // 1d. altered file header (C07): the 48 header bytes lie on page 0 like everything else; once they are altered the
    //     checksum of page 0 no longer matches, and nothing read from that page may reach the caller — opening (and
    //     raw_xml) must fail, or report exactly what the unaltered file reports.  Sessions that finalize twice leave an
    //     older XML section in the file, to which an altered header can point.
    for k in 0..(if thorough { 200 } else { 30 }) {
        let mut prog = {
            let mut g = Gen { rng: &mut rng, exts: vec![], n: 0 };
            g.program(10)
        };
        if k % 2 == 0 {
            // a blob pushes the XML sections off page 0; a second finalize leaves the first XML behind
            prog.stmts.insert(0, Stmt::Blob(Data::Gen(1500 + (k * 37) % 900, k)));
            let at = prog.stmts.len() - 1;
            prog.stmts.insert(at, Stmt::Fin);
            prog.stmts.insert(at + 1, Stmt::Cm(Some(format!("second session {k}"))));
        }
        let run = execute(&prog, &crate::dev::SimDev::new(vec![]));
        if run.panicked || run.results.last().map(|s| s != "ok").unwrap_or(true) || run.file.len() < 2048 {
            continue;
        }
        let ops = ["META", "XMLH", "RAWXML", "CRC"];
        let base = run_ops(&run.file, &ops);
        if !base.starts_with("OPEN |") {
            continue;
        }
        let mut variants: Vec<(Vec<u8>, String)> = vec![];
        for _ in 0..3 {
            let mut f = run.file.clone();
            let pos = 16 + rng.below(32) as usize;
            let bit = rng.below(8);
            f[pos] ^= 1 << bit;
            variants.push((f, format!("bit {bit} of header byte {pos} flipped")));
        }
        // length fields set to particular values (zero, one page, the true length of a shorter prefix)
        for (pos, val, what) in [(16usize, 0u64, "file length field zeroed"), (16, 1024, "file length field set to one page"), (32, 0, "XML length field zeroed")] {
            let mut f = run.file.clone();
            if f[pos..pos + 8] != val.to_le_bytes() {
                f[pos..pos + 8].copy_from_slice(&val.to_le_bytes());
                variants.push((f, what.to_string()));
            }
        }
        // header pointing at an older XML section of the same file
        let logical: Vec<u8> = run.file.chunks(1024).flat_map(|p| p[..1020].to_vec()).collect();
        let cur_off = u64::from_le_bytes(run.file[24..32].try_into().unwrap());
        let starts: Vec<usize> = (0..logical.len().saturating_sub(5)).filter(|&i| &logical[i..i + 5] == b"<?xml").collect();
        for &st in &starts {
            let phys = (st + 4 * (st / 1020)) as u64;
            if phys == cur_off {
                continue;
            }
            if let Some(e) = (st..logical.len().saturating_sub(11)).find(|&i| &logical[i..i + 11] == b"</e57Root>\n") {
                let mut f = run.file.clone();
                f[24..32].copy_from_slice(&phys.to_le_bytes());
                f[32..40].copy_from_slice(&((e + 11 - st) as u64).to_le_bytes());
                variants.push((f, format!("header XML offset/length pointed at the older XML section at {phys}")));
            }
        }
        for (f, what) in variants {
            sink.oracle_evals += 1;
            let got = run_ops(&f, &ops);
            let line = case_line(&f, &ops.iter().map(|s| s.to_string()).collect::<Vec<_>>());
            let a: Vec<&str> = base.split(" | ").collect();
            let b: Vec<&str> = got.split(" | ").collect();
            // (the header bytes are not re-sealed: page 0 is invalid in every variant)
            let part = |v: &Vec<&str>, key: &str| v.iter().find(|x| x.starts_with(key)).map(|x| x.to_string());
            let raw_ok = part(&b, "RAWXML") == Some("RAWXML err".to_string()) || part(&b, "RAWXML") == part(&a, "RAWXML");
            let ok = (!got.starts_with("OPEN |") && raw_ok)
                || (a.len() == b.len() && a.iter().zip(b.iter()).all(|(x, y)| x == y || y.ends_with(" err")));
            // whole-file validation fails exactly when a page is altered: page 0 is
            if !b.iter().any(|x| *x == "CRC err") {
                sink.fail("C07", "reader/validate-crc-misses-altered-header", &line, &format!("{what}: the checksum of page 0 no longer matches, yet validate_crc reports the file as intact"));
            }
            if !ok {
                sink.fail("C07", "reader/altered-header-trusted", &line, &format!("{what}: the checksum of page 0 no longer matches, yet the reader answers {} where the unaltered file answers {}", &got[..got.len().min(300)], &base[..base.len().min(300)]));
            }
            sink.stat("altered_header_case");
            sink.case(line, got, true);
        }
    }
    // 1c. narrow prototypes (C09 count, C05): every record narrower than a byte, so the zero padding that
    //     completes the last byte of each stream decodes as further values — the iterators must stop at the
    //     declared record count all the same
    for k in 0..(if thorough { 120 } else { 24 }) {
        let w = 1 + (k % 7) as i64; // bits per coordinate
        let mut proto = vec![
            Rec { name: RName::Std("cartesianX".into()), dt: DT::S(0, (1 << w) - 1, 0.5f64.to_bits(), 0f64.to_bits()) },
            Rec { name: RName::Std("cartesianY".into()), dt: DT::S(0, (1 << w) - 1, 0.5f64.to_bits(), 0f64.to_bits()) },
            Rec { name: RName::Std("cartesianZ".into()), dt: DT::I(0, (1 << w) - 1) },
        ];
        if k % 3 == 1 {
            proto.push(Rec { name: RName::Std("intensity".into()), dt: DT::I(0, 1) });
        }
        if k % 5 == 2 {
            proto.push(Rec { name: RName::Std("rowIndex".into()), dt: DT::I(5, 5) });
        }
        let n = 1 + rng.below(12) as usize;
        let body: Vec<PcStmt> = (0..n)
            .map(|_| {
                PcStmt::P(proto.iter().map(|r| match &r.dt {
                    DT::S(a, b, ..) => Val::S(rng.range(*a, *b)),
                    DT::I(a, b) => Val::I(rng.range(*a, *b)),
                    _ => Val::I(0),
                }).collect())
            })
            .collect();
        let prog = Program { guid: "narrow".into(), stmts: vec![Stmt::Pc { guid: "pc".into(), proto, body, end: true }, Stmt::Fin] };
        let dev = crate::dev::SimDev::new(vec![]);
        let run = execute(&prog, &dev);
        if run.panicked || run.results.last().map(|s| s != "ok").unwrap_or(true) {
            continue;
        }
        add_case(sink, &mut rng, &run.file, "narrow_prototype_file", true);
    }
    // 1e. validity mix (C05): ONE prototype with every attribute group and every invalid-state attribute; the points
    //     enumerate all combinations of the flags (3 x 3 x 2 x 2), so that every fallback of the documented view
    //     (spherical -> Cartesian, intensity -> grey colour, absent colour / intensity) occurs next to its opposite
    for k in 0..(if thorough { 40 } else { 6 }) {
        let f32dt = DT::F32(None, None);
        let proto: Vec<Rec> = [
            ("cartesianX", f32dt.clone()), ("cartesianY", f32dt.clone()), ("cartesianZ", f32dt.clone()), ("cartesianInvalidState", DT::I(0, 2)),
            ("sphericalRange", f32dt.clone()), ("sphericalAzimuth", f32dt.clone()), ("sphericalElevation", f32dt.clone()), ("sphericalInvalidState", DT::I(0, 2)),
            ("colorRed", DT::I(0, 255)), ("colorGreen", DT::I(0, 255)), ("colorBlue", DT::I(0, 255)), ("isColorInvalid", DT::I(0, 1)),
            ("intensity", DT::I(0, 4095)), ("isIntensityInvalid", DT::I(0, 1)), ("rowIndex", DT::I(0, 100)), ("columnIndex", DT::I(0, 100)),
        ].iter().map(|(n, d)| Rec { name: RName::Std(n.to_string()), dt: d.clone() }).collect();
        let mut body: Vec<PcStmt> = vec![];
        if k % 2 == 1 {
            body.push(PcStmt::Tr(Some([0.5f64.to_bits(), 0.5f64.to_bits(), 0.5f64.to_bits(), 0.5f64.to_bits(), 1f64.to_bits(), 2f64.to_bits(), 3f64.to_bits()])));
        }
        for c in 0..3i64 {
            for sp in 0..3i64 {
                for ci in 0..2i64 {
                    for ii in 0..2i64 {
                        let f = |rng: &mut Rng| Val::F(((rng.range(-500, 500) as f32) / 7.0).to_bits());
                        body.push(PcStmt::P(vec![
                            f(&mut rng), f(&mut rng), f(&mut rng), Val::I(c),
                            Val::F(((rng.range(1, 900) as f32) / 9.0).to_bits()), Val::F(((rng.range(-300, 300) as f32) / 100.0).to_bits()), Val::F(((rng.range(-150, 150) as f32) / 100.0).to_bits()), Val::I(sp),
                            Val::I(rng.range(0, 255)), Val::I(rng.range(0, 255)), Val::I(rng.range(0, 255)), Val::I(ci),
                            Val::I(rng.range(0, 4095)), Val::I(ii), Val::I(rng.range(0, 100)), Val::I(rng.range(0, 100)),
                        ]));
                    }
                }
            }
        }
        let prog = Program { guid: "validity".into(), stmts: vec![Stmt::Pc { guid: "pc".into(), proto, body, end: true }, Stmt::Fin] };
        let run = execute(&prog, &crate::dev::SimDev::new(vec![]));
        if run.panicked || run.results.last().map(|s| s != "ok").unwrap_or(true) {
            continue;
        }
        // the default options and a random vector
        let o2 = rng.below(64);
        let ops: Vec<String> = ["META", "SIMPLE", "0", "63", "40", "SIMPLE", "0", &o2.to_string(), "40", "RAW", "0", "40"].iter().map(|s| s.to_string()).collect();
        add_case_ops(sink, &run.file, &ops, "validity_mix_file");
    }
    // 2. bundled test data (other producers: E57 reference implementation, libE57Format, LAS converter)
    for (name, bytes) in bundled_files(if thorough { 800_000 } else { 60_000 }) {
        add_case(sink, &mut rng, &bytes, &format!("bundled_{name}"), true);
    }
}
