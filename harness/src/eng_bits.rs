//! Engine "bits": bit buffers, integer widths, value (de)serialisation  (C12)
use crate::util::*;
use e57::verif::{bit_size, write_value, BitPack, ByteStreamReadBuffer, ByteStreamWriteBuffer};
use e57::{RecordDataType, RecordValue};
use std::collections::VecDeque;

/// independent bit-level reference: fields LSB first, contiguous
pub fn ref_pack(fields: &[(u64, usize)]) -> Vec<u8> {
    let total: usize = fields.iter().map(|f| f.1).sum();
    let mut out = vec![0u8; (total + 7) / 8];
    let mut pos = 0usize;
    for (v, w) in fields {
        for i in 0..*w {
            if (v >> i) & 1 == 1 {
                out[pos / 8] |= 1 << (pos % 8);
            }
            pos += 1;
        }
    }
    out
}

pub fn ref_field(bytes: &[u8], pos: usize, w: usize) -> u64 {
    let mut v = 0u64;
    for i in 0..w {
        let p = pos + i;
        if (bytes[p / 8] >> (p % 8)) & 1 == 1 {
            v |= 1 << i;
        }
    }
    v
}

pub fn ref_width(min: i64, max: i64) -> usize {
    let range = (max as i128 - min as i128) as u128;
    let mut w = 0;
    while w < 128 && (range >> w) != 0 {
        w += 1;
    }
    w
}

fn run_bw(ops: &[String]) -> String {
    let r = guarded(|| {
        let mut out: Vec<String> = vec![];
        let mut b = ByteStreamWriteBuffer::new();
        for op in ops {
            let r = guarded(|| {
                if let Some(rest) = op.strip_prefix('b') {
                    let (bits, data) = rest.split_once(':').unwrap();
                    b.add_bits(&unhex(data).unwrap(), bits.parse().unwrap());
                    ".".to_string()
                } else if let Some(data) = op.strip_prefix("y:") {
                    b.add_bytes(&unhex(data).unwrap());
                    ".".to_string()
                } else if op == "f" {
                    hex(&b.get_full_bytes())
                } else {
                    hex(&b.get_all_bytes())
                }
            });
            match r {
                Ok(s) => out.push(s),
                Err(_) => {
                    out.push("PANIC".into());
                    break;
                }
            }
        }
        out.join(" ")
    });
    r.unwrap_or_else(|_| "PANIC".into())
}

fn run_br(ops: &[String]) -> String {
    let mut out: Vec<String> = vec![];
    let mut b = ByteStreamReadBuffer::new();
    for op in ops {
        let r = guarded(|| {
            if let Some(data) = op.strip_prefix("a:") {
                b.append(&unhex(data).unwrap());
                ".".to_string()
            } else if let Some(bits) = op.strip_prefix('x') {
                match b.extract(bits.parse().unwrap()) {
                    Some(v) => v.to_string(),
                    None => "none".into(),
                }
            } else {
                b.available().to_string()
            }
        });
        match r {
            Ok(s) => out.push(s),
            Err(_) => {
                out.push("PANIC".into());
                break;
            }
        }
    }
    out.join(" ")
}

fn run_ib(min: i64, max: i64) -> String {
    let a = guarded(|| bit_size(&RecordDataType::Integer { min, max }));
    let b = guarded(|| {
        bit_size(&RecordDataType::ScaledInteger {
            min,
            max,
            scale: 1.0,
            offset: 0.0,
        })
    });
    match (a, b) {
        (Ok(a), Ok(b)) if a == b => a.to_string(),
        (Ok(a), Ok(b)) => format!("{a}/{b}"),
        _ => "PANIC".into(),
    }
}

fn ints(q: &VecDeque<RecordValue>) -> String {
    if q.is_empty() {
        return "-".into();
    }
    q.iter()
        .map(|v| match v {
            RecordValue::Integer(i) => i.to_string(),
            RecordValue::ScaledInteger(i) => i.to_string(),
            RecordValue::Single(f) => f.to_bits().to_string(),
            RecordValue::Double(f) => f.to_bits().to_string(),
        })
        .collect::<Vec<_>>()
        .join(",")
}

fn run_ui(min: i64, max: i64, chunks: &[Vec<u8>], scaled: bool) -> String {
    let mut out = vec![];
    let mut b = ByteStreamReadBuffer::new();
    for c in chunks {
        let r = guarded(|| {
            b.append(c);
            let mut q = VecDeque::new();
            if scaled {
                BitPack::unpack_scaled_ints(&mut b, min, max, &mut q).unwrap();
            } else {
                BitPack::unpack_ints(&mut b, min, max, &mut q).unwrap();
            }
            ints(&q)
        });
        match r {
            Ok(s) => out.push(s),
            Err(_) => {
                out.push("PANIC".into());
                break;
            }
        }
    }
    out.join(" ")
}

fn run_uf(bits: usize, chunks: &[Vec<u8>]) -> String {
    let mut out = vec![];
    let mut b = ByteStreamReadBuffer::new();
    for c in chunks {
        b.append(c);
        let mut q = VecDeque::new();
        if bits == 32 {
            BitPack::unpack_singles(&mut b, &mut q).unwrap();
        } else {
            BitPack::unpack_doubles(&mut b, &mut q).unwrap();
        }
        out.push(ints(&q));
    }
    out.join(" ")
}

#[derive(Clone, Debug)]
pub enum Dt {
    I(i64, i64),
    S(i64, i64),
    F32,
    F64,
}

impl Dt {
    pub fn tok(&self) -> String {
        match self {
            Dt::I(a, b) => format!("I:{a}:{b}"),
            Dt::S(a, b) => format!("S:{a}:{b}"),
            Dt::F32 => "F32".into(),
            Dt::F64 => "F64".into(),
        }
    }
    pub fn parse(s: &str) -> Dt {
        let p: Vec<&str> = s.split(':').collect();
        match p[0] {
            "I" => Dt::I(p[1].parse().unwrap(), p[2].parse().unwrap()),
            "S" => Dt::S(p[1].parse().unwrap(), p[2].parse().unwrap()),
            "F32" => Dt::F32,
            _ => Dt::F64,
        }
    }
    pub fn rdt(&self) -> RecordDataType {
        match self {
            Dt::I(min, max) => RecordDataType::Integer {
                min: *min,
                max: *max,
            },
            Dt::S(min, max) => RecordDataType::ScaledInteger {
                min: *min,
                max: *max,
                scale: 1.0,
                offset: 0.0,
            },
            Dt::F32 => RecordDataType::Single {
                min: None,
                max: None,
            },
            Dt::F64 => RecordDataType::Double {
                min: None,
                max: None,
            },
        }
    }
    pub fn val(&self, v: i128) -> RecordValue {
        match self {
            Dt::I(..) => RecordValue::Integer(v as i64),
            Dt::S(..) => RecordValue::ScaledInteger(v as i64),
            Dt::F32 => RecordValue::Single(f32::from_bits(v as u32)),
            Dt::F64 => RecordValue::Double(f64::from_bits(v as u64)),
        }
    }
    pub fn width(&self) -> usize {
        match self {
            Dt::I(a, b) | Dt::S(a, b) => ref_width(*a, *b),
            Dt::F32 => 32,
            Dt::F64 => 64,
        }
    }
}

/// write the values with the real code (cuts = get_full_bytes after value i), then read the
/// pieces back with the real code.  Returns (pieces, decoded or None for zero width / panic)
fn run_rt(dt: &Dt, vals: &[i128], cuts: &str) -> (String, Option<Vec<u8>>, Option<Vec<i128>>) {
    let rdt = dt.rdt();
    let cutb = cuts.as_bytes();
    let w = guarded(|| {
        let mut pieces: Vec<Vec<u8>> = vec![];
        let mut b = ByteStreamWriteBuffer::new();
        for (i, v) in vals.iter().enumerate() {
            write_value(&rdt, &dt.val(*v), &mut b).unwrap();
            if cutb.get(i) == Some(&b'1') {
                pieces.push(b.get_full_bytes());
            }
        }
        pieces.push(b.get_all_bytes());
        pieces
    });
    let pieces = match w {
        Ok(p) => p,
        Err(_) => return ("PANIC".into(), None, None),
    };
    let all: Vec<u8> = pieces.iter().flatten().cloned().collect();
    let mut s = pieces.iter().map(|p| hex(p)).collect::<Vec<_>>().join(" ");
    s.push_str(" |");
    if dt.width() == 0 {
        s.push_str(" zw");
        return (s, Some(all), None);
    }
    let r = guarded(|| {
        let mut b = ByteStreamReadBuffer::new();
        let mut dec: Vec<i128> = vec![];
        for p in &pieces {
            b.append(p);
            let mut q = VecDeque::new();
            match dt {
                Dt::I(min, max) => BitPack::unpack_ints(&mut b, *min, *max, &mut q).unwrap(),
                Dt::S(min, max) => BitPack::unpack_scaled_ints(&mut b, *min, *max, &mut q).unwrap(),
                Dt::F32 => BitPack::unpack_singles(&mut b, &mut q).unwrap(),
                Dt::F64 => BitPack::unpack_doubles(&mut b, &mut q).unwrap(),
            }
            for v in q {
                dec.push(match v {
                    RecordValue::Integer(i) | RecordValue::ScaledInteger(i) => i as i128,
                    RecordValue::Single(f) => f.to_bits() as i128,
                    RecordValue::Double(f) => f.to_bits() as i128,
                });
            }
        }
        dec
    });
    match r {
        Ok(dec) => {
            for d in &dec {
                s.push(' ');
                s.push_str(&d.to_string());
            }
            (s, Some(all), Some(dec))
        }
        Err(_) => {
            s.push_str(" PANIC");
            (s, Some(all), None)
        }
    }
}

/// execute one case line with the real code
pub fn exec(line: &str) -> String {
    let t: Vec<String> = line.split_whitespace().map(|s| s.to_string()).collect();
    match t[0].as_str() {
        "bw" => run_bw(&t[1..]),
        "br" => run_br(&t[1..]),
        "ib" => run_ib(t[1].parse().unwrap(), t[2].parse().unwrap()),
        "ui" | "us" => {
            let chunks: Vec<Vec<u8>> = t[3..].iter().map(|h| unhex(h).unwrap()).collect();
            run_ui(t[1].parse().unwrap(), t[2].parse().unwrap(), &chunks, t[0] == "us")
        }
        "uf" => {
            let chunks: Vec<Vec<u8>> = t[2..].iter().map(|h| unhex(h).unwrap()).collect();
            run_uf(t[1].parse().unwrap(), &chunks)
        }
        "rt" => {
            let dt = Dt::parse(&t[1]);
            let n: usize = t[2].parse().unwrap();
            let vals: Vec<i128> = t[3..3 + n].iter().map(|v| v.parse().unwrap()).collect();
            run_rt(&dt, &vals, &t[3 + n]).0
        }
        _ => "BADCASE".into(),
    }
}

/// the property itself, on the real code, for one `rt` case with in-range values
fn oracle_rt(sink: &mut Sink, line: &str, dt: &Dt, vals: &[i128], cuts: &str) {
    sink.oracle_evals += 1;
    let (_, all, dec) = run_rt(dt, vals, cuts);
    let w = dt.width();
    let min: i128 = match dt {
        Dt::I(a, _) | Dt::S(a, _) => *a as i128,
        _ => 0,
    };
    let fields: Vec<(u64, usize)> = vals.iter().map(|v| ((*v - min) as u64, w)).collect();
    let expect = ref_pack(&fields);
    match all {
        None => sink.fail("C12", "bits/encode-panic", line, "encoding in-range values panicked"),
        Some(all) => {
            if all != expect {
                sink.fail(
                    "C12",
                    "bits/encode-mismatch",
                    line,
                    &format!("stream {} but reference codec gives {}", hex(&all), hex(&expect)),
                );
            }
        }
    }
    if w > 0 {
        match dec {
            None => sink.fail("C12", "bits/decode-panic", line, "decoding panicked"),
            Some(dec) => {
                // trailing padding bits may decode to extra artefact values; the encoded ones come first
                if dec.len() < vals.len() || dec[..vals.len()] != vals[..] {
                    sink.fail(
                        "C12",
                        "bits/roundtrip",
                        line,
                        &format!("decoded {:?} expected prefix {:?}", dec, vals),
                    );
                }
            }
        }
    }
}

fn interesting_ranges(rng: &mut Rng) -> Vec<(i64, i64)> {
    let mut v = vec![
        (0, 0),
        (5, 5),
        (i64::MIN, i64::MAX),
        (i64::MIN, i64::MIN),
        (i64::MAX, i64::MAX),
        (i64::MIN, 0),
        (0, i64::MAX),
        (-1, i64::MAX),
        (i64::MIN, -1),
        (i64::MIN, 1),
        (0, 1),
        (0, 2),
        (-1, 0),
        (-5, 3),
        (0, 255),
        (0, 256),
        (0, 65535),
        (-32768, 32767),
    ];
    for k in 1..=63u32 {
        let p = 1i128 << k;
        for d in [-1i128, 0, 1] {
            let r = p + d;
            if r > 0 && r <= u64::MAX as i128 {
                // choose min so that max = min + r fits
                let min_lo = i64::MIN as i128;
                let min_hi = i64::MAX as i128 - r;
                if min_hi >= min_lo {
                    let min = match rng.below(3) {
                        0 => 0.max(min_lo).min(min_hi),
                        1 => min_lo,
                        _ => min_lo + (rng.next() as i128 % (min_hi - min_lo + 1)),
                    };
                    v.push((min as i64, (min + r) as i64));
                }
            }
        }
    }
    v
}

pub fn generate(sink: &mut Sink, seed: u64, thorough: bool) {
    let mut rng = Rng::new(seed ^ 0xB175);

    // 1. integer widths
    let ranges = interesting_ranges(&mut rng);
    for (min, max) in &ranges {
        let line = format!("ib {min} {max}");
        let out = exec(&line);
        sink.oracle_evals += 1;
        if out != ref_width(*min, *max).to_string() {
            sink.fail("C12", "bits/width", &line, &format!("bit_size={} expected {}", out, ref_width(*min, *max)));
        }
        sink.stat(&format!("width_{}", ref_width(*min, *max)));
        sink.case(line, out, true);
    }
    for _ in 0..(if thorough { 3000 } else { 300 }) {
        let a = rng.next() as i64 >> rng.below(64);
        let b = rng.next() as i64 >> rng.below(64);
        let (min, max) = if a <= b { (a, b) } else { (b, a) };
        let line = format!("ib {min} {max}");
        let out = exec(&line);
        sink.oracle_evals += 1;
        if out != ref_width(min, max).to_string() {
            sink.fail("C12", "bits/width", &line, &format!("bit_size={} expected {}", out, ref_width(min, max)));
        }
        sink.case(line, out, min != max);
    }
    // reversed ranges (reachable through a caller-built PointCloud): only correspondence
    for (min, max) in [(3i64, 1i64), (i64::MAX, i64::MIN), (0, -1)] {
        let line = format!("ib {min} {max}");
        let out = exec(&line);
        sink.case(line, out, false);
    }

    // 2. exhaustive grid: width 0..=64 x phase 0..=7 x value patterns x cuts, through the raw buffers
    let reps = if thorough { 6 } else { 1 };
    for w in 0..=64usize {
        for phase in 0..8usize {
            for pat in 0..(5 + 3 * reps) {
                // a prefix field of `phase` bits puts the next field at that bit phase
                let maxv: u64 = if w == 64 { u64::MAX } else { (1u64 << w) - 1 };
                let n = 1 + rng.below(5) as usize;
                let mut ops: Vec<String> = vec![];
                let mut fields: Vec<(u64, usize)> = vec![];
                if phase > 0 {
                    let pv = rng.next() & ((1 << phase) - 1);
                    ops.push(format!("b{}:{}", phase, hex(&pv.to_le_bytes())));
                    fields.push((pv, phase));
                }
                for i in 0..n {
                    let v = match pat {
                        0 => 0,
                        1 => maxv,
                        2 => maxv.wrapping_sub(1) & maxv,
                        3 => 0xAAAA_AAAA_AAAA_AAAA & maxv,
                        4 => (if i % 2 == 0 { maxv } else { 0 }),
                        _ => rng.next() & maxv,
                    };
                    ops.push(format!("b{}:{}", w, hex(&v.to_le_bytes())));
                    fields.push((v, w));
                    if rng.chance(1, 3) {
                        ops.push("f".into());
                    }
                    if rng.chance(1, 8) {
                        let nb = 1 + rng.below(3) as usize; let bs = rng.bytes(nb);
                        for b in &bs {
                            fields.push((*b as u64, 8));
                        }
                        ops.push(format!("y:{}", hex(&bs)));
                    }
                }
                ops.push("a".into());
                let line = format!("bw {}", ops.join(" "));
                let out = exec(&line);
                // oracle: concatenation of drained pieces = reference packing
                sink.oracle_evals += 1;
                let mut got: Vec<u8> = vec![];
                let mut bad = false;
                for (op, o) in ops.iter().zip(out.split(' ')) {
                    if o == "PANIC" {
                        bad = true;
                    }
                    if op == "f" || op == "a" {
                        if let Some(b) = unhex(o) {
                            got.extend(b)
                        }
                    }
                }
                let expect = ref_pack(&fields);
                if bad || got != expect {
                    sink.fail("C12", "bits/write-buffer", &line, &format!("emitted {} expected {}", hex(&got), hex(&expect)));
                }
                sink.stat(&format!("w_phase_{}", phase));
                sink.case(line, out, w > 0 && w % 8 != 0);

                // read side: chunked stream of the same bytes, extract at width w after a `phase`-bit prefix
                let total = expect.len();
                let mut rops: Vec<String> = vec![];
                let mut cut = 0usize;
                let mut expect_vals: Vec<String> = vec![];
                // choose chunk boundaries
                let mut bounds: Vec<usize> = vec![];
                while cut < total {
                    let step = 1 + rng.below(4) as usize;
                    cut = (cut + step).min(total);
                    bounds.push(cut);
                }
                let mut pos_bits = 0usize;
                let mut start = 0usize;
                let mut first = true;
                for b in bounds {
                    rops.push(format!("a:{}", hex(&expect[start..b])));
                    start = b;
                    if first && phase > 0 {
                        if b * 8 >= phase {
                            rops.push(format!("x{phase}"));
                            pos_bits = phase;
                            first = false;
                        } else {
                            continue;
                        }
                    } else {
                        first = false;
                    }
                    // only whole-width, non-byte fields are read at width w here
                    let _ = &mut expect_vals;
                    while w > 0 && pos_bits + w <= b * 8 && rng.chance(9, 10) {
                        rops.push(format!("x{w}"));
                        pos_bits += w;
                    }
                    if rng.chance(1, 4) {
                        rops.push("v".into());
                    }
                }
                rops.push(format!("x{}", w.max(1)));
                let rline = format!("br {}", rops.join(" "));
                let rout = exec(&rline);
                // oracle for reads: every extracted value (masked) equals the reference field
                sink.oracle_evals += 1;
                let mut appended: Vec<u8> = vec![];
                let mut p = 0usize;
                for (op, o) in rops.iter().zip(rout.split(' ')) {
                    if let Some(h) = op.strip_prefix("a:") {
                        appended.extend(unhex(h).unwrap());
                    } else if let Some(bits) = op.strip_prefix('x') {
                        let bits: usize = bits.parse().unwrap();
                        if p + bits <= appended.len() * 8 {
                            let e = ref_field(&appended, p, bits);
                            let mask = if bits == 64 { u64::MAX } else { (1u64 << bits) - 1 };
                            match o.parse::<u64>() {
                                Ok(g) if g & mask == e => {}
                                _ => sink.fail("C12", "bits/read-buffer", &rline, &format!("extract {bits} at bit {p}: got {o} expected {e}")),
                            }
                            p += bits;
                        } else if o != "none" {
                            sink.fail("C12", "bits/read-buffer", &rline, &format!("extract {bits} at bit {p} beyond data: got {o}"));
                        }
                    } else if o != (appended.len() * 8 - p).to_string() {
                        sink.fail("C12", "bits/read-buffer", &rline, &format!("available: got {o}"));
                    }
                }
                sink.case(rline, rout, w > 0 && w % 8 != 0);
            }
        }
    }

    // 3. value round trips through RecordDataType::write / BitPack::unpack_* for every range
    let mut all_ranges = ranges.clone();
    for _ in 0..(if thorough { 2000 } else { 200 }) {
        let a = rng.next() as i64 >> rng.below(64);
        let b = rng.next() as i64 >> rng.below(64);
        all_ranges.push(if a <= b { (a, b) } else { (b, a) });
    }
    for (k, (min, max)) in all_ranges.iter().enumerate() {
        for scaled in [false, true] {
            let dt = if scaled { Dt::S(*min, *max) } else { Dt::I(*min, *max) };
            let n = 1 + rng.below(if thorough { 12 } else { 6 }) as usize;
            let vals: Vec<i128> = (0..n)
                .map(|i| match (i + k) % 5 {
                    0 => *min as i128,
                    1 => *max as i128,
                    2 => (*min as i128 + 1).min(*max as i128),
                    3 => (*max as i128 - 1).max(*min as i128),
                    _ => rng.range(*min, *max) as i128,
                })
                .collect();
            let cuts: String = (0..n).map(|_| if rng.chance(1, 2) { '1' } else { '0' }).collect();
            let line = format!(
                "rt {} {} {} {}",
                dt.tok(),
                n,
                vals.iter().map(|v| v.to_string()).collect::<Vec<_>>().join(" "),
                cuts
            );
            let out = exec(&line);
            oracle_rt(sink, &line, &dt, &vals, &cuts);
            sink.stat(&format!("rt_width_{}", dt.width()));
            sink.case(line, out, dt.width() % 8 != 0);
        }
    }
    // floats: bit patterns incl. NaN payloads, -0.0, inf, subnormals
    let f64s: [u64; 8] = [0, 0x8000_0000_0000_0000, 0x7ff0_0000_0000_0000, 0xfff0_0000_0000_0000, 0x7ff8_0000_0000_0001, 0x7ff4_0000_dead_beef, 1, 0x3ff0_0000_0000_0000];
    for rep in 0..(if thorough { 200 } else { 30 }) {
        for is32 in [true, false] {
            let dt = if is32 { Dt::F32 } else { Dt::F64 };
            let n = 1 + rng.below(6) as usize;
            let vals: Vec<i128> = (0..n)
                .map(|i| {
                    let b = if (i + rep) % 3 == 0 { f64s[rng.below(8) as usize] } else { rng.next() };
                    if is32 {
                        // canonicalise nothing: to_le_bytes/from_le_bytes are bit exact
                        (b >> 32) as i128
                    } else {
                        b as i128
                    }
                })
                .collect();
            let cuts: String = (0..n).map(|_| if rng.chance(1, 2) { '1' } else { '0' }).collect();
            let line = format!(
                "rt {} {} {} {}",
                dt.tok(),
                n,
                vals.iter().map(|v| v.to_string()).collect::<Vec<_>>().join(" "),
                cuts
            );
            let out = exec(&line);
            oracle_rt(sink, &line, &dt, &vals, &cuts);
            sink.case(line, out, true);
        }
    }

    // 4. unpack on arbitrary byte strings with arbitrary chunking (artefact values included)
    for _ in 0..(if thorough { 3000 } else { 400 }) {
        let (min, max) = *rng.pick(&all_ranges);
        let nchunks = 1 + rng.below(4) as usize;
        let chunks: Vec<Vec<u8>> = (0..nchunks).map(|_| { let n = rng.below(12) as usize; rng.bytes(n) }).collect();
        let cmd = if rng.chance(1, 2) { "ui" } else { "us" };
        let line = format!("{cmd} {min} {max} {}", chunks.iter().map(|c| hex(c)).collect::<Vec<_>>().join(" "));
        let out = exec(&line);
        sink.case(line, out, max > min);
    }
    for _ in 0..(if thorough { 500 } else { 80 }) {
        let bits = if rng.chance(1, 2) { 32 } else { 64 };
        let nchunks = 1 + rng.below(4) as usize;
        let chunks: Vec<Vec<u8>> = (0..nchunks).map(|_| { let n = rng.below(20) as usize; rng.bytes(n) }).collect();
        let line = format!("uf {bits} {}", chunks.iter().map(|c| hex(c)).collect::<Vec<_>>().join(" "));
        let out = exec(&line);
        sink.case(line, out, true);
    }

    // 5. misuse of the raw buffers (correspondence only: the model must reproduce the code's behaviour)
    for _ in 0..(if thorough { 1000 } else { 150 }) {
        let mut ops = vec![];
        for _ in 0..(1 + rng.below(6)) {
            match rng.below(5) {
                0 => ops.push("f".to_string()),
                1 => ops.push("a".to_string()),
                2 => { let n = rng.below(4) as usize; ops.push(format!("y:{}", hex(&rng.bytes(n)))) },
                _ => {
                    let bits = rng.below(66) as usize;
                    let n = rng.below(10) as usize;
                    ops.push(format!("b{}:{}", bits, hex(&rng.bytes(n))));
                }
            }
        }
        ops.push("a".into());
        let line = format!("bw {}", ops.join(" "));
        let out = exec(&line);
        sink.case(line, out, true);
    }
}
