//! Engine "writer": writer programs → files (byte-exact against the model) + round-trip oracles
//! (C01, C04, C06, C10, C14; C02/C19 reuse the generated files)
use crate::dev::*;
use crate::scene::*;
use crate::util::*;
use crate::wprog::*;

pub struct Gen<'a> {
    pub rng: &'a mut Rng,
    pub exts: Vec<(String, String)>,
    pub n: usize,
}

const STRS: [&str; 44] = [
    "", "a", "Scan 1", "<", "&", "<&>\"'", "]]>", "a]]>b", "]]", " ", "  \t ", "\n", "line1\nline2", "\u{e4}\u{f6}\u{fc}\u{df}\u{20ac}",
    "\u{1F600} astral", "<![CDATA[x]]>", "&amp;", "end>", "{guid-1234-5678}", "tab\there", "\u{FFFD}\u{D7FF}\u{E000}", "x y  z",
    // carriage returns (XML parsers normalise literal line ends), legal control characters of the C1 block
    "a\rb", "a\r\nb", "\r", "]]\r>", "\r]]>\r", "\u{7f}\u{85}\u{9f}",
    // characters XML cannot carry: a string containing one cannot be stored
    "\u{1}", "x\u{b}y", "\u{0}", "\u{fffe}", "end\u{ffff}", "\u{1b}[0m", "page\u{c}break", "\u{1f}", "\u{8}",
    // text that looks like the markup the writer itself produces
    "ends with <![CDATA[", "<![CDATA[\r\nx", "<![CDATA[\r", "a<![CDATA[]]>b", "]]><![CDATA[", "&#13;", "]]>&#13;<![CDATA[",
];

/// a `Write` target that accepts at most `max` bytes per call (legal: pipes and sockets do it)
pub struct ShortSink {
    pub buf: Vec<u8>,
    pub max: usize,
}
impl std::io::Write for ShortSink {
    fn write(&mut self, b: &[u8]) -> std::io::Result<usize> {
        let n = b.len().min(self.max);
        self.buf.extend_from_slice(&b[..n]);
        Ok(n)
    }
    fn flush(&mut self) -> std::io::Result<()> {
        Ok(())
    }
}

/// XML 1.0 `Char`
pub fn xml_char(c: char) -> bool {
    matches!(c as u32, 0x9 | 0xA | 0xD | 0x20..=0xD7FF | 0xE000..=0xFFFD | 0x10000..=0x10FFFF)
}
pub fn storable(s: &str) -> bool {
    s.chars().all(xml_char)
}

pub fn gen_string(rng: &mut Rng) -> String {
    match rng.below(4) {
        0 | 1 => (*rng.pick(&STRS)).to_string(),
        2 => {
            let n = rng.below(12) as usize;
            (0..n).map(|_| (32 + rng.below(95) as u8) as char).collect()
        }
        _ => {
            let n = 1 + rng.below(6) as usize;
            (0..n)
                .map(|_| {
                    let c = match rng.below(6) {
                        0 => 0x20 + rng.below(0x5f) as u32,
                        1 => 0xA0 + rng.below(0x500) as u32,
                        2 => 0x4E00 + rng.below(0x1000) as u32,
                        3 => 0x1F300 + rng.below(0x300) as u32,
                        4 => *rng.pick(&[0x9u32, 0xA, 0x20, 0x3C, 0x26, 0x5D, 0x3E, 0xD, 0x5D, 0x3E, 0x85, 0x1, 0xFFFE, 0xC, 0x1F, 0x5B, 0x21]),
                        _ => 0x61 + rng.below(26) as u32,
                    };
                    char::from_u32(c).unwrap_or('x')
                })
                .collect()
        }
    }
}

pub fn gen_f64(rng: &mut Rng) -> u64 {
    match rng.below(12) {
        0 => 0f64.to_bits(),
        1 => (-0f64).to_bits(),
        2 => 1f64.to_bits(),
        3 => f64::INFINITY.to_bits(),
        4 => f64::NEG_INFINITY.to_bits(),
        5 => f64::NAN.to_bits(),
        6 => *rng.pick(&[f64::MAX.to_bits(), f64::MIN.to_bits(), f64::MIN_POSITIVE.to_bits(), 1u64, 0x000f_ffff_ffff_ffff, f64::EPSILON.to_bits()]),
        7 => (rng.range(-1000000, 1000000) as f64 / 1000.0).to_bits(),
        8 => (rng.range(-100, 100) as f64).to_bits(),
        9 => 0.1f64.to_bits(),
        10 => (rng.range(-1000, 1000) as f64 * 1e-9).to_bits(),
        _ => rng.next(),
    }
}

/// non-NaN doubles (for coordinates): mostly finite, sometimes an infinity
pub fn gen_coord(rng: &mut Rng) -> u64 {
    match rng.below(9) {
        8 => *rng.pick(&[f64::INFINITY.to_bits(), f64::NEG_INFINITY.to_bits(), f64::NAN.to_bits(), f64::NAN.to_bits()]),
        0 => 0f64.to_bits(),
        1 => (-0f64).to_bits(),
        2 => (rng.range(-1000000, 1000000) as f64 / 1000.0).to_bits(),
        3 => (rng.range(-100, 100) as f64).to_bits(),
        4 => *rng.pick(&[f64::MAX.to_bits(), f64::MIN.to_bits(), f64::MIN_POSITIVE.to_bits(), 1u64, 1e300f64.to_bits(), (-1e-300f64).to_bits()]),
        _ => {
            let f = f64::from_bits(rng.next());
            if f.is_finite() {
                f.to_bits()
            } else {
                1.5f64.to_bits()
            }
        }
    }
}

pub fn gen_f32(rng: &mut Rng) -> u32 {
    match rng.below(9) {
        8 => if rng.chance(1, 2) { f32::INFINITY.to_bits() } else { f32::NEG_INFINITY.to_bits() },
        0 => 0f32.to_bits(),
        1 => (-0f32).to_bits(),
        2 => 1f32.to_bits(),
        3 => f32::MAX.to_bits(),
        4 => f32::MIN_POSITIVE.to_bits(),
        5 => (rng.range(-100000, 100000) as f32 / 100.0).to_bits(),
        6 => 1u32,
        _ => {
            let f = f32::from_bits(rng.next() as u32);
            if f.is_finite() {
                f.to_bits()
            } else {
                2.5f32.to_bits()
            }
        }
    }
}

pub fn gen_int_range(rng: &mut Rng) -> (i64, i64) {
    match rng.below(12) {
        0 => (0, 255),
        1 => (0, 65535),
        2 => (i64::MIN, i64::MAX),
        3 => {
            let v = rng.range(-1000, 1000);
            (v, v)
        }
        4 => (0, 1),
        5 => (-(1i64 << rng.below(40)), (1i64 << rng.below(40)) - 1),
        6 => {
            let k = 1 + rng.below(62);
            let d = rng.below(3) as i64 - 1;
            let min = rng.range(-1000, 1000);
            (min, min + (1i64 << k) + d)
        }
        7 => (i64::MIN, i64::MIN + rng.below(1000) as i64),
        8 => (i64::MAX - rng.below(1000) as i64, i64::MAX),
        9 => (0, i64::MAX),
        10 => (i64::MIN, 0),
        _ => {
            let a = rng.next() as i64 >> rng.below(64);
            let b = rng.next() as i64 >> rng.below(64);
            (a.min(b), a.max(b))
        }
    }
}

pub fn gen_scale(rng: &mut Rng) -> (u64, u64) {
    let scale = *rng.pick(&[1.0f64, 0.001, 0.0001, 0.5, 2.0, 1e-6, 0.1, 3.0, -0.001]);
    let offset = *rng.pick(&[0.0f64, 0.0, 100.0, -2.5, 1e6, 0.125]);
    (scale.to_bits(), offset.to_bits())
}

/// data type for a "real valued" record (coordinates, intensity, colour, time stamp)
/// optional float limits at the edges of the type (and beyond: infinities, NaN, signed zero)
fn edge_f64(rng: &mut Rng) -> Option<u64> {
    if rng.chance(1, 5) {
        return None;
    }
    Some(rng.pick(&[f64::MIN, f64::MAX, f64::INFINITY, f64::NEG_INFINITY, 0.0, -0.0, f64::MIN_POSITIVE, 5e-324, -1.5e300, 1.5e300, f64::NAN, 1.0]).to_bits())
}
fn edge_f32(rng: &mut Rng) -> Option<u32> {
    if rng.chance(1, 5) {
        return None;
    }
    Some(rng.pick(&[f32::MIN, f32::MAX, f32::INFINITY, f32::NEG_INFINITY, 0.0, -0.0, f32::MIN_POSITIVE, 1e-45, -3e38, 3e38, f32::NAN, 1.0]).to_bits())
}

pub fn gen_real_dt(rng: &mut Rng, allow_int: bool) -> DT {
    if rng.chance(1, 10) {
        return if rng.chance(1, 2) { DT::F64(edge_f64(rng), edge_f64(rng)) } else { DT::F32(edge_f32(rng), edge_f32(rng)) };
    }
    match rng.below(if allow_int { 6 } else { 4 }) {
        0 => DT::F32(None, None),
        1 => {
            if rng.chance(1, 2) {
                DT::F64(None, None)
            } else {
                DT::F64(Some((-1000.0f64).to_bits()), Some(1000.0f64.to_bits()))
            }
        }
        2 => {
            if rng.chance(1, 2) {
                DT::F32(Some(0f32.to_bits()), Some(1f32.to_bits()))
            } else {
                DT::F32(Some((-100.0f32).to_bits()), None)
            }
        }
        3 => {
            let (a, b) = gen_int_range(rng);
            let (s, o) = gen_scale(rng);
            DT::S(a, b, s, o)
        }
        _ => {
            let (a, b) = gen_int_range(rng);
            DT::I(a, b)
        }
    }
}

pub fn gen_val(rng: &mut Rng, dt: &DT, coord: bool) -> Val {
    match dt {
        DT::F32(..) => Val::F(gen_f32(rng)),
        DT::F64(..) => Val::D(if coord { gen_coord(rng) } else { gen_coord(rng) }),
        DT::I(a, b) if a > b => Val::I(*rng.pick(&[*a, *b, b / 2 + a / 2])),
        DT::S(a, b, ..) if a > b => Val::S(*rng.pick(&[*a, *b, b / 2 + a / 2])),
        DT::I(a, b) => Val::I(match rng.below(5) {
            0 => *a,
            1 => *b,
            2 => a.saturating_add(1).min(*b),
            _ => rng.range(*a, *b),
        }),
        DT::S(a, b, ..) => Val::S(match rng.below(5) {
            0 => *a,
            1 => *b,
            2 => b.saturating_sub(1).max(*a),
            _ => rng.range(*a, *b),
        }),
    }
}

fn std(n: &str, dt: DT) -> Rec {
    Rec { name: RName::Std(n.into()), dt }
}

impl<'a> Gen<'a> {
    pub fn prototype(&mut self, valid: bool) -> Vec<Rec> {
        let rng = &mut *self.rng;
        let mut p: Vec<Rec> = vec![];
        let kind = rng.below(4); // 0 cartesian, 1 spherical, 2 both, 3 cartesian
        if kind != 1 {
            let same = rng.chance(2, 3);
            let dt = gen_real_dt(rng, true);
            for n in ["cartesianX", "cartesianY", "cartesianZ"] {
                let d = if same { dt.clone() } else { gen_real_dt(rng, true) };
                p.push(std(n, d));
            }
            if rng.chance(1, 3) {
                p.push(std("cartesianInvalidState", DT::I(0, 2)));
            }
        }
        if kind == 1 || kind == 2 {
            p.push(std("sphericalRange", gen_real_dt(rng, true)));
            p.push(std("sphericalAzimuth", gen_real_dt(rng, false)));
            p.push(std("sphericalElevation", gen_real_dt(rng, false)));
            if rng.chance(1, 3) {
                p.push(std("sphericalInvalidState", DT::I(0, 2)));
            }
        }
        if rng.chance(1, 3) {
            let dt = match rng.below(3) {
                0 => DT::I(0, 255),
                1 => DT::F32(Some(0f32.to_bits()), Some(1f32.to_bits())),
                _ => gen_real_dt(rng, true),
            };
            for n in ["colorRed", "colorGreen", "colorBlue"] {
                p.push(std(n, dt.clone()));
            }
            if rng.chance(1, 3) {
                p.push(std("isColorInvalid", DT::I(0, 1)));
            }
        }
        if rng.chance(1, 3) {
            p.push(std("intensity", gen_real_dt(rng, true)));
            if rng.chance(1, 3) {
                p.push(std("isIntensityInvalid", DT::I(0, 1)));
            }
        }
        if rng.chance(1, 4) {
            let (a, b) = gen_int_range(rng);
            p.push(std("rowIndex", DT::I(a, b)));
            if rng.chance(2, 3) {
                let (a, b) = gen_int_range(rng);
                p.push(std("columnIndex", DT::I(a, b)));
            }
        }
        if rng.chance(1, 5) {
            p.push(std("returnCount", DT::I(0, 15)));
            p.push(std("returnIndex", DT::I(0, 15)));
        }
        if rng.chance(1, 5) {
            p.push(std("timeStamp", gen_real_dt(rng, true)));
            if rng.chance(1, 3) {
                p.push(std("isTimeStampInvalid", DT::I(0, 1)));
            }
        }
        if !self.exts.is_empty() && rng.chance(1, 2) {
            let ns = rng.pick(&self.exts).0.clone();
            let name = (*rng.pick(&["normalX", "temperature", "classification", "my_attr-1", "intensity", "cartesianX", "guid", "1st", "-x", "_y", "z-9"])).to_string();
            p.push(Rec { name: RName::Ext(ns.clone(), name), dt: gen_real_dt(rng, true) });
            // further records of the same (or another registered) namespace; every one of them has to be checked
            while rng.chance(2, 5) {
                let ns2 = if rng.chance(2, 3) { ns.clone() } else { rng.pick(&self.exts).0.clone() };
                let name2 = (*rng.pick(&["second", "third_attr", "n-2", "bad name", "1st", "", "xmlq", "\u{e4}", "a.b", "ok2", "-x"])).to_string();
                p.push(Rec { name: RName::Ext(ns2, name2), dt: gen_real_dt(rng, true) });
            }
        }
        if rng.chance(1, 4) {
            // shuffle the record order
            for i in (1..p.len()).rev() {
                let j = rng.below(i as u64 + 1) as usize;
                p.swap(i, j);
            }
        }
        if !p.is_empty() && rng.chance(1, 8) {
            // a second record with the name of an existing one (often of another type)
            let k = rng.below(p.len() as u64) as usize;
            let name = p[k].name.clone();
            let dt = match rng.below(3) {
                0 => p[k].dt.clone(),
                1 => DT::F64(None, None),
                _ => gen_real_dt(rng, true),
            };
            p.push(Rec { name, dt });
        }
        if !valid {
            match rng.below(20) {
                10 => p.push(std("isTimeStampInvalid", DT::I(0, 1))),                 // without timeStamp (unless present)
                11 => p.push(std("isTimeStampInvalid", DT::I(0, 2))),
                12 => p.push(std("sphericalInvalidState", DT::I(0, 2))),              // without spherical coordinates (unless present)
                13 => p.push(std("sphericalInvalidState", DT::F32(None, None))),
                14 => {
                    // an integer angle
                    match p.iter_mut().find(|r| r.name.is("sphericalAzimuth") || r.name.is("sphericalElevation")) {
                        Some(r) => r.dt = DT::I(0, 360),
                        None => p.push(std("sphericalAzimuth", DT::I(0, 360))),
                    }
                }
                15 => {
                    // two of the three colours
                    if p.iter().any(|r| r.name.is("colorGreen")) {
                        p.retain(|r| !r.name.is("colorGreen"));
                    } else {
                        p.push(std("colorRed", DT::I(0, 255)));
                        p.push(std("colorBlue", DT::I(0, 255)));
                    }
                }
                16 => p.push(std("isColorInvalid", DT::I(0, 2))),
                17 => p.push(std("returnCount", DT::F32(None, None))),
                18 => p.push(std("returnIndex", DT::I(0, 3))),                        // without returnCount (unless present)
                19 => p.push(std("columnIndex", DT::S(0, 10, 1f64.to_bits(), 0f64.to_bits()))),
                _ => {}
            }
            match rng.below(10) {
                9 => {
                    // a reversed integer range (the reader rejects such a prototype)
                    let dt = if rng.chance(1, 2) { DT::I(10, 5) } else { DT::S(1, 0, 1f64.to_bits(), 0f64.to_bits()) };
                    match p.iter_mut().find(|r| matches!(&r.dt, DT::I(a, b) | DT::S(a, b, ..) if a < b) && !r.name.is("cartesianInvalidState") && !r.name.is("sphericalInvalidState")) {
                        Some(r) if rng.chance(1, 2) => {
                            r.dt = match &r.dt {
                                DT::I(a, b) => DT::I(*b, *a),
                                DT::S(a, b, s, o) => DT::S(*b, *a, *s, *o),
                                d => d.clone(),
                            }
                        }
                        _ => p.push(std("timeStamp", dt)),
                    }
                }
                0 => {
                    p.retain(|r| !r.name.is("cartesianY") && !r.name.is("sphericalElevation"));
                }
                1 => p.push(std("cartesianInvalidState", DT::I(0, 3))),
                2 => p.push(std("isColorInvalid", DT::I(0, 1))),
                3 => p.push(std("returnCount", DT::I(0, 3))),
                4 => p.push(std("rowIndex", DT::F64(None, None))),
                5 => p.push(Rec { name: RName::Ext("nope".into(), "attr".into()), dt: DT::F32(None, None) }),
                6 => p.push(Rec { name: RName::Ext((*rng.pick(&["", "xmlfoo", "a b", "\u{e4}"])).to_string(), "attr".into()), dt: DT::F32(None, None) }),
                7 => p.clear(),
                _ => p.push(std("isIntensityInvalid", DT::I(0, 2))),
            }
        }
        p
    }

    pub fn point(&mut self, proto: &[Rec]) -> Vec<Val> {
        proto
            .iter()
            .map(|r| {
                let coord = ["cartesianX", "cartesianY", "cartesianZ", "sphericalRange", "sphericalAzimuth", "sphericalElevation"].iter().any(|n| r.name.is(n));
                gen_val(self.rng, &r.dt, coord)
            })
            .collect()
    }

    pub fn bad_point(&mut self, proto: &[Rec]) -> Vec<Val> {
        let mut p = self.point(proto);
        if p.is_empty() {
            return vec![Val::I(0)];
        }
        let i = self.rng.below(p.len() as u64) as usize;
        match self.rng.below(5) {
            0 => {
                p.pop();
            }
            1 => p.push(Val::I(1)),
            2 => {
                p[i] = match p[i] {
                    Val::I(v) => Val::S(v),
                    Val::S(v) => Val::I(v),
                    Val::F(v) => Val::D(v as u64),
                    Val::D(v) => Val::F(v as u32),
                }
            }
            _ => {
                // out of range integer (if the record has a proper sub-range)
                match &proto[i].dt {
                    DT::I(a, b) => {
                        if *b < i64::MAX {
                            p[i] = Val::I(b + 1 + self.rng.below(3) as i64)
                        } else if *a > i64::MIN {
                            p[i] = Val::I(a - 1)
                        } else {
                            p.pop();
                        }
                    }
                    DT::S(a, b, ..) => {
                        if *a > i64::MIN {
                            p[i] = Val::S(a - 1 - self.rng.below(300) as i64)
                        } else if *b < i64::MAX {
                            p[i] = Val::S(b + 1)
                        } else {
                            p.pop();
                        }
                    }
                    _ => {
                        p.pop();
                    }
                }
            }
        }
        p
    }

    pub fn data(&mut self) -> Data {
        let rng = &mut *self.rng;
        match rng.below(6) {
            0 => Data::Hex(vec![]),
            1 => {
                let n = rng.below(9) as usize;
                Data::Hex(rng.bytes(n))
            }
            2 => Data::Gen(rng.below(1021) as usize, rng.below(250) as usize),
            3 => Data::Gen(1000 + rng.below(45) as usize, rng.below(250) as usize),
            4 => Data::Gen(rng.below(3100) as usize, rng.below(250) as usize),
            _ => Data::Gen(rng.below(64) as usize, rng.below(250) as usize),
        }
    }

    fn tr(&mut self) -> Tr {
        let mut x = [0u64; 7];
        for v in x.iter_mut() {
            *v = gen_f64(self.rng);
        }
        // rotations with structure: the two identities (w = 1 and w = -1), half turns, a quarter turn, a
        // non-unit and the zero quaternion; translations that are zero or not
        if self.rng.chance(2, 5) {
            let h = std::f64::consts::FRAC_1_SQRT_2;
            let q: [f64; 4] = *self.rng.pick(&[[1.0, 0.0, 0.0, 0.0], [-1.0, 0.0, 0.0, 0.0], [0.0, 1.0, 0.0, 0.0], [0.0, 0.0, 0.0, 1.0], [h, 0.0, h, 0.0], [2.0, 0.0, 0.0, 0.0], [0.0, 0.0, 0.0, 0.0], [0.5, 0.0, 0.0, 0.0], [1.0, 0.0, 0.0, -0.0]]);
            for i in 0..4 {
                x[i] = q[i].to_bits();
            }
            if self.rng.chance(1, 3) {
                for i in 4..7 {
                    x[i] = 0f64.to_bits();
                }
            }
        }
        x
    }

    fn dt(&mut self) -> Dt {
        (gen_f64(self.rng), self.rng.chance(1, 2))
    }

    pub fn ref_max_points(proto: &[Rec]) -> usize {
        let bits: usize = proto.iter().map(|r| match &r.dt {
            DT::F32(..) => 32,
            DT::F64(..) => 64,
            DT::I(a, b) | DT::S(a, b, ..) => crate::eng_bits::ref_width(*a, *b),
        }).sum();
        if bits == 0 {
            return usize::MAX;
        }
        let sub = 6 + proto.len() * 2 + proto.len() + 500;
        if sub > 65535 {
            return 0;
        }
        (65535 - sub) * 8 / bits
    }

    pub fn cloud(&mut self, points_hint: usize) -> Stmt {
        let valid = self.rng.chance(11, 12);
        let proto = self.prototype(valid);
        let mut body: Vec<PcStmt> = vec![];
        let cap = Self::ref_max_points(&proto);
        let n = match self.rng.below(8) {
            0 => 0,
            1 => 1,
            2 => 2,
            3 if cap < 4000 && points_hint >= 1000 => cap - 1 + self.rng.below(3) as usize,
            4 if cap < 2500 && points_hint >= 1000 => 2 * cap + 1,
            _ => self.rng.below(points_hint.min(40) as u64 + 1) as usize,
        };
        for _ in 0..n {
            if self.rng.chance(1, 15) {
                let bp = self.bad_point(&proto);
                body.push(PcStmt::P(bp));
            } else {
                let p = self.point(&proto);
                body.push(PcStmt::P(p));
            }
            if self.rng.chance(1, 10) {
                body.push(self.pc_meta(&proto));
            }
        }
        for _ in 0..self.rng.below(5) {
            let at = self.rng.below(body.len() as u64 + 1) as usize;
            let m = self.pc_meta(&proto);
            body.insert(at, m);
        }
        // now and then the writer is finalized in the middle (or twice): what follows meets a finalized writer
        if self.rng.chance(1, 12) {
            let at = self.rng.below(body.len() as u64 + 1) as usize;
            body.insert(at, PcStmt::Fin);
            if self.rng.chance(1, 3) {
                body.push(PcStmt::Fin);
            }
        }
        self.n += 1;
        Stmt::Pc { guid: format!("pc-{}-{}", self.n, gen_string(self.rng)), proto, body, end: self.rng.chance(14, 15) }
    }

    fn limit_val(&mut self, proto: &[Rec], name: &str) -> Option<Val> {
        if self.rng.chance(1, 6) {
            return None;
        }
        match proto.iter().find(|r| r.name.is(name)) {
            Some(r) => Some(gen_val(self.rng, &r.dt, false)),
            None => Some(Val::I(self.rng.range(0, 255))),
        }
    }

    pub fn pc_meta(&mut self, proto: &[Rec]) -> PcStmt {
        let some = self.rng.chance(5, 6);
        match self.rng.below(9) {
            0 | 1 | 2 => {
                let k = *self.rng.pick(&PC_STR);
                PcStmt::Str(k, if some { Some(gen_string(self.rng)) } else { None })
            }
            3 => PcStmt::Og(if some { Some((0..self.rng.below(4)).map(|_| gen_string(self.rng)).collect()) } else { None }),
            4 => PcStmt::Tr(if some { Some(self.tr()) } else { None }),
            5 => PcStmt::Time(if self.rng.chance(1, 2) { "AS" } else { "AE" }, if some { Some(self.dt()) } else { None }),
            6 => PcStmt::Flt(*self.rng.pick(&["TEMP", "HUM", "PRES"]), if some { Some(gen_f64(self.rng)) } else { None }),
            7 => PcStmt::Il(if some { Some((self.limit_val(proto, "intensity"), self.limit_val(proto, "intensity"))) } else { None }),
            _ => PcStmt::Cl(if some {
                Some([self.limit_val(proto, "colorRed"), self.limit_val(proto, "colorRed"), self.limit_val(proto, "colorGreen"), self.limit_val(proto, "colorGreen"), self.limit_val(proto, "colorBlue"), self.limit_val(proto, "colorBlue")])
            } else {
                None
            }),
        }
    }

    pub fn image(&mut self) -> Stmt {
        let mut body: Vec<ImgStmt> = vec![];
        let fmt = if self.rng.chance(1, 2) { 'P' } else { 'J' };
        let nrep = self.rng.below(3);
        for _ in 0..self.rng.below(4) {
            body.push(self.img_meta());
        }
        for _ in 0..nrep {
            let data = self.data();
            let mask = if self.rng.chance(1, 3) { Some(self.data()) } else { None };
            let w = self.rng.below(5000) as u32;
            let h = if self.rng.chance(1, 10) { u32::MAX } else { self.rng.below(5000) as u32 };
            let mut f = [0u64; 5];
            for v in f.iter_mut() {
                *v = gen_f64(self.rng);
            }
            body.push(match self.rng.below(4) {
                0 => ImgStmt::Vis { fmt, data, w, h, mask },
                1 => ImgStmt::Pin { fmt, data, w, h, f, mask },
                2 => ImgStmt::Sph { fmt, data, w, h, f: [f[0], f[1]], mask },
                _ => ImgStmt::Cyl { fmt, data, w, h, f: [f[0], f[1], f[2], f[3]], mask },
            });
            if self.rng.chance(1, 3) {
                body.push(self.img_meta());
            }
        }
        self.n += 1;
        Stmt::Img { guid: format!("img-{}-{}", self.n, gen_string(self.rng)), body, end: self.rng.chance(9, 10) }
    }

    fn img_meta(&mut self) -> ImgStmt {
        match self.rng.below(5) {
            0 | 1 | 2 => ImgStmt::Str(*self.rng.pick(&IMG_STR), gen_string(self.rng)),
            3 => ImgStmt::Tr(self.tr()),
            _ => ImgStmt::Acq(self.dt()),
        }
    }

    pub fn program(&mut self, points_hint: usize) -> Program {
        self.exts.clear();
        let mut stmts: Vec<Stmt> = vec![];
        let guid = if self.rng.chance(1, 25) { String::new() } else { format!("file-{}", gen_string(self.rng)) };
        for _ in 0..self.rng.below(3) {
            let ns = (*self.rng.pick(&["ext", "nor", "my-ext_2", "e57x", "xmlbad", "", "bad ns", "ext", "0129", "-a", "_u", "x9"])).to_string();
            let url = (*self.rng.pick(&["http://example.com/ext", "http://www.libe57.org/E57_NOR_surface_normals.txt", "urn:x", "http://a/?b=1&c=2", "a\"b", "<u>", "", "http://www.astm.org/COMMIT/E57/2010-e57-v1.0", "http://www.w3.org/XML/1998/namespace", "http://www.w3.org/2000/xmlns/", "urn:tab\there", "urn:two\nlines", " lead and trail ", "urn:cr\rhere", "urn:\u{1}ctl", "urn:\u{85}c1"])).to_string();
            if ref_valid_name(&ns) && !self.exts.iter().any(|e| e.0 == ns) && !self.exts.iter().any(|e| e.1 == url) && !url.is_empty() && url != "http://www.astm.org/COMMIT/E57/2010-e57-v1.0" && !["http://www.w3.org/XML/1998/namespace", "http://www.w3.org/2000/xmlns/"].contains(&url.as_str()) {
                self.exts.push((ns.clone(), url.clone()));
            }
            stmts.push(Stmt::Ext(ns, url));
        }
        if self.rng.chance(1, 3) {
            stmts.push(Stmt::Cm(if self.rng.chance(4, 5) { Some(gen_string(self.rng)) } else { None }));
        }
        if self.rng.chance(1, 3) {
            let d = self.dt();
            stmts.push(Stmt::Cr(if self.rng.chance(4, 5) { Some(d) } else { None }));
        }
        let items = self.rng.below(5);
        for _ in 0..items {
            match self.rng.below(6) {
                0 | 1 => {
                    let d = self.data();
                    stmts.push(Stmt::Blob(d))
                }
                2 => {
                    let im = self.image();
                    stmts.push(im)
                }
                _ => {
                    let c = self.cloud(points_hint);
                    stmts.push(c)
                }
            }
        }
        // the writer stays usable after finalize: an early (or repeated) finalize must not harm
        // what follows or what was there before
        if self.rng.chance(1, 8) {
            let at = self.rng.below(stmts.len() as u64 + 1) as usize;
            stmts.insert(at, Stmt::Fin);
            if self.rng.chance(1, 3) {
                stmts.insert(at, Stmt::Fin);
            }
        }
        stmts.push(Stmt::Fin);
        Program { guid, stmts }
    }
}

pub fn exec(line: &str) -> String {
    match parse_case_line(line) {
        Some((_, prog)) => {
            let dev = SimDev::new(vec![]);
            let run = execute(&prog, &dev);
            if line.starts_with("wrdump") {
                hex(&run.file)
            } else {
                run_line(&run)
            }
        }
        None => "BADCASE".into(),
    }
}

/// implementation-only oracles on one program
/// the program without the calls that returned an error (a failed add_pointcloud / add_image goes with its body)
pub fn strip_rejected(prog: &Program, results: &[String]) -> Program {
    let res = |k: usize| results.get(k).map(|s| s.as_str()).unwrap_or("-");
    let mut k = 0usize;
    let mut stmts: Vec<Stmt> = vec![];
    for s in &prog.stmts {
        match s {
            Stmt::Pc { guid, proto, body, end } => {
                let r = res(k);
                k += 1;
                if r == "err" {
                    k += body.len() + 1;
                    continue;
                }
                let mut nb = vec![];
                for b in body {
                    if res(k) != "err" {
                        nb.push(b.clone());
                    }
                    k += 1;
                }
                k += 1;
                stmts.push(Stmt::Pc { guid: guid.clone(), proto: proto.clone(), body: nb, end: *end });
            }
            Stmt::Img { guid, body, end } => {
                let r = res(k);
                k += 1;
                if r == "err" {
                    k += body.len() + 1;
                    continue;
                }
                let mut nb = vec![];
                for b in body {
                    if res(k) != "err" {
                        nb.push(b.clone());
                    }
                    k += 1;
                }
                k += 1;
                stmts.push(Stmt::Img { guid: guid.clone(), body: nb, end: *end });
            }
            other => {
                if res(k) != "err" {
                    stmts.push(other.clone());
                }
                k += 1;
            }
        }
    }
    Program { guid: prog.guid.clone(), stmts }
}

pub fn oracle_program(sink: &mut Sink, line: &str, prog: &Program, run: &Run) {
    sink.oracle_evals += 1;
    // ---- C10: totality and rejection rules
    let mut k = 0usize;
    let mut exts: Vec<(String, String)> = vec![];
    let res = |k: usize| run.results.get(k).map(|s| s.as_str()).unwrap_or("<none>");
    for s in &prog.stmts {
        match s {
            Stmt::Ext(ns, url) => {
                let r = res(k);
                // a namespace is identified by its URL: one prefix per URL, and never the E57 namespace itself
                let expect_ok = ref_valid_name(ns) && !exts.iter().any(|e| &e.0 == ns) && !exts.iter().any(|e| &e.1 == url) && !url.is_empty() && url != "http://www.astm.org/COMMIT/E57/2010-e57-v1.0" && !["http://www.w3.org/XML/1998/namespace", "http://www.w3.org/2000/xmlns/"].contains(&url.as_str());
                if r == "panic" {
                    sink.fail("C10", "writer/panic/register_extension", line, "register_extension panicked");
                } else if (r == "ok") != expect_ok && r != "<none>" {
                    sink.fail("C10", "writer/extension-verdict", line, &format!("register_extension({ns:?}) = {r}, expected ok={expect_ok}"));
                }
                if r == "ok" {
                    exts.push((ns.clone(), url.clone()));
                }
                k += 1;
            }
            Stmt::Cm(_) | Stmt::Cr(_) => k += 1,
            Stmt::Blob(_) => {
                if res(k) == "panic" {
                    sink.fail("C10", "writer/panic/add_blob", line, "add_blob panicked");
                } else if !res(k).starts_with("ok") && res(k) != "<none>" {
                    sink.fail("C06", "blob/write-rejected", line, "add_blob failed on an ideal device");
                }
                k += 1;
            }
            Stmt::Fin | Stmt::FinX(_) => {
                if res(k) == "panic" {
                    sink.fail("C10", "writer/panic/finalize", line, "finalize panicked");
                }
                k += 1;
            }
            Stmt::Pc { proto, body, end, .. } => {
                let r = res(k);
                let valid = ref_prototype_ok(proto, &exts);
                let degenerate = Gen::ref_max_points(proto) == usize::MAX || Gen::ref_max_points(proto) == 0;
                if r == "panic" {
                    let sig = if proto.iter().all(|r| matches!(&r.dt, DT::I(a, b) | DT::S(a, b, ..) if a == b)) { "writer/panic/add_pointcloud/all-zero-width" } else { "writer/panic/add_pointcloud" };
                    sink.fail("C10", sig, line, "add_pointcloud panicked");
                } else if r == "ok" && !valid {
                    sink.fail("C10", "writer/accepts-invalid-prototype", line, "add_pointcloud accepted a prototype that breaks the documented rules");
                } else if r == "err" && valid && !degenerate {
                    sink.fail("C01", "writer/rejects-valid-prototype", line, "add_pointcloud rejected a prototype that follows the documented rules");
                }
                let opened = r == "ok";
                k += 1;
                let mut finalized = false; // a finalize inside the body succeeded
                for b in body {
                    if matches!(b, PcStmt::Fin) {
                        let r = res(k);
                        if opened {
                            if r == "panic" {
                                sink.fail("C10", "writer/panic/pc-finalize", line, "PointCloudWriter::finalize panicked");
                            } else if finalized && r == "ok" {
                                sink.fail("C10", "writer/second-finalize-duplicates", line, "a second PointCloudWriter::finalize succeeded: the same point cloud is stored twice");
                            } else if !finalized && r == "err" {
                                sink.fail("C01", "writer/pc-finalize-failed", line, "PointCloudWriter::finalize failed");
                            }
                            if r == "ok" {
                                finalized = true;
                            }
                        }
                        k += 1;
                        continue;
                    }
                    if let PcStmt::P(vs) = b {
                        let r = res(k);
                        if opened && finalized {
                            if r == "ok" {
                                sink.fail("C10", "writer/point-after-finalize-accepted", line, "add_point succeeded on a finalized point cloud writer: the point cannot be stored");
                            }
                        } else if opened {
                            let okp = ref_point_ok(proto, vs);
                            if r == "panic" {
                                sink.fail("C10", "writer/panic/add_point", line, "add_point panicked");
                            } else if r == "ok" && !okp {
                                let sig = if vs.len() != proto.len() {
                                    "writer/accepts-wrong-arity"
                                } else if proto.iter().zip(vs.iter()).any(|(r, v)| !matches!((&r.dt, v), (DT::F32(..), Val::F(_)) | (DT::F64(..), Val::D(_)) | (DT::I(..), Val::I(_)) | (DT::S(..), Val::S(_)))) {
                                    "writer/accepts-wrong-type"
                                } else {
                                    "writer/accepts-out-of-range-integer"
                                };
                                sink.fail("C10", sig, line, &format!("add_point accepted {:?}", vs.iter().map(|v| v.tok()).collect::<Vec<_>>()));
                            } else if r == "err" && okp {
                                sink.fail("C01", "writer/rejects-valid-point", line, &format!("add_point rejected the in-range point {:?}", vs.iter().map(|v| v.tok()).collect::<Vec<_>>()));
                            }
                        }
                    }
                    k += 1;
                }
                if opened && *end {
                    if res(k) == "panic" {
                        sink.fail("C10", "writer/panic/pc-finalize", line, "PointCloudWriter::finalize panicked");
                    } else if finalized && res(k) == "ok" {
                        sink.fail("C10", "writer/second-finalize-duplicates", line, "a second PointCloudWriter::finalize succeeded: the same point cloud is stored twice");
                    } else if !finalized && res(k) == "err" {
                        sink.fail("C01", "writer/pc-finalize-failed", line, "PointCloudWriter::finalize failed");
                    }
                }
                k += 1;
            }
            Stmt::Img { body, .. } => {
                k += 1;
                for _ in body {
                    if res(k) == "panic" {
                        sink.fail("C10", "writer/panic/image", line, "image writer call panicked");
                    }
                    k += 1;
                }
                k += 1;
            }
        }
    }
    if run.panicked {
        return;
    }
    // ---- C10: a rejected call is a no-op — the same program without its rejected calls produces the same bytes
    if run.results.iter().any(|r| r == "err") {
        let stripped = strip_rejected(prog, &run.results);
        let dev2 = SimDev::new(vec![]);
        let run2 = execute(&stripped, &dev2);
        if !run2.panicked && run2.file != run.file {
            sink.fail("C10", "writer/rejected-call-leaves-traces", line, &format!("without its {} rejected call(s) the program writes a different file ({} vs {} bytes): a call that returned an error changed what is stored", run.results.iter().filter(|r| *r == "err").count(), run2.file.len(), run.file.len()));
        }
    }
    // ---- round trip (C01/C04/C06/C14): only when the last statement is a successful finalize
    let last_fin_ok = matches!(prog.stmts.last(), Some(Stmt::Fin)) && run.results.last().map(|s| s == "ok").unwrap_or(false);
    let exp = expected_scene(prog, &run.results);
    let storable = scene_storable(&exp);
    if !last_fin_ok {
        if matches!(prog.stmts.last(), Some(Stmt::Fin)) && !prog.guid.is_empty() && storable && run.results.last().map(|s| s == "err").unwrap_or(false) {
            sink.fail("C10", "writer/finalize-failed", line, "finalize failed although all preconditions hold");
        }
        return;
    }
    if !storable {
        // a string with a character XML cannot carry was accepted by every call including finalize
        sink.fail("C10", "writer/unstorable-string-accepted", line, "a string containing a character that XML 1.0 cannot carry was accepted by every call including finalize; it cannot be stored faithfully");
    }
    let maxp = exp.clouds.iter().map(|c| c.points.len()).max().unwrap_or(0) + 5;
    match guarded(|| read_scene(&run.file, maxp)) {
        Err(p) => {
            // a written file on which the reader panics fails every round-trip property at once
            sink.fail("C08", "reader/panic-on-written-file", line, &format!("reading the written file panicked: {p}"));
            for t in ["C01", "C04", "C06", "C14"] {
                sink.fail(t, "roundtrip/panic-on-written-file", line, &format!("reading the written file panicked: {p}"));
            }
        }
        Ok(Err(e)) => {
            let sig = if e.contains("blob()") {
                ("C06", "blob/read-back".to_string())
            } else {
                // classify by the first offending construct so that distinct causes stay distinct
                let cause = if prog_has_cdata_end(prog) {
                    "cdata-end-in-string"
                } else if prog_has_bad_url(prog, &run.results) {
                    "extension-url-needs-escaping"
                } else if prog_has_cylindrical(prog, &run.results) {
                    "cylindrical-image"
                } else {
                    "other"
                };
                ("C10", format!("writer/ok-but-unreadable/{cause}"))
            };
            sink.fail(sig.0, &sig.1, line, &format!("all calls succeeded but the file does not read back: {e}"));
            for t in ["C01", "C04"] {
                sink.fail(t, &format!("roundtrip/unreadable/{}", sig.1), line, &format!("all calls succeeded but the file does not read back: {e}"));
            }
        }
        Ok(Ok(got)) => {
            // C10: when every call succeeded, any difference is also a failure of the writer's contract
            let all_ok = run.results.iter().all(|r| r.starts_with("ok") || r == "-");
            let mut first = true;
            for (prop, sig, detail) in compare(&exp, &got) {
                sink.fail(prop, &sig, line, &detail);
                if all_ok && first && prop != "C10" {
                    sink.fail("C10", &format!("writer/all-calls-ok-but-{sig}"), line, &format!("every call including finalize succeeded, yet: {detail}"));
                    first = false;
                }
            }
            // direct blobs
            if let Ok(mut r) = e57::E57Reader::new(std::io::Cursor::new(run.file.clone())) {
                // … also into a target that legally accepts only part of what it is offered (a pipe, a socket): the
                // caller must still receive every byte, or an error
                for (k, (off, len, bytes)) in exp.blobs.iter().enumerate() {
                    let mut tgt = ShortSink { buf: vec![], max: 1 + (k * 97 + bytes.len()) % 300 };
                    match r.blob(&e57::Blob::new(*off, *len), &mut tgt) {
                        Ok(n) if n == *len && &tgt.buf == bytes => {}
                        Ok(n) => {
                            let d = format!("blob at {off} read into a target that accepts at most {} bytes per write: {} bytes written, {n} reported, {} delivered, equal={}", tgt.max, bytes.len(), tgt.buf.len(), &tgt.buf == bytes);
                            sink.fail("C06", "blob/short-write-target", line, &d);
                            sink.fail("C16", "device/short-write-changes-read", line, &d);
                        }
                        Err(_) => sink.fail("C06", "blob/read-back", line, &format!("blob at {off}: error when read into a target with short writes")),
                    }
                }
                for (off, len, bytes) in &exp.blobs {
                    let mut out = vec![];
                    match r.blob(&e57::Blob::new(*off, *len), &mut out) {
                        Ok(n) if n == *len && &out == bytes => {}
                        Ok(n) => sink.fail("C06", "blob/bytes", line, &format!("blob at {off}: {} bytes written, read {n} bytes, equal={}", bytes.len(), &out == bytes)),
                        Err(e) => sink.fail("C06", "blob/read-back", line, &format!("blob at {off}: {e}")),
                    }
                }
            }
            // xml identity (C04): the reader's xml() is the XML section of the file
            if let Some(x) = &got.xml {
                if x.as_bytes() != extract_xml(&run.file) {
                    sink.fail("C04", "meta/xml-identity", line, "reader.xml() differs from the XML section of the file");
                }
            }
        }
    }
}

/// differences between what the successful calls of a run should have stored and what the real
/// reader finds in the file
pub fn roundtrip_diffs(prog: &Program, run: &Run) -> Vec<Diff> {
    let exp = expected_scene(prog, &run.results);
    let maxp = exp.clouds.iter().map(|c| c.points.len()).max().unwrap_or(0) + 5;
    match guarded(|| read_scene(&run.file, maxp)) {
        // a written file that cannot be read back fails every round-trip property at once
        Err(p) => ["C08", "C01", "C04", "C06"].iter().map(|t| (*t, "unreadable/panic".to_string(), format!("reading panicked: {p}"))).collect(),
        Ok(Err(e)) => ["C16", "C01", "C04", "C06"].iter().map(|t| (*t, "unreadable/error".to_string(), format!("the file does not read back: {e}"))).collect(),
        Ok(Ok(got)) => {
            let mut d = compare(&exp, &got);
            if let Ok(mut r) = e57::E57Reader::new(std::io::Cursor::new(run.file.clone())) {
                for (off, len, bytes) in &exp.blobs {
                    let mut out = vec![];
                    match r.blob(&e57::Blob::new(*off, *len), &mut out) {
                        Ok(n) if n == *len && &out == bytes => {}
                        _ => d.push(("C06", "blob/bytes".into(), format!("blob at {off} does not read back"))),
                    }
                }
            }
            d
        }
    }
}

fn all_strings(prog: &Program) -> Vec<String> {
    let mut v = vec![prog.guid.clone()];
    for s in &prog.stmts {
        match s {
            Stmt::Cm(Some(x)) => v.push(x.clone()),
            Stmt::Pc { guid, body, end: true, .. } => {
                v.push(guid.clone());
                for b in body {
                    match b {
                        PcStmt::Str(_, Some(x)) => v.push(x.clone()),
                        PcStmt::Og(Some(gs)) => v.extend(gs.iter().cloned()),
                        _ => {}
                    }
                }
            }
            Stmt::Img { guid, body, end: true } => {
                v.push(guid.clone());
                for b in body {
                    if let ImgStmt::Str(_, x) = b {
                        v.push(x.clone())
                    }
                }
            }
            _ => {}
        }
    }
    v
}
fn prog_has_cdata_end(prog: &Program) -> bool {
    all_strings(prog).iter().any(|s| s.contains("]]>"))
}
fn prog_has_bad_url(prog: &Program, results: &[String]) -> bool {
    prog.stmts.iter().enumerate().any(|(i, s)| matches!(s, Stmt::Ext(_, u) if (u.contains('&') || u.contains('<') || u.contains('"')) && results.get(i).map(|r| r == "ok").unwrap_or(false)))
}
fn prog_has_cylindrical(prog: &Program, _results: &[String]) -> bool {
    prog.stmts.iter().any(|s| matches!(s, Stmt::Img { body, end: true, .. } if body.iter().any(|b| matches!(b, ImgStmt::Cyl { .. }))))
}

pub fn oracle(sink: &mut Sink, line: &str) {
    if let Some((_, prog)) = parse_case_line(line) {
        let dev = SimDev::new(vec![]);
        let run = execute(&prog, &dev);
        oracle_program(sink, line, &prog, &run);
    }
}

pub fn generate(sink: &mut Sink, seed: u64, thorough: bool) {
    let mut rng = Rng::new(seed ^ 0x77E17E);
    let lv = library_version();
    let mut run_one = |sink: &mut Sink, prog: &Program, tag: &str| {
        let line = prog.case_line(&lv);
        let dev = SimDev::new(vec![]);
        let run = execute(prog, &dev);
        oracle_program(sink, &line, prog, &run);
        let npoints: usize = prog.stmts.iter().map(|s| if let Stmt::Pc { body, .. } = s { body.iter().filter(|b| matches!(b, PcStmt::P(_))).count() } else { 0 }).sum();
        let nclouds = prog.stmts.iter().filter(|s| matches!(s, Stmt::Pc { .. })).count();
        sink.stat(tag);
        sink.stat_n("points_total", npoints as u64);
        sink.stat_n("clouds_total", nclouds as u64);
        sink.stat_n("file_bytes_total", run.file.len() as u64);
        sink.stat_max("file_bytes_max", run.file.len() as u64);
        for r in &run.results {
            sink.stat(&format!("result_{}", r.split(':').next().unwrap_or("")));
        }
        let nontrivial = run.file.len() > 1024 && npoints > 0;
        sink.case(line, run_line(&run), nontrivial);
    };
    // 1. random programs
    let n = if thorough { 2500 } else { 350 };
    for i in 0..n {
        let mut g = Gen { rng: &mut rng, exts: vec![], n: 0 };
        let hint = if i % 25 == 0 { 3000 } else { 40 };
        let prog = g.program(hint);
        run_one(sink, &prog, "random_program");
    }
    // 2. residue sweep: a leading blob of length r shifts everything that follows through every
    //    position relative to the 1020-byte page payload
    let step = if thorough { 1 } else { 3 };
    let mut r = (seed % step) as usize;
    while r < 1020 {
        let mut g = Gen { rng: &mut rng, exts: vec![], n: 0 };
        let proto = vec![std("cartesianX", DT::F32(None, None)), std("cartesianY", DT::F32(None, None)), std("cartesianZ", DT::F32(None, None)), std("intensity", DT::I(0, 1000 + r as i64))];
        let mut body = vec![];
        for _ in 0..(1 + r % 5) {
            let p = g.point(&proto);
            body.push(PcStmt::P(p));
        }
        let prog = Program {
            guid: "sweep".into(),
            stmts: vec![Stmt::Blob(Data::Gen(r, r % 250)), Stmt::Pc { guid: "pc".into(), proto, body, end: true }, Stmt::Blob(Data::Gen(r % 7, 1)), Stmt::Fin],
        };
        run_one(sink, &prog, "residue_sweep");
        r += step as usize;
    }
    // 2b. the XML size limit (thorough tier: an 11 MiB string): finalize must refuse what the reader would
    //     refuse (10 MiB), and a string just below the limit must round-trip
    if thorough {
        for n in [11 * 1024 * 1024usize, 9 * 1024 * 1024] {
            let prog = Program { guid: "xml-limit".into(), stmts: vec![Stmt::Cm(Some("m".repeat(n))), Stmt::Fin] };
            let dev = SimDev::new(vec![]);
            let run = execute(&prog, &dev);
            let line = prog.case_line(&lv);
            sink.oracle_evals += 1;
            let expect_ok = n < 10 * 1024 * 1024;
            let got_ok = run.results.last().map(|r| r == "ok").unwrap_or(false);
            if got_ok != expect_ok {
                sink.fail("C10", "writer/xml-size-limit", &format!("xml-limit {n}"), &format!("finalize with a {n}-byte string returned ok={got_ok}; the reader accepts XML up to 10 MiB"));
            } else if got_ok && e57::E57Reader::new(std::io::Cursor::new(run.file.clone())).is_err() {
                sink.fail("C10", "writer/xml-size-limit", &format!("xml-limit {n}"), "finalize succeeded but the file does not open");
            }
            sink.stat("xml_limit_case");
            // implementation-only: a 10 MiB string through the Lean writer model takes the better part of an
            // hour (lists of characters); the model's rule is the one-line check in `EW.finalize` and the
            // theorem `Session.finalize_xml_le`
            let _ = line;
        }
    }
    // 3. packet boundary: clouds with exactly cap-1, cap, cap+1, 2cap+1 points for a few prototypes
    let protos: Vec<Vec<Rec>> = vec![
        vec![std("cartesianX", DT::F64(None, None)), std("cartesianY", DT::F64(None, None)), std("cartesianZ", DT::F64(None, None))],
        vec![std("cartesianX", DT::S(-1000000, 1000000, 0.001f64.to_bits(), 0f64.to_bits())), std("cartesianY", DT::S(-1000000, 1000000, 0.001f64.to_bits(), 0f64.to_bits())), std("cartesianZ", DT::S(-1000000, 1000000, 0.001f64.to_bits(), 0f64.to_bits())), std("colorRed", DT::I(0, 255)), std("colorGreen", DT::I(0, 255)), std("colorBlue", DT::I(0, 255)), std("intensity", DT::I(0, 7))],
    ];
    for proto in &protos {
        let cap = Gen::ref_max_points(proto);
        let counts: Vec<usize> = if thorough { vec![cap - 1, cap, cap + 1, 2 * cap + 1] } else { vec![cap + 1] };
        for n in counts {
            let mut g = Gen { rng: &mut rng, exts: vec![], n: 0 };
            let body: Vec<PcStmt> = (0..n).map(|_| PcStmt::P(g.point(proto))).collect();
            let prog = Program { guid: "cap".into(), stmts: vec![Stmt::Pc { guid: "pc".into(), proto: proto.clone(), body, end: true }, Stmt::Fin] };
            run_one(sink, &prog, "packet_capacity");
        }
    }
    // 4. carry stress: many records whose widths are not multiples of 8, several full packets — the partial byte
    //    every stream carries from packet to packet must still fit the packet that follows
    let n_stress = if thorough { 40 } else { 12 };
    for k in 0..n_stress {
        let nrec = *rng.pick(&[4usize, 6, 8, 9, 10, 11, 12]);
        let mut proto = vec![std("cartesianX", DT::F32(None, None)), std("cartesianY", DT::F32(None, None)), std("cartesianZ", DT::F32(None, None))];
        let names = ["colorRed", "colorGreen", "colorBlue", "intensity", "rowIndex", "columnIndex", "returnIndex", "returnCount", "cartesianInvalidState", "isIntensityInvalid", "isColorInvalid", "timeStamp"];
        for n in names.iter().take(nrec.min(names.len())) {
            let bits = match *n {
                "cartesianInvalidState" => 2,
                "isIntensityInvalid" | "isColorInvalid" => 1,
                _ => 1 + rng.below(13),
            };
            proto.push(std(n, DT::I(0, (1i64 << bits) - 1)));
        }
        if k % 2 == 1 {
            proto.drain(0..3);
            proto.insert(0, std("sphericalRange", DT::I(0, 1000)));
            proto.insert(1, std("sphericalAzimuth", DT::F32(None, None)));
            proto.insert(2, std("sphericalElevation", DT::F32(None, None)));
        }
        if !ref_prototype_ok(&proto, &[]) {
            continue;
        }
        let cap = Gen::ref_max_points(&proto);
        let n = (if thorough { 8 } else if k == 0 { 3 } else { 5 }) * cap + 7;
        let mut g = Gen { rng: &mut rng, exts: vec![], n: 0 };
        let body: Vec<PcStmt> = (0..n).map(|_| PcStmt::P(g.point(&proto))).collect();
        let prog = Program { guid: "carry".into(), stmts: vec![Stmt::Pc { guid: "pc".into(), proto: proto.clone(), body, end: true }, Stmt::Fin] };
        // implementation and oracle always; the model on the first of them (lists of bytes: a few seconds each)
        if k == 0 {
            run_one(sink, &prog, "carry_stress");
        } else {
            let line = prog.case_line(&lv);
            let dev = SimDev::new(vec![]);
            let run = execute(&prog, &dev);
            oracle_program(sink, &line, &prog, &run);
            sink.stat("carry_stress_impl_only");
        }
    }
}
