//! Engine "sfloat": ties the soft-float model of IEEE-754 binary64/binary32 (Lean,
//! E57/Model/SoftFloat.lean — the carrier for which the IEEE facts used by the C13 theorems are
//! PROVED) to the arithmetic the crate really runs on: every primitive operation is evaluated by the
//! hardware here and by the soft-float model there, bit for bit; and the crate's real
//! `Range::from_min_max(min, max).normalize(v)` (hook `e57::verif::normalize`) is compared with the
//! generic Lean normalisation instantiated with the soft-float carrier.
use crate::util::*;

const QNAN64: u64 = 0x7ff8_0000_0000_0000;
const QNAN32: u32 = 0x7fc0_0000;

fn c64(x: f64) -> u64 {
    if x.is_nan() {
        QNAN64
    } else {
        x.to_bits()
    }
}
fn c32(x: f32) -> u32 {
    if x.is_nan() {
        QNAN32
    } else {
        x.to_bits()
    }
}

pub fn exec(line: &str) -> String {
    let t: Vec<&str> = line.split(' ').collect();
    let f = |s: &str| f64::from_bits(s.parse::<u64>().unwrap_or(0));
    let g = |s: &str| f32::from_bits(s.parse::<u32>().unwrap_or(0));
    match t.as_slice() {
        ["op", "mul", a, b] => c64(f(a) * f(b)).to_string(),
        ["op", "sub", a, b] => c64(f(a) - f(b)).to_string(),
        ["op", "div", a, b] => c64(f(a) / f(b)).to_string(),
        ["op", "lt", a, b] => ((f(a) < f(b)) as u8).to_string(),
        ["op", "fin", a] => (f(a).is_finite() as u8).to_string(),
        ["op", "cast", a] => c32(f(a) as f32).to_string(),
        ["op", "ofint", i] => ((i.parse::<i64>().unwrap_or(0) as f64).to_bits()).to_string(),
        ["op", "mul32", a, b] => c32(g(a) * g(b)).to_string(),
        ["op", "u8", a] => (g(a) as u8).to_string(),
        ["norm", mn, mx, v] => match e57::verif::normalize(f(mn), f(mx), f(v)) {
            Ok(x) => c32(x).to_string(),
            Err(_) => "err".into(),
        },
        _ => "BADCASE".into(),
    }
}

/// bit patterns at the places where rounding, underflow, overflow and special values live
pub fn specials64() -> Vec<u64> {
    let mut v: Vec<f64> = vec![
        0.0, -0.0, 1.0, -1.0, 0.5, 2.0, 3.0, 255.0, 1.0 / 255.0, 0.1, 1e300, -1e300, 1e-300, 1.5e308, f64::MAX, f64::MIN, f64::MIN_POSITIVE, -f64::MIN_POSITIVE,
        5e-324, -5e-324, 1e-310, 2.2250738585072009e-308, f64::INFINITY, f64::NEG_INFINITY, f64::NAN, 9007199254740992.0, 9007199254740993.0, 4503599627370497.5,
        1.0 + f64::EPSILON, 1.0 - f64::EPSILON / 2.0, 8.98846567431158e307, 4.49423283715579e307, 1e292, -1e292, 65535.0, 1000.0, -1000.0, 1e-30, 3.4028234663852886e38, 3.4028235677973366e38, 1.401298464324817e-45, 7.006492321624085e-46,
    ];
    // halfway cases of the f32 cast: 1 + 2^-24 (tie), just above and below
    v.push(1.0 + 2f64.powi(-24));
    v.push(1.0 + 2f64.powi(-24) + 2f64.powi(-50));
    v.push(1.0 + 2f64.powi(-24) - 2f64.powi(-50));
    v.push(1.0 + 3.0 * 2f64.powi(-24));
    v.into_iter().map(|x| x.to_bits()).chain([0x7ff0_0000_0000_0001u64, 0xfff8_0000_0000_0000, 0x000f_ffff_ffff_ffff, 0x0010_0000_0000_0001, 0x7fef_ffff_ffff_fffe]).collect()
}

fn structured64(rng: &mut Rng) -> u64 {
    let sign = rng.below(2) << 63;
    let exp = match rng.below(8) {
        0 => 0,                        // subnormal / zero
        1 => 1 + rng.below(3),         // smallest normals
        2 => 2046 - rng.below(3),      // largest
        3 => 2047,                     // inf / NaN
        4 => 1023 + rng.below(3) - 1,  // around 1
        5 => 1023 + 127 + rng.below(4) - 2, // f32 overflow border
        6 => 1023 - 149 + rng.below(30) - 4, // f32 subnormal border
        _ => rng.below(2047),
    };
    let man = match rng.below(6) {
        0 => 0,
        1 => (1u64 << 52) - 1,
        2 => 1u64 << rng.below(52),
        3 => ((1u64 << 52) - 1) ^ (1u64 << rng.below(52)),
        4 => (rng.next() & ((1u64 << 52) - 1)) & !((1u64 << 29) - 1) | (1u64 << 28), // f32 halfway
        _ => rng.next() & ((1u64 << 52) - 1),
    };
    sign | (exp << 52) | man
}

fn structured32(rng: &mut Rng) -> u32 {
    let sign = (rng.below(2) as u32) << 31;
    let exp = match rng.below(5) {
        0 => 0,
        1 => 255,
        2 => 254,
        3 => 127 + rng.below(9) as u32,
        _ => rng.below(256) as u32,
    };
    sign | (exp << 23) | (rng.next() as u32 & 0x7f_ffff)
}

pub fn generate(sink: &mut Sink, seed: u64, thorough: bool) {
    let mut rng = Rng::new(seed ^ 0x50F7);
    let sp = specials64();
    let mut add = |sink: &mut Sink, line: String, nontrivial: bool| {
        let out = exec(&line);
        sink.case(line, out, nontrivial);
    };
    // 1. primitive operations on all pairs of special patterns
    for a in &sp {
        for b in &sp {
            for op in ["mul", "sub", "div", "lt"] {
                add(sink, format!("op {op} {a} {b}"), true);
            }
        }
        add(sink, format!("op cast {a}"), true);
        add(sink, format!("op fin {a}"), true);
    }
    sink.stat_n("special_pairs", (sp.len() * sp.len()) as u64);
    // 2. structured random operands
    let n = if thorough { 150_000 } else { 12_000 };
    for i in 0..n {
        let (a, b) = (structured64(&mut rng), if i % 7 == 0 { structured64(&mut rng) ^ 1 } else { structured64(&mut rng) });
        // close operands make cancellation in sub and quotients near 1
        let b = if i % 5 == 0 { a.wrapping_add(rng.below(5)).wrapping_sub(2) } else { b };
        let op = ["mul", "sub", "div", "lt"][(i % 4) as usize];
        add(sink, format!("op {op} {a} {b}"), true);
        if i % 3 == 0 {
            add(sink, format!("op cast {a}"), true);
        }
    }
    for _ in 0..(if thorough { 20_000 } else { 2_000 }) {
        let (a, b) = (structured32(&mut rng), structured32(&mut rng));
        add(sink, format!("op mul32 {a} {b}"), true);
        add(sink, format!("op u8 {a}"), true);
    }
    for i in [0i64, 1, -1, 255, 9007199254740992, 9007199254740993, -9007199254740993, i64::MAX, i64::MIN, i64::MAX - 511, 4611686018427387905] {
        add(sink, format!("op ofint {i}"), true);
    }
    for _ in 0..(if thorough { 5_000 } else { 500 }) {
        add(sink, format!("op ofint {}", (rng.next() as i64) >> rng.below(64)), true);
    }
    // the colour path of the tools: c/255 normalised, cast, times 255, to u8 — all 256 values
    for c in 0..256u32 {
        let x = (c as f64 / 255.0) as f32;
        add(sink, format!("op mul32 {} {}", x.to_bits(), 255f32.to_bits()), true);
        add(sink, format!("op u8 {}", (x * 255.0).to_bits()), true);
        add(sink, format!("norm {} {} {}", 0f64.to_bits(), 255f64.to_bits(), (c as f64).to_bits()), true);
    }
    // 3. the real normalisation against the soft-float instance of the model, with the documented
    //    meaning as an independent oracle (C13)
    let mut norm = |sink: &mut Sink, mn: u64, mx: u64, v: u64| {
        let line = format!("norm {mn} {mx} {v}");
        let out = exec(&line);
        sink.oracle_evals += 1;
        let (fmn, fmx, fv) = (f64::from_bits(mn), f64::from_bits(mx), f64::from_bits(v));
        if let Ok(bits) = out.parse::<u32>() {
            let r = f32::from_bits(bits) as f64;
            if !fv.is_nan() {
                let (lo, hi) = crate::eng_reader::ref_norm(fv, Some((fmn, fmx)));
                if !(r >= 0.0 && r <= 1.0) {
                    sink.fail("C13", "normalise/outside-unit-interval", &line, &format!("normalize({fmn}, {fmx}, {fv}) = {r}"));
                } else if r < lo - 1e-6 || r > hi + 1e-6 {
                    sink.fail("C13", "normalise/value", &line, &format!("normalize({fmn}, {fmx}, {fv}) = {r}, documented value in [{lo}, {hi}]"));
                }
            }
        } else {
            sink.fail("C13", "normalise/error", &line, "the range constructor failed");
        }
        sink.case(line, out, fmn < fmx);
    };
    let k = if thorough { sp.len() } else { 16 };
    for i in 0..sp.len() {
        for j in 0..sp.len() {
            for _ in 0..(if thorough { 6 } else { 2 }) {
                let v = sp[rng.below(k.max(1) as u64) as usize % sp.len()];
                norm(sink, sp[i], sp[j], v);
            }
            // the bounds themselves and their neighbours
            norm(sink, sp[i], sp[j], sp[i]);
            norm(sink, sp[i], sp[j], sp[j]);
            norm(sink, sp[i], sp[j], sp[j].wrapping_sub(1));
        }
    }
    for _ in 0..(if thorough { 60_000 } else { 6_000 }) {
        let (a, b) = (structured64(&mut rng), structured64(&mut rng));
        let v = match rng.below(4) {
            0 => a.wrapping_add(rng.below(3)),
            1 => b.wrapping_sub(rng.below(3)),
            _ => structured64(&mut rng),
        };
        norm(sink, a, b, v);
    }
}
