//! Engine "layout": scenes encoded by the independent specification encoder (Lean,
//! E57/Spec/Encoder.lean) under random legal layouts + an independent XML writer with lexical
//! variants; the real reader must return the scene (C03), and reader model = reader code on the
//! same files.
use crate::eng_bits::ref_width;
use crate::eng_reader;
use crate::eng_spec::run_model;
use crate::eng_writer::*;
use crate::scene::*;
use crate::util::*;
use crate::wprog::*;

const NS: &str = "http://www.astm.org/COMMIT/E57/2010-e57-v1.0";

struct Xw<'a> {
    rng: &'a mut Rng,
    out: String,
    pfx: String, // prefix for the E57 namespace ("" = default namespace)
    depth: usize,
}

fn esc_text(s: &str) -> String {
    // a literal carriage return would be normalised to a line feed by every XML parser
    s.replace('&', "&amp;").replace('<', "&lt;").replace('>', "&gt;").replace('\r', "&#13;")
}
fn esc_attr(s: &str, q: char) -> String {
    let mut o = s.replace('&', "&amp;").replace('<', "&lt;");
    if q == '"' {
        o = o.replace('"', "&quot;");
    } else {
        o = o.replace('\'', "&apos;");
    }
    o.replace('\n', "&#10;").replace('\t', "&#9;").replace('\r', "&#13;")
}

impl<'a> Xw<'a> {
    fn ws(&mut self) {
        match self.rng.below(6) {
            0 => {}
            1 => self.out.push('\n'),
            2 => self.out.push_str("\n  "),
            3 => self.out.push_str(" \t"),
            4 => {
                self.out.push('\n');
                if self.rng.chance(1, 3) {
                    self.out.push_str("<!-- note -->");
                }
            }
            _ => {
                self.out.push('\n');
                if self.rng.chance(1, 6) {
                    self.out.push_str("<?app data?>");
                }
            }
        }
    }
    fn name(&self, n: &str) -> String {
        if self.pfx.is_empty() {
            n.to_string()
        } else {
            format!("{}:{}", self.pfx, n)
        }
    }
    fn open(&mut self, tag: &str, attrs: &[(&str, String)]) {
        self.ws();
        let mut attrs: Vec<(&str, String)> = attrs.to_vec();
        // attribute order is not significant
        for i in (1..attrs.len()).rev() {
            let j = self.rng.below(i as u64 + 1) as usize;
            attrs.swap(i, j);
        }
        self.out.push('<');
        self.out.push_str(tag);
        for (k, v) in attrs {
            let q = if self.rng.chance(1, 3) { '\'' } else { '"' };
            self.out.push(' ');
            if self.rng.chance(1, 8) {
                self.out.push(' ');
            }
            self.out.push_str(k);
            self.out.push('=');
            self.out.push(q);
            self.out.push_str(&esc_attr(&v, q));
            self.out.push(q);
        }
        if self.rng.chance(1, 8) {
            self.out.push(' ');
        }
        self.out.push('>');
        self.depth += 1;
    }
    fn close(&mut self, tag: &str) {
        self.ws();
        self.out.push_str("</");
        self.out.push_str(tag);
        if self.rng.chance(1, 10) {
            self.out.push(' ');
        }
        self.out.push('>');
        self.depth -= 1;
    }
    fn leaf(&mut self, tag: &str, attrs: &[(&str, String)], text: &str, string_value: bool) {
        let t = self.name(tag);
        self.ws();
        let mut attrs: Vec<(&str, String)> = attrs.to_vec();
        for i in (1..attrs.len()).rev() {
            let j = self.rng.below(i as u64 + 1) as usize;
            attrs.swap(i, j);
        }
        self.out.push('<');
        self.out.push_str(&t);
        for (k, v) in attrs {
            let q = if self.rng.chance(1, 3) { '\'' } else { '"' };
            self.out.push(' ');
            self.out.push_str(k);
            self.out.push('=');
            self.out.push(q);
            self.out.push_str(&esc_attr(&v, q));
            self.out.push(q);
        }
        if text.is_empty() && self.rng.chance(1, 2) {
            self.out.push_str("/>");
            return;
        }
        self.out.push('>');
        // a comment or a processing instruction in front of the text is legal XML and part of no value
        if self.rng.chance(1, 12) {
            self.out.push_str(if self.rng.chance(1, 2) { "<!-- unit? -->" } else { "<?note x?>" });
        }
        if string_value {
            // CDATA (split where needed), escaped text, or a mixture
            match self.rng.below(3) {
                0 if !text.contains("]]>") && !text.contains('\r') => {
                    self.out.push_str("<![CDATA[");
                    self.out.push_str(text);
                    self.out.push_str("]]>");
                }
                1 => {
                    let cut = text.char_indices().nth(text.chars().count() / 2).map(|x| x.0).unwrap_or(0);
                    self.out.push_str(&esc_text(&text[..cut]));
                    if !text[cut..].contains("]]>") && !text[cut..].contains('\r') {
                        self.out.push_str("<![CDATA[");
                        self.out.push_str(&text[cut..]);
                        self.out.push_str("]]>");
                    } else {
                        self.out.push_str(&esc_text(&text[cut..]));
                    }
                }
                _ => {
                    // character references for a few characters; now and then a comment in the middle of the text
                    let mid = if self.rng.chance(1, 6) { text.chars().count() / 2 } else { usize::MAX };
                    for (ci, c) in text.chars().enumerate() {
                        if ci == mid {
                            self.out.push_str("<!-- mid -->");
                        }
                        match c {
                            '&' => self.out.push_str("&amp;"),
                            '<' => self.out.push_str("&lt;"),
                            '>' => self.out.push_str("&gt;"),
                            '\r' => self.out.push_str("&#13;"),
                            c if self.rng.chance(1, 10) => self.out.push_str(&format!("&#x{:x};", c as u32)),
                            c => self.out.push(c),
                        }
                    }
                }
            }
        } else {
            // white space around a number is not part of the number
            let pad = self.rng.chance(1, 10);
            if pad {
                self.out.push_str(*self.rng.pick(&[" ", "\n", "\t ", "\r\n  "]));
            }
            // a comment or a processing instruction in the MIDDLE of the text splits it in two pieces of one value
            if text.len() >= 2 && text.is_ascii() && self.rng.chance(1, 12) {
                let cut = text.len() / 2;
                self.out.push_str(&text[..cut]);
                self.out.push_str(if self.rng.chance(1, 2) { "<!-- digits -->" } else { "<?mid x?>" });
                self.out.push_str(&text[cut..]);
                if pad {
                    self.out.push_str(" ");
                }
                self.out.push_str("</");
                self.out.push_str(&t);
                self.out.push('>');
                return;
            }
            self.out.push_str(text);
            if pad {
                self.out.push_str(*self.rng.pick(&[" ", "\n", " \t", "\n  "]));
            }
        }
        self.out.push_str("</");
        self.out.push_str(&t);
        self.out.push('>');
    }
    fn fnum(&mut self, b: u64) -> String {
        let f = f64::from_bits(b);
        if f.is_nan() {
            return "NaN".into();
        }
        if f.is_infinite() {
            return (if f > 0.0 { *self.rng.pick(&["inf", "INF", "Infinity"]) } else { *self.rng.pick(&["-inf", "-INF"]) }).to_string();
        }
        match self.rng.below(4) {
            0 => format!("{:e}", f),
            1 => format!("{:E}", f),
            2 if f >= 0.0 && f.to_bits() != (-0f64).to_bits() => format!("+{}", f),
            _ => format!("{}", f),
        }
    }
    fn f32num(&mut self, b: u32) -> String {
        let f = f32::from_bits(b);
        if f.is_nan() {
            return "NaN".into();
        }
        if self.rng.chance(1, 3) {
            format!("{:e}", f)
        } else {
            format!("{}", f)
        }
    }
    fn inum(&mut self, v: i64) -> String {
        match self.rng.below(5) {
            0 if v >= 0 => format!("+{v}"),
            1 if v >= 0 => format!("00{v}"),
            _ => v.to_string(),
        }
    }
    fn string(&mut self, tag: &str, v: &Option<String>) {
        if let Some(s) = v {
            self.leaf(tag, &[("type", "String".into())], s, true);
        }
    }
    fn float(&mut self, tag: &str, v: &Option<u64>) {
        if let Some(b) = v {
            let t = self.fnum(*b);
            self.leaf(tag, &[("type", "Float".into())], &t, false);
        }
    }
    fn int(&mut self, tag: &str, v: i64) {
        let t = self.inum(v);
        self.leaf(tag, &[("type", "Integer".into())], &t, false);
    }
    fn date(&mut self, tag: &str, d: &Option<Dt>) {
        if let Some(d) = d {
            let t = self.name(tag);
            self.open(&t, &[("type", "Structure".into())]);
            self.float("dateTimeValue", &Some(d.0));
            // the flag is optional in the standard (default: not referenced)
            if d.1 || self.rng.chance(2, 3) {
                self.int("isAtomicClockReferenced", if d.1 { 1 } else { 0 });
            }
            self.close(&t);
        }
    }
    fn pose(&mut self, t: &Option<Tr>) {
        if let Some(t) = t {
            let p = self.name("pose");
            self.open(&p, &[("type", "Structure".into())]);
            let rot = self.name("rotation");
            let tra = self.name("translation");
            let do_rot = |s: &mut Self| {
                s.open(&rot, &[("type", "Structure".into())]);
                for (i, n) in ["w", "x", "y", "z"].iter().enumerate() {
                    s.float(n, &Some(t[i]));
                }
                s.close(&rot);
            };
            let do_tra = |s: &mut Self| {
                s.open(&tra, &[("type", "Structure".into())]);
                for (i, n) in ["x", "y", "z"].iter().enumerate() {
                    s.float(n, &Some(t[4 + i]));
                }
                s.close(&tra);
            };
            if self.rng.chance(1, 2) {
                do_rot(self);
                do_tra(self);
            } else {
                do_tra(self);
                do_rot(self);
            }
            self.close(&p);
        }
    }
    fn limit(&mut self, tag: &str, v: &Option<Val>) {
        match v {
            Some(Val::I(i)) => {
                let t = self.inum(*i);
                self.leaf(tag, &[("type", "Integer".into())], &t, false)
            }
            Some(Val::S(i)) => {
                let t = self.inum(*i);
                self.leaf(tag, &[("type", "ScaledInteger".into())], &t, false)
            }
            Some(Val::F(b)) => {
                let t = self.f32num(*b);
                self.leaf(tag, &[("type", "Float".into()), ("precision", "single".into())], &t, false)
            }
            Some(Val::D(b)) => {
                let t = self.fnum(*b);
                if self.rng.chance(1, 2) {
                    self.leaf(tag, &[("type", "Float".into())], &t, false)
                } else {
                    self.leaf(tag, &[("type", "Float".into()), ("precision", "double".into())], &t, false)
                }
            }
            None => {}
        }
    }
    fn record(&mut self, r: &Rec) {
        let tag = match &r.name {
            RName::Std(n) => self.name(n),
            RName::Ext(ns, n) => format!("{ns}:{n}"),
        };
        let mut attrs: Vec<(&str, String)> = vec![];
        let text;
        match &r.dt {
            DT::F32(a, b) => {
                attrs.push(("type", "Float".into()));
                attrs.push(("precision", "single".into()));
                if let Some(a) = a {
                    let t = self.f32num(*a);
                    attrs.push(("minimum", t));
                }
                if let Some(b) = b {
                    let t = self.f32num(*b);
                    attrs.push(("maximum", t));
                }
                text = "0".to_string();
            }
            DT::F64(a, b) => {
                attrs.push(("type", "Float".into()));
                if self.rng.chance(1, 2) {
                    attrs.push(("precision", "double".into()));
                }
                if let Some(a) = a {
                    let t = self.fnum(*a);
                    attrs.push(("minimum", t));
                }
                if let Some(b) = b {
                    let t = self.fnum(*b);
                    attrs.push(("maximum", t));
                }
                text = "0".to_string();
            }
            DT::I(a, b) => {
                attrs.push(("type", "Integer".into()));
                // defaults may be omitted
                if *a != i64::MIN || self.rng.chance(1, 2) {
                    attrs.push(("minimum", a.to_string()));
                }
                if *b != i64::MAX || self.rng.chance(1, 2) {
                    attrs.push(("maximum", b.to_string()));
                }
                text = a.to_string();
            }
            DT::S(a, b, s, o) => {
                attrs.push(("type", "ScaledInteger".into()));
                if *a != i64::MIN || self.rng.chance(1, 2) {
                    attrs.push(("minimum", a.to_string()));
                }
                if *b != i64::MAX || self.rng.chance(1, 2) {
                    attrs.push(("maximum", b.to_string()));
                }
                if *s != 1f64.to_bits() || self.rng.chance(1, 2) {
                    let t = self.fnum(*s);
                    attrs.push(("scale", t));
                }
                if *o != 0f64.to_bits() || self.rng.chance(1, 2) {
                    let t = self.fnum(*o);
                    attrs.push(("offset", t));
                }
                text = a.to_string();
            }
        }
        let txt = if self.rng.chance(1, 3) { String::new() } else { text };
        // leaf() prefixes the tag with the E57 prefix; records carry their own
        let saved = std::mem::take(&mut self.pfx);
        self.leaf(&tag, &attrs, &txt, false);
        self.pfx = saved;
    }
    fn blob(&mut self, tag: &str, sec: usize, len: usize) {
        self.leaf(tag, &[("type", "Blob".into()), ("fileOffset", format!("@OFF{sec}@")), ("length", len.to_string())], "", false);
    }
}

/// sections in file order + XML template
struct Plan {
    sections: Vec<String>, // enc tokens per section
    xml: String,
    xml_pos: usize,
}

fn rt_tok(d: &DT) -> String {
    match d {
        DT::F32(..) => "f32".into(),
        DT::F64(..) => "f64".into(),
        DT::I(a, b) | DT::S(a, b, ..) => format!("i:{a}:{b}"),
    }
}
fn bits_of(d: &DT) -> usize {
    match d {
        DT::F32(..) => 32,
        DT::F64(..) => 64,
        DT::I(a, b) | DT::S(a, b, ..) => ref_width(*a, *b),
    }
}
fn raw_val(v: &Val) -> String {
    match v {
        Val::I(i) | Val::S(i) => i.to_string(),
        Val::F(b) => b.to_string(),
        Val::D(b) => b.to_string(),
    }
}

/// a random legal packetisation of the byte streams of a cloud
fn packets_for(rng: &mut Rng, c: &SCloud) -> Vec<String> {
    let n = c.points.len();
    let lens: Vec<usize> = c.proto.iter().map(|r| (n * bits_of(&r.dt) + 7) / 8).collect();
    let total: usize = lens.iter().sum();
    let mut pk: Vec<String> = vec![];
    let nonpk = |rng: &mut Rng, pk: &mut Vec<String>| {
        while rng.chance(1, 4) {
            // mostly small; sometimes the largest packet the 16-bit length field can express
            let big = rng.chance(1, 12);
            if rng.chance(1, 2) {
                pk.push(format!("I:{}", if big { 65536 } else { 16 + 4 * rng.below(12) }));
            } else {
                pk.push(format!("X:{}", if big { *rng.pick(&[65536u64, 65532]) } else { 4 + 4 * rng.below(10) }));
            }
        }
    };
    nonpk(rng, &mut pk);
    if total == 0 && rng.chance(1, 2) {
        return pk;
    }
    let npk = 1 + rng.below(5) as usize + total / 50000;
    // cut points per record
    let mut cuts: Vec<Vec<usize>> = vec![];
    for l in &lens {
        let mut c: Vec<usize> = (0..npk - 1)
            .map(|_| match rng.below(4) {
                0 => 0,
                1 => *l,
                _ => rng.below(*l as u64 + 1) as usize,
            })
            .collect();
        c.sort();
        c.insert(0, 0);
        c.push(*l);
        cuts.push(c);
    }
    for p in 0..npk {
        let ls: Vec<usize> = cuts.iter().map(|c| c[p + 1] - c[p]).collect();
        // keep every packet below 64 KiB: split evenly when too big
        let sum: usize = ls.iter().sum();
        if sum + 6 + 2 * ls.len() > 65000 {
            // fall back to equal slices of at most 60000 bytes in total
            let parts = sum / 30000 + 1;
            let mut done: Vec<usize> = vec![0; ls.len()];
            for q in 0..parts {
                let part: Vec<usize> = ls.iter().enumerate().map(|(i, l)| if q + 1 == parts { l - done[i] } else { l / parts }).collect();
                for (i, x) in part.iter().enumerate() {
                    done[i] += x;
                }
                pk.push(format!("D:{}", if part.is_empty() { "-".to_string() } else { part.iter().map(|x| x.to_string()).collect::<Vec<_>>().join(",") }));
            }
        } else {
            pk.push(format!("D:{}", if ls.is_empty() { "-".to_string() } else { ls.iter().map(|x| x.to_string()).collect::<Vec<_>>().join(",") }));
        }
        nonpk(rng, &mut pk);
    }
    pk
}

/// gap size understood by the encoder driver as "make the logical length a multiple of 1020"
const FIT_GAP: usize = 999_999_937;

fn plan(rng: &mut Rng, sc: &Scene, lib_version: &str) -> Plan {
    // sections: one per cloud, one per image blob/mask, random gaps; random order
    enum Item {
        Cloud(usize),
        Blob(Vec<u8>, String), // bytes, key
        Gap(usize),
    }
    let mut items: Vec<Item> = vec![];
    for k in 0..sc.clouds.len() {
        items.push(Item::Cloud(k));
    }
    for (k, im) in sc.images.iter().enumerate() {
        if let Some((_, d, _, _, m)) = &im.vis {
            items.push(Item::Blob(d.clone(), format!("img{k}.vis")));
            if let Some(m) = m {
                items.push(Item::Blob(m.clone(), format!("img{k}.vismask")));
            }
        }
        let (d, m) = match &im.proj {
            Some(SProj::Pin { data, mask, .. }) | Some(SProj::Sph { data, mask, .. }) | Some(SProj::Cyl { data, mask, .. }) => (Some(data.clone()), mask.clone()),
            None => (None, None),
        };
        if let Some(d) = d {
            items.push(Item::Blob(d, format!("img{k}.proj")));
        }
        if let Some(m) = m {
            items.push(Item::Blob(m, format!("img{k}.projmask")));
        }
    }
    for _ in 0..rng.below(3) {
        items.push(Item::Gap(4 * rng.below(300) as usize));
    }
    for i in (1..items.len()).rev() {
        let j = rng.below(i as u64 + 1) as usize;
        items.swap(i, j);
    }
    // end-fit layouts (a quarter): a point-cloud section is the LAST thing in the file and ends
    // exactly at the end of the last page's payload (no trailing unused bytes); the encoder sizes
    // the marked gap accordingly, the XML lies before the last section
    let mut end_fit = false;
    if rng.chance(1, 4) {
        if let Some(ci) = items.iter().rposition(|it| matches!(it, Item::Cloud(k) if !sc.clouds[*k].points.is_empty())) {
            let c = items.remove(ci);
            items.push(c);
            items.insert(0, Item::Gap(FIT_GAP));
            end_fit = true;
        }
    }
    let mut sections: Vec<String> = vec![];
    let mut cloud_sec: Vec<usize> = vec![0; sc.clouds.len()];
    let mut blob_sec: std::collections::HashMap<String, usize> = Default::default();
    for (i, it) in items.iter().enumerate() {
        match it {
            Item::Cloud(k) => {
                cloud_sec[*k] = i;
                let c = &sc.clouds[*k];
                let mut t: Vec<String> = vec!["V".into(), c.proto.len().to_string()];
                t.extend(c.proto.iter().map(|r| rt_tok(&r.dt)));
                t.push(c.points.len().to_string());
                for p in &c.points {
                    t.extend(p.iter().map(raw_val));
                }
                let pk = packets_for(rng, c);
                t.push(pk.len().to_string());
                t.extend(pk);
                sections.push(t.join(" "));
            }
            Item::Blob(b, key) => {
                blob_sec.insert(key.clone(), i);
                sections.push(format!("B w:{}", hex(b)));
            }
            Item::Gap(n) => sections.push(format!("G {n}")),
        }
    }
    // ---- XML
    let pfx = if rng.chance(1, 4) { (*rng.pick(&["e57", "a", "E"])).to_string() } else { String::new() };
    let mut x = Xw { rng, out: String::new(), pfx: pfx.clone(), depth: 0 };
    if x.rng.chance(3, 4) {
        x.out.push_str(if x.rng.chance(1, 2) { "<?xml version=\"1.0\" encoding=\"UTF-8\"?>" } else { "<?xml version='1.0'?>" });
    }
    if x.rng.chance(1, 4) {
        x.out.push_str("\n<!-- written by an independent encoder -->");
    }
    let root = x.name("e57Root");
    let mut attrs: Vec<(&str, String)> = vec![("type", "Structure".into())];
    let nsattr = if pfx.is_empty() { "xmlns".to_string() } else { format!("xmlns:{pfx}") };
    let ext_attrs: Vec<(String, String)> = sc.exts.iter().map(|(n, u)| (format!("xmlns:{n}"), u.clone())).collect();
    attrs.push((Box::leak(nsattr.into_boxed_str()), NS.to_string()));
    for (k, v) in &ext_attrs {
        attrs.push((Box::leak(k.clone().into_boxed_str()), v.clone()));
    }
    x.open(&root, &attrs);
    // children of the root in random order (element order inside a Structure is not significant)
    let mut root_items: Vec<u8> = vec![0, 1, 2, 3, 4, 5, 6, 7, 8];
    for i in (1..root_items.len()).rev() {
        let j = x.rng.below(i as u64 + 1) as usize;
        root_items.swap(i, j);
    }
    for it in root_items {
        match it {
            0 => x.string("formatName", &Some("ASTM E57 3D Imaging Data File".into())),
            1 => x.string("guid", &Some(sc.guid.clone())),
            2 => x.int("versionMajor", 1),
            3 => x.int("versionMinor", 0),
            4 => x.string("coordinateMetadata", &sc.cm),
            5 => x.string("e57LibraryVersion", &Some(lib_version.to_string())),
            6 => x.date("creationDateTime", &sc.creation),
            7 => {
                let d3 = x.name("data3D");
                x.open(&d3, &[("type", "Vector".into()), ("allowHeterogeneousChildren", "1".into())]);
                for (k, c) in sc.clouds.iter().enumerate() {
                    let vc = x.name("vectorChild");
                    x.open(&vc, &[("type", "Structure".into())]);
                    let mut fields: Vec<u8> = (0..14).collect();
                    for i in (1..fields.len()).rev() {
                        let j = x.rng.below(i as u64 + 1) as usize;
                        fields.swap(i, j);
                    }
                    for f in fields {
                        match f {
                            0 => x.string("guid", &c.guid),
                            1 => {
                                for (j, n) in ["name", "description", "sensorVendor", "sensorModel", "sensorSerialNumber", "sensorHardwareVersion", "sensorSoftwareVersion", "sensorFirmwareVersion"].iter().enumerate() {
                                    x.string(n, &c.strs[j]);
                                }
                            }
                            2 => {
                                if let Some(og) = &c.og {
                                    let t = x.name("originalGuids");
                                    x.open(&t, &[("type", "Vector".into()), ("allowHeterogeneousChildren", "0".into())]);
                                    for g in og {
                                        x.string("vectorChild", &Some(g.clone()));
                                    }
                                    x.close(&t);
                                }
                            }
                            3 => x.pose(&c.tr),
                            4 => x.date("acquisitionStart", &c.acq[0]),
                            5 => x.date("acquisitionEnd", &c.acq[1]),
                            6 => {
                                for (j, n) in ["temperature", "relativeHumidity", "atmosphericPressure"].iter().enumerate() {
                                    x.float(n, &c.flt[j]);
                                }
                            }
                            7 => {
                                if let Some(b) = &c.cart {
                                    let t = x.name("cartesianBounds");
                                    x.open(&t, &[("type", "Structure".into())]);
                                    for (j, n) in ["xMinimum", "xMaximum", "yMinimum", "yMaximum", "zMinimum", "zMaximum"].iter().enumerate() {
                                        x.float(n, &b[j]);
                                    }
                                    x.close(&t);
                                }
                            }
                            8 => {
                                if let Some(b) = &c.sph {
                                    let t = x.name("sphericalBounds");
                                    x.open(&t, &[("type", "Structure".into())]);
                                    for (j, n) in ["rangeMinimum", "rangeMaximum", "elevationMinimum", "elevationMaximum", "azimuthStart", "azimuthEnd"].iter().enumerate() {
                                        x.float(n, &b[j]);
                                    }
                                    x.close(&t);
                                }
                            }
                            9 => {
                                if let Some(b) = &c.idx {
                                    let t = x.name("indexBounds");
                                    x.open(&t, &[("type", "Structure".into())]);
                                    for (j, n) in ["rowMinimum", "rowMaximum", "columnMinimum", "columnMaximum", "returnMinimum", "returnMaximum"].iter().enumerate() {
                                        if let Some(v) = b[j] {
                                            x.int(n, v);
                                        }
                                    }
                                    x.close(&t);
                                }
                            }
                            10 => {
                                if let Some((a, b)) = &c.il {
                                    let t = x.name("intensityLimits");
                                    x.open(&t, &[("type", "Structure".into())]);
                                    x.limit("intensityMinimum", a);
                                    x.limit("intensityMaximum", b);
                                    x.close(&t);
                                }
                            }
                            11 => {
                                if let Some(cl) = &c.cl {
                                    let t = x.name("colorLimits");
                                    x.open(&t, &[("type", "Structure".into())]);
                                    for (j, n) in ["colorRedMinimum", "colorRedMaximum", "colorGreenMinimum", "colorGreenMaximum", "colorBlueMinimum", "colorBlueMaximum"].iter().enumerate() {
                                        x.limit(n, &cl[j]);
                                    }
                                    x.close(&t);
                                }
                            }
                            12 => {
                                let t = x.name("points");
                                x.open(&t, &[("type", "CompressedVector".into()), ("fileOffset", format!("@OFF{}@", cloud_sec[k])), ("recordCount", c.points.len().to_string())]);
                                let pt = x.name("prototype");
                                x.open(&pt, &[("type", "Structure".into())]);
                                for r in &c.proto {
                                    x.record(r);
                                }
                                x.close(&pt);
                                if x.rng.chance(1, 3) {
                                    // the optional codecs element of the standard
                                    let cd = x.name("codecs");
                                    x.open(&cd, &[("type", "Vector".into()), ("allowHeterogeneousChildren", "1".into())]);
                                    x.close(&cd);
                                }
                                x.close(&t);
                            }
                            _ => {}
                        }
                    }
                    x.close(&vc);
                }
                x.close(&d3);
            }
            _ => {
                // images2D may be absent when there are no images
                if sc.images.is_empty() && x.rng.chance(1, 2) {
                    continue;
                }
                let i2 = x.name("images2D");
                x.open(&i2, &[("type", "Vector".into()), ("allowHeterogeneousChildren", "1".into())]);
                for (k, im) in sc.images.iter().enumerate() {
                    let vc = x.name("vectorChild");
                    x.open(&vc, &[("type", "Structure".into())]);
                    x.string("guid", &im.guid);
                    for (j, n) in ["name", "description", "associatedData3DGuid", "sensorVendor", "sensorModel", "sensorSerialNumber"].iter().enumerate() {
                        x.string(n, &im.strs[j]);
                    }
                    x.pose(&im.tr);
                    x.date("acquisitionDateTime", &im.acq);
                    let rep = |x: &mut Xw, tag: &str, fmt: char, dlen: usize, mlen: Option<usize>, w: u32, h: u32, key: &str, floats: &[(&str, u64)]| {
                        let t = x.name(tag);
                        x.open(&t, &[("type", "Structure".into())]);
                        let bt = if fmt == 'J' { "jpegImage" } else { "pngImage" };
                        let s = blob_sec[&format!("img{k}.{key}")];
                        x.blob(bt, s, dlen);
                        if let Some(ml) = mlen {
                            let s = blob_sec[&format!("img{k}.{key}mask")];
                            x.blob("imageMask", s, ml);
                        }
                        x.int("imageWidth", w as i64);
                        x.int("imageHeight", h as i64);
                        for (n, b) in floats {
                            x.float(n, &Some(*b));
                        }
                        x.close(&t);
                    };
                    if let Some((fmt, d, w, h, m)) = &im.vis {
                        rep(&mut x, "visualReferenceRepresentation", *fmt, d.len(), m.as_ref().map(|m| m.len()), *w, *h, "vis", &[]);
                    }
                    match &im.proj {
                        Some(SProj::Pin { fmt, data, w, h, f, mask }) => rep(&mut x, "pinholeRepresentation", *fmt, data.len(), mask.as_ref().map(|m| m.len()), *w, *h, "proj", &[("focalLength", f[0]), ("pixelWidth", f[1]), ("pixelHeight", f[2]), ("principalPointX", f[3]), ("principalPointY", f[4])]),
                        Some(SProj::Sph { fmt, data, w, h, f, mask }) => rep(&mut x, "sphericalRepresentation", *fmt, data.len(), mask.as_ref().map(|m| m.len()), *w, *h, "proj", &[("pixelWidth", f[0]), ("pixelHeight", f[1])]),
                        Some(SProj::Cyl { fmt, data, w, h, f, mask }) => rep(&mut x, "cylindricalRepresentation", *fmt, data.len(), mask.as_ref().map(|m| m.len()), *w, *h, "proj", &[("radius", f[0]), ("principalPointY", f[1]), ("pixelWidth", f[2]), ("pixelHeight", f[3])]),
                        None => {}
                    }
                    x.close(&vc);
                }
                x.close(&i2);
            }
        }
    }
    x.close(&root);
    if x.rng.chance(1, 2) {
        x.out.push('\n');
    }
    let xml = x.out;
    let xml_pos = if end_fit { rng.below(sections.len() as u64) as usize } else { rng.below(sections.len() as u64 + 1) as usize };
    Plan { sections, xml, xml_pos }
}

pub fn exec(line: &str) -> String {
    eng_reader::exec(line)
}

/// scenes the specification covers: no string-typed attributes (none can be generated), limits
/// complete or absent; strings must be XML 1.0 characters (the generator only makes such strings)
fn scene_ok(sc: &Scene) -> bool {
    let str_ok = |s: &str| s.chars().all(|c| c == '\t' || c == '\n' || (c >= ' ' && c != '\u{FFFE}' && c != '\u{FFFF}') || c == '\r');
    let mut all: Vec<&str> = vec![&sc.guid];
    for c in &sc.clouds {
        all.extend(c.guid.as_deref());
        all.extend(c.strs.iter().flatten().map(|s| s.as_str()));
        all.extend(c.og.iter().flatten().map(|s| s.as_str()));
    }
    for im in &sc.images {
        all.extend(im.guid.as_deref());
        all.extend(im.strs.iter().flatten().map(|s| s.as_str()));
    }
    all.extend(sc.cm.as_deref());
    all.iter().all(|s| str_ok(s)) && !sc.guid.is_empty()
}

/// `n` files laid out by the independent specification encoder (for other engines that need files that do
/// not come from the writer under test); None = the encoder is unavailable
pub fn encoded_files(rng: &mut Rng, n: usize) -> Option<Vec<Vec<u8>>> {
    let lv = "independent spec encoder".to_string();
    let mut enc_lines: Vec<String> = vec![];
    let mut tries = 0;
    while enc_lines.len() < n && tries < 6 * n {
        tries += 1;
        let prog = {
            let mut g = Gen { rng, exts: vec![], n: 0 };
            g.program(20)
        };
        let dev = crate::dev::SimDev::new(vec![]);
        let run = execute(&prog, &dev);
        if run.panicked || run.results.last().map(|s| s != "ok").unwrap_or(true) {
            continue;
        }
        let mut sc = expected_scene(&prog, &run.results);
        sc.blobs.clear();
        let mut urls: Vec<&String> = sc.exts.iter().map(|e| &e.1).collect();
        urls.sort();
        urls.dedup();
        if !scene_ok(&sc) || sc.exts.iter().any(|e| e.1.is_empty() || e.1 == NS) || urls.len() != sc.exts.len() {
            continue;
        }
        let p = plan(rng, &sc, &lv);
        enc_lines.push(format!("enc {} {} {} {}", p.xml_pos, hexs(&p.xml), p.sections.len(), p.sections.join(" ")));
    }
    let files = run_model("enc", &enc_lines)?;
    Some(files.iter().filter_map(|h| unhex(h)).collect())
}

/// `n` XML documents in the lexical variants of the specification encoder's XML writer (for the xml engine)
pub fn variant_xmls(rng: &mut Rng, n: usize) -> Vec<String> {
    let lv = "independent spec encoder".to_string();
    let mut out = vec![];
    let mut tries = 0;
    while out.len() < n && tries < 6 * n {
        tries += 1;
        let prog = {
            let mut g = Gen { rng, exts: vec![], n: 0 };
            g.program(4)
        };
        let dev = crate::dev::SimDev::new(vec![]);
        let run = execute(&prog, &dev);
        if run.panicked || run.results.last().map(|s| s != "ok").unwrap_or(true) {
            continue;
        }
        let mut sc = expected_scene(&prog, &run.results);
        sc.blobs.clear();
        let mut urls: Vec<&String> = sc.exts.iter().map(|e| &e.1).collect();
        urls.sort();
        urls.dedup();
        if !scene_ok(&sc) || sc.exts.iter().any(|e| e.1.is_empty() || e.1 == NS) || urls.len() != sc.exts.len() {
            continue;
        }
        out.push(plan(rng, &sc, &lv).xml);
    }
    out
}

pub fn generate(sink: &mut Sink, seed: u64, thorough: bool) {
    let mut rng = Rng::new(seed ^ 0x1A70);
    let lv = "independent spec encoder".to_string();
    let n = if thorough { 1200 } else { 180 };
    let mut enc_lines: Vec<String> = vec![];
    let mut scenes: Vec<Scene> = vec![];
    let mut tries = 0;
    while scenes.len() < n && tries < 5 * n {
        tries += 1;
        let prog = {
            let mut g = Gen { rng: &mut rng, exts: vec![], n: 0 };
            g.program(if tries % 25 == 0 { 2500 } else { 25 })
        };
        let dev = crate::dev::SimDev::new(vec![]);
        let run = execute(&prog, &dev);
        if run.panicked || run.results.last().map(|s| s != "ok").unwrap_or(true) {
            continue;
        }
        let mut sc = expected_scene(&prog, &run.results);
        sc.blobs.clear();
        // extension URLs must be namespace names distinct from the E57 namespace
        let mut urls: Vec<&String> = sc.exts.iter().map(|e| &e.1).collect();
        urls.sort();
        urls.dedup();
        if !scene_ok(&sc) || sc.exts.iter().any(|e| e.1.is_empty() || e.1 == NS) || urls.len() != sc.exts.len() {
            continue;
        }
        let p = plan(&mut rng, &sc, &lv);
        enc_lines.push(format!("enc {} {} {} {}", p.xml_pos, hexs(&p.xml), p.sections.len(), p.sections.join(" ")));
        scenes.push(sc);
    }
    let files = run_model("enc", &enc_lines);
    let Some(files) = files else {
        sink.fail("C03", "layout/model-unavailable", "", "E57MODEL is not set or the encoder could not be run");
        return;
    };
    for (k, sc) in scenes.iter().enumerate() {
        let Some(file) = files.get(k).and_then(|h| unhex(h)) else {
            sink.fail("C03", "layout/encoder-failed", &enc_lines[k], "the specification encoder produced no file");
            continue;
        };
        sink.oracle_evals += 1;
        // ---- C03 oracle: the real reader returns the scene
        let maxp = sc.clouds.iter().map(|c| c.points.len()).max().unwrap_or(0) + 5;
        let replay = format!("{} ## file={}", enc_lines[k], hex(&file));
        match guarded(|| read_scene(&file, maxp)) {
            Err(p) => {
                sink.fail("C08", "reader/panic-on-legal-file", &replay, &format!("reading a legal file panicked: {p}"));
                sink.fail("C03", "layout/panic-on-legal-file", &replay, &format!("reading a legal file panicked: {p}"));
            }
            Ok(Err(e)) => {
                let class = if e.contains("open") { "layout/open-failed" } else { "layout/blob-failed" };
                sink.fail("C03", class, &replay, &format!("a legal file is rejected: {e}"));
            }
            Ok(Ok(got)) => {
                let mut exp = sc.clone();
                let mut got = got;
                // the order of namespace declarations is not significant
                exp.exts.sort();
                got.exts.sort();
                let diffs = compare(&exp, &got);
                for (_, sig, detail) in diffs {
                    // the library version string is the encoder's own
                    sink.fail("C03", &format!("layout/{sig}"), &replay, &detail);
                }
            }
        }
        // ---- reader model vs reader code on the same file
        let ops = eng_reader::ops_for(&mut rng, &file, thorough);
        let line = eng_reader::case_line(&file, &ops);
        let o: Vec<&str> = ops.iter().map(|s| s.as_str()).collect();
        let out = eng_reader::run_ops(&file, &o);
        eng_reader::oracle(sink, &line);
        let npk = enc_lines[k].matches(" D:").count();
        let nnon = enc_lines[k].matches(" I:").count() + enc_lines[k].matches(" X:").count();
        sink.stat_n("data_packets", npk as u64);
        sink.stat_n("non_data_packets", nnon as u64);
        if enc_lines[k].contains(":e57") || enc_lines[k].contains("xmlns:") {
            sink.stat("xml_with_prefixes");
        }
        sink.case(line, out, npk >= 2 || nnon >= 1);
    }
}
